#!/bin/sh
# Offline setup: parse every specification once (fails early on a broken spec) and warm the harness build cache.
cd "$(dirname "$0")" || exit 1
mkdir -p build/bin build/tlc build/traces evidence replays
rc=0
for f in spec/*.tla; do
  out=$(cd spec && java -cp /opt/veriftools/tla/tla2tools.jar:/opt/veriftools/tla/CommunityModules-deps.jar tla2sany.SANY "$(basename "$f")" 2>&1)
  if echo "$out" | grep -q "Semantic errors\|Parsing or semantic analysis failed\|\*\*\* Errors\|Fatal errors"; then echo "SANY FAILED: $f"; echo "$out" | tail -20; rc=1; fi
done
python3 tools/warm.py || rc=1
exit $rc

// C18 replay driver: every comparison site reachable on hand-built nodes, for all pairs of (slice, length) tuples of a
// boundary domain; results as ndjson for TraceOrder.tla (which recomputes each answer from the one intended order).
#include "vh_json.h"
#include "vh_fault.h"
#include <algorithm>
#include <cstring>
#include <memory>
using namespace yakushima;
struct Tup { unsigned char s[8]; int l; };
static std::uint64_t slice(const Tup& t) { std::uint64_t v; memcpy(&v, t.s, 8); return v; }
static std::string tj(const Tup& t) { std::string o = "{\"s\":["; for (int i = 0; i < 8; i++) { if (i) o += ","; o += std::to_string((int)t.s[i]); } return o + "],\"l\":" + std::to_string(t.l) + "}"; }
int main(int argc, char** argv) {
    vh::install_fault_handlers(100);
    int mode = argc > 1 ? atoi(argv[1]) : 0;
    std::vector<int> pos = {0, 1, 7}; if (mode == 1) pos = {0, 3, 6, 7};
    const unsigned char bytes[] = {0, 1, 255};
    std::vector<Tup> D;
    int combos = 1; for (std::size_t i = 0; i < pos.size(); i++) combos *= 3;
    for (int c = 0; c < combos; c++) {
        Tup t{}; int x = c; for (std::size_t i = 0; i < pos.size(); i++) { t.s[pos[i]] = bytes[x % 3]; x /= 3; }
        for (int l = 0; l <= 9; l++) { bool ok = true; for (int i = std::min(l, 8); i < 8; i++) if (t.s[i]) ok = false; if (ok) { Tup u = t; u.l = l; D.push_back(u); } }
    }
    thread_info_table::init(); Token tok{}; enter(tok);
    long n = 0;
    auto L = std::make_unique<border_node>(); auto R = std::make_unique<border_node>(); auto C = std::make_unique<border_node>();
    L->init_border(); R->init_border(); C->init_border();
    for (auto& t : D) for (auto& e : D) {
        std::string o = "{\"op\":\"pair\",\"t\":" + tj(t) + ",\"e\":" + tj(e);
        // (a) key_tuple order and equality
        base_node::key_tuple kt(slice(t), (key_length_type)t.l), ke(slice(e), (key_length_type)e.l);
        o += std::string(",\"kt_less\":") + vh::jb(kt < ke) + ",\"kt_greater\":" + vh::jb(kt > ke) + ",\"kt_eq\":" + vh::jb(kt == ke);
        bool same = memcmp(t.s, e.s, 8) == 0 && t.l == e.l;
        {   // (b) border with the single entry e: lookup of t, rank of t
            auto b = std::make_unique<border_node>(); b->init_border(); b->set_key(0, slice(e), (key_length_type)e.l); int dummy = 0;
            if (e.l > 8) b->set_lv_next_layer(0, C.get()); else b->set_lv_value(0, reinterpret_cast<value*>(&dummy), nullptr);
            b->get_permutation().insert_rank(0, 0);
            node_version64_body sv{}; std::size_t lp = 99; link_or_value* lv = b->get_lv_of(slice(t), (key_length_type)t.l, sv, lp);
            link_or_value* lv2 = b->get_lv_of_without_lock(slice(t), (key_length_type)t.l);
            o += std::string(",\"hit\":") + vh::jb(lv != nullptr) + ",\"hit_nolock\":" + vh::jb(lv2 != nullptr);
            if (!same) o += ",\"rank\":" + std::to_string(b->compute_rank_if_insert(slice(t), (key_length_type)t.l)); else o += ",\"rank\":-1";
            b->get_lv_at(0)->init_lv();
        }
        if (e.l > 0) {   // separators are never the empty tuple
            auto in = std::make_unique<interior_node>(); in->init_interior(); in->set_version_root(true);
            in->set_key(0, slice(e), (key_length_type)e.l); in->set_child_at(0, L.get()); in->set_child_at(1, R.get()); in->set_n_keys(1);
            node_version64_body v = in->get_stable_version(); base_node* ch = in->get_child_of(slice(t), (key_length_type)t.l, v);
            o += std::string(",\"route_left\":") + vh::jb(ch == L.get());
            if (!same && t.l > 0) {   // (d) insert (t, C): where does it land?
                in->lock(); in->insert(C.get(), std::make_pair(slice(t), (key_length_type)t.l)); in->version_unlock();
                bool first = in->get_key_slice_at(0) == slice(t) && in->get_key_length_at(0) == t.l;
                bool okshape = in->get_n_keys() == 2 && (first ? (in->get_child_at(0) == L.get() && in->get_child_at(1) == C.get() && in->get_child_at(2) == R.get())
                                                               : (in->get_child_at(0) == L.get() && in->get_child_at(1) == R.get() && in->get_child_at(2) == C.get()));
                o += std::string(",\"ins_before\":") + vh::jb(first) + ",\"ins_shape\":" + vh::jb(okshape);
            } else o += ",\"ins_before\":false,\"ins_shape\":true";
        } else o += ",\"route_left\":false,\"ins_before\":false,\"ins_shape\":true";
        {   // (e) permutation::rearrange over the two keys stored in slots 0 (t) and 1 (e)
            if (!same) { auto b = std::make_unique<border_node>(); b->init_border(); b->set_key(0, slice(t), (key_length_type)t.l); b->set_key(1, slice(e), (key_length_type)e.l);
                b->get_permutation().set_body(0x102); b->permutation_rearrange(); std::uint64_t pb = b->get_permutation().get_body();
                o += ",\"sorted_first\":" + std::to_string((int)((pb >> 4) & 15)) + ",\"sorted_n\":" + std::to_string((int)(pb & 15)); }
            else o += ",\"sorted_first\":-1,\"sorted_n\":2";
        }
        o += "}"; puts(o.c_str()); n++;
    }
    leave(tok); fprintf(stderr, "%ld pairs over %zu tuples\n", n, D.size());
    return 0;
}

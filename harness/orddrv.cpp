// C18 replay driver: every comparison site reachable on hand-built nodes, for all pairs of (slice, length) tuples of a
// boundary domain; results as ndjson for TraceOrder.tla (which recomputes each answer from the one intended order).
#include "vh_json.h"
#include "vh_fault.h"
#include <algorithm>
#include <cstring>
#include <memory>
using namespace yakushima;
struct Tup { unsigned char s[8]; int l; };
static std::uint64_t slice(const Tup& t) { std::uint64_t v; memcpy(&v, t.s, 8); return v; }
static std::string tj(const Tup& t) { std::string o = "{\"s\":["; for (int i = 0; i < 8; i++) { if (i) o += ","; o += std::to_string((int)t.s[i]); } return o + "],\"l\":" + std::to_string(t.l) + "}"; }
int main(int argc, char** argv) {
    vh::install_fault_handlers(100);
    int mode = argc > 1 ? atoi(argv[1]) : 0;
    std::vector<int> pos = {0, 1, 7}; if (mode == 1) pos = {0, 3, 6, 7};
    const unsigned char bytes[] = {0, 1, 255};
    std::vector<Tup> D;
    int combos = 1; for (std::size_t i = 0; i < pos.size(); i++) combos *= 3;
    for (int c = 0; c < combos; c++) {
        Tup t{}; int x = c; for (std::size_t i = 0; i < pos.size(); i++) { t.s[pos[i]] = bytes[x % 3]; x /= 3; }
        for (int l = 0; l <= 9; l++) { bool ok = true; for (int i = std::min(l, 8); i < 8; i++) if (t.s[i]) ok = false; if (ok) { Tup u = t; u.l = l; D.push_back(u); } }
    }
    thread_info_table::init(); Token tok{}; enter(tok);
    long n = 0;
    auto L = std::make_unique<border_node>(); auto R = std::make_unique<border_node>(); auto C = std::make_unique<border_node>();
    L->init_border(); R->init_border(); C->init_border();
    for (auto& t : D) for (auto& e : D) {
        std::string o = "{\"op\":\"pair\",\"t\":" + tj(t) + ",\"e\":" + tj(e);
        // (a) key_tuple order and equality
        base_node::key_tuple kt(slice(t), (key_length_type)t.l), ke(slice(e), (key_length_type)e.l);
        o += std::string(",\"kt_less\":") + vh::jb(kt < ke) + ",\"kt_greater\":" + vh::jb(kt > ke) + ",\"kt_eq\":" + vh::jb(kt == ke);
        bool same = memcmp(t.s, e.s, 8) == 0 && t.l == e.l;
        {   // (b) border with the single entry e: lookup of t, rank of t
            auto b = std::make_unique<border_node>(); b->init_border(); b->set_key(0, slice(e), (key_length_type)e.l); int dummy = 0;
            if (e.l > 8) b->set_lv_next_layer(0, C.get()); else b->set_lv_value(0, reinterpret_cast<value*>(&dummy), nullptr);
            b->get_permutation().insert_rank(0, 0);
            node_version64_body sv{}; std::size_t lp = 99; link_or_value* lv = b->get_lv_of(slice(t), (key_length_type)t.l, sv, lp);
            link_or_value* lv2 = b->get_lv_of_without_lock(slice(t), (key_length_type)t.l);
            o += std::string(",\"hit\":") + vh::jb(lv != nullptr) + ",\"hit_nolock\":" + vh::jb(lv2 != nullptr);
            if (!same) o += ",\"rank\":" + std::to_string(b->compute_rank_if_insert(slice(t), (key_length_type)t.l)); else o += ",\"rank\":-1";
            b->get_lv_at(0)->init_lv();
        }
        if (e.l > 0) {   // separators are never the empty tuple
            auto in = std::make_unique<interior_node>(); in->init_interior(); in->set_version_root(true);
            in->set_key(0, slice(e), (key_length_type)e.l); in->set_child_at(0, L.get()); in->set_child_at(1, R.get()); in->set_n_keys(1);
            node_version64_body v = in->get_stable_version(); base_node* ch = in->get_child_of(slice(t), (key_length_type)t.l, v);
            o += std::string(",\"route_left\":") + vh::jb(ch == L.get());
            if (!same && t.l > 0) {   // (d) insert (t, C): where does it land?
                in->lock(); in->insert(C.get(), std::make_pair(slice(t), (key_length_type)t.l)); in->version_unlock();
                bool first = in->get_key_slice_at(0) == slice(t) && in->get_key_length_at(0) == t.l;
                bool okshape = in->get_n_keys() == 2 && (first ? (in->get_child_at(0) == L.get() && in->get_child_at(1) == C.get() && in->get_child_at(2) == R.get())
                                                               : (in->get_child_at(0) == L.get() && in->get_child_at(1) == R.get() && in->get_child_at(2) == C.get()));
                o += std::string(",\"ins_before\":") + vh::jb(first) + ",\"ins_shape\":" + vh::jb(okshape);
            } else o += ",\"ins_before\":false,\"ins_shape\":true";
        } else o += ",\"route_left\":false,\"ins_before\":false,\"ins_shape\":true";
        {   // (e) permutation::rearrange over the two keys stored in slots 0 (t) and 1 (e)
            if (!same) { auto b = std::make_unique<border_node>(); b->init_border(); b->set_key(0, slice(t), (key_length_type)t.l); b->set_key(1, slice(e), (key_length_type)e.l);
                b->get_permutation().set_body(0x102); b->permutation_rearrange(); std::uint64_t pb = b->get_permutation().get_body();
                o += ",\"sorted_first\":" + std::to_string((int)((pb >> 4) & 15)) + ",\"sorted_n\":" + std::to_string((int)(pb & 15)); }
            else o += ",\"sorted_first\":-1,\"sorted_n\":2";
        }
        o += "}"; puts(o.c_str()); n++;
    }
    // (f) side decision of a border split, through the API on a bare tree: 8 small fillers, the pivot tuple f at rank 8, 6 large fillers,
    //     then the new tuple t.  Tuples with first slice byte 01 only (fillers start with 00 / 02).
    auto keyof = [](const Tup& t, char tail) { std::string k((const char*)t.s, t.l > 8 ? 8 : t.l); if (t.l > 8) k.push_back(tail); return k; };
    long nsplit = 0;
    for (auto& t : D) for (auto& f : D) {
        if (t.s[0] != 1 || f.s[0] != 1) continue;
        if (memcmp(t.s, f.s, 8) == 0 && t.l == f.l) continue;
        tree_instance ti; int val[2] = {7, 7}; std::vector<std::string> all;
        for (int i = 0; i < 8; i++) all.push_back(std::string("\0", 1) + std::string(1, (char)(i + 1)));
        all.push_back(keyof(f, 'x'));
        for (int i = 0; i < 6; i++) all.push_back(std::string("\2", 1) + std::string(1, (char)(i + 1)));
        for (auto& k : all) put<char>(tok, &ti, k, (char*)val, false, 8);
        std::string kt = keyof(t, 'y'); put<char>(tok, &ti, kt, (char*)val, false, 8); all.push_back(kt);
        base_node* root = ti.load_root_ptr(); bool split = !root->get_version_border(); bool left = false; std::size_t total = 0; bool getok = true;
        if (split) {
            auto* in = dynamic_cast<interior_node*>(root); auto* lb = dynamic_cast<border_node*>(in->get_child_at(0));
            permutation p{lb->get_permutation().get_body()};
            for (std::size_t r = 0; r < p.get_cnk(); r++) { auto ix = p.get_index_of_rank(r); if (lb->get_key_slice_at(ix) == slice(t) && lb->get_key_length_at(ix) == t.l) left = true; }
        }
        for (auto& k : all) { std::pair<char*, std::size_t> o{nullptr, 0}; if (get<char>(&ti, k, o) != status::OK) getok = false; put<char>(tok, &ti, k, (char*)val, false, 8); }
        { std::vector<std::tuple<std::string, char*, std::size_t>> tl; scan<char>(&ti, "", scan_endpoint::INF, "", scan_endpoint::INF, tl, nullptr, 0, false); total = tl.size(); }
        printf("{\"op\":\"split\",\"t\":%s,\"e\":%s,\"split\":%s,\"left\":%s,\"getok\":%s,\"total\":%zu}\n", tj(t).c_str(), tj(f).c_str(), vh::jb(split), vh::jb(left), vh::jb(getok), total);
        if (auto* rt = ti.load_root_ptr()) { rt->destroy(); delete rt; ti.store_root_ptr(nullptr); }
        nsplit++;
    }
    // (g) side decision of an INTERIOR split: a full interior root (15 pivots: 7 small fillers, the middle pivot f that is pushed up, 7 large
    //     fillers) receives the child for pivot t through interior_split(); the child must end up in the left half iff t < f
    long nisplit = 0;
    for (auto& t : D) for (auto& f : D) {
        if (t.s[0] != 1 || f.s[0] != 1 || t.l == 0 || f.l == 0) continue;
        if (memcmp(t.s, f.s, 8) == 0 && t.l == f.l) continue;
        tree_instance ti; auto* in = new interior_node(); in->init_interior(); in->set_version_root(true);
        std::vector<border_node*> kids; for (int i = 0; i < 17; i++) { auto* b = new border_node(); b->init_border(); kids.push_back(b); }
        for (int i = 0; i < 15; i++) {
            std::uint64_t ks = 0; int kl = 2; unsigned char* p = (unsigned char*)&ks;
            if (i < 7) { p[0] = 0; p[1] = (unsigned char)(i + 1); } else if (i == 7) { ks = slice(f); kl = f.l; } else { p[0] = 2; p[1] = (unsigned char)(i + 1); }
            in->set_key(i, ks, (key_length_type)kl);
        }
        for (int i = 0; i < 16; i++) { in->set_child_at(i, kids[i]); kids[i]->set_parent(in); kids[i]->set_version_root(false); }
        in->set_n_keys(15); ti.store_root_ptr(in);
        in->lock();
        interior_split(&ti, in, kids[16], std::make_pair(slice(t), (key_length_type)t.l));
        auto* nr = dynamic_cast<interior_node*>(ti.load_root_ptr()); bool ok = nr != nullptr && nr != in && nr->get_n_keys() == 1 && nr->get_child_at(0) == in;
        bool left = false, right = false, pivotok = false;
        if (ok) { auto* rh = dynamic_cast<interior_node*>(nr->get_child_at(1)); pivotok = nr->get_key_slice_at(0) == slice(f) && nr->get_key_length_at(0) == f.l;
            for (int c = 0; c <= in->get_n_keys(); c++) if (in->get_child_at(c) == kids[16]) left = true;
            if (rh) for (int c = 0; c <= rh->get_n_keys(); c++) if (rh->get_child_at(c) == kids[16]) right = true;
            left = left && kids[16]->get_parent() == in; right = right && kids[16]->get_parent() == rh; }
        printf("{\"op\":\"isplit\",\"t\":%s,\"e\":%s,\"ok\":%s,\"pivotok\":%s,\"left\":%s,\"right\":%s}\n", tj(t).c_str(), tj(f).c_str(), vh::jb(ok), vh::jb(pivotok), vh::jb(left), vh::jb(right));
        if (auto* rt = ti.load_root_ptr()) { rt->destroy(); delete rt; ti.store_root_ptr(nullptr); }
        nisplit++;
    }
    leave(tok); fprintf(stderr, "%ld pairs over %zu tuples, %ld split cases, %ld interior split cases\n", n, D.size(), nsplit, nisplit);
    return 0;
}

// Turns a crash of the implementation (signal, uncaught exception, std::terminate) into a final trace line
// {"op":"fault",...,"e":"Fault"} on stdout and a clean exit, so that the trace specification rejects the trace at that line.
#pragma once
#include <csignal>
#include <cstdio>
#include <cstdlib>
#include <cstring>
#include <exception>
#include <unistd.h>
namespace vh {
inline void (*g_flush)() = nullptr;   // optional: flush buffered trace lines first
inline void fault_line(const char* why) {
    if (g_flush) { auto f = g_flush; g_flush = nullptr; f(); }
    fflush(stdout);
    char buf[160]; int n = snprintf(buf, sizeof buf, "{\"op\":\"fault\",\"e\":\"Fault\",\"why\":\"%s\"}\n", why);
    if (write(1, buf, n) < 0) {}
    _exit(0);
}
inline void on_signal(int s) {
    fault_line(s == SIGSEGV ? "SIGSEGV" : s == SIGABRT ? "SIGABRT" : s == SIGFPE ? "SIGFPE" : s == SIGBUS ? "SIGBUS" : s == SIGALRM ? "SIGALRM(timeout)" : "signal");
}
inline void on_terminate() {
    static char why[120] = "terminate";
    if (auto ep = std::current_exception()) { try { std::rethrow_exception(ep); } catch (const std::exception& e) { snprintf(why, sizeof why, "terminate: %.90s", e.what()); for (char* c = why; *c; c++) if (*c == '"' || *c == '\\' || *c == '\n') *c = ' '; } catch (...) {} }
    fault_line(why);
}
inline void install_fault_handlers(unsigned alarm_s = 0) {
    std::set_terminate(on_terminate);
    for (int s : {SIGSEGV, SIGABRT, SIGFPE, SIGBUS, SIGALRM}) signal(s, on_signal);
    if (alarm_s) alarm(alarm_s);
}
}  // namespace vh

// Lifecycle driver (C16 repeatable init/fin cycles, C11 no leak): real init()/fin()/destroy() with the library's own background
// threads (not scheduler controlled), global operator new/delete interposed to account for library-owned memory.
// One ndjson event per line in the order of a global sequence counter; judged by TraceLife.tla.
// usage: lifedrv key=value ... (seed, cycles, ops, mode=cycles|leak)
#include "vh_json.h"
#include "vh_fault.h"
#include <malloc.h>
#include <cstdarg>
#include <atomic>
#include <chrono>
#include <map>
#include <mutex>
#include <random>
#include <thread>
using namespace yakushima;
// ---------------------------------------------------------------- allocation accounting (operator new / delete only)
static std::atomic<long> g_live_bytes{0}, g_live_blocks{0};
#include <execinfo.h>
static std::atomic<bool> g_trace_allocs{false};
struct LiveRec { void* p; std::size_t n; void* bt[12]; int nbt; };
static LiveRec g_live[1 << 18]; static std::atomic<int> g_nlive{0};
static void* acct_alloc(std::size_t n, std::size_t al) {
    void* p = nullptr; if (n == 0) n = 1;
    if (al <= alignof(std::max_align_t)) p = malloc(n); else if (posix_memalign(&p, al, n) != 0) p = nullptr;
    if (!p) throw std::bad_alloc();
    g_live_bytes += (long)malloc_usable_size(p); g_live_blocks++;
    if (g_trace_allocs) { int i = g_nlive++; if (i < (1 << 18)) { g_live[i].p = p; g_live[i].n = n; g_live[i].nbt = backtrace(g_live[i].bt, 12); } }
    return p;
}
static void acct_free(void* p) { if (!p) return; if (g_trace_allocs) for (int i = 0; i < g_nlive && i < (1 << 18); i++) if (g_live[i].p == p) g_live[i].p = nullptr; g_live_bytes -= (long)malloc_usable_size(p); g_live_blocks--; free(p); }
void* operator new(std::size_t n) { return acct_alloc(n, 1); }
void* operator new[](std::size_t n) { return acct_alloc(n, 1); }
void* operator new(std::size_t n, std::align_val_t a) { return acct_alloc(n, (std::size_t)a); }
void* operator new[](std::size_t n, std::align_val_t a) { return acct_alloc(n, (std::size_t)a); }
void* operator new(std::size_t n, const std::nothrow_t&) noexcept { try { return acct_alloc(n, 1); } catch (...) { return nullptr; } }
void operator delete(void* p) noexcept { acct_free(p); }
void operator delete[](void* p) noexcept { acct_free(p); }
void operator delete(void* p, std::size_t) noexcept { acct_free(p); }
void operator delete[](void* p, std::size_t) noexcept { acct_free(p); }
void operator delete(void* p, std::align_val_t) noexcept { acct_free(p); }
void operator delete[](void* p, std::align_val_t) noexcept { acct_free(p); }
void operator delete(void* p, std::size_t, std::align_val_t) noexcept { acct_free(p); }
void operator delete[](void* p, std::size_t, std::align_val_t) noexcept { acct_free(p); }
// ---------------------------------------------------------------- events
static std::map<std::string, std::string> A;
static long argi(const char* k, long d) { auto it = A.find(k); return it == A.end() ? d : atol(it->second.c_str()); }
static std::mutex g_mu; static std::atomic<long> g_incs{0}, g_reclaims{0}, g_retires{0}, g_exits{0}, g_starts{0};
static char g_buf[1 << 22]; static std::size_t g_len = 0;    // static buffer: the log itself must not allocate through operator new
static bool g_quiet = false;
static void emit(const char* s) { if (g_quiet) return; std::lock_guard<std::mutex> lk(g_mu); std::size_t n = strlen(s); if (g_len + n + 2 < sizeof g_buf) { memcpy(g_buf + g_len, s, n); g_len += n; g_buf[g_len++] = '\n'; } }
static void flush_log() { fwrite(g_buf, 1, g_len, stdout); g_len = 0; fflush(stdout); }
static void hook(int kind, const void*, std::uint64_t a, std::uint64_t) {
    using namespace verif; char b[128];
    switch (kind) {
        case k_thread_start: g_starts++; snprintf(b, sizeof b, "{\"e\":\"thread_start\",\"which\":%d}", (int)a); emit(b); break;
        case k_thread_exit: g_exits++; snprintf(b, sizeof b, "{\"e\":\"thread_exit\",\"which\":%d}", (int)a); emit(b); break;
        case k_epoch_inc: g_incs++; break;
        case k_retire_node: case k_retire_value: g_retires++; break;
        case k_reclaim_node: case k_reclaim_value: g_reclaims++; break;
        default: break;
    }
}
static void ev(const char* fmt, ...) { char b[512]; va_list ap; va_start(ap, fmt); vsnprintf(b, sizeof b, fmt, ap); va_end(ap); emit(b); }
int main(int argc, char** argv) {
    for (int i = 1; i < argc; i++) { std::string a = argv[i]; auto p = a.find('='); if (p != std::string::npos) A[a.substr(0, p)] = a.substr(p + 1); }
    vh::install_fault_handlers(argi("alarm", 120)); vh::g_flush = flush_log;
    long seed = argi("seed", 1), cycles = argi("cycles", 4), nops = argi("ops", 300), waitms = argi("waitms", 4000);
    std::mt19937_64 rng(seed);
    verif::g_hook = hook;
    const long cap = YAKUSHIMA_MAX_PARALLEL_SESSIONS;
    // warm-up: two empty cycles, then the baseline after a fin() that followed no operations
    g_quiet = true; for (int i = 0; i < 2; i++) { init(); fin(); } g_quiet = false;
    { std::string warm = "x"; warm.reserve(64); }
    long base_bytes = g_live_bytes, base_blocks = g_live_blocks;
    ev("{\"e\":\"baseline\",\"bytes\":%ld,\"blocks\":%ld,\"cap\":%ld}", base_bytes, base_blocks, cap);
    if (argi("leaktrace", 0)) g_trace_allocs = true;
    for (long c = 1; c <= cycles; c++) {
        long incs0 = g_incs, rec0 = g_reclaims, ret0 = g_retires, exits0 = g_exits;
        {   // everything the harness itself allocates lives inside this block and is gone before the memory is measured
        ev("{\"e\":\"init_begin\",\"cycle\":%ld}", c);
        init();
        // a fresh system: nothing of the previous cycle is visible, every slot is free
        std::vector<std::pair<std::string, tree_instance*>> ls; status lrc = list_storages(ls);
        bool old_visible = find_storage("cyc" + std::to_string(c - 1)) == status::OK;
        // (the "every slot is free" probe enters all slots, which would also repair stale slot words: it runs after the progress measurement)
        ev("{\"e\":\"init_done\",\"cycle\":%ld,\"list_status\":\"%s\",\"listed\":%zu,\"old_visible\":%s,\"free_slots\":%ld}", c, vh::stname(lrc), ls.size(), vh::jb(old_visible), (long)cap);
        // a history: storages, puts (incl. overwrites, failed unique inserts), removes that empty nodes, scans, cursors closed early
        std::string st = "cyc" + std::to_string(c); create_storage(st); create_storage(st); create_storage("other"); delete_storage("other");
        Token tok{}; enter(tok); long vctr = 0;
        for (long i = 0; i < nops; i++) {
            int x = rng() % 100; std::string k = "k" + std::to_string(rng() % 80); if (rng() % 4 == 0) k = std::string(8, 'p') + k;
            char val[64]; std::size_t len = 8 + rng() % 50; memset(val, (int)(++vctr & 0xff), sizeof val);
            if (x < 55) put<char>(tok, st, k, val, len, nullptr, (value_align_type)8, rng() % 5 == 0);
            else if (x < 85) remove(tok, st, k);
            else if (x < 92) { std::vector<std::tuple<std::string, char*, std::size_t>> tl; scan<char>(st, "", scan_endpoint::INF, "", scan_endpoint::INF, tl); }
            else { iscan_context* ctx = nullptr; void* v = nullptr; status rc = iscan_open(st, "", scan_endpoint::INF, "", scan_endpoint::INF, rng() % 2, false, ctx, v); if (rc == status::OK && rng() % 2) iscan_next(ctx, v); if (ctx) iscan_close(ctx); }
        }
        // racing overwrites (seed C11d): one thread overwrites one key with large values while two others insert / remove its neighbours in
        // the same border.  The overwrite path retries when the border changed between its optimistic lookup and the lock; whatever an
        // abandoned attempt allocated must not stay behind (free-running threads, not scheduler controlled)
        if (long nr = argi("raceops", 3000)) {
            char r8[8] = "racebas"; put<char>(tok, st, "ra", r8, 8);
            std::vector<std::thread> th; std::atomic<int> go{0};
            for (int q = 0; q < 3; q++) th.emplace_back([&, q] {
                Token t{}; bool in = enter(t) == status::OK; go++; while (go.load() < 3) { _mm_pause(); }
                if (!in) return;
                std::vector<char> big(2048, (char)q); char w8[8] = "racenbr";
                for (long i = 0; i < nr; i++) {
                    if (q == 0) put<char>(t, st, "ra", big.data(), big.size());
                    else { std::string k = q == 1 ? "rb" : "rc"; put<char>(t, st, k, w8, 8); remove(t, st, k); }
                }
                leave(t); });
            for (auto& x : th) x.join();
        }
        // empty whole nodes: remove a sorted run of keys
        for (int i = 0; i < 80; i += 1 + (int)(rng() % 2)) remove(tok, st, "k" + std::to_string(i));
        // several whole nodes retired by ONE session: keys below distinct 8-byte prefixes, each removal unlinks a next-layer root border;
        // all short keys of a storage of its own (borders and the interior above them)
        for (int i = 0; i < 8; i++) { std::string k = std::string(8, (char)('A' + i)) + "tail"; char v8[8] = "abcdefg"; put<char>(tok, st, k, v8, 8); }
        for (int i = 0; i < 8; i++) { std::string k = std::string(8, (char)('A' + i)) + "tail"; remove(tok, st, k); }
        create_storage("drain"); for (int i = 0; i < 40; i++) { char v8[8] = "abcdefg"; put<char>(tok, "drain", "d" + std::to_string(100 + i), v8, 8); }
        for (int i = 0; i < 40; i++) remove(tok, "drain", "d" + std::to_string(100 + i));
        long retired = g_retires - ret0;
        // the retiring session stays open over several gc passes (the gc sees its retire queues again and again while nothing is reclaimable)
        std::this_thread::sleep_for(std::chrono::milliseconds(argi("holdms", 25)));
        bool keep_open = (c % 2 == 0);      // every second cycle ends with the session still open
        leave(tok);
        // wait, event driven and bounded, for the background threads to make progress in THIS cycle
        auto t0 = std::chrono::steady_clock::now(); bool timeout = false;
        while (g_incs - incs0 < 3 || (retired > 0 && g_reclaims - rec0 < 1)) {
            std::this_thread::sleep_for(std::chrono::milliseconds(1));
            if (std::chrono::steady_clock::now() - t0 > std::chrono::milliseconds(waitms)) { timeout = true; break; }
            if (g_exits - exits0 >= 2) { timeout = true; break; }   // both background threads are gone: nothing will ever happen
        }
        ev("{\"e\":\"progress\",\"cycle\":%ld,\"incs\":%ld,\"retired\":%ld,\"reclaimed\":%ld,\"exits_before_fin\":%ld,\"timeout\":%s,\"session_open\":false}", c, (long)(g_incs - incs0), retired, (long)(g_reclaims - rec0), (long)(g_exits - exits0), vh::jb(timeout));
        { std::vector<Token> all(cap); long got = 0; for (auto& t : all) if (enter(t) == status::OK) got++; for (long i = 0; i < got; i++) leave(all[i]);
          ev("{\"e\":\"slots\",\"cycle\":%ld,\"free_slots\":%ld}", c, got); }
        // (an open session legitimately holds the epoch back, so progress is measured with none open; now open the ones that stay)
        enter(tok); Token left_open{}, left_open2{}; if (keep_open) { enter(left_open); enter(left_open2); char v8[8] = "7654321"; put<char>(left_open, st, "late", v8, 8); remove(left_open, st, "late"); }
        if (c == cycles / 2 + 1) {          // destroy() leaves an empty but usable system
            destroy(); std::vector<std::pair<std::string, tree_instance*>> l2; status d1 = list_storages(l2);
            status d2 = create_storage("afterdestroy"); char v8[8] = "1234567"; status d3 = put<char>(tok, "afterdestroy", "k", v8, 8); std::pair<char*, std::size_t> out{nullptr, 0}; status d4 = get<char>("afterdestroy", "k", out);
            ev("{\"e\":\"destroy_done\",\"cycle\":%ld,\"list_status\":\"%s\",\"listed\":%zu,\"create\":\"%s\",\"put\":\"%s\",\"get\":\"%s\",\"value_ok\":%s}", c, vh::stname(d1), l2.size(), vh::stname(d2), vh::stname(d3), vh::stname(d4), vh::jb(d4 == status::OK && out.first && memcmp(out.first, v8, 8) == 0));
        }
        leave(tok);     // in the cycles that end with open sessions the FIRST slot is idle again: the open ones sit behind an idle slot
        // losing root-creation races: several threads create the first storage of an empty directory (root pointer null) at once,
        // with long names (the loser has built a chain of next-layer borders and a value that nobody else will ever free)
        for (long rr = 0; rr < argi("races", 40); rr++) {
            if (keep_open) break;      // destroy() needs a quiescent system: only in cycles without sessions left open
            destroy();
            std::atomic<int> go{0}; std::vector<std::thread> th; std::string nm = "race" + std::string(20 + rr % 7, 'x') + std::to_string(rr);
            for (int q = 0; q < 4; q++) th.emplace_back([&, q] { go++; while (go.load() < 4) { _mm_pause(); } create_storage(q % 2 ? nm : nm + "b"); });
            for (auto& x : th) x.join();
        }
        ev("{\"e\":\"fin_begin\",\"cycle\":%ld}", c);
        fin();
        }
        ev("{\"e\":\"fin_done\",\"cycle\":%ld,\"bytes\":%ld,\"blocks\":%ld,\"starts\":%ld,\"exits\":%ld}", c, (long)g_live_bytes, (long)g_live_blocks, (long)g_starts, (long)g_exits);
    }
    flush_log();
    if (argi("leaktrace", 0)) for (int i = 0; i < g_nlive && i < (1 << 18); i++) if (g_live[i].p) { fprintf(stderr, "LIVE %zu bytes:\n", g_live[i].n); backtrace_symbols_fd(g_live[i].bt, g_live[i].nbt, 2); }
    return 0;
}

// Step-level conformance driver for YkConc2 (root border split + new interior root vs readers): the tree is one FULL root
// border L (15 one-byte keys 2, 4, .., 30); the writer inserts NewKey, which splits L into L and R and installs a new
// interior root P; readers run get(k).  All of it on the real code under seeded random / PCT schedules; every hooked
// shared-memory access of L, R, P, the root pointer and the root lock is logged with the value read / written, plus
// call / return events.  One event per line, runs separated by {"e":"reset"}.  Judged by TraceConc2.tla.
// usage: stepdrv2 new=K get=K1,K2 runs=N seed=S [raw=1]
#include "vh_json.h"
#include "vh_fault.h"
#include "vh_sched.h"
#include <map>
using namespace yakushima;
static std::map<std::string, std::string> A;
static long argi(const char* k, long d) { auto it = A.find(k); return it == A.end() ? d : atol(it->second.c_str()); }
static int word_id(std::uint64_t w) {   // slot word -> value id (0 = cleared)
    const std::uint64_t flag = 1ULL << 62; if (w == flag || w == 0) return 0; if (w & (1ULL << 63)) return -9;
    value* vp = reinterpret_cast<value*>(w); return *(int*)value::get_body(vp);
}
static std::string verj(std::uint64_t w) { node_version64_body b; memcpy(&b, &w, 8);
    return std::string("{\"lk\":") + vh::jb(b.get_locked()) + ",\"ins\":" + vh::jb(b.get_inserting_deleting()) + ",\"spl\":" + vh::jb(b.get_splitting()) + ",\"del\":" + vh::jb(b.get_deleted()) + ",\"root\":" + vh::jb(b.get_root()) + ",\"vi\":" + std::to_string(b.get_vinsert_delete()) + ",\"vs\":" + std::to_string(b.get_vsplit()) + "}"; }
static std::string permj(std::uint64_t b) { std::string o = "["; int c = b & 15; for (int i = 0; i < c; i++) { if (i) o += ","; o += std::to_string((int)((b >> (4 * (i + 1))) & 15)); } return o + "]"; }
int main(int argc, char** argv) {
    for (int i = 1; i < argc; i++) { std::string a = argv[i]; auto p = a.find('='); if (p != std::string::npos) A[a.substr(0, p)] = a.substr(p + 1); }
    vh::install_fault_handlers(60);
    long runs = argi("runs", 20), seed = argi("seed", 1); int newkey = (int)argi("new", 15);
    std::vector<int> gk; { std::string g = A.count("get") ? A["get"] : "30,2"; std::size_t p = 0; while (p < g.size()) { gk.push_back(atoi(g.c_str() + p)); p = g.find(',', p); if (p == std::string::npos) break; p++; } }
    bool pct = A.count("sched") && A["sched"] == "pct";
    vs::install(); thread_info_table::init();
    vs::S.record = true; vs::S.yield_on_key_load = false;
    vs::S.on_abort = [](const char* why) { printf("{\"e\":\"abort\",\"why\":\"%s\"}\n", why); };
    for (long r = 0; r < runs; r++) {
        tree_instance ti; Token setup{}; enter(setup);
        for (int i = 1; i <= 15; i++) { int id = 100 + 2 * i; int buf[2] = {id, id}; std::string k(1, (char)(2 * i)); put<char>(setup, &ti, k, (char*)buf, false, 8); }
        border_node* L = dynamic_cast<border_node*>(ti.load_root_ptr());
        std::size_t nth = 1 + gk.size();
        std::vector<Token> tok(nth); for (auto& t : tok) enter(t);
        struct Mark { std::size_t pos; std::string js; }; std::vector<Mark> M;
        std::vector<std::function<void()>> bodies;
        bodies.push_back([&] {       // thread 0: the writer
            M.push_back({vs::S.log.size(), "{\"e\":\"inv\",\"t\":0}"});
            int buf[2] = {1, 1}; std::string k(1, (char)newkey);
            status rc = put<char>(tok[0], &ti, k, (char*)buf, false, 8);
            M.push_back({vs::S.log.size(), std::string("{\"e\":\"ret\",\"t\":0,\"st\":\"") + (rc == status::OK ? "OK" : "OTHER") + "\",\"w\":0}"});
        });
        for (std::size_t t = 1; t < nth; t++) bodies.push_back([&, t] {
            std::string T = std::to_string(t); std::string k(1, (char)gk[t - 1]);
            M.push_back({vs::S.log.size(), "{\"e\":\"inv\",\"t\":" + T + "}"});
            std::pair<char*, std::size_t> out{nullptr, 0}; status rc = get<char>(&ti, k, out);
            M.push_back({vs::S.log.size(), "{\"e\":\"ret\",\"t\":" + T + ",\"st\":\"" + (rc == status::OK ? "OK" : "NOT_EXIST") + "\",\"w\":" + std::to_string(rc == status::OK ? (out.first ? *(int*)out.first : 0) : 0) + "}"});
        });
        vs::S.rng.seed(seed * 1000003 + r);
        if (pct) { vs::S.strat = vs::PCT; vs::S.change_points.clear(); for (int i = 0; i < 3; i++) vs::S.change_points.push_back(1 + (long)(vs::S.rng() % 260)); for (std::size_t i = 0; i < nth; i++) vs::S.prio[i] = (int)(vs::S.rng() % 1000) + 10; }
        else { vs::S.strat = vs::RANDOM; vs::S.switch_pct = 5 + (int)(vs::S.rng() % 60); }
        vs::run(bodies, (int)(vs::S.rng() % nth));
        // ---- render
        border_node* R = L->get_next(); base_node* P = ti.load_root_ptr(); interior_node* PI = dynamic_cast<interior_node*>(P);
        printf("{\"e\":\"reset\",\"run\":%ld}\n", r);
        auto inb = [](const void* o, const void* base, std::size_t sz) { return base && (const char*)o >= (const char*)base && (const char*)o < (const char*)base + sz; };
        std::size_t mi = 0;
        for (std::size_t i = 0; i <= vs::S.log.size(); i++) {
            while (mi < M.size() && M[mi].pos == i) puts(M[mi++].js.c_str());
            if (i == vs::S.log.size()) break;
            auto& e = vs::S.log[i]; const char* o = (const char*)e.obj; std::string T = std::to_string(e.t); using namespace verif;
            if (e.kind == k_cas || e.kind == k_spin) continue;
            if (o == (const char*)&ti.root_) { printf("{\"e\":\"%s\",\"t\":%s,\"n\":%d}\n", e.kind == k_load ? "root_load" : "root_store", T.c_str(), (void*)e.peek == (void*)L ? 1 : (void*)e.peek == (void*)P ? 3 : -1); continue; }
            if (o == (const char*)&ti.root_lock_) { if (e.kind == k_root_lock || e.kind == k_root_unlock) printf("{\"e\":\"%s\",\"t\":%s}\n", e.kind == k_root_lock ? "root_lock" : "root_unlock", T.c_str()); continue; }
            int n = inb(o, L, sizeof(border_node)) ? 1 : inb(o, R, sizeof(border_node)) ? 2 : inb(o, PI, sizeof(interior_node)) ? 3 : 0;
            if (!n) continue;
            base_node* bn = n == 1 ? (base_node*)L : n == 2 ? (base_node*)R : P;
            if (o == (const char*)bn->get_version_ptr()) {
                if (e.kind == k_ver_load) printf("{\"e\":\"ver_load\",\"t\":%s,\"n\":%d,\"ver\":%s}\n", T.c_str(), n, verj(e.peek).c_str());
                else if (e.kind == k_ver_cas) printf("{\"e\":\"%s\",\"t\":%s,\"n\":%d,\"ver\":%s}\n", e.a == 1 ? "lock" : e.a == 2 ? "unlock" : "flag", T.c_str(), n, verj(e.peek).c_str());
                else if (e.kind == k_ver_store) printf("{\"e\":\"ver_store\",\"t\":%s,\"n\":%d,\"ver\":%s}\n", T.c_str(), n, verj(e.peek).c_str());
                continue;
            }
            if (o == (const char*)&bn->parent_) { printf("{\"e\":\"%s\",\"t\":%s,\"n\":%d,\"p\":%d}\n", e.kind == k_load ? "parent_load" : "parent_store", T.c_str(), n, (void*)e.peek == (void*)P ? 3 : e.peek == 0 ? 0 : -1); continue; }
            if (n == 3) {
                if (o == (const char*)&PI->n_keys_) { printf("{\"e\":\"%s\",\"t\":%s,\"v\":%d}\n", e.kind == k_load ? "nkeys_load" : "nkeys_store", T.c_str(), (int)(e.peek & 0xff)); continue; }
                const char* c0 = (const char*)&PI->children[0];
                if (o >= c0 && o < c0 + sizeof(PI->children)) { int ci = (int)((o - c0) / sizeof(base_node*));
                    printf("{\"e\":\"%s\",\"t\":%s,\"i\":%d,\"c\":%d}\n", e.kind == k_load ? "child_load" : "child_store", T.c_str(), ci, (void*)e.peek == (void*)L ? 1 : (void*)e.peek == (void*)R ? 2 : e.peek == 0 ? 0 : -1); continue; }
                if (e.kind == k_bulk_store || e.kind == k_store) printf("{\"e\":\"p_other_store\",\"t\":%s}\n", T.c_str());
                continue;
            }
            border_node* b = n == 1 ? L : R;
            if (o == (const char*)&b->permutation_) { printf("{\"e\":\"%s\",\"t\":%s,\"n\":%d,\"perm\":%s}\n", e.kind == k_perm_load ? "perm_load" : "perm_store", T.c_str(), n, permj(e.peek).c_str()); continue; }
            if (o == (const char*)&b->next_) { printf("{\"e\":\"%s\",\"t\":%s,\"n\":%d,\"x\":%d}\n", e.kind == k_load ? "next_load" : "next_store", T.c_str(), n, (void*)e.peek == (void*)R ? 2 : e.peek == 0 ? 0 : -1); continue; }
            const char* lv0 = (const char*)&b->lv_[0];
            if (o >= lv0 && o < lv0 + 15 * sizeof(link_or_value)) { int slot = (int)((o - lv0) / sizeof(link_or_value));
                if (e.kind == k_load) printf("{\"e\":\"lv_load\",\"t\":%s,\"n\":%d,\"slot\":%d,\"w\":%d}\n", T.c_str(), n, slot, word_id(e.peek));
                else if (e.kind == k_store) printf("{\"e\":\"lv_store\",\"t\":%s,\"n\":%d,\"slot\":%d,\"w\":%d}\n", T.c_str(), n, slot, word_id(e.peek));
                continue; }
            if (e.kind == k_store || e.kind == k_bulk_store) printf("{\"e\":\"other_store\",\"t\":%s,\"n\":%d,\"off\":%d}\n", T.c_str(), n, (int)(o - (const char*)b));
        }
        printf("{\"e\":\"end\"}\n");
        for (auto& t : tok) leave(t); leave(setup);
        if (auto* rt = ti.load_root_ptr()) { rt->destroy(); delete rt; ti.store_root_ptr(nullptr); }
    }
    thread_info_table::fin();
    return 0;
}

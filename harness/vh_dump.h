// Canonical structure dump of one storage through the node accessors: pre-order over children and layer links,
// node ids = position in that order (1-based); pointers never appear.
#pragma once
#include <map>
#include <sstream>
#include <vector>
#include "vh_json.h"
namespace vh {
using namespace yakushima;
inline void preorder(base_node* n, std::vector<base_node*>& ord) {
    ord.push_back(n);
    if (n->get_version_border()) {
        auto* b = dynamic_cast<border_node*>(n);
        permutation p{b->get_permutation().get_body()};
        for (std::size_t r = 0; r < p.get_cnk(); r++) {
            auto idx = p.get_index_of_rank(r);
            if (b->get_key_length_at(idx) > 8) { if (auto* c = b->get_lv_at(idx)->get_next_layer()) preorder(c, ord); }
        }
    } else {
        auto* i = dynamic_cast<interior_node*>(n);
        for (int c = 0; c <= i->get_n_keys(); c++) preorder(i->get_child_at(c), ord);
    }
}
struct Canon {
    std::vector<base_node*> ord; std::map<const void*, int> id; std::map<const void*, int> vid;  // node ptr -> id, version ptr -> id
    explicit Canon(tree_instance* ti) {
        base_node* r = ti->load_root_ptr(); if (r) preorder(r, ord);
        for (std::size_t i = 0; i < ord.size(); i++) { id[ord[i]] = (int)i + 1; vid[ord[i]->get_version_ptr()] = (int)i + 1; }
    }
    int of(const void* p) const { if (!p) return 0; auto it = id.find(p); return it == id.end() ? -1 : it->second; }
    int ofver(const void* p) const { if (!p) return 0; auto it = vid.find(p); return it == vid.end() ? -1 : it->second; }
};
// value rendering is supplied by the driver (value word -> json)
template <class F>
std::string dump_json(const Canon& c, F&& valjson) {
    std::ostringstream o; o << "{\"root\":" << (c.ord.empty() ? 0 : 1) << ",\"nodes\":[";
    for (std::size_t i = 0; i < c.ord.size(); i++) {
        base_node* n = c.ord[i]; if (i) o << ","; auto v = n->get_version();
        o << "{\"ver\":{\"vi\":" << v.get_vinsert_delete() << ",\"vs\":" << v.get_vsplit() << ",\"del\":" << jb(v.get_deleted()) << ",\"root\":" << jb(v.get_root())
          << ",\"dirty\":" << jb(v.get_locked() || v.get_inserting_deleting() || v.get_splitting()) << "},\"parent\":" << c.of(n->get_parent());
        auto keyjson = [&](std::size_t s) { std::ostringstream k; auto ks = n->get_key_slice_at(s); k << "{\"s\":["; for (int b = 0; b < 8; b++) { if (b) k << ","; k << (int)((unsigned char*)&ks)[b]; } k << "],\"l\":" << (int)n->get_key_length_at(s) << "}"; return k.str(); };
        if (v.get_border()) {
            auto* b = dynamic_cast<border_node*>(n); permutation p{b->get_permutation().get_body()};
            o << ",\"t\":\"B\",\"perm\":["; for (std::size_t r = 0; r < p.get_cnk(); r++) { if (r) o << ","; o << p.get_index_of_rank(r); }
            o << "],\"prev\":" << c.of(b->get_prev()) << ",\"next\":" << c.of(b->get_next()) << ",\"slots\":[";
            for (std::size_t r = 0; r < p.get_cnk(); r++) {
                auto s = p.get_index_of_rank(r); if (r) o << ",";
                o << "{\"i\":" << s << ",\"k\":" << keyjson(s) << ",\"lv\":"; auto* lv = b->get_lv_at(s);
                if (auto* ch = lv->get_next_layer()) o << "[\"L\"," << c.of(ch) << "]";
                else if (b->get_key_length_at(s) > 8) o << "[\"N\"]";
                else o << valjson(lv);
                o << "}";
            }
            o << "]}";
        } else {
            auto* in = dynamic_cast<interior_node*>(n); int nk = in->get_n_keys();
            o << ",\"t\":\"I\",\"n\":" << nk << ",\"keys\":["; for (int k = 0; k < nk; k++) { if (k) o << ","; o << keyjson(k); }
            o << "],\"ch\":["; for (int ch = 0; ch <= nk; ch++) { if (ch) o << ","; o << c.of(in->get_child_at(ch)); } o << "]}";
        }
    }
    o << "]}"; return o.str();
}
}  // namespace vh

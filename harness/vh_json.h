// tiny helpers for writing ndjson traces
#pragma once
#include <cstdint>
#include <cstdio>
#include <sstream>
#include <string>
#include <string_view>
#include <vector>
#include "kvs.h"
namespace vh {
inline std::string jbytes(std::string_view s) {
    std::string o = "[";
    for (std::size_t i = 0; i < s.size(); i++) { if (i) o += ","; o += std::to_string((int)(unsigned char)s[i]); }
    return o + "]";
}
inline const char* jb(bool b) { return b ? "true" : "false"; }
inline std::string jver(yakushima::node_version64_body v) {
    std::ostringstream o;
    o << "{\"locked\":" << jb(v.get_locked()) << ",\"ins\":" << jb(v.get_inserting_deleting()) << ",\"spl\":" << jb(v.get_splitting())
      << ",\"deleted\":" << jb(v.get_deleted()) << ",\"root\":" << jb(v.get_root()) << ",\"border\":" << jb(v.get_border())
      << ",\"vi\":" << v.get_vinsert_delete() << ",\"vs\":" << v.get_vsplit() << "}";
    return o.str();
}
inline const char* stname(yakushima::status s) {
    return yakushima::to_string_view(s).data();   // string literals: null terminated, no shared buffer
}
inline const char* epname(yakushima::scan_endpoint e) {
    switch (e) { case yakushima::scan_endpoint::EXCLUSIVE: return "EXC"; case yakushima::scan_endpoint::INCLUSIVE: return "INC"; default: return "INF"; }
}
inline std::uint64_t fnv(const void* p, std::size_t n) {
    std::uint64_t h = 1469598103934665603ULL;
    for (std::size_t i = 0; i < n; i++) { h ^= ((const unsigned char*)p)[i]; h *= 1099511628211ULL; }
    return h;
}
}  // namespace vh

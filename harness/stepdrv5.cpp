// Step-level conformance driver for YkConc5 (next layers): the tree is the layer-0 root border B0 (node 0) with one-byte keys, the
// 8-byte key S = "SSSSSSSS" (model key 100) and / or the link to the layer below S (node 1; a layer created during the run gets the next
// free node id); model key 100 + x = S followed by the byte x.  Threads 0..2 run one operation each on the real code under seeded
// random / PCT schedules; every hooked shared access of B0 and of the layer-1 borders is logged.  Judged by TraceConc5.tla.
// usage: stepdrv5 prog=op:k,op:k,op:k init0=1,100 init1=101 runs=N seed=S [sched=pct]
#include "vh_json.h"
#include "vh_fault.h"
#include "vh_sched.h"
#include <algorithm>
#include <map>
using namespace yakushima;
static std::map<std::string, std::string> A;
static long argi(const char* k, long d) { auto it = A.find(k); return it == A.end() ? d : atol(it->second.c_str()); }
static int word_id(std::uint64_t w) {   // slot word -> value id (0 = cleared)
    const std::uint64_t flag = 1ULL << 62; if (w == flag || w == 0) return 0; if (w & (1ULL << 63)) return -9;
    value* vp = reinterpret_cast<value*>(w); return *(int*)value::get_body(vp);
}
static std::string verj(std::uint64_t w) { node_version64_body b; memcpy(&b, &w, 8);
    return std::string("{\"lk\":") + vh::jb(b.get_locked()) + ",\"ins\":" + vh::jb(b.get_inserting_deleting()) + ",\"spl\":" + vh::jb(b.get_splitting()) + ",\"del\":" + vh::jb(b.get_deleted()) + ",\"root\":" + vh::jb(b.get_root()) + ",\"vi\":" + std::to_string(b.get_vinsert_delete()) + ",\"vs\":" + std::to_string(b.get_vsplit()) + "}"; }
static std::string permj(std::uint64_t b) { std::string o = "["; int c = b & 15; for (int i = 0; i < c; i++) { if (i) o += ","; o += std::to_string((int)((b >> (4 * (i + 1))) & 15)); } return o + "]"; }
static std::uint64_t vw(base_node* n) { std::uint64_t w; auto b = n->get_version(); memcpy(&w, &b, 8); return w; }
static std::vector<int> ilist(const std::string& g) { std::vector<int> v; std::size_t p = 0; while (p < g.size()) { v.push_back(atoi(g.c_str() + p)); p = g.find(',', p); if (p == std::string::npos) break; p++; } return v; }
struct POp { std::string op; int k; };
static std::string keyof(int k) { if (k < 100) return std::string(1, (char)k); std::string s(8, 'S'); if (k > 100) s.push_back((char)(k - 100)); return s; }
static const std::uint64_t CHILD = 1ULL << 63;
int main(int argc, char** argv) {
    for (int i = 1; i < argc; i++) { std::string a = argv[i]; auto p = a.find('='); if (p != std::string::npos) A[a.substr(0, p)] = a.substr(p + 1); }
    vh::install_fault_handlers(60);
    long runs = argi("runs", 20), seed = argi("seed", 1);
    std::vector<int> init0 = ilist(A.count("init0") ? A["init0"] : "1,100"), init1 = A.count("init1") && A["init1"].empty() ? std::vector<int>{} : ilist(A.count("init1") ? A["init1"] : "101");
    std::vector<POp> P; { std::string g = A.count("prog") ? A["prog"] : "rem:101,get:101,put:102"; std::size_t p = 0; while (p < g.size()) { std::size_t c = g.find(':', p), e = g.find(',', p); if (e == std::string::npos) e = g.size(); P.push_back({g.substr(p, c - p), atoi(g.c_str() + c + 1)}); p = e + 1; } }
    bool pct = A.count("sched") && A["sched"] == "pct";
    vs::install(); thread_info_table::init();
    vs::S.record = true; vs::S.yield_on_key_load = false;
    vs::S.on_abort = [](const char* why) { printf("{\"e\":\"abort\",\"why\":\"%s\"}\n", why); };
    {   std::string m = "{\"e\":\"meta\",\"prog\":["; for (std::size_t i = 0; i < P.size(); i++) { if (i) m += ","; m += "{\"op\":\"" + P[i].op + "\",\"k\":" + std::to_string(P[i].k) + ",\"v\":" + std::to_string(11 + (int)i) + "}"; }
        m += "]}"; puts(m.c_str()); }
    for (long r = 0; r < runs; r++) {
        tree_instance ti; Token setup{}; enter(setup);
        std::sort(init0.begin(), init0.end()); std::sort(init1.begin(), init1.end());
        for (int k : init0) { int id = 100 + k; int buf[2] = {id, id}; put<char>(setup, &ti, keyof(k), (char*)buf, false, 8); }
        for (int k : init1) { int id = 100 + k; int buf[2] = {id, id}; put<char>(setup, &ti, keyof(k), (char*)buf, false, 8); }
        border_node* B0 = dynamic_cast<border_node*>(ti.load_root_ptr()); if (!B0) { fprintf(stderr, "unexpected shape\n"); return 2; }
        border_node* B1 = nullptr; { permutation pm{B0->permutation_.get_body()}; for (std::size_t q = 0; q < pm.get_cnk(); q++) { auto ix = pm.get_index_of_rank(q); if (B0->get_key_length_at(ix) > 8) B1 = dynamic_cast<border_node*>(B0->get_lv_at(ix)->get_next_layer()); } }
        std::vector<const void*> kids; if (B1) kids.push_back(B1);   // node ids 1, 2, .. in order of appearance
        auto nid = [&](std::uint64_t p) -> int { if ((void*)p == (void*)B0) return 0; if (p == 0) return 9; for (std::size_t i = 0; i < kids.size(); i++) if ((void*)p == kids[i]) return (int)i + 1; return -1; };
        auto slotj = [&](std::uint64_t w, std::string& kind) -> int { if (w & CHILD) { kind = "L"; return nid(w & ~CHILD); } kind = "V"; return word_id(w); };
        auto ordof = [&](border_node* b, std::size_t ix, bool layer0) -> int { auto sl = b->get_key_slice_at(ix); unsigned char c0 = ((unsigned char*)&sl)[0]; int len = b->get_key_length_at(ix);
            if (!layer0) return 2 * (int)c0; if (len > 8) return 201; if (len == 8) return 200; return 2 * (int)c0; };
        auto bjson = [&](border_node* b, bool layer0) { std::string o = "{\"ver\":" + verj(vw(b)) + ",\"perm\":" + permj(b->permutation_.get_body()) + ",\"ks\":["; permutation pm{b->permutation_.get_body()};
            std::vector<int> ks(15, 0), lvv(15, 0); std::vector<std::string> kd(15, "-");
            for (std::size_t r2 = 0; r2 < pm.get_cnk(); r2++) { auto ix = pm.get_index_of_rank(r2); ks[ix] = ordof(b, ix, layer0); lvv[ix] = slotj(*(std::uint64_t*)b->get_lv_at(ix), kd[ix]); }
            for (int q = 0; q < 15; q++) { if (q) o += ","; o += std::to_string(ks[q]); } o += "],\"kind\":["; for (int q = 0; q < 15; q++) { if (q) o += ","; o += "\"" + kd[q] + "\""; }
            o += "],\"lv\":["; for (int q = 0; q < 15; q++) { if (q) o += ","; o += std::to_string(lvv[q]); } return o + "]}"; };
        std::string reset = "{\"e\":\"reset\",\"run\":" + std::to_string(r) + ",\"b0\":" + bjson(B0, true) + ",\"has1\":" + vh::jb(B1 != nullptr) + ",\"b1\":" + (B1 ? bjson(B1, false) : bjson(B0, true)) + "}";
        std::size_t nth = P.size();
        std::vector<Token> tok(nth); for (auto& t : tok) enter(t);
        struct Mark { std::size_t pos; std::string js; }; std::vector<Mark> M;
        std::vector<std::function<void()>> bodies;
        for (std::size_t t = 0; t < nth; t++) bodies.push_back([&, t] {
            std::string T = std::to_string(t); std::string k = keyof(P[t].k);
            M.push_back({vs::S.log.size(), "{\"e\":\"inv\",\"t\":" + T + "}"});
            std::string st; int w = 0;
            if (P[t].op == "get") { std::pair<char*, std::size_t> out{nullptr, 0}; status rc = get<char>(&ti, k, out); st = rc == status::OK ? "OK" : "NOT_EXIST"; w = rc == status::OK ? (out.first ? *(int*)out.first : 0) : 0; }
            else if (P[t].op == "put") { int id = 11 + (int)t; int buf[2] = {id, id}; status rc = put<char>(tok[t], &ti, k, (char*)buf, false, 8); st = rc == status::OK ? "OK" : "OTHER"; }
            else if (P[t].op == "scan") { std::vector<std::tuple<std::string, char*, std::size_t>> tl; std::vector<std::pair<node_version64_body, node_version64*>> nv;
                scan<char>(&ti, "", scan_endpoint::INF, "", scan_endpoint::INF, tl, &nv, 0, false);
                auto mk = [](const std::string& fk) { return fk.size() < 8 ? (int)(unsigned char)fk[0] : fk.size() == 8 ? 100 : 100 + (int)(unsigned char)fk[8]; };
                std::string ws = "["; for (std::size_t i = 0; i < tl.size(); i++) { if (i) ws += ","; char* p = std::get<1>(tl[i]); ws += "[" + std::to_string(mk(std::get<0>(tl[i]))) + "," + std::to_string(p ? *(int*)p : 0) + "]"; } ws += "]";
                M.push_back({vs::S.log.size(), "{\"e\":\"ret\",\"t\":" + T + ",\"st\":\"OK\",\"w\":" + ws + ",\"nvn\":" + std::to_string(nv.size()) + "}"}); return; }
            else if (P[t].op == "iscan") { long nvn = 0; auto cb = [&](node_version64*, node_version64_body) { nvn++; return false; };
                auto mk = [](const std::string& fk) { return fk.size() < 8 ? (int)(unsigned char)fk[0] : fk.size() == 8 ? 100 : 100 + (int)(unsigned char)fk[8]; };
                iscan_context* ctx = nullptr; void* val = nullptr; status rc = iscan_open(&ti, "", scan_endpoint::INCLUSIVE, "", scan_endpoint::INF, ctx, val, cb, false, false);
                std::string ws = "["; bool first = true;
                while (rc == status::OK) { std::string fk = ctx->full_key(); if (!first) ws += ","; first = false; ws += "[" + std::to_string(mk(fk)) + "," + std::to_string(val ? *(int*)val : 0) + "]"; rc = iscan_next(ctx, val, cb); }
                ws += "]"; if (ctx) iscan_close(ctx);
                M.push_back({vs::S.log.size(), "{\"e\":\"ret\",\"t\":" + T + ",\"st\":\"OK\",\"w\":" + ws + ",\"nvn\":" + std::to_string(nvn) + "}"}); return; }
            else { status rc = remove(tok[t], &ti, k); st = rc == status::OK ? "OK" : rc == status::OK_NOT_FOUND ? "NOT_FOUND" : "OTHER"; }
            M.push_back({vs::S.log.size(), "{\"e\":\"ret\",\"t\":" + T + ",\"st\":\"" + st + "\",\"w\":" + std::to_string(w) + "}"});
        });
        vs::S.rng.seed(seed * 1000003 + r);
        if (pct) { vs::S.strat = vs::PCT; vs::S.change_points.clear(); for (int i = 0; i < 3; i++) vs::S.change_points.push_back(1 + (long)(vs::S.rng() % 120)); for (std::size_t i = 0; i < nth; i++) vs::S.prio[i] = (int)(vs::S.rng() % 1000) + 10; }
        else { vs::S.strat = vs::RANDOM; vs::S.switch_pct = 5 + (int)(vs::S.rng() % 60); }
        vs::run(bodies, (int)(vs::S.rng() % nth));
        // ---- render: layer-1 borders created during the run appear first as the child pointer stored into a slot of B0
        const char* lv00 = (const char*)&B0->lv_[0];
        for (auto& e : vs::S.log) { const char* o = (const char*)e.obj; if (e.kind == verif::k_store && o >= lv00 && o < lv00 + 15 * sizeof(link_or_value) && (e.peek & CHILD)) { const void* c = (const void*)(e.peek & ~CHILD); if (std::find(kids.begin(), kids.end(), c) == kids.end()) kids.push_back(c); } }
        puts(reset.c_str());
        auto inb = [](const void* o, const void* base, std::size_t sz) { return base && (const char*)o >= (const char*)base && (const char*)o < (const char*)base + sz; };
        std::size_t mi = 0;
        for (std::size_t i = 0; i <= vs::S.log.size(); i++) {
            while (mi < M.size() && M[mi].pos == i) puts(M[mi++].js.c_str());
            if (i == vs::S.log.size()) break;
            auto& e = vs::S.log[i]; const char* o = (const char*)e.obj; std::string T = std::to_string(e.t); using namespace verif;
            if (e.kind == k_cas || e.kind == k_spin) continue;
            if (o == (const char*)&ti.root_) { if (e.kind == k_load) printf("{\"e\":\"root_load\",\"t\":%s,\"n\":%d}\n", T.c_str(), nid(e.peek)); continue; }
            int n = -1; border_node* b = nullptr;
            if (inb(o, B0, sizeof(border_node))) { n = 0; b = B0; } else for (std::size_t q = 0; q < kids.size(); q++) if (inb(o, kids[q], sizeof(border_node))) { n = (int)q + 1; b = (border_node*)kids[q]; }
            if (n < 0) continue;
            if (o == (const char*)b->get_version_ptr()) {
                if (e.kind == k_ver_load) printf("{\"e\":\"ver_load\",\"t\":%s,\"n\":%d,\"ver\":%s}\n", T.c_str(), n, verj(e.peek).c_str());
                else if (e.kind == k_ver_cas) printf("{\"e\":\"%s\",\"t\":%s,\"n\":%d,\"ver\":%s}\n", e.a == 1 ? "lock" : e.a == 2 ? "unlock" : "flag", T.c_str(), n, verj(e.peek).c_str());
                else if (e.kind == k_ver_store) printf("{\"e\":\"ver_store\",\"t\":%s,\"n\":%d,\"ver\":%s}\n", T.c_str(), n, verj(e.peek).c_str());
                continue;
            }
            if (o == (const char*)&b->parent_) { printf("{\"e\":\"%s\",\"t\":%s,\"n\":%d,\"p\":%d}\n", e.kind == k_load ? "parent_load" : "parent_store", T.c_str(), n, nid(e.peek)); continue; }
            if (o == (const char*)&b->permutation_) { printf("{\"e\":\"%s\",\"t\":%s,\"n\":%d,\"perm\":%s}\n", e.kind == k_perm_load ? "perm_load" : "perm_store", T.c_str(), n, permj(e.peek).c_str()); continue; }
            if (o == (const char*)&b->next_ || o == (const char*)&b->prev_) continue;
            const char* lv0 = (const char*)&b->lv_[0];
            if (o >= lv0 && o < lv0 + 15 * sizeof(link_or_value)) { int slot = (int)((o - lv0) / sizeof(link_or_value)); std::string kd; int w = slotj(e.peek, kd);
                if (e.kind == k_load || e.kind == k_store) printf("{\"e\":\"%s\",\"t\":%s,\"n\":%d,\"slot\":%d,\"kind\":\"%s\",\"w\":%d}\n", e.kind == k_load ? "lv_load" : "lv_store", T.c_str(), n, slot, kd.c_str(), w);
                continue; }
            if (e.kind == k_store || e.kind == k_bulk_store) printf("{\"e\":\"other_store\",\"t\":%s,\"n\":%d,\"off\":%d}\n", T.c_str(), n, (int)(o - (const char*)b));
        }
        printf("{\"e\":\"end\"}\n");
        for (auto& t : tok) leave(t); leave(setup);
        if (auto* rt = ti.load_root_ptr()) { rt->destroy(); delete rt; ti.store_root_ptr(nullptr); }
    }
    thread_info_table::fin();
    return 0;
}

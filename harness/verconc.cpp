// C17 concurrent driver: the thread programs of MC_Version.tla on ONE real node_version64 under the deterministic scheduler
// (preemption before every load and before every CAS attempt of the word); every successful CAS is logged with the word
// it produced, every stable-version result with the word returned.  Judged by TraceVersionConc.tla.
// usage: verconc prog=A|B|C runs=N seed=S
#include "vh_json.h"
#include "vh_fault.h"
#include "vh_sched.h"
#include <map>
using namespace yakushima;
static std::map<std::string, std::string> A;
static long argi(const char* k, long d) { auto it = A.find(k); return it == A.end() ? d : atol(it->second.c_str()); }
struct MOp { const char* op; const char* flag; bool b; };
static std::string wj(std::uint64_t w) { node_version64_body b; memcpy(&b, &w, 8); return vh::jver(b); }
int main(int argc, char** argv) {
    for (int i = 1; i < argc; i++) { std::string a = argv[i]; auto p = a.find('='); if (p != std::string::npos) A[a.substr(0, p)] = a.substr(p + 1); }
    vh::install_fault_handlers(60);
    std::string prog = A.count("prog") ? A["prog"] : "A"; long runs = argi("runs", 50), seed = argi("seed", 1);
    std::vector<MOp> W1 = {{"lock", "", 0}, {"set", "ins", 1}, {"unlock", "", 0}, {"lock", "", 0}, {"set", "ins", 1}, {"unlock", "", 0}};
    std::vector<MOp> W2 = {{"lock", "", 0}, {"set", "spl", 1}, {"set", "deleted", 1}, {"unlock", "", 0}};
    std::vector<MOp> W3 = {{"set", "root", 0}, {"inc", "", 0}, {"set", "root", 1}};
    std::vector<MOp> R1 = {{"stable", "", 0}, {"stable", "", 0}, {"stable", "", 0}};
    std::vector<MOp> W5 = {{"lock", "", 0}, {"set", "ins", 1}, {"set", "spl", 1}, {"unlock", "", 0}};
    std::vector<std::vector<MOp>> P;
    if (prog == "A") P = {W1, W2, W3, R1}; else if (prog == "B") P = {W1, W1, R1}; else P = {W1, W2, W3, R1, W5};
    vs::install(); vs::S.record = true;
    vs::S.on_abort = [](const char* why) { printf("{\"e\":\"abort\",\"why\":\"%s\"}\n", why); };
    for (long r = 0; r < runs; r++) {
        node_version64 nv; { node_version64_body b{}; b.init(); b.set_root(true); b.set_border(true); nv.set_body(b); }
        struct Mark { std::size_t pos; std::string js; }; std::vector<Mark> M;
        std::vector<std::function<void()>> bodies;
        for (std::size_t t = 0; t < P.size(); t++) bodies.push_back([&, t] {
            for (auto& o : P[t]) {
                std::string T = std::to_string(t + 1);
                M.push_back({vs::S.log.size(), "{\"e\":\"begin\",\"t\":" + T + ",\"op\":\"" + o.op + "\",\"flag\":\"" + o.flag + "\",\"b\":" + vh::jb(o.b) + "}"});
                std::string extra;
                if (!strcmp(o.op, "lock")) nv.lock(); else if (!strcmp(o.op, "unlock")) nv.unlock(); else if (!strcmp(o.op, "inc")) nv.atomic_inc_vinsert();
                else if (!strcmp(o.op, "stable")) { auto sv = nv.get_stable_version(); extra = ",\"ret\":" + vh::jver(sv); }
                else { std::string f = o.flag; if (f == "ins") nv.atomic_set_inserting_deleting(o.b); else if (f == "spl") nv.atomic_set_splitting(o.b); else if (f == "deleted") nv.atomic_set_deleted(o.b); else nv.atomic_set_root(o.b); }
                M.push_back({vs::S.log.size(), "{\"e\":\"end\",\"t\":" + T + extra + "}"});
            }
        });
        vs::S.strat = (r % 3 == 2) ? vs::PCT : vs::RANDOM; vs::S.rng.seed(seed * 1000003 + r); vs::S.switch_pct = 10 + (int)(vs::S.rng() % 70);
        if (vs::S.strat == vs::PCT) { for (std::size_t i = 0; i < P.size(); i++) vs::S.prio[i] = (int)(vs::S.rng() % 1000); vs::S.change_points.clear(); for (int i = 0; i < 3; i++) vs::S.change_points.push_back(1 + vs::S.rng() % 60); }
        vs::run(bodies, (int)(vs::S.rng() % P.size()));
        printf("{\"e\":\"reset\",\"run\":%ld}\n", r);
        std::size_t mi = 0;
        for (std::size_t i = 0; i <= vs::S.log.size(); i++) {
            while (mi < M.size() && M[mi].pos == i) puts(M[mi++].js.c_str());
            if (i == vs::S.log.size()) break;
            auto& e = vs::S.log[i]; if (e.obj != &nv) continue; std::string T = std::to_string(e.t + 1); using namespace verif;
            if (e.kind == k_ver_load) printf("{\"e\":\"load\",\"t\":%s,\"w\":%s}\n", T.c_str(), wj(e.peek).c_str());
            else if (e.kind == k_ver_cas) printf("{\"e\":\"cas\",\"t\":%s,\"kind\":%d,\"w\":%s}\n", T.c_str(), (int)e.a, wj(e.peek).c_str());
        }
        printf("{\"e\":\"final\",\"w\":%s}\n", vh::jver(nv.get_body()).c_str());
    }
    return 0;
}

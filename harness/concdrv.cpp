// Concurrent driver: small scenarios (initial tree shape + 2-3 thread programs of point operations and scans) executed on the
// real code under the deterministic scheduler; one ndjson line per run with the complete call / return history (global order
// numbers), the final quiescent view and the final structure dump.  Judged by TraceLin.tla (TLC).
// usage: concdrv key=value ... (seed, scenarios, family, sched=random|pre1|pct, runs, threads, opsper, scans, iscans, free)
#include "vh_dump.h"
#include "vh_fault.h"
#include "vh_sched.h"
#include <algorithm>
#include <cstring>
#include <map>
#include <random>
#include <set>
using namespace yakushima;
static std::map<std::string, std::string> A;
static long argi(const char* k, long d) { auto it = A.find(k); return it == A.end() ? d : atol(it->second.c_str()); }
static std::string args(const char* k, const char* d) { auto it = A.find(k); return it == A.end() ? d : it->second; }
static std::mt19937_64 rng;
struct Op { std::string kind; std::string k; int v = 0; bool uniq = false;                      // request
            std::string l, r; scan_endpoint le{}, re{}; std::size_t max = 0; bool rtl = false; long limit = -1; bool ea = false;
            std::string st; int rv = -1; long inv = 0, ret = 0; int t = 0;                       // response
            std::vector<std::pair<std::string, int>> tl; std::string end;
            std::vector<std::pair<node_version64_body, node_version64*>> nv; std::vector<bool> stale; bool probed = false;
            // put report (C12) under concurrency: border version words this call's unlocks advanced vs. the nodes it reported
            std::size_t li0 = 0, li1 = 0; node_version64* mod = nullptr; node_version64* cre = nullptr; int unrep = -1, unbump = -1; };
static std::atomic<long> g_seq{0};
// value encoding: length 8 + 8 * (id % 3), every 4-byte word = id  (a torn or mixed value decodes to -2)
static std::size_t vlen(int id) { return 8 + 8 * (id % 3); }
static void venc(int id, int* buf) { for (std::size_t i = 0; i < vlen(id) / 4; i++) buf[i] = id; }
static int vdec(const void* p, std::size_t len) {
    if (p == nullptr) return -1;
    int id = *(const int*)p; if (id <= 0 || len != vlen(id)) return -2;
    for (std::size_t i = 0; i < len / 4; i++) if (((const int*)p)[i] != id) return -2;
    return id;
}
// inline values (inl=1): the value type is std::uintptr_t, the id is the value itself (stored in the slot word, no heap object)
static bool g_inl = false;
static int vdeci(const void* p) { return p == nullptr ? -1 : (int)(std::uintptr_t)p; }
static std::string valjson_inl(link_or_value* lv) { value* vp = lv->get_value(); if (!vp) return "[\"N\"]"; return "[\"V\"," + std::to_string((int)(std::uintptr_t)vp) + "]"; }
static status xput(Token tk, tree_instance* ti, const std::string& k, int id, bool uniq, inserted_node_info* info) {
    if (g_inl) { std::uintptr_t v = (std::uintptr_t)id; return put<std::uintptr_t>(tk, ti, k, &v, uniq, sizeof(std::uintptr_t), nullptr, static_cast<value_align_type>(alignof(std::uintptr_t)), info); }
    int buf[8]; venc(id, buf); return put<char>(tk, ti, k, (char*)buf, uniq, vlen(id), nullptr, static_cast<value_align_type>(alignof(char)), info);
}
static status xget(tree_instance* ti, const std::string& k, int& rv) {
    if (g_inl) { std::pair<std::uintptr_t*, std::size_t> out{nullptr, 0}; status rc = get<std::uintptr_t>(ti, k, out); rv = rc == status::OK ? vdeci(out.first) : -1; return rc; }
    std::pair<char*, std::size_t> out{nullptr, 0}; status rc = get<char>(ti, k, out); rv = rc == status::OK ? vdec(out.first, out.second) : -1; return rc;
}
template<class NV>
static status xscan(tree_instance* ti, const std::string& l, scan_endpoint le, const std::string& r, scan_endpoint re, std::vector<std::pair<std::string, int>>& res, NV* nv, std::size_t max, bool rtl) {
    if (g_inl) { std::vector<std::tuple<std::string, std::uintptr_t*, std::size_t>> tl; status rc = scan<std::uintptr_t>(ti, l, le, r, re, tl, nv, max, rtl);
        for (auto& e : tl) res.push_back({std::get<0>(e), vdeci(std::get<1>(e))}); return rc; }
    std::vector<std::tuple<std::string, char*, std::size_t>> tl; status rc = scan<char>(ti, l, le, r, re, tl, nv, max, rtl);
    for (auto& e : tl) res.push_back({std::get<0>(e), vdec(std::get<1>(e), std::get<2>(e))}); return rc;
}
static std::string valjson(link_or_value* lv) { value* vp = lv->get_value(); if (!vp) return "[\"N\"]"; return "[\"V\"," + std::to_string(vdec(value::get_body(vp), value::get_len(vp))) + "]"; }
static std::string kb(unsigned char a) { return std::string(1, (char)a); }
// ---- scenario families: initial content + key universe for the operations
struct Scn { std::vector<std::string> init; std::vector<std::string> uni; std::string name; std::vector<std::string> prune; };
static Scn make_scenario(const std::string& fam) {
    Scn s; s.name = fam;
    auto add_uni = [&](std::vector<std::string> c, std::size_t n) { std::shuffle(c.begin(), c.end(), rng); for (std::size_t i = 0; i < c.size() && s.uni.size() < n; i++) if (std::find(s.uni.begin(), s.uni.end(), c[i]) == s.uni.end()) s.uni.push_back(c[i]); };
    if (fam == "border") {            // one border with a few keys
        int n = 1 + rng() % 6; for (int i = 0; i < n; i++) s.init.push_back(kb(10 + 10 * i));
        std::vector<std::string> c = s.init; for (int i = 0; i <= n; i++) c.push_back(kb(5 + 10 * i)); add_uni(c, 4);
    } else if (fam == "full") {       // full border: the next insert splits it (root split -> new interior root)
        for (int i = 0; i < 15; i++) s.init.push_back(kb(10 + 10 * i));
        std::vector<std::string> c = {kb(5), kb(75), kb(85), kb(95), kb(155), kb(80), kb(90), kb(10), kb(150)}; add_uni(c, 4);
    } else if (fam == "two") {        // interior root over 2-3 borders, one of them full / nearly empty
        int n = 16 + rng() % 20; for (int i = 0; i < n; i++) s.init.push_back(kb(4 + 6 * i));
        std::vector<std::string> c; for (int i = 0; i < n; i += 1 + rng() % 4) { c.push_back(kb(4 + 6 * i)); c.push_back(kb(7 + 6 * i)); } add_uni(c, 5);
    } else if (fam == "empty") {      // borders that become empty: removes unlink nodes, collapse interiors
        for (int i = 0; i < 16; i++) s.init.push_back(kb(10 + 10 * i));   // split at the 16th
        // afterwards the right border is thinned out by the programs; universe = keys of the right node and neighbours
        std::vector<std::string> c; for (int i = 8; i < 16; i++) c.push_back(kb(10 + 10 * i)); c.push_back(kb(85)); c.push_back(kb(165)); add_uni(c, 6);
    } else if (fam == "pair") {       // interior root over two borders with 1-2 keys each: removes empty both, the root collapses
        for (int i = 0; i < 16; i++) s.init.push_back(kb(10 + 10 * i));   // split at the 16th: L = 10..80, R = 90..160
        int a = rng() % 8, b = 8 + rng() % 8, a2 = rng() % 3 ? -1 : (int)(rng() % 8), b2 = rng() % 3 ? -1 : 8 + (int)(rng() % 8);
        for (int i = 0; i < 16; i++) if (i != a && i != b && i != a2 && i != b2) s.prune.push_back(kb(10 + 10 * i));
        for (int i : {a, b, a2, b2}) if (i >= 0 && std::find(s.uni.begin(), s.uni.end(), kb(10 + 10 * i)) == s.uni.end()) s.uni.push_back(kb(10 + 10 * i));
        if (rng() % 2) s.uni.push_back(kb(5 + 10 * (rng() % 16)));
    } else if (fam == "chain") {      // three consecutive borders P (full) - N (one key) - X under one interior: N is emptied while P splits
        for (int i = 1; i <= 24; i++) s.init.push_back(kb(10 * i));      // ascending inserts: borders [10..80] [90..160] [170..240]
        for (int i = 1; i <= 7; i++) s.init.push_back(kb(10 + i));        // P = 10, 11..17, 20..80 : 15 entries
        int keep = 9 + rng() % 8; for (int i = 9; i <= 16; i++) if (i != keep) s.prune.push_back(kb(10 * i));
        s.uni.push_back(kb(10 * keep)); s.uni.push_back(kb(rng() % 2 ? 18 : 55)); s.uni.push_back(kb(rng() % 2 ? 170 : 85)); if (rng() % 2) s.uni.push_back(kb(200));
    } else if (fam == "splitdrain") { // interior root over L = 10..80 and a FULL right border R = 90, 91..97, 100..160: a put splits R (100..160 move to the
        // new border) while another thread removes exactly the moved keys, the last remove deletes the new border (lock_parent of a border
        // that has just been linked into its parent)
        for (int i = 0; i < 16; i++) s.init.push_back(kb(10 + 10 * i));
        for (int i = 1; i <= 7; i++) s.init.push_back(kb(90 + i));
        s.uni.push_back(kb(98)); for (int i = 9; i < 16; i++) s.uni.push_back(kb(10 + 10 * i));
    } else if (fam == "collapse2") {  // two interior levels: root N -> X = [S (full border), E (one key)], N -> right interior.  Removing E's key collapses X
        // (S takes X's place in N, N's version unchanged) while S splits and a third thread is on its way N -> X -> S
        auto k2 = [](int v) { std::string k; k.push_back((char)(1 + v / 250)); k.push_back((char)(1 + v % 250)); return k; };
        for (int i = 0; i < 136; i++) s.init.push_back(k2(i * 10));      // ascending: 17 borders of 8, two interiors below the root
        for (int i = 1; i <= 7; i++) s.init.push_back(k2(i));             // S = {0,1..7,10,..,70}: 15 entries
        for (int i = 16; i < 64; i++) s.prune.push_back(k2(i * 10));      // borders 2..7 of the left interior emptied: X = [S, E]
        for (int i = 8; i < 15; i++) s.prune.push_back(k2(i * 10));       // E = {150}
        s.uni = {k2(150), k2(8), k2(75), k2(70)};
    } else if (fam == "links") {      // layer-0 border that holds only links: 2-3 prefixes with 1-3 keys below each; short keys are absent
        std::vector<std::string> pf = {std::string(8, 'p'), std::string(8, 'q'), std::string(8, 'r')}; int np = 2 + rng() % 2;
        for (int i = 0; i < np; i++) { int n = 1 + rng() % 3; for (int j = 0; j < n; j++) s.init.push_back(pf[i] + kb(10 + 10 * j)); }
        std::vector<std::string> c = {"a", "pz", "q", "qz", "s", pf[0] + kb(15), pf[1] + kb(5), std::string(8, 'p').substr(0, 7) + "q"}; add_uni(c, 5);
    } else if (fam == "layer") {      // keys sharing an 8-byte prefix: next-layer root created / grown / removed
        std::string p(8, 'p'); int n = rng() % 4; s.init.push_back("a"); s.init.push_back("z");
        for (int i = 0; i < n; i++) s.init.push_back(p + kb(10 + 10 * i));
        std::vector<std::string> c = {p, p + kb(5), p + kb(10), p + kb(15), p + kb(20), "b", p.substr(0, 7), p + p + kb(1)}; add_uni(c, 5);
    } else if (fam == "layerfull") {  // a full border inside layer 1: split replaces the layer root under the parent border
        std::string p(8, 'q'); s.init.push_back("a");
        for (int i = 0; i < 15; i++) s.init.push_back(p + kb(10 + 10 * i));
        std::vector<std::string> c = {p + kb(5), p + kb(85), p + kb(155), p + kb(80), p, "a", "b"}; add_uni(c, 4);
    } else if (fam == "ddl") {        // storage directory: concurrent create / delete / find of the same names
        std::vector<std::string> c = {std::string("s1"), std::string("a\0b", 3), std::string("a\0bcdefghi", 10), std::string()};
        std::shuffle(c.begin(), c.end(), rng); int n = rng() % 3; for (int i = 0; i < n; i++) s.init.push_back(c[i]);
        s.uni.push_back(c[0]); s.uni.push_back(c[2]); if (rng() % 2) s.uni.push_back(c[3]);
    } else {                          // "three": two interior levels (16 x 16 borders is too large: use ~140 keys -> 2 levels)
        int n = 130 + rng() % 40; for (int i = 0; i < n; i++) { std::string k; k.push_back((char)(i / 16 + 1)); k.push_back((char)(i % 16 * 8 + 4)); s.init.push_back(k); }
        std::vector<std::string> c; for (int j = 0; j < 12; j++) { int i = rng() % n; std::string k; k.push_back((char)(i / 16 + 1)); k.push_back((char)(i % 16 * 8 + 4 + (rng() % 2 ? 0 : 3))); c.push_back(k); } add_uni(c, 6);
    }
    return s;
}
static std::string opjson(const Op& o) {
    std::string j = "{\"t\":" + std::to_string(o.t) + ",\"op\":\"" + o.kind + "\",\"inv\":" + std::to_string(o.inv) + ",\"ret\":" + std::to_string(o.ret) + ",\"st\":\"" + o.st + "\"";
    if (o.kind == "scan" || o.kind == "iscan") {
        j += ",\"l\":" + vh::jbytes(o.l) + ",\"le\":\"" + vh::epname(o.le) + "\",\"r\":" + vh::jbytes(o.r) + ",\"re\":\"" + vh::epname(o.re) + "\",\"max\":" + std::to_string(o.max) + ",\"rtl\":" + vh::jb(o.rtl) + ",\"limit\":" + std::to_string(o.limit) + ",\"ea\":" + vh::jb(o.ea) + ",\"end\":\"" + o.end + "\",\"tl\":[";
        for (std::size_t i = 0; i < o.tl.size(); i++) { if (i) j += ","; j += "[" + vh::jbytes(o.tl[i].first) + "," + std::to_string(o.tl[i].second) + "]"; }
        j += "],\"nvn\":" + std::to_string(o.nv.size()) + ",\"probed\":" + vh::jb(o.probed) + ",\"stale\":[";
        for (std::size_t i = 0; i < o.stale.size(); i++) { if (i) j += ","; j += vh::jb(o.stale[i]); }
        j += "]";
    } else j += ",\"k\":" + vh::jbytes(o.k) + ",\"v\":" + std::to_string(o.v) + ",\"rv\":" + std::to_string(o.rv);
    if (o.unrep >= 0) j += ",\"rep\":{\"n\":" + std::to_string((o.mod ? 1 : 0) + (o.cre ? 1 : 0)) + ",\"unrep\":" + std::to_string(o.unrep) + ",\"unbump\":" + std::to_string(o.unbump) + "}";
    return j + "}";
}
int main(int argc, char** argv) {
    for (int i = 1; i < argc; i++) { std::string a = argv[i]; auto p = a.find('='); if (p != std::string::npos) A[a.substr(0, p)] = a.substr(p + 1); }
    vh::install_fault_handlers(argi("alarm", 120));
    long seed = argi("seed", 1), nscn = argi("scenarios", 20), runs = argi("runs", 10), nth = argi("threads", 2), opsper = argi("opsper", 2);
    long directed = argi("directed", 0); const bool rep = argi("rep", 0) != 0; g_inl = argi("inl", 0) != 0;
    long pscan = argi("scans", 0), piscan = argi("iscans", 0), pre_max = argi("premax", 400);
    std::string fam = args("family", "border"), sched = args("sched", "random");
    rng.seed(seed);
    vs::install(); thread_info_table::init(); if (rep) vs::S.record = true;
    static std::string cur_line;    // what to print if the run aborts (deadlock / livelock)
    vs::S.on_abort = [](const char* why) { printf("{\"e\":\"abort\",\"why\":\"%s\",\"run\":%s}\n", why, cur_line.empty() ? "{}" : cur_line.c_str()); };
    vh::g_flush = [] { printf("{\"e\":\"faultrun\",\"run\":%s}\n", cur_line.empty() ? "{}" : cur_line.c_str()); };
    int vctr = 0; long runid = 0;
    for (long sc = 0; sc < nscn; sc++) {
        Scn scn = make_scenario(fam);
        // thread programs
        std::vector<std::vector<Op>> prog(nth);
        for (long t = 0; t < nth; t++) { long n = 1 + rng() % opsper; for (long i = 0; i < n; i++) {
            Op o; long x = rng() % 100; std::string k = scn.uni[rng() % scn.uni.size()];
            if (x < pscan || x < pscan + piscan) {
                o.kind = x < pscan ? "scan" : "iscan"; o.le = (scan_endpoint)(rng() % 3); o.re = (scan_endpoint)(rng() % 3);
                std::string a = scn.uni[rng() % scn.uni.size()], b = scn.uni[rng() % scn.uni.size()]; if (a > b) std::swap(a, b);
                if (rng() % 3 == 0) { o.le = scan_endpoint::INF; a = ""; } if (rng() % 3 == 0) { o.re = scan_endpoint::INF; b = ""; }
                if (a == b && o.le != scan_endpoint::INF && o.re != scan_endpoint::INF) { o.le = o.re = scan_endpoint::INCLUSIVE; }
                o.l = a; o.r = b; o.max = (rng() % 4 == 0) ? 1 + rng() % 2 : 0;
                if (o.kind == "scan" && rng() % 6 == 0) { o.rtl = true; o.re = scan_endpoint::INF; o.r = ""; o.max = 1; }
                if (o.kind == "iscan") { o.rtl = rng() % 2; o.max = 0; o.ea = false; o.limit = (rng() % 3 == 0) ? (long)(rng() % 3) : -1; }
            } else if (fam == "ddl") { long y = rng() % 100; o.kind = y < 45 ? "create" : y < 85 ? "delete" : "find"; o.k = k; }
            else if (fam == "links") { long y = rng() % 100; o.kind = y < 15 ? "get" : y < 75 ? "put" : y < 85 ? "uput" : "rem"; o.k = k; o.uniq = o.kind == "uput"; }
            else if (fam == "chain") { long y = rng() % 100; o.kind = y < 10 ? "get" : y < 55 ? "put" : "rem"; o.k = k; }
            else if (fam == "pair") { long y = rng() % 100; o.kind = y < 15 ? "get" : y < 35 ? "put" : "rem"; o.k = k; }
            else if (argi("pputs", 0) > 0 && (long)(rng() % 100) < argi("pputs", 0)) { o.kind = rng() % 5 ? "put" : "uput"; o.k = k; o.uniq = o.kind == "uput"; }
            else { long y = rng() % 100; o.kind = y < 30 ? "get" : y < 55 ? "put" : y < 70 ? "uput" : "rem"; o.k = k; o.uniq = o.kind == "uput"; }
            o.t = (int)t + 1; prog[t].push_back(o); } }
        // directed templates (every other scenario of the non-DDL families): patterns that random programs rarely produce
        if (fam != "ddl" && fam != "pair" && fam != "chain" && fam != "collapse2" && fam != "splitdrain" && nth >= 2 && (sc % 2 == 1 || directed == 1) && directed != 2 && !scn.init.empty()) {
            auto rd = [&](std::size_t n) { return (std::size_t)(rng() % n); };
            std::vector<std::string> sorted_init = scn.init; std::sort(sorted_init.begin(), sorted_init.end());
            std::string x = scn.uni[rd(scn.uni.size())]; if (std::find(scn.init.begin(), scn.init.end(), x) == scn.init.end()) x = sorted_init[rd(sorted_init.size())];
            // y: a key that is not present and sorts far from x in the same node / layer (slot reuse puts it where x's rank used to point)
            std::string pre = x.size() > 8 ? x.substr(0, x.size() - 1) : std::string(); unsigned char last = x.empty() ? 0 : (unsigned char)x.back();
            std::vector<std::string> ys; for (int d : {-77, -33, -6, -1, 1, 6, 33, 77}) { int c = (int)last + d; if (c < 1 || c > 254) continue; std::string y = (x.size() > 8 ? pre : x.substr(0, x.size() ? x.size() - 1 : 0)) + std::string(1, (char)c); if (std::find(scn.init.begin(), scn.init.end(), y) == scn.init.end()) ys.push_back(y); }
            std::string y = ys.empty() ? x + "y" : ys[rd(ys.size())];
            if (directed && ys.size() > 2) y = rd(2) ? ys.front() : ys.back();    // far from x: lands beyond x's neighbours
            for (auto& k : {x, y}) if (std::find(scn.uni.begin(), scn.uni.end(), k) == scn.uni.end()) scn.uni.push_back(k);
            auto mk = [&](const char* kind, const std::string& k) { Op o; o.kind = kind; o.k = k; o.uniq = !strcmp(kind, "uput"); return o; };
            auto reader = [&]() { Op o; long z = rng() % 100;
                if (pscan + piscan == 0 || z >= pscan + piscan + 20) return mk("get", rd(2) ? x : y);
                o.kind = (long)(rng() % (pscan + piscan)) < pscan ? "scan" : "iscan"; o.le = scan_endpoint::INF; o.re = scan_endpoint::INF;
                int shape = (int)rd(4);
                if ((fam == "layerfull" || fam == "full") && rd(2)) shape = 2;   // the greatest key moves to a new node when the full border splits
                if (shape == 0) { o.max = 1 + rd(sorted_init.size() < 6 ? sorted_init.size() : 6); }                       // size limited: ends inside a node
                else if (shape == 1) { o.r = sorted_init[rd(sorted_init.size())]; o.re = rd(2) ? scan_endpoint::INCLUSIVE : scan_endpoint::EXCLUSIVE; }  // bounded on the right
                else if (shape == 2 && o.kind == "scan") { o.rtl = true; o.max = 1; }
                else { o.l = sorted_init[rd(sorted_init.size())]; o.le = rd(2) ? scan_endpoint::INCLUSIVE : scan_endpoint::EXCLUSIVE; }
                if (o.kind == "iscan") { o.rtl = rd(2); o.max = 0; o.limit = rd(3) == 0 ? (long)rd(3) : -1; }
                return o; };
            int tpl = (int)rd(4);
            if ((fam == "layerfull" || fam == "full") && rd(2)) tpl = 2;         // insert of a new key into the full border: split under the reader
            for (auto& v : prog) v.clear();
            prog[0].push_back(reader()); if (opsper > 1 && rd(2)) prog[0].push_back(reader());
            if (tpl == 0) { prog[1].push_back(mk("rem", x)); prog[1].push_back(mk("put", y)); }                 // slot reuse by another key
            else if (tpl == 1) { prog[1].push_back(mk("rem", x)); prog[1].push_back(mk(rd(2) ? "put" : "uput", x)); }   // same key removed and re-inserted
            else if (tpl == 2) { prog[1].push_back(mk("put", y)); prog[1].push_back(mk("rem", y)); }             // insert then remove of a new key
            else { prog[1].push_back(mk("put", x)); prog[1].push_back(mk("rem", x)); }                           // update then remove
            for (long t = 2; t < nth; t++) { prog[t].push_back(mk(rd(2) ? "put" : "rem", rd(2) ? x : y)); }
            for (long t = 0; t < nth; t++) for (auto& o : prog[t]) o.t = (int)t + 1;
        }
        // directed=2: lookups of the greatest key of a leaf (last rank) while other keys of the same leaf are removed / re-inserted
        if (directed == 2 && fam != "ddl" && nth >= 2 && scn.init.size() >= 2) {
            std::vector<std::string> si = scn.init; std::sort(si.begin(), si.end());
            std::size_t li = (fam == "border" || si.size() <= 15) ? si.size() - 1 : (rng() % 2 ? si.size() - 1 : 7);   // greatest key of the leaf (full: single leaf; two: left leaf holds ranks 0..7 after an ascending split)
            std::string L = si[li]; std::string o1 = si[li > 0 ? rng() % li : 0], o2 = si[li > 0 ? rng() % li : 0];
            auto mk = [&](const char* kind, const std::string& k) { Op o; o.kind = kind; o.k = k; return o; };
            for (auto& v : prog) v.clear();
            if (pscan > 0) { Op rd; rd.kind = "scan"; rd.le = scan_endpoint::INF; rd.re = scan_endpoint::INF; rd.max = 0; rd.rtl = false; rd.limit = -1;
                             if (rng() % 2) { rd.rtl = true; rd.max = 1; } prog[0].push_back(rd); }      // full scan of the leaf / greatest-key query
            else { prog[0].push_back(mk("get", L)); if (rng() % 2) prog[0].push_back(mk(rng() % 2 ? "put" : "get", L)); }
            prog[1].push_back(mk("rem", o1)); prog[1].push_back(mk(rng() % 2 ? "rem" : "put", rng() % 2 ? o1 : o2));
            for (long t = 2; t < nth; t++) prog[t].push_back(mk("rem", o2));
            for (long t = 0; t < nth; t++) for (auto& o : prog[t]) o.t = (int)t + 1;
            for (auto& k : {L, o1, o2}) if (std::find(scn.uni.begin(), scn.uni.end(), k) == scn.uni.end()) scn.uni.push_back(k);
        }
        // directed=3 (family pair): a full scan / cursor while the left border is emptied (unlinked: its range falls to the right border)
        // and one of its keys is inserted again, now into the border the reader is standing on or about to enter
        if (directed == 3 && fam == "pair" && nth >= 2) {
            std::vector<std::string> left; for (auto& k : scn.init) if (std::find(scn.prune.begin(), scn.prune.end(), k) == scn.prune.end() && (unsigned char)k[0] < 90) left.push_back(k);
            if (!left.empty()) {
                auto mk = [&](const char* kind, const std::string& k) { Op o; o.kind = kind; o.k = k; return o; };
                for (auto& v : prog) v.clear();
                Op rd; rd.kind = (pscan >= piscan) ? "scan" : (rng() % 2 ? "scan" : "iscan"); rd.le = scan_endpoint::INF; rd.re = scan_endpoint::INF; rd.max = 0; rd.rtl = false; rd.limit = -1;
                prog[0].push_back(rd);
                for (auto& k : left) prog[1].push_back(mk("rem", k));
                prog[nth > 2 ? 2 : 1].push_back(mk("put", left[rng() % left.size()]));
                for (long t = 0; t < nth; t++) for (auto& o : prog[t]) o.t = (int)t + 1;
            }
        }
        // directed=4 (family pair): both borders under the interior root are emptied at the same time by two removers (root collapse while
        // the sibling that becomes root is being deleted itself); a third thread reads / re-inserts
        if (fam == "splitdrain" && nth >= 2) {
            auto mk = [&](const char* kind, const std::string& k) { Op o; o.kind = kind; o.k = k; return o; };
            for (auto& v : prog) v.clear();
            prog[0].push_back(mk("put", scn.uni[0]));
            std::vector<std::string> mv(scn.uni.begin() + 1, scn.uni.end()); if (rng() % 2) std::reverse(mv.begin(), mv.end()); else if (rng() % 2) std::shuffle(mv.begin(), mv.end(), rng);
            for (auto& k : mv) prog[1].push_back(mk("rem", k));
            if (nth > 2) prog[2].push_back(mk(rng() % 2 ? "get" : "put", mv[rng() % mv.size()]));
            for (long t = 0; t < nth; t++) for (auto& o : prog[t]) o.t = (int)t + 1;
        }
        if (fam == "collapse2" && nth >= 3) {
            auto mk = [&](const char* kind, const std::string& k) { Op o; o.kind = kind; o.k = k; return o; };
            for (auto& v : prog) v.clear();
            prog[0].push_back(mk("rem", scn.uni[0]));                                   // D: empties E, X collapses
            prog[1].push_back(mk("put", scn.uni[1]));                                   // W: splits S
            long y = rng() % 4;                                                           // P: on its way through N and X to the upper half of S
            prog[2].push_back(y == 0 ? mk("get", scn.uni[3]) : y == 1 ? mk("rem", scn.uni[3]) : mk("put", scn.uni[2]));
            if (rng() % 3 == 0) prog[2].push_back(mk("get", scn.uni[2]));
            for (long t = 0; t < nth; t++) for (auto& o : prog[t]) o.t = (int)t + 1;
        }
        if (directed == 4 && fam == "pair" && nth >= 2) {
            std::vector<std::string> left, right; for (auto& k : scn.init) if (std::find(scn.prune.begin(), scn.prune.end(), k) == scn.prune.end()) ((unsigned char)k[0] < 90 ? left : right).push_back(k);
            if (!left.empty() && !right.empty()) {
                auto mk = [&](const char* kind, const std::string& k) { Op o; o.kind = kind; o.k = k; return o; };
                for (auto& v : prog) v.clear();
                for (auto& k : left) prog[0].push_back(mk("rem", k));
                for (auto& k : right) prog[1].push_back(mk("rem", k));
                if (nth > 2) prog[2].push_back(mk(rng() % 2 ? "get" : "put", rng() % 2 ? left[0] : right[0]));
                for (long t = 0; t < nth; t++) for (auto& o : prog[t]) o.t = (int)t + 1;
            }
        }
        // schedules for this scenario
        long nsched = runs; std::vector<std::vector<std::pair<int, long>>> plans;
        if (sched == "pre1") {   // every single preemption: thread a runs k points, then b (and c) to completion, then a again
            for (int a = 0; a < nth; a++) for (long k = 0; k <= pre_max; k++) { std::vector<std::pair<int, long>> p; if (k > 0) p.push_back({a, k}); for (int b = 0; b < nth; b++) if (b != a) p.push_back({b, 1000000}); p.push_back({a, 1000000}); plans.push_back(p); }
            nsched = (long)plans.size();
        }
        // pre2 (three threads, roles of the collapse2 family: 0 = D, 1 = W, 2 = P): W runs until just before it locks its border, D runs
        // until it holds the lock of the interior it collapses, then W, P, D, P, W, P (and W, P, D, W, P) each as far as they get.  The two windows are taken
        // from two solo runs (first lock CAS of W; the last two lock CASes of D = collapsing interior and its parent)
        long pW = -1, pX = -1, pN = -1;
        if (sched == "pre2") { plans.push_back({{1, 1000000}, {0, 1000000}, {2, 1000000}}); plans.push_back({{0, 1000000}, {1, 1000000}, {2, 1000000}}); nsched = 2; vs::S.record = true; }
        std::vector<bool> thread_len_known(nth, false); std::vector<long> thread_len(nth, 0);
        for (long r = 0; r < nsched; r++) {
            if (sched == "pre1") { int a = plans[r].size() == (std::size_t)nth ? -1 : plans[r][0].first; long k = a < 0 ? 0 : plans[r][0].second;
                if (a >= 0 && thread_len_known[a] && k >= thread_len[a]) continue; }
            // build the initial tree
            tree_instance ti_local; const bool ddl = fam == "ddl"; tree_instance& ti = ddl ? *storage::get_storages() : ti_local;
            Token setup{}; enter(setup); std::vector<std::pair<std::string, int>> initv;
            if (ddl) for (auto& k : scn.init) { create_storage(k); initv.push_back({k, 1}); }
            else for (auto& k : scn.init) { int id = ++vctr; xput(setup, &ti, k, id, false, nullptr); initv.push_back({k, id}); }
            for (auto& k : scn.prune) { remove(setup, &ti, k); initv.erase(std::remove_if(initv.begin(), initv.end(), [&](const std::pair<std::string, int>& e) { return e.first == k; }), initv.end()); }
            std::vector<Token> tok(nth); for (auto& t : tok) enter(t);
            std::vector<std::vector<Op>> ops = prog; for (auto& v : ops) for (auto& o : v) if (o.kind == "put" || o.kind == "uput") o.v = ++vctr;
            g_seq = 0;
            std::vector<std::function<void()>> bodies;
            for (long t = 0; t < nth; t++) bodies.push_back([&, t] {
                for (auto& o : ops[t]) {
                    o.inv = ++g_seq;
                    if (o.kind == "get") { status rc = xget(&ti, o.k, o.rv); o.st = vh::stname(rc); }
                    else if (o.kind == "put" || o.kind == "uput") { inserted_node_info info{}; o.li0 = vs::S.log.size();
                        status rc = xput(tok[t], &ti, o.k, o.v, o.uniq, rep ? &info : nullptr); o.st = vh::stname(rc);
                        o.li1 = vs::S.log.size(); o.mod = info.modified_nvp; o.cre = info.created_nvp; }
                    else if (o.kind == "rem") { status rc = remove(tok[t], &ti, o.k); o.st = vh::stname(rc); }
                    else if (o.kind == "create") { status rc = create_storage(o.k); o.st = vh::stname(rc); o.v = 1; }
                    else if (o.kind == "delete") { status rc = delete_storage(o.k); o.st = vh::stname(rc); }
                    else if (o.kind == "find") { status rc = find_storage(o.k); o.st = vh::stname(rc); o.rv = rc == status::OK ? 1 : -1; }
                    else if (o.kind == "scan") { status rc = xscan(&ti, o.l, o.le, o.r, o.re, o.tl, &o.nv, o.max, o.rtl); o.st = vh::stname(rc); }
                    else if (o.kind == "iscan") {
                        // through the tree_instance overload (no storage lookup); INF left endpoint is normalised as the named API does
                        std::string lk = o.l; scan_endpoint le = o.le; if (le == scan_endpoint::INF) { lk = ""; le = scan_endpoint::INCLUSIVE; }
                        iscan_context* ctx = nullptr; void* val = nullptr; auto cb = [&](node_version64* p, node_version64_body b) { o.nv.emplace_back(b, p); return false; };
                        status rc = (check_empty_scan_range(o.l, o.le, o.r, o.re) != status::OK) ? status::ERR_BAD_USAGE : iscan_open(&ti, lk, le, o.r, o.re, ctx, val, cb, o.rtl, o.ea);
                        o.st = vh::stname(rc); long n = 0;
                        while (rc == status::OK) { std::string fk = ctx->full_key(); value* dummy = nullptr; (void)dummy;
                            // the cursor returns only the body pointer: the length is recovered from the value header in front of it
                            int id = g_inl ? vdeci(val) : val ? *(int*)val : -1; o.tl.push_back({fk, g_inl ? id : (val && id > 0) ? vdec(val, vlen(id)) : -1}); n++;
                            if (o.limit >= 0 && n > o.limit) break; rc = iscan_next(ctx, val, cb); }
                        o.end = vh::stname(rc); if (ctx) iscan_close(ctx);
                    }
                    o.ret = ++g_seq;
                }
            });
            // describe the run (also printed if it aborts)
            std::string head = "{\"e\":\"run\",\"id\":" + std::to_string(++runid) + ",\"fam\":\"" + fam + "\",\"scn\":" + std::to_string(sc) + ",\"sched\":\"" + sched + "\",\"r\":" + std::to_string(r) + ",\"seed\":" + std::to_string(seed);
            if (sched == "pre1" || sched == "pre2") { head += ",\"plan\":["; for (std::size_t i = 0; i < plans[r].size(); i++) { if (i) head += ","; head += "[" + std::to_string(plans[r][i].first) + "," + std::to_string(plans[r][i].second) + "]"; } head += "]"; }
            head += ",\"init\":["; for (std::size_t i = 0; i < initv.size(); i++) { if (i) head += ","; head += "[" + vh::jbytes(initv[i].first) + "," + std::to_string(initv[i].second) + "]"; } head += "]";
            head += ",\"prog\":["; bool f = true; for (auto& v : prog) for (auto& o : v) { if (!f) head += ","; f = false; head += "[" + std::to_string(o.t) + ",\"" + o.kind + "\"," + vh::jbytes(o.kind == "scan" || o.kind == "iscan" ? o.l : o.k) + "]"; } head += "]";
            cur_line = head + "}";
            if (sched == "pre1" || sched == "pre2") { vs::S.strat = vs::PLAN; vs::S.plan = plans[r]; }
            else if (sched == "pct") { vs::S.strat = vs::PCT; vs::S.rng.seed(seed * 7919 + sc * 131 + r); for (int i = 0; i < nth; i++) vs::S.prio[i] = (int)(vs::S.rng() % 1000); vs::S.change_points.clear(); for (int i = 0; i < 2; i++) vs::S.change_points.push_back(1 + vs::S.rng() % 150); }
            else { vs::S.strat = vs::RANDOM; vs::S.rng.seed(seed * 7919 + sc * 131 + r); vs::S.switch_pct = 10 + (int)(vs::S.rng() % 50); }
            if (sched == "free") {
                // real parallel threads, no scheduler: hardware interleavings (x86-TSO); only call / return order numbers are recorded,
                // taken before the call and after the return, which can only widen the intervals
                std::atomic<int> go{0}; std::vector<std::thread> th;
                for (long t = 0; t < nth; t++) th.emplace_back([&, t] { go++; while (go.load() < nth) { _mm_pause(); } for (volatile int d = (int)(rng() % 200); d > 0; d--) {} bodies[t](); });
                for (auto& x : th) x.join(); vs::S.steps = 0;
            } else
            vs::run(bodies, (int)(vs::S.rng() % nth));
            if (sched == "pre1" && plans[r].size() > (std::size_t)nth) { int a = plans[r][0].first; long k = plans[r][0].second; if (vs::S.points[a] <= k || vs::S.pi == 0) { thread_len_known[a] = true; thread_len[a] = vs::S.points[a]; } }
            long steps = vs::S.steps;
            if (sched == "pre2" && r < 2) {
                std::vector<long> locks; long n = 0; int who = r == 0 ? 1 : 0;
                for (auto& e : vs::S.log) if (e.t == who) { n++; if (e.kind == verif::k_ver_cas && e.a == 1) locks.push_back(n); }
                if (r == 0 && !locks.empty()) pW = locks[0];
                if (r == 1 && locks.size() >= 2) { pX = locks[locks.size() - 2]; pN = locks.back(); }
                if (r == 1 && pW > 0 && pX > 0) {
                    for (long ka = std::max(1L, pW - 10); ka < pW; ka++) for (long kb = pX; kb <= pN + 4; kb++)
                        { plans.push_back({{1, ka}, {0, kb}, {1, 1000000}, {2, 1000000}, {0, 1000000}, {2, 1000000}, {1, 1000000}, {2, 1000000}});
                        if (ka == pW - 1) plans.push_back({{1, ka}, {0, kb}, {1, 1000000}, {2, 1000000}, {0, 1000000}, {1, 1000000}, {2, 1000000}}); }
                    nsched = (long)plans.size();
                }
            }
            // C12 under concurrency: per put, the border version words whose counters this call's own unlocks advanced (lock .. unlock of
            // the same thread; a border created locked by a split counts from its version copy) against the reported nodes
            if (rep && sched != "free") for (long t = 0; t < nth; t++) for (auto& o : ops[t]) if (o.kind == "put" || o.kind == "uput") {
                auto cnt = [](std::uint64_t w) { node_version64_body b; memcpy((void*)&b, &w, 8); return std::make_pair((std::uint64_t)b.get_vinsert_delete(), (std::uint64_t)b.get_vsplit()); };
                auto bod = [](std::uint64_t w) { node_version64_body b; memcpy((void*)&b, &w, 8); return b; };
                std::map<const void*, std::pair<std::uint64_t, std::uint64_t>> base; std::set<const void*> bumped;
                for (std::size_t i = o.li0; i < o.li1 && i < vs::S.log.size(); i++) { auto& e = vs::S.log[i]; if (e.t != (int)t) continue;
                    if (e.kind == verif::k_ver_cas && e.a == 1) base[e.obj] = cnt(e.peek);
                    else if (e.kind == verif::k_ver_store && bod(e.peek).get_locked() && !base.count(e.obj)) base[e.obj] = cnt(e.peek);
                    else if (e.kind == verif::k_ver_cas && e.a == 2 && base.count(e.obj)) { if (cnt(e.peek) != base[e.obj] && bod(e.peek).get_border()) bumped.insert(e.obj); base.erase(e.obj); } }
                std::set<const void*> reported; if (o.st == "OK" && o.mod) reported.insert(o.mod); if (o.st == "OK" && o.cre) reported.insert(o.cre);
                o.unrep = 0; o.unbump = 0; for (auto* b : bumped) if (!reported.count(b)) o.unrep++; for (auto* r2 : reported) if (!bumped.count(r2)) o.unbump++;
            }
            // quiescent view: node-version probes of scans, point lookups of the universe, full scan, structure dump
            for (auto& v : ops) for (auto& o : v) if (!o.nv.empty()) { o.probed = true; for (auto& pr : o.nv) o.stale.push_back(!(pr.second->get_stable_version() == pr.first)); }
            std::string out = head + ",\"steps\":" + std::to_string(steps) + ",\"ops\":["; f = true;
            for (auto& v : ops) for (auto& o : v) { if (!f) out += ","; f = false; out += opjson(o); }
            out += "],\"final\":[";
            std::vector<std::string> allk = scn.uni; for (auto& kv : initv) if (std::find(allk.begin(), allk.end(), kv.first) == allk.end()) allk.push_back(kv.first);
            std::sort(allk.begin(), allk.end());
            for (std::size_t i = 0; i < allk.size(); i++) { int fv = -1;
                if (ddl) { fv = find_storage(allk[i]) == status::OK ? 1 : -1; } else { xget(&ti, allk[i], fv); }
                if (i) out += ","; out += "[" + vh::jbytes(allk[i]) + "," + std::to_string(fv) + "]"; }
            out += "],\"fscan\":[";
            if (ddl) { std::vector<std::pair<std::string, tree_instance*>> ls; list_storages(ls); for (std::size_t i = 0; i < ls.size(); i++) { if (i) out += ","; out += "[" + vh::jbytes(ls[i].first) + ",1]"; } }
            else { std::vector<std::pair<std::string, int>> tl; xscan(&ti, "", scan_endpoint::INF, "", scan_endpoint::INF, tl, (std::vector<std::pair<node_version64_body, node_version64*>>*)nullptr, 0, false);
              for (std::size_t i = 0; i < tl.size(); i++) { if (i) out += ","; out += "[" + vh::jbytes(tl[i].first) + "," + std::to_string(tl[i].second) + "]"; } }
            out += "],\"uni\":["; for (std::size_t i = 0; i < scn.uni.size(); i++) { if (i) out += ","; out += vh::jbytes(scn.uni[i]); } out += "]";
            if (ddl && ti.load_root_ptr() == nullptr) out += ",\"dump\":{\"root\":0,\"nodes\":[]}";
            else { vh::Canon c(&ti); out += ",\"dump\":" + vh::dump_json(c, ddl ? std::function<std::string(link_or_value*)>([](link_or_value* lv) { return std::string(lv->get_value() ? "[\"V\",1]" : "[\"N\"]"); }) : std::function<std::string(link_or_value*)>(g_inl ? valjson_inl : valjson)); }
            out += "}"; puts(out.c_str());
            for (auto& t : tok) leave(t); leave(setup);
            if (ddl) destroy();
            else if (auto* rt = ti.load_root_ptr()) { rt->destroy(); delete rt; ti.store_root_ptr(nullptr); }
        }
    }
    thread_info_table::fin();
    return 0;
}

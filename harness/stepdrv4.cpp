// Step-level conformance driver for YkConc4 (border split under an existing interior parent, interior insert, interior delete with
// shift, collapse of the root racing with a split that then creates a new root): the tree is an interior root P (node 4) over
// the borders B1 (node 1) and B2 (node 2); one of them is FULL (15 entries), the other holds one key.  Threads 0..2 run one
// operation each on the real code under seeded random / PCT schedules; every hooked shared-memory access of B1, B2, the border a
// split allocates (B3, node 3), P, a new root interior (P2, node 5), the root pointer and the root lock is logged with the value
// read / written.  Runs are separated by {"e":"reset", ...full initial content}.  Judged by TraceConc4.tla.
// usage: stepdrv4 prog=op:k,op:k,op:k full=1|2 runs=N seed=S [sched=pct]
#include "vh_json.h"
#include "vh_fault.h"
#include "vh_sched.h"
#include <algorithm>
#include <map>
using namespace yakushima;
static std::map<std::string, std::string> A;
static long argi(const char* k, long d) { auto it = A.find(k); return it == A.end() ? d : atol(it->second.c_str()); }
static int word_id(std::uint64_t w) {   // slot word -> value id (0 = cleared)
    const std::uint64_t flag = 1ULL << 62; if (w == flag || w == 0) return 0; if (w & (1ULL << 63)) return -9;
    value* vp = reinterpret_cast<value*>(w); return *(int*)value::get_body(vp);
}
static std::string verj(std::uint64_t w) { node_version64_body b; memcpy(&b, &w, 8);
    return std::string("{\"lk\":") + vh::jb(b.get_locked()) + ",\"ins\":" + vh::jb(b.get_inserting_deleting()) + ",\"spl\":" + vh::jb(b.get_splitting()) + ",\"del\":" + vh::jb(b.get_deleted()) + ",\"root\":" + vh::jb(b.get_root()) + ",\"vi\":" + std::to_string(b.get_vinsert_delete()) + ",\"vs\":" + std::to_string(b.get_vsplit()) + "}"; }
static std::string permj(std::uint64_t b) { std::string o = "["; int c = b & 15; for (int i = 0; i < c; i++) { if (i) o += ","; o += std::to_string((int)((b >> (4 * (i + 1))) & 15)); } return o + "]"; }
static std::uint64_t vw(base_node* n) { std::uint64_t w; auto b = n->get_version(); memcpy(&w, &b, 8); return w; }
static std::vector<int> ilist(const std::string& g) { std::vector<int> v; std::size_t p = 0; while (p < g.size()) { v.push_back(atoi(g.c_str() + p)); p = g.find(',', p); if (p == std::string::npos) break; p++; } return v; }
struct POp { std::string op; int k; };
int main(int argc, char** argv) {
    for (int i = 1; i < argc; i++) { std::string a = argv[i]; auto p = a.find('='); if (p != std::string::npos) A[a.substr(0, p)] = a.substr(p + 1); }
    vh::install_fault_handlers(60);
    long runs = argi("runs", 20), seed = argi("seed", 1);
    int full = (int)argi("full", 2);
    std::vector<POp> P; { std::string g = A.count("prog") ? A["prog"] : "put:21,get:32,get:21"; std::size_t p = 0; while (p < g.size()) { std::size_t c = g.find(':', p), e = g.find(',', p); if (e == std::string::npos) e = g.size(); P.push_back({g.substr(p, c - p), atoi(g.c_str() + c + 1)}); p = e + 1; } }
    bool pct = A.count("sched") && A["sched"] == "pct";
    vs::install(); thread_info_table::init();
    vs::S.record = true; vs::S.yield_on_key_load = false;
    vs::S.on_abort = [](const char* why) { printf("{\"e\":\"abort\",\"why\":\"%s\"}\n", why); };
    {   // meta line: the programs and the initial key sets (constants of the trace specification)
        std::string m = "{\"e\":\"meta\",\"prog\":["; for (std::size_t i = 0; i < P.size(); i++) { if (i) m += ","; m += "{\"op\":\"" + P[i].op + "\",\"k\":" + std::to_string(P[i].k) + ",\"v\":" + std::to_string((int)i + 1) + "}"; }
        m += "],\"full\":" + std::to_string(full) + "}"; puts(m.c_str());
    }
    for (long r = 0; r < runs; r++) {
        tree_instance ti; Token setup{}; enter(setup);
        for (int i = 1; i <= 16; i++) { int id = 100 + 2 * i; int buf[2] = {id, id}; std::string k(1, (char)(2 * i)); put<char>(setup, &ti, k, (char*)buf, false, 8); }
        // B1 = 2..16, B2 = 18..32 (8 entries each); fill one of them to 15 with the odd keys, prune the other to its first key
        for (int i = 1; i <= 7; i++) { int k = (full == 1 ? 2 : 18) + 2 * i - 1 + (i >= 2 ? 2 : 0); /* odd keys, one gap: 5 / 21 stays absent */ int id = 100 + k; int buf[2] = {id, id}; put<char>(setup, &ti, std::string(1, (char)k), (char*)buf, false, 8); }
        for (int i = 1; i <= 7; i++) { int k = (full == 1 ? 18 : 2) + 2 * i; remove(setup, &ti, std::string(1, (char)k)); }
        interior_node* PI = dynamic_cast<interior_node*>(ti.load_root_ptr()); if (!PI || PI->get_n_keys() != 1) { fprintf(stderr, "unexpected shape\n"); return 2; }
        base_node* Pn = PI; border_node* L = dynamic_cast<border_node*>(PI->get_child_at(0)); border_node* R = dynamic_cast<border_node*>(PI->get_child_at(1));
        auto bjson = [&](border_node* b) { std::string o = "{\"ver\":" + verj(vw(b)) + ",\"perm\":" + permj(b->permutation_.get_body()) + ",\"ks\":["; permutation pm{b->permutation_.get_body()};
            std::vector<int> ks(15, 0), lvv(15, 0); for (std::size_t r2 = 0; r2 < pm.get_cnk(); r2++) { auto ix = pm.get_index_of_rank(r2); auto sl = b->get_key_slice_at(ix); ks[ix] = (int)((unsigned char*)&sl)[0]; lvv[ix] = word_id(*(std::uint64_t*)b->get_lv_at(ix)); }
            for (int q = 0; q < 15; q++) { if (q) o += ","; o += std::to_string(ks[q]); } o += "],\"lv\":["; for (int q = 0; q < 15; q++) { if (q) o += ","; o += std::to_string(lvv[q]); } return o + "]}"; };
        auto sep = PI->get_key_slice_at(0);
        std::string reset = "{\"e\":\"reset\",\"run\":" + std::to_string(r) + ",\"b\":[" + bjson(L) + "," + bjson(R) + "],\"p\":{\"ver\":" + verj(vw(PI)) + ",\"key0\":" + std::to_string((int)((unsigned char*)&sep)[0]) + "}}";
        std::size_t nth = P.size();
        std::vector<Token> tok(nth); for (auto& t : tok) enter(t);
        struct Mark { std::size_t pos; std::string js; }; std::vector<Mark> M;
        std::vector<std::function<void()>> bodies;
        for (std::size_t t = 0; t < nth; t++) bodies.push_back([&, t] {
            std::string T = std::to_string(t); std::string k(1, (char)P[t].k);
            M.push_back({vs::S.log.size(), "{\"e\":\"inv\",\"t\":" + T + "}"});
            std::string st; int w = 0;
            if (P[t].op == "get") { std::pair<char*, std::size_t> out{nullptr, 0}; status rc = get<char>(&ti, k, out); st = rc == status::OK ? "OK" : "NOT_EXIST"; w = rc == status::OK ? (out.first ? *(int*)out.first : 0) : 0; }
            else if (P[t].op == "put") { int id = (int)t + 1; int buf[2] = {id, id}; status rc = put<char>(tok[t], &ti, k, (char*)buf, false, 8); st = rc == status::OK ? "OK" : "OTHER"; }
            else if (P[t].op == "scan" || P[t].op == "rscan") { std::vector<std::tuple<std::string, char*, std::size_t>> tl; std::vector<std::pair<node_version64_body, node_version64*>> nv;
                bool rtl = P[t].op == "rscan"; scan<char>(&ti, "", scan_endpoint::INF, "", scan_endpoint::INF, tl, &nv, rtl ? 1 : 0, rtl); st = "OK";
                std::string ws = "["; for (std::size_t i = 0; i < tl.size(); i++) { if (i) ws += ","; char* p = std::get<1>(tl[i]); ws += "[" + std::to_string((int)(unsigned char)std::get<0>(tl[i])[0]) + "," + std::to_string(p ? *(int*)p : 0) + "]"; } ws += "]";
                M.push_back({vs::S.log.size(), "{\"e\":\"ret\",\"t\":" + T + ",\"st\":\"OK\",\"w\":" + ws + ",\"nvn\":" + std::to_string(nv.size()) + "}"}); return; }
            else if (P[t].op == "iscan") { long nvn = 0; auto cb = [&](node_version64*, node_version64_body) { nvn++; return false; };
                iscan_context* ctx = nullptr; void* val = nullptr; status rc = iscan_open(&ti, "", scan_endpoint::INCLUSIVE, "", scan_endpoint::INF, ctx, val, cb, false, false);
                std::string ws = "["; bool first = true;
                while (rc == status::OK) { std::string fk = ctx->full_key(); if (!first) ws += ","; first = false; ws += "[" + std::to_string((int)(unsigned char)fk[0]) + "," + std::to_string(val ? *(int*)val : 0) + "]"; rc = iscan_next(ctx, val, cb); }
                ws += "]"; if (ctx) iscan_close(ctx);
                M.push_back({vs::S.log.size(), "{\"e\":\"ret\",\"t\":" + T + ",\"st\":\"OK\",\"w\":" + ws + ",\"nvn\":" + std::to_string(nvn) + "}"}); return; }
            else { status rc = remove(tok[t], &ti, k); st = rc == status::OK ? "OK" : rc == status::OK_NOT_FOUND ? "NOT_FOUND" : "OTHER"; }
            M.push_back({vs::S.log.size(), "{\"e\":\"ret\",\"t\":" + T + ",\"st\":\"" + st + "\",\"w\":" + std::to_string(w) + "}"});
        });
        vs::S.rng.seed(seed * 1000003 + r);
        if (pct) { vs::S.strat = vs::PCT; vs::S.change_points.clear(); for (int i = 0; i < 3; i++) vs::S.change_points.push_back(1 + (long)(vs::S.rng() % 200)); for (std::size_t i = 0; i < nth; i++) vs::S.prio[i] = (int)(vs::S.rng() % 1000) + 10; }
        else { vs::S.strat = vs::RANDOM; vs::S.switch_pct = 5 + (int)(vs::S.rng() % 60); }
        vs::run(bodies, (int)(vs::S.rng() % nth));
        // ---- render
        puts(reset.c_str());
        auto inb = [](const void* o, const void* base, std::size_t sz) { return base && (const char*)o >= (const char*)base && (const char*)o < (const char*)base + sz; };
        // nodes allocated by the run: the border of a split (B3) and a new root interior (P2)
        border_node* B3 = nullptr; for (border_node* b : {L, R}) { border_node* x = b->get_next(); if (x && x != L && x != R) B3 = x; }
        if (!B3) for (border_node* b : {L, R}) { border_node* x = b->get_prev(); if (x && x != L && x != R) B3 = x; }
        base_node* rt = ti.load_root_ptr(); interior_node* P2 = (rt && !rt->get_version_border() && rt != Pn) ? dynamic_cast<interior_node*>(rt) : nullptr;
        if (!B3 && P2) { for (int c = 0; c <= P2->get_n_keys(); c++) { base_node* x = P2->get_child_at(c); if (x != L && x != R) B3 = dynamic_cast<border_node*>(x); } }
        if (!B3) { for (int c = 0; c <= PI->get_n_keys(); c++) { base_node* x = PI->get_child_at(c); if (x && x != L && x != R && x->get_version_border()) B3 = dynamic_cast<border_node*>(x); } }
        auto nid = [&](std::uint64_t p) { return (void*)p == (void*)L ? 1 : (void*)p == (void*)R ? 2 : (B3 && (void*)p == (void*)B3) ? 3 : (void*)p == (void*)Pn ? 4 : (P2 && (void*)p == (void*)P2) ? 5 : p == 0 ? 0 : -1; };
        std::size_t mi = 0;
        for (std::size_t i = 0; i <= vs::S.log.size(); i++) {
            while (mi < M.size() && M[mi].pos == i) puts(M[mi++].js.c_str());
            if (i == vs::S.log.size()) break;
            auto& e = vs::S.log[i]; const char* o = (const char*)e.obj; std::string T = std::to_string(e.t); using namespace verif;
            if (e.kind == k_cas || e.kind == k_spin) continue;
            if (o == (const char*)&ti.root_) { printf("{\"e\":\"%s\",\"t\":%s,\"n\":%d}\n", e.kind == k_load ? "root_load" : "root_store", T.c_str(), nid(e.peek)); continue; }
            if (o == (const char*)&ti.root_lock_) { if (e.kind == k_root_lock || e.kind == k_root_unlock) printf("{\"e\":\"%s\",\"t\":%s}\n", e.kind == k_root_lock ? "root_lock" : "root_unlock", T.c_str()); continue; }
            int n = inb(o, L, sizeof(border_node)) ? 1 : inb(o, R, sizeof(border_node)) ? 2 : inb(o, B3, sizeof(border_node)) ? 3 : inb(o, PI, sizeof(interior_node)) ? 4 : inb(o, P2, sizeof(interior_node)) ? 5 : 0;
            if (!n) continue;
            base_node* bn = n == 1 ? (base_node*)L : n == 2 ? (base_node*)R : n == 3 ? (base_node*)B3 : n == 4 ? Pn : (base_node*)P2;
            if (o == (const char*)bn->get_version_ptr()) {
                if (e.kind == k_ver_load) printf("{\"e\":\"ver_load\",\"t\":%s,\"n\":%d,\"ver\":%s}\n", T.c_str(), n, verj(e.peek).c_str());
                else if (e.kind == k_ver_cas) printf("{\"e\":\"%s\",\"t\":%s,\"n\":%d,\"ver\":%s}\n", e.a == 1 ? "lock" : e.a == 2 ? "unlock" : "flag", T.c_str(), n, verj(e.peek).c_str());
                else if (e.kind == k_ver_store) printf("{\"e\":\"ver_store\",\"t\":%s,\"n\":%d,\"ver\":%s}\n", T.c_str(), n, verj(e.peek).c_str());
                continue;
            }
            if (o == (const char*)&bn->parent_) { printf("{\"e\":\"%s\",\"t\":%s,\"n\":%d,\"p\":%d}\n", e.kind == k_load ? "parent_load" : "parent_store", T.c_str(), n, nid(e.peek)); continue; }
            if (n >= 4) {
                interior_node* in = n == 4 ? PI : P2;
                if (o == (const char*)&in->n_keys_) { printf("{\"e\":\"%s\",\"t\":%s,\"n\":%d,\"v\":%d}\n", e.kind == k_load ? "nkeys_load" : "nkeys_store", T.c_str(), n, (int)(e.peek & 0xff)); continue; }
                const char* c0 = (const char*)&in->children[0];
                if (o >= c0 && o < c0 + sizeof(in->children)) { int ci = (int)((o - c0) / sizeof(base_node*)); printf("{\"e\":\"%s\",\"t\":%s,\"n\":%d,\"i\":%d,\"c\":%d}\n", e.kind == k_load ? "child_load" : "child_store", T.c_str(), n, ci, nid(e.peek)); continue; }
                if (e.kind == k_bulk_store || e.kind == k_store) printf("{\"e\":\"p_other_store\",\"t\":%s,\"n\":%d}\n", T.c_str(), n);
                continue;
            }
            border_node* b = n == 1 ? L : n == 2 ? R : B3;
            if (o == (const char*)&b->permutation_) { printf("{\"e\":\"%s\",\"t\":%s,\"n\":%d,\"perm\":%s}\n", e.kind == k_perm_load ? "perm_load" : "perm_store", T.c_str(), n, permj(e.peek).c_str()); continue; }
            if (o == (const char*)&b->next_) { printf("{\"e\":\"%s\",\"t\":%s,\"n\":%d,\"x\":%d}\n", e.kind == k_load ? "next_load" : "next_store", T.c_str(), n, nid(e.peek)); continue; }
            if (o == (const char*)&b->prev_) { printf("{\"e\":\"%s\",\"t\":%s,\"n\":%d,\"x\":%d}\n", e.kind == k_load ? "prev_load" : "prev_store", T.c_str(), n, nid(e.peek)); continue; }
            const char* lv0 = (const char*)&b->lv_[0];
            if (o >= lv0 && o < lv0 + 15 * sizeof(link_or_value)) { int slot = (int)((o - lv0) / sizeof(link_or_value));
                if (e.kind == k_load) printf("{\"e\":\"lv_load\",\"t\":%s,\"n\":%d,\"slot\":%d,\"w\":%d}\n", T.c_str(), n, slot, word_id(e.peek));
                else if (e.kind == k_store) printf("{\"e\":\"lv_store\",\"t\":%s,\"n\":%d,\"slot\":%d,\"w\":%d}\n", T.c_str(), n, slot, word_id(e.peek));
                continue; }
            if (e.kind == k_store || e.kind == k_bulk_store) printf("{\"e\":\"other_store\",\"t\":%s,\"n\":%d,\"off\":%d}\n", T.c_str(), n, (int)(o - (const char*)b));
        }
        printf("{\"e\":\"end\"}\n");
        for (auto& t : tok) leave(t); leave(setup);
        if (auto* rt = ti.load_root_ptr()) { rt->destroy(); delete rt; ti.store_root_ptr(nullptr); }
    }
    thread_info_table::fin();
    return 0;
}

// Sequential driver at structure level: random put / unique-put / remove / get / scan / iscan / mem_usage on one storage
// through the public API, with canonical structure dumps, node-version sets and phantom probes; ndjson for TraceTree.tla.
// usage: treedrv key=value ...   (seed, nops, pool, maxlen, alpha, mode, pput, prem, pget, pscan, piscan, pmem, pprobe, dumpevery, dumpall, legacy)
#include "vh_dump.h"
#include "vh_fault.h"
#include <algorithm>
#include <cstring>
#include <functional>
#include <random>
#include <set>
using namespace yakushima;
static std::map<std::string, std::string> A;
static long argi(const char* k, long d) { auto it = A.find(k); return it == A.end() ? d : atol(it->second.c_str()); }
static std::string args(const char* k, const char* d) { auto it = A.find(k); return it == A.end() ? d : it->second; }
static std::mt19937 rng;
static const unsigned char AL[] = {0, 1, 255, 7, 9, 254, 128, 2};
static std::string valjson(link_or_value* lv) {
    value* vp = lv->get_value();
    if (vp == nullptr) return "[\"N\"]";
    if (!value::is_value_ptr(vp)) return "[\"V\"," + std::to_string((int)(std::uintptr_t)vp) + "]";   // inline value (inlpct): the id is the slot word
    return "[\"V\"," + std::to_string(*(int*)value::get_body(vp)) + "]";
}
static bool in_range(const std::string& k, const std::string& l, scan_endpoint le, const std::string& r, scan_endpoint re) {
    if (le != scan_endpoint::INF) { int c = l.compare(k); if (c > 0 || (c == 0 && le == scan_endpoint::EXCLUSIVE)) return false; }
    if (re != scan_endpoint::INF) { int c = k.compare(r); if (c > 0 || (c == 0 && re == scan_endpoint::EXCLUSIVE)) return false; }
    return true;
}
int main(int argc, char** argv) {
    for (int i = 1; i < argc; i++) { std::string a = argv[i]; auto p = a.find('='); if (p != std::string::npos) A[a.substr(0, p)] = a.substr(p + 1); }
    vh::install_fault_handlers(argi("alarm", 40));
    rng.seed(argi("seed", 1));
    long nops = argi("nops", 300), pool = argi("pool", 60), maxlen = argi("maxlen", 4), alpha = argi("alpha", 3);
    long pput = argi("pput", 40), prem = argi("prem", 20), pget = argi("pget", 10), pscan = argi("pscan", 15), piscan = argi("piscan", 10), pmem = argi("pmem", 5);
    long pprobe = argi("pprobe", 50), dumpevery = argi("dumpevery", 10), dumpall = argi("dumpall", 0), legacy = argi("legacy", 10), uniqp = argi("uniq", 20);
    std::string mode = args("mode", "short");
    // key pool
    std::vector<std::string> keys; std::set<std::string> probe_only;
    auto rnd_bytes = [&](int len) { std::string k; for (int j = 0; j < len; j++) k.push_back((char)AL[rng() % alpha]); return k; };
    std::vector<std::string> prefixes;
    for (int i = 0; i < 3; i++) prefixes.push_back(rnd_bytes(8));
    prefixes.push_back(std::string(8, (char)255)); prefixes.push_back(prefixes[0] + rnd_bytes(8)); prefixes.push_back(prefixes[0] + std::string(8, (char)255));
    for (long i = 0; i < pool; i++) {
        std::string k;
        if (mode == "deep" && i == 0) prefixes[0][0] = (char)255;   // the deep layers hold the greatest keys (right-to-left scans end there)
        if (mode == "deep") {        // next layers that are trees of their own: tens of keys under one 8-byte and one 16-byte prefix
            int w = rng() % 10; k = w < 5 ? prefixes[0] : w < 8 ? prefixes[0] + prefixes[1] : w < 9 ? prefixes[2] : std::string();
            k += rnd_bytes(w < 9 ? 1 + rng() % 2 : rng() % (maxlen + 1));
        }
        else if (mode == "linksonly") {   // upper borders hold next-layer links only; short keys exist in the pool but are inserted by phantom probes only
            if (i % 10 < 3) { k = rnd_bytes(rng() % 9); probe_only.insert(k); }
            else { k = prefixes[rng() % 3]; if (rng() % 4 == 0) k += prefixes[rng() % 2]; k += rnd_bytes(1 + rng() % (maxlen > 0 ? maxlen : 1)); }
        }
        else if (mode == "boundary") { static const unsigned char B3[] = {0, 1, 255}; k = std::string(8, (char)0); k[0] = (char)B3[rng() % 3]; k[1] = (char)B3[rng() % 3]; k[7] = (char)B3[rng() % 3];
                                  int L = rng() % 12; if (L <= 8) k.resize(L); else { std::string t(L - 8, (char)0); for (auto& ch : t) ch = (char)B3[rng() % 3]; k += t; } }
        else if (mode == "short") k = rnd_bytes(rng() % (maxlen + 1));
        else if (mode == "prefix") { k = (rng() % 4 == 0) ? std::string() : prefixes[rng() % prefixes.size()]; if (rng() % 5 == 0) k.resize(rng() % (k.size() + 1)); k += rnd_bytes(rng() % (maxlen + 1)); }
        else { k = (rng() % 2) ? rnd_bytes(rng() % (maxlen + 1)) : prefixes[rng() % prefixes.size()] + rnd_bytes(rng() % (maxlen + 1)); }
        keys.push_back(k);
    }
    auto pick = [&]() { return keys[rng() % keys.size()]; };
    auto endkey = [&]() { if (rng() % 12 == 0) return std::string(8, (char)255) + rnd_bytes(rng() % 3);   // endpoints behind the all-FF slice
        std::string k = pick(); int m = rng() % 6; if (m == 0 && !k.empty()) k.pop_back(); else if (m == 1) k.push_back((char)AL[rng() % alpha]); else if (m == 2) k.push_back(0); else if (m == 3) k = rnd_bytes(rng() % (maxlen + 2)); return k; };
    // both endpoints below one 8- or 16-byte prefix that usually has no entry in the tree (the read covers a gap between two slices)
    long ppair = argi("ppair", 0);
    auto pair_endkeys = [&](std::string& lk, std::string& rk) {
        std::string Q = (rng() % 2) ? rnd_bytes(8) : prefixes[rng() % 3] + rnd_bytes(8);
        lk = Q + rnd_bytes(1 + rng() % 2); rk = Q + rnd_bytes(1 + rng() % 2); if (lk > rk) std::swap(lk, rk);
    };
    init();
    const std::string st = "t";
    create_storage(st);
    tree_instance* ti{}; find_storage(st, &ti);
    Token tok{}; enter(tok);
    std::map<std::string, bool> present;   // only to choose probe candidates and the op mix, never to judge
    printf("{\"op\":\"meta\",\"szb\":%zu,\"szi\":%zu,\"szlv\":%zu,\"szp\":%zu,\"F\":%zu}\n", sizeof(border_node), sizeof(interior_node), sizeof(link_or_value), sizeof(uintptr_t), (std::size_t)key_slice_length);
    // last read's node version set (raw) for probing
    std::vector<std::pair<node_version64_body, node_version64*>> last_nv; bool have_read = false;
    std::string rd_l, rd_r; scan_endpoint rd_le{}, rd_re{};
    int vctr = 0;
    auto nvjson = [&](const std::vector<std::pair<node_version64_body, node_version64*>>& nv, const vh::Canon& c) {
        std::string o = "["; for (std::size_t q = 0; q < nv.size(); q++) { if (q) o += ","; o += "[" + std::to_string(c.ofver(nv[q].second)) + "," + std::to_string(nv[q].first.get_vinsert_delete()) + "," + std::to_string(nv[q].first.get_vsplit()) + "]"; } return o + "]"; };
    auto EPS = [&]() { return (scan_endpoint)(rng() % 3); };
    auto do_put = [&](const std::string& k, bool uniq, bool probe, long opno) {
        int vid = ++vctr; int buf[64] = {vid, 0};
        // values of different lengths and alignments (mem_usage must account for the allocated size = length + max(alignment, 8))
        std::size_t vlen = 8, valign = 8; if (argi("valmix", 0)) { vlen = 8 + rng() % 200; static const std::size_t AS[] = {1, 8, 16, 32, 64, 128}; valign = AS[rng() % 6]; }
        // snapshot versions of all borders before the call
        vh::Canon pre(ti); std::map<base_node*, node_version64_body> before;
        for (auto* n : pre.ord) if (n->get_version_border()) before[n] = n->get_version();
        // ONE report object is reused for all puts (as a caller that keeps it in its transaction context does): whatever an earlier call left
        // in it must not show up in a later report
        static inserted_node_info info{nullptr, nullptr}; node_version64* legacy_nvp = nullptr; char* created = nullptr; bool use_legacy = (long)(rng() % 100) < legacy;
        status rc;
        // inlpct: that share of the puts stores an INLINE value (std::uintptr_t: the word lives in the slot, nothing is allocated: mem_usage
        // must count 0 bytes for it; seed C20d).  Only profiles without get / scan / iscan use it (those read values as char bodies).
        bool inl = argi("inlpct", 0) > 0 && (long)(rng() % 100) < argi("inlpct", 0);
        if (inl) { std::uintptr_t w = (std::uintptr_t)vid; std::uintptr_t* cr = nullptr; vlen = 0; valign = 0;
            if (use_legacy) rc = put<std::uintptr_t>(tok, st, k, &w, sizeof(w), &cr, (value_align_type)alignof(std::uintptr_t), uniq, &legacy_nvp);
            else rc = put<std::uintptr_t>(tok, st, k, &w, sizeof(w), &cr, (value_align_type)alignof(std::uintptr_t), uniq, &info); }
        else if (use_legacy) rc = put<char>(tok, st, k, (char*)buf, vlen, &created, (value_align_type)valign, uniq, &legacy_nvp);
        else rc = put<char>(tok, st, k, (char*)buf, vlen, &created, (value_align_type)valign, uniq, &info);
        vh::Canon post(ti);
        std::string changed = "[", newb = "["; bool f1 = true, f2 = true;
        for (auto* n : post.ord) if (n->get_version_border()) {
            auto it = before.find(n);
            if (it == before.end()) { if (!f2) newb += ","; f2 = false; newb += std::to_string(post.of(n)); }
            else if (!(it->second == n->get_version())) { if (!f1) changed += ","; f1 = false; changed += std::to_string(post.of(n)); }
        }
        changed += "]"; newb += "]";
        node_version64* mod = use_legacy ? legacy_nvp : info.modified_nvp; node_version64* cre = use_legacy ? nullptr : info.created_nvp;
        bool modex = false, crex = false; for (auto& kv : before) { if (kv.first->get_version_ptr() == mod) modex = true; if (kv.first->get_version_ptr() == cre) crex = true; }
        std::string o = "{\"op\":\"put\",\"k\":" + vh::jbytes(k) + ",\"v\":" + std::to_string(vid) + ",\"uniq\":" + vh::jb(uniq) + ",\"st\":\"" + vh::stname(rc) + "\"";
        o += std::string(",\"legacy\":") + vh::jb(use_legacy) + ",\"rep\":[" + std::to_string(post.ofver(mod)) + "," + std::to_string(post.ofver(cre)) + "],\"modex\":" + vh::jb(modex) + ",\"crex\":" + vh::jb(crex) + ",\"changed\":" + changed + ",\"newb\":" + newb;
        o += std::string(",\"cpok\":") + vh::jb(inl || rc != status::OK || (created != nullptr && *(int*)created == vid));
        o += ",\"vsz\":" + std::to_string(inl ? 0 : vlen + (valign < 8 ? 8 : valign));
        if (probe) {
            o += ",\"probe\":["; for (std::size_t q = 0; q < last_nv.size(); q++) { if (q) o += ","; o += vh::jb(!(last_nv[q].second->get_stable_version() == last_nv[q].first)); } o += "]";
        }
        bool dump = dumpall || probe || (dumpevery > 0 && opno % dumpevery == 0);
        if (dump) o += ",\"dump\":" + vh::dump_json(post, valjson);
        o += "}"; puts(o.c_str());
        if (rc == status::OK) present[k] = true;
        have_read = false;
    };
    auto do_mem = [&]() {   // mem_usage, always with a dump
        auto mu = mem_usage(st); vh::Canon c(ti);
        std::string o = "{\"op\":\"mem\",\"stack\":["; for (std::size_t q = 0; q < mu.size(); q++) { if (q) o += ","; o += "[" + std::to_string(std::get<0>(mu[q])) + "," + std::to_string(std::get<1>(mu[q])) + "," + std::to_string(std::get<2>(mu[q])) + "]"; }
        o += "],\"dump\":" + vh::dump_json(c, valjson) + "}"; puts(o.c_str());
    };
    // preamble: ascending two-byte keys (every border keeps 8 entries, interiors fill up completely: 16 children at 128 keys)
    for (long i = 0, n = argi("ascend", 0); i < n; i++) {
        std::string k; k.push_back((char)(1 + i / 200)); k.push_back((char)(1 + i % 200));
        if (std::find(keys.begin(), keys.end(), k) == keys.end()) keys.push_back(k);
        do_put(k, false, false, 0);
        if (i % 16 == 15 || (i >= 118 && i < 140)) do_mem();
    }
    // preamble: split sweep.  A family of 16 keys in one border (short keys, 7-byte / exactly-8-byte keys and next-layer links of the same
    // slice), in layer 0 and below an 8-byte prefix: for every j the 15 others are inserted, then key j arrives as the 16th and splits
    // the full border at its rank; dump, point lookups of all 16, then everything is removed again
    if (argi("splitsweep", 0)) {
        auto do_rem = [&](const std::string& k) { status rc = remove(tok, st, k); std::string o = "{\"op\":\"rem\",\"k\":" + vh::jbytes(k) + ",\"st\":\"" + vh::stname(rc) + "\"}"; puts(o.c_str()); if (rc == status::OK) present[k] = false; };
        auto do_get = [&](const std::string& k) { std::pair<char*, std::size_t> out{nullptr, 0}; std::pair<node_version64_body, node_version64*> cv{}; status rc = get<char>(st, k, out, &cv); vh::Canon c(ti);
            std::string o = "{\"op\":\"get\",\"k\":" + vh::jbytes(k) + ",\"st\":\"" + vh::stname(rc) + "\"";
            if (rc == status::OK) o += ",\"v\":" + std::string(out.first ? std::to_string(*(int*)out.first) : "-1") + ",\"len\":" + std::to_string(out.second);
            else o += ",\"nv\":[[" + std::to_string(c.ofver(cv.second)) + "," + std::to_string(cv.first.get_vinsert_delete()) + "," + std::to_string(cv.first.get_vsplit()) + "]]";
            o += "}"; puts(o.c_str()); };
        for (int variant = 0; variant < 6; variant++) {
            std::string pre = variant % 2 ? std::string(8, 'L') : std::string(); int nsmall = 5 + variant / 2;      // 5..7 one-byte keys in front: the P / Q tuples land on different ranks
            std::vector<std::string> fam; for (int i = 0; i < nsmall; i++) fam.push_back(std::string(1, (char)('A' + i)));
            for (std::string x : {std::string(7, 'P'), std::string(8, 'P'), std::string(8, 'P') + "x", std::string(8, 'Q'), std::string(8, 'Q') + "yz"}) fam.push_back(x);
            for (int i = 0; fam.size() < 16; i++) fam.push_back("Z" + std::string(1, (char)('a' + i)));
            for (auto& k : fam) k = pre + k;
            std::sort(fam.begin(), fam.end());
            for (auto& k : fam) if (std::find(keys.begin(), keys.end(), k) == keys.end()) keys.push_back(k);
            for (std::size_t j = 0; j < fam.size(); j++) {
                for (std::size_t i = 0; i < fam.size(); i++) if (i != j) do_put(fam[i], false, false, 0);
                do_put(fam[j], false, false, 0); do_mem();
                for (auto& k : fam) do_get(k);
                if (j % 2) for (auto& k : fam) do_rem(k); else for (std::size_t i = fam.size(); i-- > 0;) do_rem(fam[i]);
            }
        }
    }
    // preamble: interior split next to separators that differ from their neighbours only in length.  128 ascending keys "0", x\0^j
    // (x = 16 letters, j = 0..7): 16 borders of 8 under a full root interior whose separators are the 8-byte keys x\0^7; then child c is
    // filled so that its 16th key splits it with the ONE-byte key x as new separator, right below the separator x\0^7 (for c = 7: the
    // pivot of the interior split); dump, point lookups of every key, everything removed again
    if (argi("isplitlen", 0)) {
        auto do_rem = [&](const std::string& k) { status rc = remove(tok, st, k); std::string o = "{\"op\":\"rem\",\"k\":" + vh::jbytes(k) + ",\"st\":\"" + vh::stname(rc) + "\"}"; puts(o.c_str()); if (rc == status::OK) present[k] = false; };
        auto do_get = [&](const std::string& k) { std::pair<char*, std::size_t> out{nullptr, 0}; std::pair<node_version64_body, node_version64*> cv{}; status rc = get<char>(st, k, out, &cv); vh::Canon c(ti);
            std::string o = "{\"op\":\"get\",\"k\":" + vh::jbytes(k) + ",\"st\":\"" + vh::stname(rc) + "\"";
            if (rc == status::OK) o += ",\"v\":" + std::string(out.first ? std::to_string(*(int*)out.first) : "-1") + ",\"len\":" + std::to_string(out.second);
            else o += ",\"nv\":[[" + std::to_string(c.ofver(cv.second)) + "," + std::to_string(cv.first.get_vinsert_delete()) + "," + std::to_string(cv.first.get_vsplit()) + "]]";
            o += "}"; puts(o.c_str()); };
        int variant = 0;
        for (int c : {7, 6, 8, 1}) {
            std::vector<std::string> seq; seq.push_back("0");
            for (int g = 0; g < 16; g++) for (int j = 0; j < 8; j++) seq.push_back(std::string(1, (char)('A' + g)) + std::string(j, '\0'));
            seq.resize(128);
            std::vector<std::string> all = seq;
            for (auto& k : seq) { if (std::find(keys.begin(), keys.end(), k) == keys.end()) keys.push_back(k); do_put(k, false, false, 0); }
            do_mem();
            // child c = [x_{c-1}\0^7, x_c, x_c\0 .. x_c\0^6]: eight keys x_{c-1}\1 .. x_{c-1}\8 behind its first key
            for (int f = 1; f <= 8; f++) { std::string k = std::string(1, (char)('A' + c - 1)) + std::string(1, (char)f); all.push_back(k);
                if (std::find(keys.begin(), keys.end(), k) == keys.end()) keys.push_back(k); do_put(k, false, false, 0); }
            do_mem();
            for (auto& k : all) do_get(k);
            std::sort(all.begin(), all.end());
            if (variant++ % 2) std::reverse(all.begin(), all.end());
            for (auto& k : all) do_rem(k);
        }
    }
    // preamble: paused cursors over structural changes that random profiles did not produce (both found first by the exhaustive model MC_IscanW):
    //  (a) a next layer with an interior root over two borders; the cursor (4 combinations of direction / early_abort) is paused on the first
    //      key of the layer, every key of ITS border is removed (the interior root collapses, the other border becomes the layer root), resumed
    //  (b) three borders in layer 0; an early_abort cursor is paused on the last key of its border, that border AND the next one are emptied
    if (argi("cursorsweep", 0)) {
        auto key9 = [](int x) { std::string k(8, 'A'); k.push_back((char)x); return k; };
        auto emit_mod = [&](const std::string& lk, scan_endpoint le, const std::string& rk, scan_endpoint re, bool rtl, bool ea, const std::function<bool(const std::string&, long)>& stop, const std::vector<std::string>& rems) {
            std::vector<std::pair<node_version64_body, node_version64*>> nv; auto cb = [&](node_version64* p, node_version64_body b) { nv.emplace_back(b, p); return false; };
            iscan_context* ctx = nullptr; void* val = nullptr; status rc = iscan_open(st, lk, le, rk, re, rtl, ea, ctx, val, cb);
            std::string o2 = "{\"op\":\"iscanmod\",\"l\":" + vh::jbytes(lk) + ",\"le\":\"" + vh::epname(le) + "\",\"r\":" + vh::jbytes(rk) + ",\"re\":\"" + vh::epname(re) + "\",\"rtl\":" + vh::jb(rtl) + ",\"ea\":" + vh::jb(ea) + ",\"st\":\"" + vh::stname(rc) + "\",\"steps1\":[";
            long got = 0; std::string last;
            while (rc == status::OK) { last = ctx->full_key(); if (got) o2 += ","; o2 += "[" + vh::jbytes(last) + "," + (val ? std::to_string(*(int*)val) : std::string("-1")) + "]"; got++; if (stop(last, got)) break; rc = iscan_next(ctx, val, cb); }
            o2 += "],\"st1\":\"" + std::string(vh::stname(rc)) + "\",\"mids\":[";
            if (rc == status::OK) {
                bool f = true; for (auto& k : rems) { status mrc = remove(tok, st, k); if (mrc == status::OK) present[k] = false; if (!f) o2 += ","; f = false; o2 += "{\"op\":\"rem\",\"k\":" + vh::jbytes(k) + ",\"v\":0,\"st\":\"" + vh::stname(mrc) + "\"}"; }
                o2 += "],\"steps2\":["; long n2 = 0; rc = iscan_next(ctx, val, cb);
                while (rc == status::OK) { std::string fk = ctx->full_key(); if (n2) o2 += ","; o2 += "[" + vh::jbytes(fk) + "," + (val ? std::to_string(*(int*)val) : std::string("-1")) + "]"; n2++; if (n2 > 400) break; rc = iscan_next(ctx, val, cb); }
                o2 += "],\"end\":\"" + std::string(vh::stname(rc)) + "\""; { vh::Canon c2(ti); o2 += ",\"dump\":" + vh::dump_json(c2, valjson); }
            } else o2 += "],\"steps2\":[],\"end\":\"" + std::string(vh::stname(rc)) + "\"";
            o2 += "}"; puts(o2.c_str()); if (ctx) iscan_close(ctx); have_read = false; };
        for (int combo = 0; combo < 4; combo++) { bool rtl = combo & 1, ea = combo & 2;
            std::vector<std::string> ks = {"0", "z"}; for (int i = 1; i <= 16; i++) ks.push_back(key9(i));
            for (auto& k : ks) { if (std::find(keys.begin(), keys.end(), k) == keys.end()) keys.push_back(k); do_put(k, false, false, 0); }
            std::vector<std::string> rems; if (!rtl) for (int i = 1; i <= 8; i++) rems.push_back(key9(i)); else for (int i = 9; i <= 16; i++) rems.push_back(key9(i));
            emit_mod("", scan_endpoint::INF, "", scan_endpoint::INF, rtl, ea, [](const std::string& k, long) { return k.size() == 9; }, rems);
            for (auto& k : ks) if (present[k]) { status rc = remove(tok, st, k); std::string o = "{\"op\":\"rem\",\"k\":" + vh::jbytes(k) + ",\"st\":\"" + vh::stname(rc) + "\"}"; puts(o.c_str()); if (rc == status::OK) present[k] = false; }
        }
        //  (c) a layer whose root border is full below a layer-0 border that is full as well and holds the link in its upper half; the cursor
        //      is paused on the first key of the layer; the 16th key of the layer splits its root AND / OR a 16th short key splits the layer-0
        //      border (the link moves to the new border); resumed (F20: the layer must not be taken for removed)
        //  (d) = variant 3: the layer's root border is split by a 16th key and the border the cursor stands in (the old root) is emptied afterwards:
        //      the interior root collapses, the saved layer root is a DELETED BORDER although the layer lives on (F21)
        for (int variant = 0; variant < 4; variant++) {
            auto key9m = [](int x) { std::string k(8, 'm'); k.push_back((char)x); return k; };
            std::vector<std::string> ks; for (char c = 'a'; c <= 'h'; c++) ks.push_back(std::string(1, c)); for (char c = 'n'; c <= 's'; c++) ks.push_back(std::string(1, c));
            for (int i = 1; i <= 15; i++) ks.push_back(key9m(i));
            for (auto& k : ks) { if (std::find(keys.begin(), keys.end(), k) == keys.end()) keys.push_back(k); do_put(k, false, false, 0); }
            std::vector<std::pair<node_version64_body, node_version64*>> nv; auto cb = [&](node_version64* p, node_version64_body b) { nv.emplace_back(b, p); return false; };
            iscan_context* ctx = nullptr; void* val = nullptr; status rc = iscan_open(st, "", scan_endpoint::INF, "", scan_endpoint::INF, false, false, ctx, val, cb);
            std::string o2 = "{\"op\":\"iscanmod\",\"l\":[],\"le\":\"INF\",\"r\":[],\"re\":\"INF\",\"rtl\":false,\"ea\":false,\"st\":\"" + std::string(vh::stname(rc)) + "\",\"steps1\":[";
            long got = 0; while (rc == status::OK) { std::string fk = ctx->full_key(); if (got) o2 += ","; o2 += "[" + vh::jbytes(fk) + "," + (val ? std::to_string(*(int*)val) : std::string("-1")) + "]"; got++; if (fk.size() == 9) break; rc = iscan_next(ctx, val, cb); }
            o2 += "],\"st1\":\"" + std::string(vh::stname(rc)) + "\",\"mids\":["; bool f = true;
            std::vector<std::string> ins; if (variant != 1) ins.push_back(key9m(16)); if (variant != 2 && variant != 3) ins.push_back("t");
            for (auto& k : ins) { int vid = ++vctr; int buf[2] = {vid, 0}; status mrc = put<char>(tok, st, k, (char*)buf, 8); if (mrc == status::OK) present[k] = true; if (std::find(keys.begin(), keys.end(), k) == keys.end()) keys.push_back(k);
                if (!f) o2 += ","; f = false; o2 += "{\"op\":\"put\",\"k\":" + vh::jbytes(k) + ",\"v\":" + std::to_string(vid) + ",\"st\":\"" + vh::stname(mrc) + "\"}"; ks.push_back(k); }
            if (variant == 3) for (int i = 1; i <= 8; i++) { std::string k = key9m(i); status mrc = remove(tok, st, k); if (mrc == status::OK) present[k] = false;
                if (!f) o2 += ","; f = false; o2 += "{\"op\":\"rem\",\"k\":" + vh::jbytes(k) + ",\"v\":0,\"st\":\"" + vh::stname(mrc) + "\"}"; }
            o2 += "],\"steps2\":["; long n2 = 0; rc = iscan_next(ctx, val, cb);
            while (rc == status::OK) { std::string fk = ctx->full_key(); if (n2) o2 += ","; o2 += "[" + vh::jbytes(fk) + "," + (val ? std::to_string(*(int*)val) : std::string("-1")) + "]"; n2++; if (n2 > 400) break; rc = iscan_next(ctx, val, cb); }
            o2 += "],\"end\":\"" + std::string(vh::stname(rc)) + "\""; { vh::Canon c2(ti); o2 += ",\"dump\":" + vh::dump_json(c2, valjson); } o2 += "}"; puts(o2.c_str()); if (ctx) iscan_close(ctx); have_read = false;
            for (auto& k : ks) if (present[k]) { status rc2 = remove(tok, st, k); std::string o = "{\"op\":\"rem\",\"k\":" + vh::jbytes(k) + ",\"st\":\"" + vh::stname(rc2) + "\"}"; puts(o.c_str()); if (rc2 == status::OK) present[k] = false; }
        }
        for (int variant = 0; variant < 2; variant++) {
            std::vector<std::string> ks; for (int i = 1; i <= 24; i++) ks.push_back(std::string(1, (char)i));
            for (auto& k : ks) { if (std::find(keys.begin(), keys.end(), k) == keys.end()) keys.push_back(k); do_put(k, false, false, 0); }
            std::vector<std::string> rems; for (int i = 1; i <= (variant == 0 ? 16 : 8); i++) rems.push_back(std::string(1, (char)i));
            emit_mod("", scan_endpoint::INF, "", scan_endpoint::INF, false, true, [](const std::string&, long n) { return n == 8; }, rems);
            for (auto& k : ks) if (present[k]) { status rc = remove(tok, st, k); std::string o = "{\"op\":\"rem\",\"k\":" + vh::jbytes(k) + ",\"st\":\"" + vh::stname(rc) + "\"}"; puts(o.c_str()); if (rc == status::OK) present[k] = false; }
        }
    }
    long psweep = argi("psweep", 0), pdrain = argi("pdrain", 0); std::vector<std::string> sweep;   // sorted runs of removes that empty whole borders
    for (long opno = 1; opno <= nops; opno++) {
        long x = rng() % 100; long acc = 0;
        if (sweep.empty() && pdrain > 0 && (long)(rng() % 1000) < pdrain) {     // remove every key: the emptied root border stays, flagged deleted
            for (auto& kv : present) if (kv.second) sweep.push_back(kv.first);
            if (rng() % 2) std::reverse(sweep.begin(), sweep.end());
        }
        if (sweep.empty() && psweep > 0 && (long)(rng() % 1000) < psweep) {
            std::vector<std::string> pk; for (auto& kv : present) if (kv.second) pk.push_back(kv.first);
            if (pk.size() > 4) { std::size_t len = 6 + rng() % 40, from = rng() % pk.size(); int how = rng() % 3;
                if (how == 0) from = 0; if (how == 1) from = pk.size() > len ? pk.size() - len : 0;
                for (std::size_t q = from; q < pk.size() && q < from + len; q++) sweep.push_back(pk[q]);
                if (rng() % 2) std::reverse(sweep.begin(), sweep.end()); }
        }
        if (!sweep.empty()) {
            std::string k = sweep.back(); sweep.pop_back(); status rc = remove(tok, st, k);
            std::string o = "{\"op\":\"rem\",\"k\":" + vh::jbytes(k) + ",\"st\":\"" + vh::stname(rc) + "\"";
            if (dumpall || (dumpevery > 0 && opno % dumpevery == 0)) { vh::Canon c(ti); o += ",\"dump\":" + vh::dump_json(c, valjson); }
            o += "}"; puts(o.c_str()); if (rc == status::OK) present[k] = false; have_read = false; continue;
        }
        // phantom probe right after a read that collected node versions
        if (have_read && (long)(rng() % 100) < pprobe) {
            std::vector<std::string> cand; for (auto& k : keys) if (!present[k] && in_range(k, rd_l, rd_le, rd_r, rd_re)) cand.push_back(k);
            if (cand.empty() && rd_l.size() > 8 && rd_r.size() > 8 && rd_l.compare(0, 8, rd_r, 0, 8) == 0) {   // a gap read: keys below the common prefix
                std::size_t cp = 0; while (cp < rd_l.size() && cp < rd_r.size() && rd_l[cp] == rd_r[cp]) cp++; cp = cp / 8 * 8;
                for (int t = 0; t < 12; t++) { std::string k = rd_l.substr(0, cp) + rnd_bytes(1 + rng() % 3); if (!present[k] && in_range(k, rd_l, rd_le, rd_r, rd_re)) cand.push_back(k); }
            }
            if (cand.empty()) { for (int t = 0; t < 3; t++) { std::string k = endkey(); if (!present[k]) cand.push_back(k); } }
            if (!cand.empty()) { std::string k = cand[rng() % cand.size()]; if (std::find(keys.begin(), keys.end(), k) == keys.end()) keys.push_back(k); do_put(k, false, true, opno); continue; }
        }
        if (x < (acc += pput)) { std::string k = pick(); for (int tries = 0; tries < 20 && probe_only.count(k); tries++) k = pick(); if (!probe_only.count(k)) do_put(k, (long)(rng() % 100) < uniqp, false, opno); continue; }
        if (x < (acc += prem)) {
            std::string k = pick(); status rc = remove(tok, st, k);
            std::string o = "{\"op\":\"rem\",\"k\":" + vh::jbytes(k) + ",\"st\":\"" + vh::stname(rc) + "\"";
            if (dumpall || (dumpevery > 0 && opno % dumpevery == 0)) { vh::Canon c(ti); o += ",\"dump\":" + vh::dump_json(c, valjson); }
            o += "}"; puts(o.c_str()); if (rc == status::OK) present[k] = false; have_read = false; continue;
        }
        if (x < (acc += pget)) {
            std::string k = pick(); std::pair<char*, std::size_t> out{nullptr, 0}; std::pair<node_version64_body, node_version64*> cv{};
            status rc = get<char>(st, k, out, &cv); vh::Canon c(ti);
            std::string o = "{\"op\":\"get\",\"k\":" + vh::jbytes(k) + ",\"st\":\"" + vh::stname(rc) + "\"";
            if (rc == status::OK) o += ",\"v\":" + std::string(out.first ? std::to_string(*(int*)out.first) : "-1") + ",\"len\":" + std::to_string(out.second);
            else { o += ",\"nv\":[[" + std::to_string(c.ofver(cv.second)) + "," + std::to_string(cv.first.get_vinsert_delete()) + "," + std::to_string(cv.first.get_vsplit()) + "]]";
                   last_nv.clear(); last_nv.push_back(cv); have_read = cv.second != nullptr; rd_l = rd_r = k; rd_le = rd_re = scan_endpoint::INCLUSIVE; }
            o += "}"; puts(o.c_str()); continue;
        }
        if (x < (acc += pscan)) {
            std::string lk = endkey(), rk = endkey(); scan_endpoint le = EPS(), re = EPS(); std::size_t mx = (rng() % 3 == 0) ? 1 + rng() % 3 : 0; bool rtl = (long)(rng() % 100) < argi("prtl", 12);
            if ((long)(rng() % 100) < ppair) { pair_endkeys(lk, rk); if (rng() % 3) { le = rng() % 2 ? scan_endpoint::INCLUSIVE : scan_endpoint::EXCLUSIVE; re = rng() % 2 ? scan_endpoint::INCLUSIVE : scan_endpoint::EXCLUSIVE; } }
            if (rtl && rng() % 4) { re = scan_endpoint::INF; mx = 1; }
            if (le != scan_endpoint::INF && re != scan_endpoint::INF && lk > rk && rng() % 4) std::swap(lk, rk);
            std::vector<std::tuple<std::string, char*, std::size_t>> tl; std::vector<std::pair<node_version64_body, node_version64*>> nv;
            status rc = scan<char>(st, lk, le, rk, re, tl, &nv, mx, rtl); vh::Canon c(ti);
            std::string o = "{\"op\":\"scan\",\"l\":" + vh::jbytes(lk) + ",\"le\":\"" + vh::epname(le) + "\",\"r\":" + vh::jbytes(rk) + ",\"re\":\"" + vh::epname(re) + "\",\"max\":" + std::to_string(mx) + ",\"rtl\":" + vh::jb(rtl) + ",\"st\":\"" + vh::stname(rc) + "\",\"tl\":[";
            for (std::size_t q = 0; q < tl.size(); q++) { if (q) o += ","; char* vp = std::get<1>(tl[q]); o += "[" + vh::jbytes(std::get<0>(tl[q])) + "," + (vp ? std::to_string(*(int*)vp) : std::string("-1")) + "," + std::to_string(std::get<2>(tl[q])) + "]"; }
            o += "],\"nv\":" + nvjson(nv, c) + "}"; puts(o.c_str());
            if (rc == status::OK) { last_nv = nv; have_read = true; rd_l = lk; rd_r = rk; rd_le = le; rd_re = re;
                if (mx != 0 && tl.size() >= mx && !rtl) { rd_r = std::get<0>(tl.back()); rd_re = scan_endpoint::INCLUSIVE; }
                if (rtl && !tl.empty()) { rd_l = std::get<0>(tl.front()); rd_le = scan_endpoint::INCLUSIVE; } }
            continue;
        }
        if (x < (acc += piscan)) {
            std::string lk = endkey(), rk = endkey(); scan_endpoint le = EPS(), re = EPS(); bool rtl = rng() % 2; bool ea = rng() % 4 == 0;
            if ((long)(rng() % 100) < ppair) { pair_endkeys(lk, rk); if (rng() % 3) { le = rng() % 2 ? scan_endpoint::INCLUSIVE : scan_endpoint::EXCLUSIVE; re = rng() % 2 ? scan_endpoint::INCLUSIVE : scan_endpoint::EXCLUSIVE; } }
            if (le != scan_endpoint::INF && re != scan_endpoint::INF && lk > rk && rng() % 4) std::swap(lk, rk);
            long limit = (rng() % 3 == 0) ? (long)(rng() % 4) : -1;   // number of entries to consume (-1: until the end)
            std::vector<std::pair<node_version64_body, node_version64*>> nv;
            auto cb = [&](node_version64* p, node_version64_body b) { nv.emplace_back(b, p); return false; };
            iscan_context* ctx = nullptr; void* val = nullptr;
            status rc = iscan_open(st, lk, le, rk, re, rtl, ea, ctx, val, cb);
            std::string o = "{\"op\":\"iscan\",\"l\":" + vh::jbytes(lk) + ",\"le\":\"" + vh::epname(le) + "\",\"r\":" + vh::jbytes(rk) + ",\"re\":\"" + vh::epname(re) + "\",\"rtl\":" + vh::jb(rtl) + ",\"ea\":" + vh::jb(ea) + ",\"limit\":" + std::to_string(limit) + ",\"st\":\"" + vh::stname(rc) + "\",\"steps\":[";
            long n = 0; std::string lastkey; bool gotany = false, ended = false;
            // cursor paused by the caller, a write into the tree (often into the node under the cursor), cursor resumed
            long modafter = ((long)(rng() % 100) < argi("pmod", 0) && rc == status::OK) ? 1 + (long)(rng() % 3) : -1;
            if (modafter > 0 && rng() % 3 == 0) {
                // prefix scan over one next layer, paused inside it, then every key of that layer is removed, then resumed
                std::vector<std::string> longk; for (auto& kv : present) if (kv.second && kv.first.size() > 8) longk.push_back(kv.first);
                if (!longk.empty()) {
                    if (ctx) iscan_close(ctx); ctx = nullptr; nv.clear();
                    std::string P = longk[rng() % longk.size()].substr(0, 8); std::string hi = P; int q = 7; while (q >= 0 && (unsigned char)hi[q] == 255) q--;
                    if (q >= 0) { hi[q] = (char)((unsigned char)hi[q] + 1); hi.resize(q + 1); }
                    lk = P; le = scan_endpoint::INCLUSIVE; rk = q >= 0 ? hi : std::string(); re = q >= 0 ? scan_endpoint::EXCLUSIVE : scan_endpoint::INF; ea = false;
                    rc = iscan_open(st, lk, le, rk, re, rtl, ea, ctx, val, cb);
                    std::string o2 = "{\"op\":\"iscanmod\",\"l\":" + vh::jbytes(lk) + ",\"le\":\"" + vh::epname(le) + "\",\"r\":" + vh::jbytes(rk) + ",\"re\":\"" + vh::epname(re) + "\",\"rtl\":" + vh::jb(rtl) + ",\"ea\":false,\"st\":\"" + vh::stname(rc) + "\",\"steps1\":[";
                    long got = 0; std::string last;
                    while (rc == status::OK) { last = ctx->full_key(); if (got) o2 += ","; o2 += "[" + vh::jbytes(last) + "," + (val ? std::to_string(*(int*)val) : std::string("-1")) + "]"; got++; if (got >= modafter) break; rc = iscan_next(ctx, val, cb); }
                    o2 += "],\"st1\":\"" + std::string(vh::stname(rc)) + "\",\"mids\":[";
                    if (rc == status::OK && last.size() > 8) {
                        std::string LP = last.substr(0, (last.size() - 1) / 8 * 8); bool f = true;     // prefix of the deepest layer the cursor is in
                        for (auto& kv : present) if (kv.second && kv.first.size() > LP.size() && kv.first.compare(0, LP.size(), LP) == 0) { status mrc = remove(tok, st, kv.first); if (mrc == status::OK) kv.second = false;
                            if (!f) o2 += ","; f = false; o2 += "{\"op\":\"rem\",\"k\":" + vh::jbytes(kv.first) + ",\"v\":0,\"st\":\"" + vh::stname(mrc) + "\"}"; }
                        o2 += "],\"steps2\":["; long n2 = 0; rc = iscan_next(ctx, val, cb);
                        while (rc == status::OK) { std::string fk = ctx->full_key(); if (n2) o2 += ","; o2 += "[" + vh::jbytes(fk) + "," + (val ? std::to_string(*(int*)val) : std::string("-1")) + "]"; n2++; if (n2 > 400) break; rc = iscan_next(ctx, val, cb); }
                        o2 += "],\"end\":\"" + std::string(vh::stname(rc)) + "\"";
                        { vh::Canon c2(ti); o2 += ",\"dump\":" + vh::dump_json(c2, valjson); }
                    } else o2 += "],\"steps2\":[],\"end\":\"" + std::string(vh::stname(rc)) + "\"";
                    o2 += "}"; puts(o2.c_str()); if (ctx) iscan_close(ctx); have_read = false; continue;
                }
            }
            if (modafter > 0) {
                std::string o2 = "{\"op\":\"iscanmod\",\"l\":" + vh::jbytes(lk) + ",\"le\":\"" + vh::epname(le) + "\",\"r\":" + vh::jbytes(rk) + ",\"re\":\"" + vh::epname(re) + "\",\"rtl\":" + vh::jb(rtl) + ",\"ea\":" + vh::jb(ea) + ",\"st\":\"" + vh::stname(rc) + "\",\"steps1\":[";
                long got = 0; std::string last;
                while (rc == status::OK) { last = ctx->full_key(); if (got) o2 += ","; o2 += "[" + vh::jbytes(last) + "," + (val ? std::to_string(*(int*)val) : std::string("-1")) + "]"; got++; if (got >= modafter) break; rc = iscan_next(ctx, val, cb); }
                o2 += "],\"st1\":\"" + std::string(vh::stname(rc)) + "\"";
                if (rc == status::OK) {
                    // the write: insert a new key next to the last returned one, or remove a neighbour / the key itself
                    int how = rng() % 3; std::string mk; bool isput = how != 2; status mrc; int vid = 0;
                    if (isput) { mk = last; if (how == 0 && !mk.empty()) { mk.back() = (char)((unsigned char)mk.back() ^ (1 + rng() % 3)); } else mk.push_back((char)AL[rng() % alpha]);
                                 if (present[mk]) { isput = false; } }
                    if (!isput && mk.empty()) { std::vector<std::string> pk; for (auto& kv : present) if (kv.second) pk.push_back(kv.first); auto it = std::find(pk.begin(), pk.end(), last); long ix = it == pk.end() ? 0 : (long)(it - pk.begin()); long d = (long)(rng() % 3) - 1; ix = std::max(0L, std::min((long)pk.size() - 1, ix + d)); mk = pk.empty() ? last : pk[ix]; }
                    if (isput) { vid = ++vctr; int buf[2] = {vid, 0}; mrc = put<char>(tok, st, mk, (char*)buf, 8); if (mrc == status::OK) present[mk] = true; if (std::find(keys.begin(), keys.end(), mk) == keys.end()) keys.push_back(mk); }
                    else { mrc = remove(tok, st, mk); if (mrc == status::OK) present[mk] = false; }
                    o2 += std::string(",\"mids\":[{\"op\":\"") + (isput ? "put" : "rem") + "\",\"k\":" + vh::jbytes(mk) + ",\"v\":" + std::to_string(vid) + ",\"st\":\"" + vh::stname(mrc) + "\"}],\"steps2\":[";
                    long n2 = 0; rc = iscan_next(ctx, val, cb);
                    while (rc == status::OK) { std::string fk = ctx->full_key(); if (n2) o2 += ","; o2 += "[" + vh::jbytes(fk) + "," + (val ? std::to_string(*(int*)val) : std::string("-1")) + "]"; n2++; if (n2 > 400) break; rc = iscan_next(ctx, val, cb); }
                    o2 += "],\"end\":\"" + std::string(vh::stname(rc)) + "\"";
                    { vh::Canon c2(ti); o2 += ",\"dump\":" + vh::dump_json(c2, valjson); }
                } else o2 += ",\"mids\":[],\"steps2\":[],\"end\":\"" + std::string(vh::stname(rc)) + "\"";
                o2 += "}"; puts(o2.c_str()); if (ctx) iscan_close(ctx); have_read = false; continue;
            }
            while (rc == status::OK) {
                std::string fk = ctx->full_key(); if (n) o += ","; o += "[" + vh::jbytes(fk) + "," + (val ? std::to_string(*(int*)val) : std::string("-1")) + "]"; n++; lastkey = fk; gotany = true;
                if (limit >= 0 && n > limit) break;
                rc = iscan_next(ctx, val, cb);
            }
            if (rc == status::OK_SCAN_END) ended = true;
            vh::Canon c(ti);
            o += "],\"end\":\"" + std::string(vh::stname(rc)) + "\",\"nv\":" + nvjson(nv, c) + "}"; puts(o.c_str());
            if (ctx) iscan_close(ctx);
            if (ended || gotany) { last_nv = nv; have_read = !nv.empty(); rd_l = lk; rd_le = le; rd_r = rk; rd_re = re; if (rd_le == scan_endpoint::INF) rd_l = "";
                if (!ended) { if (!rtl) { rd_r = lastkey; rd_re = scan_endpoint::INCLUSIVE; } else { rd_l = lastkey; rd_le = scan_endpoint::INCLUSIVE; } } }
            continue;
        }
        do_mem();
    }
    { vh::Canon c(ti); std::string o = "{\"op\":\"final\",\"dump\":" + vh::dump_json(c, valjson) + "}"; puts(o.c_str()); }
    leave(tok); fin();
    return 0;
}

// Step-level conformance driver for the concurrent model YkConc: the fixed programs of MC_Conc.tla (A..D) run on a real
// single-border tree under seeded random schedules; every hooked shared-memory access of the border (version word,
// permutation word, slot words) is logged with the value read / written, plus call / return events.  One event per line,
// runs separated by {"e":"reset"}.  Judged by TraceConc.tla (each event must be the enabled model step with the same values).
// usage: stepdrv prog=A|B|C|D runs=N seed=S
#include "vh_json.h"
#include "vh_fault.h"
#include "vh_sched.h"
#include <map>
using namespace yakushima;
static std::map<std::string, std::string> A;
static long argi(const char* k, long d) { auto it = A.find(k); return it == A.end() ? d : atol(it->second.c_str()); }
struct POp { const char* op; int k; int v; };
static border_node* g_node = nullptr;
static int word_id(std::uint64_t w) {   // slot word -> value id (0 = cleared)
    const std::uint64_t flag = 1ULL << 62; if (w == flag || w == 0) return 0; if (w & (1ULL << 63)) return -9;
    value* vp = reinterpret_cast<value*>(w); return *(int*)value::get_body(vp);
}
static std::string verj(std::uint64_t w) { node_version64_body b; memcpy(&b, &w, 8);
    return std::string("{\"lk\":") + vh::jb(b.get_locked()) + ",\"ins\":" + vh::jb(b.get_inserting_deleting()) + ",\"spl\":" + vh::jb(b.get_splitting()) + ",\"del\":" + vh::jb(b.get_deleted()) + ",\"root\":" + vh::jb(b.get_root()) + ",\"vi\":" + std::to_string(b.get_vinsert_delete()) + ",\"vs\":" + std::to_string(b.get_vsplit()) + "}"; }
static std::string permj(std::uint64_t b) { std::string o = "["; int c = b & 15; for (int i = 0; i < c; i++) { if (i) o += ","; o += std::to_string((int)((b >> (4 * (i + 1))) & 15)); } return o + "]"; }
int main(int argc, char** argv) {
    for (int i = 1; i < argc; i++) { std::string a = argv[i]; auto p = a.find('='); if (p != std::string::npos) A[a.substr(0, p)] = a.substr(p + 1); }
    vh::install_fault_handlers(60);
    std::string prog = A.count("prog") ? A["prog"] : "A"; long runs = argi("runs", 20), seed = argi("seed", 1);
    std::vector<std::vector<POp>> P; std::vector<int> init;
    if (prog == "A") { P = {{{"get", 2, 0}}, {{"rem", 2, 0}}, {{"put", 3, 1}, {"uput", 2, 2}}}; init = {1, 2}; }
    else if (prog == "B") { P = {{{"rem", 1, 0}, {"get", 1, 0}}, {{"rem", 1, 0}}, {{"put", 1, 1}}}; init = {1, 2}; }
    else if (prog == "C") { P = {{{"scan", 1, 0}}, {{"rem", 2, 0}, {"put", 3, 1}}, {{"put", 1, 2}}}; init = {1, 2}; }
    else { P = {{{"rem", 1, 0}, {"put", 2, 1}}, {{"get", 1, 0}, {"scan", 1, 0}}, {{"uput", 1, 2}}}; init = {1}; }
    vs::install(); thread_info_table::init();
    vs::S.record = true;
    vs::S.on_abort = [](const char* why) { printf("{\"e\":\"abort\",\"why\":\"%s\"}\n", why); };
    for (long r = 0; r < runs; r++) {
        tree_instance ti; Token setup{}; enter(setup);
        for (std::size_t i = 0; i < init.size(); i++) { int id = 100 + (int)i + 1; int buf[2] = {id, id}; std::string k(1, (char)init[i]); put<char>(setup, &ti, k, (char*)buf, false, 8); }
        g_node = dynamic_cast<border_node*>(ti.load_root_ptr());
        std::vector<Token> tok(P.size()); for (auto& t : tok) enter(t);
        std::vector<std::string> marks;     // call / return events are interleaved with the hook log through their position
        struct Mark { std::size_t pos; std::string js; }; std::vector<Mark> M;
        std::vector<std::function<void()>> bodies;
        for (std::size_t t = 0; t < P.size(); t++) bodies.push_back([&, t] {
            for (auto& o : P[t]) {
                std::string k(1, (char)o.k); std::string T = std::to_string(t + 1);
                M.push_back({vs::S.log.size(), "{\"e\":\"inv\",\"t\":" + T + "}"});
                std::string st; std::string w = "0";
                if (!strcmp(o.op, "get")) { std::pair<char*, std::size_t> out{nullptr, 0}; status rc = get<char>(&ti, k, out); st = rc == status::OK ? "OK" : "NOT_EXIST"; w = std::to_string(rc == status::OK ? (out.first ? *(int*)out.first : 0) : 0); }
                else if (!strcmp(o.op, "put") || !strcmp(o.op, "uput")) { int buf[2] = {o.v, o.v}; status rc = put<char>(tok[t], &ti, k, (char*)buf, !strcmp(o.op, "uput"), 8); st = rc == status::OK ? "OK" : "WARN_UNIQUE"; }
                else if (!strcmp(o.op, "rem")) { status rc = remove(tok[t], &ti, k); st = rc == status::OK ? "OK" : "NOT_FOUND"; }
                else { std::vector<std::tuple<std::string, char*, std::size_t>> tl; scan<char>(&ti, "", scan_endpoint::INF, "", scan_endpoint::INF, tl, nullptr, 0, false); st = "OK";
                    w = "["; for (std::size_t i = 0; i < tl.size(); i++) { if (i) w += ","; char* p = std::get<1>(tl[i]); w += "[" + std::to_string((int)(unsigned char)std::get<0>(tl[i])[0]) + "," + std::to_string(p ? *(int*)p : 0) + "]"; } w += "]"; }
                M.push_back({vs::S.log.size(), "{\"e\":\"ret\",\"t\":" + T + ",\"op\":\"" + o.op + "\",\"st\":\"" + st + "\",\"w\":" + w + "}"});
            }
        });
        vs::S.strat = vs::RANDOM; vs::S.rng.seed(seed * 1000003 + r); vs::S.switch_pct = 10 + (int)(vs::S.rng() % 60);
        vs::run(bodies, (int)(vs::S.rng() % P.size()));
        // render
        printf("{\"e\":\"reset\",\"run\":%ld}\n", r);
        const char* nb = (const char*)g_node; const char* ver = (const char*)g_node->get_version_ptr(); const char* pm = (const char*)&g_node->permutation_; const char* lv0 = (const char*)&g_node->lv_[0];
        std::size_t mi = 0;
        for (std::size_t i = 0; i <= vs::S.log.size(); i++) {
            while (mi < M.size() && M[mi].pos == i) puts(M[mi++].js.c_str());
            if (i == vs::S.log.size()) break;
            auto& e = vs::S.log[i]; const char* o = (const char*)e.obj; std::string T = std::to_string(e.t + 1); using namespace verif;
            bool in_node = o >= nb && o < nb + sizeof(border_node);
            if (!in_node) { continue; }
            if (o == ver) {
                if (e.kind == k_ver_load) printf("{\"e\":\"ver_load\",\"t\":%s,\"ver\":%s}\n", T.c_str(), verj(e.peek).c_str());
                else if (e.kind == k_ver_cas) printf("{\"e\":\"%s\",\"t\":%s,\"ver\":%s}\n", e.a == 1 ? "lock" : e.a == 2 ? "unlock" : "flag", T.c_str(), verj(e.peek).c_str());
            } else if (o == pm) {
                if (e.kind == k_perm_load) printf("{\"e\":\"perm_load\",\"t\":%s,\"perm\":%s}\n", T.c_str(), permj(e.peek).c_str());
                else if (e.kind == k_perm_store) printf("{\"e\":\"perm_store\",\"t\":%s,\"perm\":%s}\n", T.c_str(), permj(e.peek).c_str());
            } else if (o >= lv0 && o < lv0 + 15 * sizeof(link_or_value)) {
                int slot = (int)((o - lv0) / sizeof(link_or_value));
                if (e.kind == k_load) printf("{\"e\":\"lv_load\",\"t\":%s,\"slot\":%d,\"w\":%d}\n", T.c_str(), slot, word_id(e.peek));
                else if (e.kind == k_store) printf("{\"e\":\"lv_store\",\"t\":%s,\"slot\":%d,\"w\":%d}\n", T.c_str(), slot, word_id(e.peek));
            }
        }
        for (auto& t : tok) leave(t); leave(setup);
        if (auto* rt = ti.load_root_ptr()) { rt->destroy(); delete rt; ti.store_root_ptr(nullptr); }
    }
    thread_info_table::fin();
    return 0;
}

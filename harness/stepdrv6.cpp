// Step-level conformance driver for YkConc6 (interior split): the tree is a FULL interior root P (node 101, 15 keys) over 16 borders
// (nodes 1..16, two-byte keys (c, 10..80) in border c); chosen borders are filled to 15 entries, so that an insert splits them and P has
// to be split.  Threads 0..2 run one operation each (put / get of key hi.lo = hi * 256 + lo) on the real code under seeded random / PCT
// schedules; every hooked shared access of the borders, of P, of the interiors a split allocates (102, 103 in order of allocation) and of
// the borders a split allocates (17, 18, ..), the root pointer and the root lock is logged.  Judged by TraceConc6.tla.
// usage: stepdrv6 prog=put:1.5,put:12.75,get:16.10 fill=1,12 runs=N seed=S [sched=pct]
#include "vh_json.h"
#include "vh_fault.h"
#include "vh_sched.h"
#include <algorithm>
#include <map>
using namespace yakushima;
static std::map<std::string, std::string> A;
static long argi(const char* k, long d) { auto it = A.find(k); return it == A.end() ? d : atol(it->second.c_str()); }
static int word_id(std::uint64_t w) {   // slot word -> value id (0 = cleared)
    const std::uint64_t flag = 1ULL << 62; if (w == flag || w == 0) return 0; if (w & (1ULL << 63)) return -9;
    value* vp = reinterpret_cast<value*>(w); return *(int*)value::get_body(vp);
}
static std::string verj(std::uint64_t w) { node_version64_body b; memcpy(&b, &w, 8);
    return std::string("{\"lk\":") + vh::jb(b.get_locked()) + ",\"ins\":" + vh::jb(b.get_inserting_deleting()) + ",\"spl\":" + vh::jb(b.get_splitting()) + ",\"del\":" + vh::jb(b.get_deleted()) + ",\"root\":" + vh::jb(b.get_root()) + ",\"vi\":" + std::to_string(b.get_vinsert_delete()) + ",\"vs\":" + std::to_string(b.get_vsplit()) + "}"; }
static std::string permj(std::uint64_t b) { std::string o = "["; int c = b & 15; for (int i = 0; i < c; i++) { if (i) o += ","; o += std::to_string((int)((b >> (4 * (i + 1))) & 15)); } return o + "]"; }
static std::uint64_t vw(base_node* n) { std::uint64_t w; auto b = n->get_version(); memcpy(&w, &b, 8); return w; }
struct POp { std::string op; int k; };
static std::string keyof(int k) { std::string s; s.push_back((char)(k / 256)); s.push_back((char)(k % 256)); return s; }
static int keyint(std::uint64_t slice) { const unsigned char* p = (const unsigned char*)&slice; return (int)p[0] * 256 + (int)p[1]; }
int main(int argc, char** argv) {
    for (int i = 1; i < argc; i++) { std::string a = argv[i]; auto p = a.find('='); if (p != std::string::npos) A[a.substr(0, p)] = a.substr(p + 1); }
    vh::install_fault_handlers(60);
    long runs = argi("runs", 10), seed = argi("seed", 1);
    std::vector<int> fill; { std::string g = A.count("fill") ? A["fill"] : "1,12"; std::size_t p = 0; while (p < g.size()) { fill.push_back(atoi(g.c_str() + p)); p = g.find(',', p); if (p == std::string::npos) break; p++; } }
    std::vector<POp> P; { std::string g = A.count("prog") ? A["prog"] : "put:1.5,put:12.85,get:16.10"; std::size_t p = 0; while (p < g.size()) { std::size_t c = g.find(':', p), d = g.find('.', p), e = g.find(',', p); if (e == std::string::npos) e = g.size();
        P.push_back({g.substr(p, c - p), atoi(g.c_str() + c + 1) * 256 + atoi(g.c_str() + d + 1)}); p = e + 1; } }
    bool pct = A.count("sched") && A["sched"] == "pct";
    vs::install(); thread_info_table::init();
    vs::S.record = true; vs::S.yield_on_key_load = false;
    vs::S.on_abort = [](const char* why) { printf("{\"e\":\"abort\",\"why\":\"%s\"}\n", why); };
    {   std::string m = "{\"e\":\"meta\",\"prog\":["; for (std::size_t i = 0; i < P.size(); i++) { if (i) m += ","; m += "{\"op\":\"" + P[i].op + "\",\"k\":" + std::to_string(P[i].k) + ",\"v\":" + std::to_string((int)i + 1) + "}"; }
        m += "]}"; puts(m.c_str()); }
    for (long r = 0; r < runs; r++) {
        tree_instance ti; Token setup{}; enter(setup);
        for (int i = 0; i < 128; i++) { int k = (1 + i / 8) * 256 + 10 + 10 * (i % 8); int id = 100000 + k; int buf[2] = {id, id}; put<char>(setup, &ti, keyof(k), (char*)buf, false, 8); }
        for (int c : fill) for (int j = 0; j < 7; j++) { int k = c * 256 + 15 + 10 * j; int id = 100000 + k; int buf[2] = {id, id}; put<char>(setup, &ti, keyof(k), (char*)buf, false, 8); }
        interior_node* PI = dynamic_cast<interior_node*>(ti.load_root_ptr()); if (!PI || PI->get_n_keys() != 15) { fprintf(stderr, "unexpected shape\n"); return 2; }
        std::vector<border_node*> B; for (int c = 0; c <= 15; c++) { auto* b = dynamic_cast<border_node*>(PI->get_child_at(c)); if (!b) { fprintf(stderr, "unexpected shape\n"); return 2; } B.push_back(b); }
        auto bjson = [&](border_node* b) { std::string o = "{\"ver\":" + verj(vw(b)) + ",\"perm\":" + permj(b->permutation_.get_body()) + ",\"ks\":["; permutation pm{b->permutation_.get_body()};
            std::vector<int> ks(15, 0), lvv(15, 0); for (std::size_t r2 = 0; r2 < pm.get_cnk(); r2++) { auto ix = pm.get_index_of_rank(r2); ks[ix] = keyint(b->get_key_slice_at(ix)); lvv[ix] = word_id(*(std::uint64_t*)b->get_lv_at(ix)); }
            for (int q = 0; q < 15; q++) { if (q) o += ","; o += std::to_string(ks[q]); } o += "],\"lv\":["; for (int q = 0; q < 15; q++) { if (q) o += ","; o += std::to_string(lvv[q]); } return o + "]}"; };
        std::string reset = "{\"e\":\"reset\",\"run\":" + std::to_string(r) + ",\"b\":["; for (int c = 0; c < 16; c++) { if (c) reset += ","; reset += bjson(B[c]); }
        reset += "],\"p\":{\"ver\":" + verj(vw(PI)) + ",\"keys\":["; for (int i = 0; i < 15; i++) { if (i) reset += ","; reset += std::to_string(keyint(PI->get_key_slice_at(i))); } reset += "]}}";
        std::size_t nth = P.size();
        std::vector<Token> tok(nth); for (auto& t : tok) enter(t);
        struct Mark { std::size_t pos; std::string js; }; std::vector<Mark> M;
        std::vector<std::function<void()>> bodies;
        for (std::size_t t = 0; t < nth; t++) bodies.push_back([&, t] {
            std::string T = std::to_string(t); std::string k = keyof(P[t].k);
            M.push_back({vs::S.log.size(), "{\"e\":\"inv\",\"t\":" + T + "}"});
            std::string st; int w = 0;
            if (P[t].op == "get") { std::pair<char*, std::size_t> out{nullptr, 0}; status rc = get<char>(&ti, k, out); st = rc == status::OK ? "OK" : "NOT_EXIST"; w = rc == status::OK ? (out.first ? *(int*)out.first : 0) : 0; }
            else { int id = (int)t + 1; int buf[2] = {id, id}; status rc = put<char>(tok[t], &ti, k, (char*)buf, false, 8); st = rc == status::OK ? "OK" : "OTHER"; }
            M.push_back({vs::S.log.size(), "{\"e\":\"ret\",\"t\":" + T + ",\"st\":\"" + st + "\",\"w\":" + std::to_string(w) + "}"});
        });
        vs::S.rng.seed(seed * 1000003 + r);
        if (pct) { vs::S.strat = vs::PCT; vs::S.change_points.clear(); for (int i = 0; i < 3; i++) vs::S.change_points.push_back(1 + (long)(vs::S.rng() % 400)); for (std::size_t i = 0; i < nth; i++) vs::S.prio[i] = (int)(vs::S.rng() % 1000) + 10; }
        else { vs::S.strat = vs::RANDOM; vs::S.switch_pct = 5 + (int)(vs::S.rng() % 60); }
        vs::run(bodies, (int)(vs::S.rng() % nth));
        // ---- nodes allocated by the run: found through the pointers stored into known nodes, numbered in the order of their first logged access
        auto inb = [](const void* o, const void* base, std::size_t sz) { return base && (const char*)o >= (const char*)base && (const char*)o < (const char*)base + sz; };
        std::vector<const void*> newB, newI;
        auto known = [&](const void* p) { if (p == nullptr || p == PI) return true; for (auto* b : B) if (b == p) return true; for (auto* x : newB) if (x == p) return true; for (auto* x : newI) if (x == p) return true; return false; };
        for (auto& e : vs::S.log) { using namespace verif; if (e.kind != k_store) continue; const char* o = (const char*)e.obj; const void* v = (const void*)e.peek; if (known(v)) continue;
            bool in_b = false; for (auto* b : B) if (o == (const char*)&b->next_) in_b = true; for (auto* x : newB) if (o == (const char*)&((border_node*)x)->next_) in_b = true;
            if (in_b) { newB.push_back(v); continue; }
            bool par = false; for (auto* b : B) if (o == (const char*)&b->parent_) par = true; for (auto* x : newB) if (o == (const char*)&((border_node*)x)->parent_) par = true;
            if (o == (const char*)&PI->parent_) par = true; for (auto* x : newI) if (o == (const char*)&((interior_node*)x)->parent_) par = true;
            if (par || o == (const char*)&ti.root_) newI.push_back(v); }
        // the model allocates a node when the split copies the locked version word into it (set_version): numbered in that order
        auto firstpos = [&](const void* base, std::size_t sz) { std::size_t any = vs::S.log.size();
            for (std::size_t i = 0; i < vs::S.log.size(); i++) if (inb(vs::S.log[i].obj, base, sz)) { if (any == vs::S.log.size()) any = i;
                if (vs::S.log[i].kind == verif::k_ver_store && (vs::S.log[i].peek >> 29 & 1)) return i; }
            return any; };
        std::sort(newB.begin(), newB.end(), [&](const void* a, const void* b) { return firstpos(a, sizeof(border_node)) < firstpos(b, sizeof(border_node)); });
        std::sort(newI.begin(), newI.end(), [&](const void* a, const void* b) { return firstpos(a, sizeof(interior_node)) < firstpos(b, sizeof(interior_node)); });
        auto nid = [&](std::uint64_t p) -> int { if (p == 0) return 0; if ((void*)p == (void*)PI) return 101; for (std::size_t i = 0; i < B.size(); i++) if ((void*)p == (void*)B[i]) return (int)i + 1;
            for (std::size_t i = 0; i < newB.size(); i++) if ((void*)p == newB[i]) return 17 + (int)i; for (std::size_t i = 0; i < newI.size(); i++) if ((void*)p == newI[i]) return 102 + (int)i; return -1; };
        puts(reset.c_str());
        std::size_t mi = 0;
        for (std::size_t i = 0; i <= vs::S.log.size(); i++) {
            while (mi < M.size() && M[mi].pos == i) puts(M[mi++].js.c_str());
            if (i == vs::S.log.size()) break;
            auto& e = vs::S.log[i]; const char* o = (const char*)e.obj; std::string T = std::to_string(e.t); using namespace verif;
            if (e.kind == k_cas || e.kind == k_spin) continue;
            if (o == (const char*)&ti.root_) { printf("{\"e\":\"%s\",\"t\":%s,\"n\":%d}\n", e.kind == k_load ? "root_load" : "root_store", T.c_str(), nid(e.peek)); continue; }
            if (o == (const char*)&ti.root_lock_) { if (e.kind == k_root_lock || e.kind == k_root_unlock) printf("{\"e\":\"%s\",\"t\":%s}\n", e.kind == k_root_lock ? "root_lock" : "root_unlock", T.c_str()); continue; }
            int n = 0; base_node* bn = nullptr;
            for (std::size_t q = 0; q < B.size() && !n; q++) if (inb(o, B[q], sizeof(border_node))) { n = (int)q + 1; bn = B[q]; }
            for (std::size_t q = 0; q < newB.size() && !n; q++) if (inb(o, newB[q], sizeof(border_node))) { n = 17 + (int)q; bn = (base_node*)newB[q]; }
            if (!n && inb(o, PI, sizeof(interior_node))) { n = 101; bn = PI; }
            for (std::size_t q = 0; q < newI.size() && !n; q++) if (inb(o, newI[q], sizeof(interior_node))) { n = 102 + (int)q; bn = (base_node*)newI[q]; }
            if (!n) continue;
            if (o == (const char*)bn->get_version_ptr()) {
                if (e.kind == k_ver_load) printf("{\"e\":\"ver_load\",\"t\":%s,\"n\":%d,\"ver\":%s}\n", T.c_str(), n, verj(e.peek).c_str());
                else if (e.kind == k_ver_cas) printf("{\"e\":\"%s\",\"t\":%s,\"n\":%d,\"ver\":%s}\n", e.a == 1 ? "lock" : e.a == 2 ? "unlock" : "flag", T.c_str(), n, verj(e.peek).c_str());
                else if (e.kind == k_ver_store) printf("{\"e\":\"ver_store\",\"t\":%s,\"n\":%d,\"ver\":%s}\n", T.c_str(), n, verj(e.peek).c_str());
                continue;
            }
            if (o == (const char*)&bn->parent_) { printf("{\"e\":\"%s\",\"t\":%s,\"n\":%d,\"p\":%d}\n", e.kind == k_load ? "parent_load" : "parent_store", T.c_str(), n, nid(e.peek)); continue; }
            if (n >= 101) {
                interior_node* in = (interior_node*)bn;
                if (o == (const char*)&in->n_keys_) { printf("{\"e\":\"%s\",\"t\":%s,\"n\":%d,\"v\":%d}\n", e.kind == k_load ? "nkeys_load" : "nkeys_store", T.c_str(), n, (int)(e.peek & 0xff)); continue; }
                const char* c0 = (const char*)&in->children[0];
                if (o >= c0 && o < c0 + sizeof(in->children)) { int ci = (int)((o - c0) / sizeof(base_node*)); printf("{\"e\":\"%s\",\"t\":%s,\"n\":%d,\"i\":%d,\"c\":%d}\n", e.kind == k_load ? "child_load" : "child_store", T.c_str(), n, ci, nid(e.peek)); continue; }
                if (e.kind == k_bulk_store || e.kind == k_store) printf("{\"e\":\"p_other_store\",\"t\":%s,\"n\":%d}\n", T.c_str(), n);
                continue;
            }
            border_node* b = (border_node*)bn;
            if (o == (const char*)&b->permutation_) { printf("{\"e\":\"%s\",\"t\":%s,\"n\":%d,\"perm\":%s}\n", e.kind == k_perm_load ? "perm_load" : "perm_store", T.c_str(), n, permj(e.peek).c_str()); continue; }
            if (o == (const char*)&b->next_) { printf("{\"e\":\"%s\",\"t\":%s,\"n\":%d,\"x\":%d}\n", e.kind == k_load ? "next_load" : "next_store", T.c_str(), n, nid(e.peek)); continue; }
            if (o == (const char*)&b->prev_) { printf("{\"e\":\"%s\",\"t\":%s,\"n\":%d,\"x\":%d}\n", e.kind == k_load ? "prev_load" : "prev_store", T.c_str(), n, nid(e.peek)); continue; }
            const char* lv0 = (const char*)&b->lv_[0];
            if (o >= lv0 && o < lv0 + 15 * sizeof(link_or_value)) { int slot = (int)((o - lv0) / sizeof(link_or_value));
                if (e.kind == k_load) printf("{\"e\":\"lv_load\",\"t\":%s,\"n\":%d,\"slot\":%d,\"w\":%d}\n", T.c_str(), n, slot, word_id(e.peek));
                else if (e.kind == k_store) printf("{\"e\":\"lv_store\",\"t\":%s,\"n\":%d,\"slot\":%d,\"w\":%d}\n", T.c_str(), n, slot, word_id(e.peek));
                continue; }
            if (e.kind == k_store || e.kind == k_bulk_store) printf("{\"e\":\"other_store\",\"t\":%s,\"n\":%d,\"off\":%d}\n", T.c_str(), n, (int)(o - (const char*)b));
        }
        printf("{\"e\":\"end\"}\n");
        for (auto& t : tok) leave(t); leave(setup);
        if (auto* rt = ti.load_root_ptr()) { rt->destroy(); delete rt; ti.store_root_ptr(nullptr); }
    }
    thread_info_table::fin();
    return 0;
}

// Sessions / epochs / reclamation driver: worker sessions (enter, get, remove, overwrite, leave) run against the library's own
// epoch thread and gc thread, all as controlled threads of the deterministic scheduler.  One ndjson line per run with the
// ordered event list (session calls, pointers obtained, retires, reclaims, epoch / gc-epoch / slot words).  Judged by TraceEpoch.tla.
// usage: epochdrv key=value ... (seed, scenarios, runs, workers, sched=random|pct|stall, keys)
#include "vh_json.h"
#include "vh_fault.h"
#include "vh_sched.h"
#include <algorithm>
#include <map>
#include <random>
using namespace yakushima;
static std::map<std::string, std::string> A;
static long argi(const char* k, long d) { auto it = A.find(k); return it == A.end() ? d : atol(it->second.c_str()); }
static std::string args(const char* k, const char* d) { auto it = A.find(k); return it == A.end() ? d : it->second; }
static std::mt19937_64 rng;
static std::string g_ev;            // event list of the current run (json objects, comma separated)
static long g_nev = 0;
static std::map<const void*, int> g_id; static int g_next_id = 1;
static int idof(const void* p) { auto it = g_id.find(p); if (it != g_id.end()) return it->second; return g_id[p] = g_next_id++; }
static void ev(const std::string& s) { if (g_nev++) g_ev += ","; g_ev += s; }
static int slot_of(const void* ti) { auto& tab = thread_info_table::get_thread_info_table(); for (std::size_t i = 0; i < tab.size(); i++) if (&tab[i] == ti) return (int)i + 1; return 0; }
static void hook(int kind, const void* obj, std::uint64_t a, std::uint64_t b) {
    using namespace verif;
    int me = vs::tid;
    if (!vs::S.active) return;
    auto T = [&]() { return std::to_string(me + 1); };
    bool before = vs::is_load_before(kind);
    if (!before) {   // the change has happened: log, then let the scheduler switch
        switch (kind) {
            case k_retire_value: ev("{\"e\":\"retire\",\"t\":" + T() + ",\"o\":" + std::to_string(idof(obj)) + ",\"tag\":" + std::to_string(a) + ",\"k\":\"value\"}"); break;
            case k_retire_node: ev("{\"e\":\"retire\",\"t\":" + T() + ",\"o\":" + std::to_string(idof(obj)) + ",\"tag\":" + std::to_string(a) + ",\"k\":\"node\"}"); break;
            case k_begin_store: ev("{\"e\":\"begin\",\"t\":" + T() + ",\"slot\":" + std::to_string(slot_of(obj)) + ",\"v\":" + std::to_string(a) + "}"); break;
            case k_run_cas: ev("{\"e\":\"run_cas\",\"t\":" + T() + ",\"slot\":" + std::to_string(slot_of(obj)) + "}"); break;
            case k_run_store: ev("{\"e\":\"run_store\",\"t\":" + T() + ",\"slot\":" + std::to_string(slot_of(obj)) + ",\"v\":" + std::to_string(a) + "}"); break;
            case k_epoch_inc: ev("{\"e\":\"epoch_inc\",\"v\":" + std::to_string(epoch_management::get_epoch()) + "}"); break;
            case k_gc_store: ev("{\"e\":\"gc\",\"v\":" + std::to_string(a) + "}"); break;
            default: break;
        }
        if (kind == k_reclaim_value || kind == k_reclaim_node) {   // about to be deleted
            ev("{\"e\":\"reclaim\",\"t\":" + T() + ",\"o\":" + std::to_string(idof(obj)) + ",\"k\":\"" + (kind == k_reclaim_value ? "value" : "node") + "\"}");
            g_id.erase(obj);
        }
        vs::hook(kind, obj, a, b);
        return;
    }
    vs::hook(kind, obj, a, b);      // may switch; when we are back the real load follows immediately
    if (me < 0) return;
    if (kind == k_run_load) { auto* ti = (thread_info*)obj; ev("{\"e\":\"run_load\",\"t\":" + T() + ",\"slot\":" + std::to_string(slot_of(obj)) + ",\"v\":" + std::to_string((int)ti->running_.load()) + "}"); }
    else if (kind == k_epoch_load && obj != nullptr) ev("{\"e\":\"epoch_load\",\"t\":" + T() + ",\"slot\":" + std::to_string(slot_of(obj)) + ",\"v\":" + std::to_string(epoch_management::epoch_.load()) + "}");
}
struct Step { std::string kind; std::string k; };
static int vdec(const void* p) { return p ? *(const int*)p : -1; }
int main(int argc, char** argv) {
    for (int i = 1; i < argc; i++) { std::string a = argv[i]; auto p = a.find('='); if (p != std::string::npos) A[a.substr(0, p)] = a.substr(p + 1); }
    vh::install_fault_handlers(argi("alarm", 120));
    long seed = argi("seed", 1), nscn = argi("scenarios", 10), runs = argi("runs", 10), nw = argi("workers", 2), nkeys = argi("keys", 2), bg = argi("bg", 1);
    std::string sched = args("sched", "random");
    rng.seed(seed);
    vs::install(); verif::g_hook = hook;
    static std::string cur_line;
    vs::S.on_abort = [](const char* why) { printf("{\"e\":\"abort\",\"why\":\"%s\",\"run\":%s}\n", why, cur_line.empty() ? "{}" : cur_line.c_str()); };
    vh::g_flush = [] { printf("{\"e\":\"faultrun\",\"run\":%s,\"events\":[%s]}\n", cur_line.empty() ? "{}" : cur_line.c_str(), g_ev.c_str()); };
    const long cap = YAKUSHIMA_MAX_PARALLEL_SESSIONS;
    long runid = 0; int vctr = 0;
    for (long sc = 0; sc < nscn; sc++) {
        // worker programs: 1-2 sessions each
        std::vector<std::vector<Step>> prog(nw);
        std::vector<std::string> keys; for (long i = 0; i < nkeys; i++) keys.push_back(std::string(1, (char)('a' + i)));
        for (long w = 0; w < nw; w++) { int ns = 1 + rng() % 2; for (int s = 0; s < ns; s++) { prog[w].push_back({"enter", ""}); int n = rng() % 4;
            for (int i = 0; i < n; i++) { int x = rng() % 100; prog[w].push_back({x < 40 ? "get" : x < 70 ? "rem" : "put", keys[rng() % keys.size()]}); }
            prog[w].push_back({"leave", ""}); } }
        std::vector<std::vector<std::pair<int, long>>> plans;
        if (sched == "stall") {   // fixed roles: worker 0 enters late and unlinks, worker 1 holds a pointer across it
            prog[0] = {{"enter", ""}, {(sc % 2) ? "put" : "rem", keys[0]}, {"leave", ""}};
            prog[1] = {{"enter", ""}, {"get", keys[0]}, {"get", keys[nkeys - 1]}, {"leave", ""}};
            for (long w = 2; w < nw; w++) prog[w] = {{"enter", ""}, {"get", keys[0]}, {"leave", ""}};
        }
        if (sched == "stall") {   // worker 0 stalls a points into its first call, the epoch thread runs, worker 1 runs, worker 0 continues, gc runs
            int E = (int)nw, G = (int)nw + 1;
            for (long a = 1; a <= 14; a++) for (long e : {40L, 90L, 160L}) for (long c : {30L, 80L, 1000000L}) for (long g : {40L, 120L})
                plans.push_back({{0, a}, {E, e}, {1, c}, {0, 1000000}, {G, g}, {E, 60}, {G, g}, {1, 1000000}});
            runs = (long)plans.size();
        }
        for (long r = 0; r < runs; r++) {
            // fresh system state
            epoch_manager::kEpochThreadEnd.store(false); epoch_manager::kGCThreadEnd.store(false);
            thread_info_table::init();
            tree_instance ti; Token setup{}; enter(setup);
            for (auto& k : keys) { int id = ++vctr; int buf[2] = {id, id}; put<char>(setup, &ti, k, (char*)buf, false, 8); }
            leave(setup);
            g_ev.clear(); g_nev = 0; g_id.clear(); g_next_id = 1;
            std::atomic<long> workers_left{nw};
            std::vector<std::function<void()>> bodies;
            for (long w = 0; w < nw; w++) bodies.push_back([&, w] {
                Token tok{}; bool open = false; std::vector<std::pair<const void*, int>> heldp;   // body pointer, value id at obtain
                auto T = std::to_string(w + 1);
                for (auto& st : prog[w]) {
                    if (st.kind == "enter") { ev("{\"e\":\"enter_call\",\"t\":" + T + "}"); status rc = enter(tok); open = rc == status::OK;
                        ev("{\"e\":\"enter_ret\",\"t\":" + T + ",\"st\":\"" + vh::stname(rc) + "\",\"slot\":" + std::to_string(open ? slot_of(tok) : 0) + "}"); }
                    else if (st.kind == "leave") { if (!open) continue;
                        for (auto& hp : heldp) ev("{\"e\":\"recheck\",\"t\":" + T + ",\"o\":" + std::to_string(idof((const char*)hp.first - 8)) + ",\"ok\":" + vh::jb(vdec(hp.first) == hp.second && ((const int*)hp.first)[1] == hp.second) + "}");
                        heldp.clear(); ev("{\"e\":\"leave_call\",\"t\":" + T + ",\"slot\":" + std::to_string(slot_of(tok)) + "}"); leave(tok); open = false; ev("{\"e\":\"leave_ret\",\"t\":" + T + "}"); }
                    else if (!open) continue;
                    else if (st.kind == "get") { std::pair<char*, std::size_t> out{nullptr, 0}; status rc = get<char>(&ti, st.k, out);
                        if (rc == status::OK && out.first) { heldp.push_back({out.first, vdec(out.first)}); ev("{\"e\":\"obtain\",\"t\":" + T + ",\"o\":" + std::to_string(idof(out.first - 8)) + "}"); } }
                    else if (st.kind == "rem") { remove(tok, &ti, st.k); }
                    else if (st.kind == "put") { int id = ++vctr; int buf[2] = {id, id}; char* created = nullptr; status rc = put<char>(tok, &ti, st.k, (char*)buf, false, 8, &created);
                        if (rc == status::OK && created) { heldp.push_back({created, id}); ev("{\"e\":\"obtain\",\"t\":" + T + ",\"o\":" + std::to_string(idof(created - 8)) + "}"); } }
                }
                if (--workers_left == 0) { epoch_manager::set_epoch_thread_end(); epoch_manager::set_gc_thread_end(); }
            });
            if (bg) { bodies.push_back([] { epoch_manager::epoch_thread(); }); bodies.push_back([] { epoch_manager::gc_thread(); }); }
            for (int i = 0; i < vs::MAXT; i++) vs::S.daemon[i] = bg && i >= nw;
            std::string head = "{\"e\":\"run\",\"id\":" + std::to_string(++runid) + ",\"cap\":" + std::to_string(cap) + ",\"workers\":" + std::to_string(nw) + ",\"scn\":" + std::to_string(sc) + ",\"sched\":\"" + sched + "\",\"r\":" + std::to_string(r) + ",\"seed\":" + std::to_string(seed) + ",\"prog\":[";
            bool f = true; for (long w = 0; w < nw; w++) for (auto& st : prog[w]) { if (!f) head += ","; f = false; head += "[" + std::to_string(w + 1) + ",\"" + st.kind + "\",\"" + st.k + "\"]"; } head += "]";
            if (sched == "stall") { head += ",\"plan\":["; for (std::size_t i = 0; i < plans[r].size(); i++) { if (i) head += ","; head += "[" + std::to_string(plans[r][i].first) + "," + std::to_string(plans[r][i].second) + "]"; } head += "]"; }
            cur_line = head + "}";
            if (sched == "stall") { vs::S.strat = vs::PLAN; vs::S.plan = plans[r]; }
            else if (sched == "pct") { vs::S.strat = vs::PCT; vs::S.rng.seed(seed * 7919 + sc * 131 + r); for (int i = 0; i < (int)bodies.size(); i++) vs::S.prio[i] = (int)(vs::S.rng() % 1000); vs::S.change_points.clear(); for (int i = 0; i < 3; i++) vs::S.change_points.push_back(1 + vs::S.rng() % 200); }
            else { vs::S.strat = vs::RANDOM; vs::S.rng.seed(seed * 7919 + sc * 131 + r); vs::S.switch_pct = 5 + (int)(vs::S.rng() % 40); }
            vs::S.max_steps = 200000;
            vs::run(bodies, (int)(vs::S.rng() % nw));
            printf("%s,\"steps\":%ld,\"events\":[%s]}\n", head.c_str(), vs::S.steps, g_ev.c_str());
            if (auto* rt = ti.load_root_ptr()) { rt->destroy(); delete rt; ti.store_root_ptr(nullptr); }
            thread_info_table::fin();
        }
    }
    return 0;
}

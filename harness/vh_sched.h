// Deterministic cooperative scheduler over the verification hooks.
// Controlled threads are real threads that hand a baton over at hook points, so exactly one of them runs at a time and
// the interleaving of the real shared-memory steps is chosen by the strategy (explicit plan / seeded random / PCT), not
// by the OS.  Threads spinning on a word are parked until somebody writes; "everybody parked" is reported as deadlock.
#pragma once
#include <semaphore.h>
#include <atomic>
#include <cstdint>
#include <cstdio>
#include <functional>
#include <random>
#include <thread>
#include <vector>
#include "kvs.h"
namespace vs {
using namespace yakushima;
constexpr int MAXT = 8;
struct Ev { int t; int kind; const void* obj; std::uint64_t a, b; std::uint64_t peek; };
enum Strategy { PLAN, RANDOM, PCT };
struct Sched {
    int n = 0;
    sem_t sem[MAXT]; sem_t fin;
    bool done[MAXT]; bool parked[MAXT]; long points[MAXT];
    int cur = -1;
    Strategy strat = RANDOM;
    std::vector<std::pair<int, long>> plan; std::size_t pi = 0; long budget = 0;
    std::mt19937_64 rng; int switch_pct = 30;
    int prio[MAXT]; std::vector<long> change_points;   // PCT
    long steps = 0, max_steps = 400000;
    long idle = 0, idle_quantum = 300;   // points of the running thread since anybody wrote: fairness for hook-less busy waits
    bool deadlock = false, livelock = false, active = false;
    bool record = false; std::vector<Ev> log;
    bool yield_on_key_load = false;
    bool daemon[MAXT] = {false};   // background loops (epoch / gc thread): never "finish" by themselves; at k_sleep they let workers run
    std::function<void(const char*)> on_abort;   // called on deadlock / livelock before the process exits
} S;
inline thread_local int tid = -1;

inline bool is_write(int k) {
    using namespace verif;
    return k == k_store || k == k_ver_cas || k == k_ver_store || k == k_perm_store || k == k_bulk_store || k == k_root_lock || k == k_root_unlock ||
           k == k_run_cas || k == k_run_store || k == k_begin_store || k == k_epoch_inc || k == k_gc_store || k == k_stop_store;
}
inline bool is_load_before(int k) {
    using namespace verif;
    return k == k_load || k == k_ver_load || k == k_perm_load || k == k_key_load || k == k_cas || k == k_run_load || k == k_begin_load ||
           k == k_epoch_load || k == k_gc_load || k == k_stop_load || k == k_begin_pre || k == k_sleep;
}
inline std::vector<int> runnable() { std::vector<int> r; for (int i = 0; i < S.n; i++) if (!S.done[i] && !S.parked[i]) r.push_back(i); return r; }
inline void handoff(int me, int nx) {
    if (nx == me) return;
    S.cur = nx; sem_post(&S.sem[nx]);
    if (me >= 0 && !S.done[me]) sem_wait(&S.sem[me]);
}
[[noreturn]] inline void abort_run(const char* why) {
    S.active = false;
    if (S.on_abort) S.on_abort(why);
    fflush(stdout); _exit(0);
}
// choose the next thread at a scheduling point of `me` (me is runnable unless parked)
inline int choose(int me, bool must_switch) {
    auto r = runnable();
    if (r.empty()) return -1;
    if (S.strat == PLAN) {
        if (!must_switch) {
            if (S.pi < S.plan.size() && S.plan[S.pi].first == me) { if (--S.budget > 0) return me; S.pi++;
                while (S.pi < S.plan.size()) { int nx = S.plan[S.pi].first; S.budget = S.plan[S.pi].second; if (!S.done[nx] && !S.parked[nx]) return nx; S.pi++; }
                return me; }
            return me;   // plan exhausted or not about me: keep running
        }
        // must switch (parked / finished): follow the plan if its current entry is runnable, else lowest runnable id after me
        if (S.pi < S.plan.size() && S.plan[S.pi].first == me) S.pi++;
        while (S.pi < S.plan.size()) { int nx = S.plan[S.pi].first; S.budget = S.plan[S.pi].second; if (nx != me && !S.done[nx] && !S.parked[nx]) return nx; S.pi++; }
        for (int i = 1; i <= S.n; i++) { int c = (me + i) % S.n; if (!S.done[c] && !S.parked[c]) return c; }
        return -1;
    }
    if (S.strat == PCT) {
        for (long cp : S.change_points) if (cp == S.steps && me >= 0) { int lo = 0; for (int i = 0; i < S.n; i++) lo = std::min(lo, S.prio[i]); S.prio[me] = lo - 1; }
        int best = -1; for (int c : r) if ((c != me || !must_switch) && (best < 0 || S.prio[c] > S.prio[best])) best = c;
        return best;
    }
    // RANDOM
    if (!must_switch && (int)(S.rng() % 100) >= S.switch_pct) return me;
    std::vector<int> cand; for (int c : r) if (c != me || !must_switch) cand.push_back(c);
    if (cand.empty()) return -1;
    return cand[S.rng() % cand.size()];
}
inline void hook(int kind, const void* obj, std::uint64_t a, std::uint64_t b) {
    int me = tid;
    if (me < 0 || !S.active) return;
    if (kind == verif::k_key_load && !S.yield_on_key_load) return;
    S.steps++; S.points[me]++;
    if (S.steps > S.max_steps) { S.livelock = true; abort_run("step budget exceeded (livelock or unfair spin)"); }
    std::uint64_t peek = 0;
    if (is_write(kind)) {
        if (S.record && obj) peek = *(const std::uint64_t*)obj;
        for (int i = 0; i < S.n; i++) S.parked[i] = false;       // somebody wrote: every parked thread re-checks
        S.idle = 0;
    } else S.idle++;
    // writes are logged now (the change is done); loads are logged when the thread is resumed, i.e. at the moment the
    // real access happens, so that the log order is the execution order of the accesses
    const bool late = is_load_before(kind) && kind != verif::k_cas;
    if (S.record && !late) S.log.push_back({me, kind, obj, a, b, peek});
    if (kind == verif::k_spin) {
        S.parked[me] = true;
        int nx = choose(me, true);
        if (nx < 0) { S.deadlock = true; abort_run("deadlock: every unfinished thread waits on a word nobody will write"); }
        handoff(me, nx);
        return;
    }
    int nx;
    if (kind == verif::k_sleep && S.daemon[me] && S.strat == PCT) {   // a background loop going to sleep drops below everybody
        int lo = 0; for (int i = 0; i < S.n; i++) lo = std::min(lo, S.prio[i]); S.prio[me] = lo - 1;
    }
    if (kind == verif::k_sleep && S.daemon[me] && S.strat == PLAN && S.pi >= S.plan.size()) {
        // plan exhausted: a sleeping background thread yields to any runnable worker
        nx = me; for (int i = 1; i <= S.n; i++) { int c = (me + i) % S.n; if (!S.done[c] && !S.parked[c] && !S.daemon[c]) { nx = c; break; } }
        if (nx == me) { for (int i = 1; i <= S.n; i++) { int c = (me + i) % S.n; if (!S.done[c] && !S.parked[c]) { nx = c; break; } } }
    } else if (S.idle > S.idle_quantum) {
        // the running thread has been reading for a long time without anybody writing: it is busy-waiting for another
        // thread (retry loops without a pause instruction, e.g. "root flag cleared, new root not stored yet"); a fair
        // scheduler lets the others run.  Not a verdict: only the global step budget turns into a livelock report.
        S.idle = 0;
        if (S.strat == PCT) { int lo = 0; for (int i = 0; i < S.n; i++) lo = std::min(lo, S.prio[i]); S.prio[me] = lo - 1; }
        nx = choose(me, true); if (nx < 0) nx = me;
    } else nx = choose(me, false);
    if (nx >= 0 && nx != me) handoff(me, nx);
    // resumed (or never left): for loads the real access follows immediately, so the current content is what is read
    if (S.record && late) {
        std::uint64_t v = 0; std::size_t sz = (kind == verif::k_load || kind == verif::k_key_load) ? (std::size_t)a : 8; if (sz > 8 || sz == 0) sz = 8;
        if (obj && kind != verif::k_run_load && kind != verif::k_begin_load && kind != verif::k_sleep && kind != verif::k_begin_pre) memcpy(&v, obj, sz);
        S.log.push_back({me, kind, obj, a, b, v});
    }
}
inline bool sleep_hook(std::size_t) { return tid >= 0 && S.active; }   // controlled threads never really sleep
// run the bodies under the scheduler; returns when all of them finished
inline void run(const std::vector<std::function<void()>>& bodies, int first) {
    S.idle = 0; S.n = (int)bodies.size(); S.pi = 0; S.budget = S.plan.empty() ? 0 : S.plan[0].second; S.steps = 0; S.deadlock = S.livelock = false; S.log.clear();
    sem_init(&S.fin, 0, 0);
    for (int i = 0; i < S.n; i++) { sem_init(&S.sem[i], 0, 0); S.done[i] = false; S.parked[i] = false; S.points[i] = 0; }
    std::vector<std::thread> th;
    for (int i = 0; i < S.n; i++) th.emplace_back([i, &bodies] {
        tid = i; sem_wait(&S.sem[i]);
        bodies[i]();
        S.done[i] = true; S.parked[i] = false;
        int nx = choose(i, true);
        if (nx < 0) {
            bool any = false; for (int j = 0; j < S.n; j++) if (!S.done[j]) any = true;
            tid = -1;
            if (any) { S.deadlock = true; abort_run("deadlock: remaining threads are parked and nobody can write"); }
            sem_post(&S.fin);
        } else { tid = -1; S.cur = nx; sem_post(&S.sem[nx]); }
    });
    S.active = true;
    if (S.strat == PLAN && !S.plan.empty()) first = S.plan[0].first;
    S.cur = first; sem_post(&S.sem[first]);
    sem_wait(&S.fin);
    S.active = false;
    for (auto& t : th) t.join();
}
inline void install() { verif::g_hook = hook; verif::g_sleep = sleep_hook; }
}  // namespace vs

// Step-level conformance driver for YkConc7 (two interior levels): the tree is the root interior N (node 5) over the interior X (node 4)
// and a right interior with nine borders; X = [S (node 1), E (node 2)]; node 6 is the border behind E in the leaf chain, node 3 the border
// a split of S allocates, node 7 a new root interior.  S = {1..7 (full=1 only), 16..23}, E = {31}.  Threads 0..2 run one operation each
// on the real code under seeded random / PCT schedules or the directed schedule pre2 (W stops just before it locks S, D stops while it
// holds X, then W, P, D, P, W, P); every hooked shared-memory access of the mapped nodes, the root pointer and the root lock is logged
// with the value read / written.  Runs are separated by {"e":"reset", ...full initial content}.  Judged by TraceConc7.tla.
// usage: stepdrv7 prog=op:k,op:k,op:k full=0|1 runs=N seed=S [sched=pct|pre2]
#include "vh_json.h"
#include "vh_fault.h"
#include "vh_sched.h"
#include <algorithm>
#include <map>
using namespace yakushima;
static std::map<std::string, std::string> A;
static long argi(const char* k, long d) { auto it = A.find(k); return it == A.end() ? d : atol(it->second.c_str()); }
static int word_id(std::uint64_t w) {   // slot word -> value id (0 = cleared)
    const std::uint64_t flag = 1ULL << 62; if (w == flag || w == 0) return 0; if (w & (1ULL << 63)) return -9;
    value* vp = reinterpret_cast<value*>(w); return *(int*)value::get_body(vp);
}
static std::string verj(std::uint64_t w) { node_version64_body b; memcpy(&b, &w, 8);
    return std::string("{\"lk\":") + vh::jb(b.get_locked()) + ",\"ins\":" + vh::jb(b.get_inserting_deleting()) + ",\"spl\":" + vh::jb(b.get_splitting()) + ",\"del\":" + vh::jb(b.get_deleted()) + ",\"root\":" + vh::jb(b.get_root()) + ",\"vi\":" + std::to_string(b.get_vinsert_delete()) + ",\"vs\":" + std::to_string(b.get_vsplit()) + "}"; }
static std::string permj(std::uint64_t b) { std::string o = "["; int c = b & 15; for (int i = 0; i < c; i++) { if (i) o += ","; o += std::to_string((int)((b >> (4 * (i + 1))) & 15)); } return o + "]"; }
static std::uint64_t vw(base_node* n) { std::uint64_t w; auto b = n->get_version(); memcpy(&w, &b, 8); return w; }
static std::vector<int> ilist(const std::string& g) { std::vector<int> v; std::size_t p = 0; while (p < g.size()) { v.push_back(atoi(g.c_str() + p)); p = g.find(',', p); if (p == std::string::npos) break; p++; } return v; }
struct POp { std::string op; int k; };
int main(int argc, char** argv) {
    for (int i = 1; i < argc; i++) { std::string a = argv[i]; auto p = a.find('='); if (p != std::string::npos) A[a.substr(0, p)] = a.substr(p + 1); }
    vh::install_fault_handlers(60);
    long runs = argi("runs", 20), seed = argi("seed", 1);
    int full = (int)argi("full", 1);
    std::vector<POp> P; { std::string g = A.count("prog") ? A["prog"] : "rem:31,put:8,get:20"; std::size_t p = 0; while (p < g.size()) { std::size_t c = g.find(':', p), e = g.find(',', p); if (e == std::string::npos) e = g.size(); P.push_back({g.substr(p, c - p), atoi(g.c_str() + c + 1)}); p = e + 1; } }
    bool pct = A.count("sched") && A["sched"] == "pct"; bool pre2 = A.count("sched") && A["sched"] == "pre2";
    std::vector<std::vector<std::pair<int, long>>> plans; long pW = -1, pX = -1, pN = -1;
    if (pre2) { plans.push_back({{1, 1000000}, {0, 1000000}, {2, 1000000}}); plans.push_back({{0, 1000000}, {1, 1000000}, {2, 1000000}}); if (runs < 3) runs = 3; }
    vs::install(); thread_info_table::init();
    vs::S.record = true; vs::S.yield_on_key_load = false;
    vs::S.on_abort = [](const char* why) { printf("{\"e\":\"abort\",\"why\":\"%s\"}\n", why); };
    {   // meta line: the programs and the initial key sets (constants of the trace specification)
        std::string m = "{\"e\":\"meta\",\"prog\":["; for (std::size_t i = 0; i < P.size(); i++) { if (i) m += ","; m += "{\"op\":\"" + P[i].op + "\",\"k\":" + std::to_string(P[i].k) + ",\"v\":" + std::to_string((int)i + 1) + "}"; }
        m += "],\"full\":" + std::to_string(full) + "}"; puts(m.c_str());
    }
    for (long r = 0; r < runs; r++) {
        tree_instance ti; Token setup{}; enter(setup);
        auto PUT = [&](int k) { int id = 100 + k; int buf[2] = {id, id}; put<char>(setup, &ti, std::string(1, (char)k), (char*)buf, false, 8); };
        auto REM = [&](int k) { remove(setup, &ti, std::string(1, (char)k)); };
        for (int i = 0; i < 136; i++) PUT(16 + i);                  // 17 borders of 8, two interiors below the root
        if (full) for (int i = 1; i <= 7; i++) PUT(i);              // S = {1..7, 16..23}
        for (int i = 16; i < 64; i++) REM(16 + i);                  // borders 2..7 of the left interior emptied: X = [S, E]
        for (int i = 8; i < 15; i++) REM(16 + i);                   // E = {31}
        interior_node* NI = dynamic_cast<interior_node*>(ti.load_root_ptr()); if (!NI || NI->get_n_keys() != 1) { fprintf(stderr, "unexpected shape (root)\n"); return 2; }
        interior_node* XI = dynamic_cast<interior_node*>(NI->get_child_at(0)); if (!XI || XI->get_n_keys() != 1) { fprintf(stderr, "unexpected shape (X)\n"); return 2; }
        border_node* L = dynamic_cast<border_node*>(XI->get_child_at(0)); border_node* R = dynamic_cast<border_node*>(XI->get_child_at(1)); border_node* R6 = R ? R->get_next() : nullptr; base_node* IR = NI->get_child_at(1);   // right interior: as a CHILD POINTER of N it is shown as node 6
        if (!L || !R || !R6 || R->get_permutation_cnk() != 1) { fprintf(stderr, "unexpected shape (borders)\n"); return 2; }
        auto bjson = [&](border_node* b) { std::string o = "{\"ver\":" + verj(vw(b)) + ",\"perm\":" + permj(b->permutation_.get_body()) + ",\"ks\":["; permutation pm{b->permutation_.get_body()};
            std::vector<int> ks(15, 0), lvv(15, 0); for (std::size_t r2 = 0; r2 < pm.get_cnk(); r2++) { auto ix = pm.get_index_of_rank(r2); auto sl = b->get_key_slice_at(ix); ks[ix] = (int)((unsigned char*)&sl)[0]; lvv[ix] = word_id(*(std::uint64_t*)b->get_lv_at(ix)); }
            for (int q = 0; q < 15; q++) { if (q) o += ","; o += std::to_string(ks[q]); } o += "],\"lv\":["; for (int q = 0; q < 15; q++) { if (q) o += ","; o += std::to_string(lvv[q]); } return o + "]}"; };
        auto sepx = XI->get_key_slice_at(0); auto sepn = NI->get_key_slice_at(0);
        std::string reset = "{\"e\":\"reset\",\"run\":" + std::to_string(r) + ",\"b\":[" + bjson(L) + "," + bjson(R) + "," + bjson(R6) + "],\"x\":{\"ver\":" + verj(vw(XI)) + ",\"key0\":" + std::to_string((int)((unsigned char*)&sepx)[0]) + "},\"nn\":{\"ver\":" + verj(vw(NI)) + ",\"key0\":" + std::to_string((int)((unsigned char*)&sepn)[0]) + "}}";
        std::size_t nth = P.size();
        std::vector<Token> tok(nth); for (auto& t : tok) enter(t);
        struct Mark { std::size_t pos; std::string js; }; std::vector<Mark> M;
        std::vector<std::function<void()>> bodies;
        for (std::size_t t = 0; t < nth; t++) bodies.push_back([&, t] {
            std::string T = std::to_string(t); std::string k(1, (char)P[t].k);
            M.push_back({vs::S.log.size(), "{\"e\":\"inv\",\"t\":" + T + "}"});
            std::string st; int w = 0;
            if (P[t].op == "get") { std::pair<char*, std::size_t> out{nullptr, 0}; status rc = get<char>(&ti, k, out); st = rc == status::OK ? "OK" : "NOT_EXIST"; w = rc == status::OK ? (out.first ? *(int*)out.first : 0) : 0; }
            else if (P[t].op == "put") { int id = (int)t + 1; int buf[2] = {id, id}; status rc = put<char>(tok[t], &ti, k, (char*)buf, false, 8); st = rc == status::OK ? "OK" : "OTHER"; }
            else if (P[t].op == "scan" || P[t].op == "rscan") { std::vector<std::tuple<std::string, char*, std::size_t>> tl; std::vector<std::pair<node_version64_body, node_version64*>> nv;
                bool rtl = P[t].op == "rscan"; scan<char>(&ti, "", scan_endpoint::INF, "", scan_endpoint::INF, tl, &nv, rtl ? 1 : 0, rtl); st = "OK";
                std::string ws = "["; for (std::size_t i = 0; i < tl.size(); i++) { if (i) ws += ","; char* p = std::get<1>(tl[i]); ws += "[" + std::to_string((int)(unsigned char)std::get<0>(tl[i])[0]) + "," + std::to_string(p ? *(int*)p : 0) + "]"; } ws += "]";
                M.push_back({vs::S.log.size(), "{\"e\":\"ret\",\"t\":" + T + ",\"st\":\"OK\",\"w\":" + ws + ",\"nvn\":" + std::to_string(nv.size()) + "}"}); return; }
            else if (P[t].op == "iscan") { long nvn = 0; auto cb = [&](node_version64*, node_version64_body) { nvn++; return false; };
                iscan_context* ctx = nullptr; void* val = nullptr; status rc = iscan_open(&ti, "", scan_endpoint::INCLUSIVE, "", scan_endpoint::INF, ctx, val, cb, false, false);
                std::string ws = "["; bool first = true;
                while (rc == status::OK) { std::string fk = ctx->full_key(); if (!first) ws += ","; first = false; ws += "[" + std::to_string((int)(unsigned char)fk[0]) + "," + std::to_string(val ? *(int*)val : 0) + "]"; rc = iscan_next(ctx, val, cb); }
                ws += "]"; if (ctx) iscan_close(ctx);
                M.push_back({vs::S.log.size(), "{\"e\":\"ret\",\"t\":" + T + ",\"st\":\"OK\",\"w\":" + ws + ",\"nvn\":" + std::to_string(nvn) + "}"}); return; }
            else { status rc = remove(tok[t], &ti, k); st = rc == status::OK ? "OK" : rc == status::OK_NOT_FOUND ? "NOT_FOUND" : "OTHER"; }
            M.push_back({vs::S.log.size(), "{\"e\":\"ret\",\"t\":" + T + ",\"st\":\"" + st + "\",\"w\":" + std::to_string(w) + "}"});
        });
        vs::S.rng.seed(seed * 1000003 + r);
        if (pre2) { vs::S.strat = vs::PLAN; vs::S.plan = r < (long)plans.size() ? plans[r] : plans.back(); }
        else if (pct) { vs::S.strat = vs::PCT; vs::S.change_points.clear(); for (int i = 0; i < 3; i++) vs::S.change_points.push_back(1 + (long)(vs::S.rng() % 200)); for (std::size_t i = 0; i < nth; i++) vs::S.prio[i] = (int)(vs::S.rng() % 1000) + 10; }
        else { vs::S.strat = vs::RANDOM; vs::S.switch_pct = 5 + (int)(vs::S.rng() % 60); }
        vs::run(bodies, (int)(vs::S.rng() % nth));
        if (pre2 && r < 2) {   // windows of the directed schedule from two solo runs (thread 1 = W first / thread 0 = D first)
            std::vector<long> locks; long n = 0; int who = r == 0 ? 1 : 0;
            for (auto& e : vs::S.log) if (e.t == who) { n++; if (e.kind == verif::k_ver_cas && e.a == 1) locks.push_back(n); }
            if (r == 0 && !locks.empty()) pW = locks[0];
            if (r == 1 && locks.size() >= 2) { pX = locks[locks.size() - 2]; pN = locks.back(); }
            if (r == 1 && pW > 0 && pX > 0) {
                std::vector<std::vector<std::pair<int, long>>> more;
                for (long ka = std::max(1L, pW - 10); ka < pW; ka++) for (long kb = pX; kb <= pN + 4; kb++) {
                    more.push_back({{1, ka}, {0, kb}, {1, 1000000}, {2, 1000000}, {0, 1000000}, {2, 1000000}, {1, 1000000}, {2, 1000000}});
                    if (ka == pW - 1) more.push_back({{1, ka}, {0, kb}, {1, 1000000}, {2, 1000000}, {0, 1000000}, {1, 1000000}, {2, 1000000}}); }
                std::shuffle(more.begin(), more.end(), vs::S.rng);
                for (auto& m : more) if ((long)plans.size() < runs) plans.push_back(m);
                runs = (long)plans.size();
            }
        }
        // ---- render
        puts(reset.c_str());
        auto inb = [](const void* o, const void* base, std::size_t sz) { return base && (const char*)o >= (const char*)base && (const char*)o < (const char*)base + sz; };
        // nodes allocated by the run: the border of a split of S (B3) and a new root interior (P2)
        border_node* B3 = nullptr; { border_node* x = L->get_next(); if (x && x != R && x != R6) B3 = x; }
        base_node* rt = ti.load_root_ptr(); interior_node* P2 = (rt && !rt->get_version_border() && rt != (base_node*)NI && rt != (base_node*)XI) ? dynamic_cast<interior_node*>(rt) : nullptr;
        auto nid = [&](std::uint64_t p) { return (void*)p == (void*)L ? 1 : (void*)p == (void*)R ? 2 : (B3 && (void*)p == (void*)B3) ? 3 : (void*)p == (void*)XI ? 4 : (void*)p == (void*)NI ? 5 : ((void*)p == (void*)R6 || (void*)p == (void*)IR) ? 6 : (P2 && (void*)p == (void*)P2) ? 7 : p == 0 ? 0 : -1; };
        std::size_t mi = 0;
        for (std::size_t i = 0; i <= vs::S.log.size(); i++) {
            while (mi < M.size() && M[mi].pos == i) puts(M[mi++].js.c_str());
            if (i == vs::S.log.size()) break;
            auto& e = vs::S.log[i]; const char* o = (const char*)e.obj; std::string T = std::to_string(e.t); using namespace verif;
            if (e.kind == k_cas || e.kind == k_spin) continue;
            if (o == (const char*)&ti.root_) { printf("{\"e\":\"%s\",\"t\":%s,\"n\":%d}\n", e.kind == k_load ? "root_load" : "root_store", T.c_str(), nid(e.peek)); continue; }
            if (o == (const char*)&ti.root_lock_) { if (e.kind == k_root_lock || e.kind == k_root_unlock) printf("{\"e\":\"%s\",\"t\":%s}\n", e.kind == k_root_lock ? "root_lock" : "root_unlock", T.c_str()); continue; }
            int n = inb(o, L, sizeof(border_node)) ? 1 : inb(o, R, sizeof(border_node)) ? 2 : inb(o, B3, sizeof(border_node)) ? 3 : inb(o, XI, sizeof(interior_node)) ? 4 : inb(o, NI, sizeof(interior_node)) ? 5 : inb(o, R6, sizeof(border_node)) ? 6 : inb(o, P2, sizeof(interior_node)) ? 7 : 0;
            if (!n) continue;
            base_node* bn = n == 1 ? (base_node*)L : n == 2 ? (base_node*)R : n == 3 ? (base_node*)B3 : n == 4 ? (base_node*)XI : n == 5 ? (base_node*)NI : n == 6 ? (base_node*)R6 : (base_node*)P2;
            if (o == (const char*)bn->get_version_ptr()) {
                if (e.kind == k_ver_load) printf("{\"e\":\"ver_load\",\"t\":%s,\"n\":%d,\"ver\":%s}\n", T.c_str(), n, verj(e.peek).c_str());
                else if (e.kind == k_ver_cas) printf("{\"e\":\"%s\",\"t\":%s,\"n\":%d,\"ver\":%s}\n", e.a == 1 ? "lock" : e.a == 2 ? "unlock" : "flag", T.c_str(), n, verj(e.peek).c_str());
                else if (e.kind == k_ver_store) printf("{\"e\":\"ver_store\",\"t\":%s,\"n\":%d,\"ver\":%s}\n", T.c_str(), n, verj(e.peek).c_str());
                continue;
            }
            if (o == (const char*)&bn->parent_) { printf("{\"e\":\"%s\",\"t\":%s,\"n\":%d,\"p\":%d}\n", e.kind == k_load ? "parent_load" : "parent_store", T.c_str(), n, nid(e.peek)); continue; }
            if (n == 4 || n == 5 || n == 7) {
                interior_node* in = n == 4 ? XI : n == 5 ? NI : P2;
                if (o == (const char*)&in->n_keys_) { printf("{\"e\":\"%s\",\"t\":%s,\"n\":%d,\"v\":%d}\n", e.kind == k_load ? "nkeys_load" : "nkeys_store", T.c_str(), n, (int)(e.peek & 0xff)); continue; }
                const char* c0 = (const char*)&in->children[0];
                if (o >= c0 && o < c0 + sizeof(in->children)) { int ci = (int)((o - c0) / sizeof(base_node*)); printf("{\"e\":\"%s\",\"t\":%s,\"n\":%d,\"i\":%d,\"c\":%d}\n", e.kind == k_load ? "child_load" : "child_store", T.c_str(), n, ci, nid(e.peek)); continue; }
                if (e.kind == k_bulk_store || e.kind == k_store) printf("{\"e\":\"p_other_store\",\"t\":%s,\"n\":%d}\n", T.c_str(), n);
                continue;
            }
            border_node* b = n == 1 ? L : n == 2 ? R : n == 3 ? B3 : R6;
            if (o == (const char*)&b->permutation_) { printf("{\"e\":\"%s\",\"t\":%s,\"n\":%d,\"perm\":%s}\n", e.kind == k_perm_load ? "perm_load" : "perm_store", T.c_str(), n, permj(e.peek).c_str()); continue; }
            if (o == (const char*)&b->next_) { printf("{\"e\":\"%s\",\"t\":%s,\"n\":%d,\"x\":%d}\n", e.kind == k_load ? "next_load" : "next_store", T.c_str(), n, nid(e.peek)); continue; }
            if (o == (const char*)&b->prev_) { printf("{\"e\":\"%s\",\"t\":%s,\"n\":%d,\"x\":%d}\n", e.kind == k_load ? "prev_load" : "prev_store", T.c_str(), n, nid(e.peek)); continue; }
            const char* lv0 = (const char*)&b->lv_[0];
            if (o >= lv0 && o < lv0 + 15 * sizeof(link_or_value)) { int slot = (int)((o - lv0) / sizeof(link_or_value));
                if (e.kind == k_load) printf("{\"e\":\"lv_load\",\"t\":%s,\"n\":%d,\"slot\":%d,\"w\":%d}\n", T.c_str(), n, slot, word_id(e.peek));
                else if (e.kind == k_store) printf("{\"e\":\"lv_store\",\"t\":%s,\"n\":%d,\"slot\":%d,\"w\":%d}\n", T.c_str(), n, slot, word_id(e.peek));
                continue; }
            if (e.kind == k_store || e.kind == k_bulk_store) printf("{\"e\":\"other_store\",\"t\":%s,\"n\":%d,\"off\":%d}\n", T.c_str(), n, (int)(o - (const char*)b));
        }
        printf("{\"e\":\"end\"}\n");
        for (auto& t : tok) leave(t); leave(setup);
        if (auto* rt = ti.load_root_ptr()) { rt->destroy(); delete rt; ti.store_root_ptr(nullptr); }
    }
    thread_info_table::fin();
    return 0;
}

// API-level sequential driver: several storages (DDL + DML), arbitrary binary keys incl. very long ones, values of many
// lengths / alignments / inline words; statuses and results as ndjson for TraceMap.tla.
// usage: mapdrv key=value ...  (seed, nops, pool, maxlen, alpha, longkeys, bigvals, pddl, pput, prem, pget, pscan, piscan)
#include "vh_json.h"
#include "vh_fault.h"
#include <algorithm>
#include <cstring>
#include <functional>
#include <deque>
#include <map>
#include <random>
using namespace yakushima;
static std::map<std::string, std::string> A;
static long argi(const char* k, long d) { auto it = A.find(k); return it == A.end() ? d : atol(it->second.c_str()); }
static std::mt19937_64 rng;
static const unsigned char AL[] = {0, 1, 255, 7, 9, 254, 128, 2};
static std::string hex(std::uint64_t x) { char b[32]; snprintf(b, sizeof b, "%llx", (unsigned long long)x); return b; }
static std::string fpstr(const void* p, std::size_t n) { return "L" + std::to_string(n) + ":" + hex(vh::fnv(p, n)); }
int main(int argc, char** argv) {
    for (int i = 1; i < argc; i++) { std::string a = argv[i]; auto p = a.find('='); if (p != std::string::npos) A[a.substr(0, p)] = a.substr(p + 1); }
    vh::install_fault_handlers(argi("alarm", 60));
    rng.seed(argi("seed", 1));
    long nops = argi("nops", 400), pool = argi("pool", 60), maxlen = argi("maxlen", 4), alpha = argi("alpha", 3), longkeys = argi("longkeys", 1), bigvals = argi("bigvals", 1);
    long pddl = argi("pddl", 8), pput = argi("pput", 40), prem = argi("prem", 15), pget = argi("pget", 17), pscan = argi("pscan", 12), piscan = argi("piscan", 8);
    auto rnd_bytes = [&](int len) { std::string k; for (int j = 0; j < len; j++) k.push_back((char)AL[rng() % alpha]); return k; };
    // names: empty, binary with NUL, > 8 bytes sharing a prefix, long
    std::vector<std::string> names = {std::string(), std::string("a\0b", 3), std::string("a\0bcdefghi", 10), std::string("a\0bcdefghij", 11), "zz", std::string(40, (char)255), std::string(300, 'n')};
    std::vector<bool> inline_st = {false, false, true, false, false, true, false};
    std::vector<std::string> keys;
    for (long i = 0; i < pool; i++) {
        std::string k; int m = rng() % 4;
        if (m == 0) k = rnd_bytes(rng() % (maxlen + 1)); else if (m == 1) k = std::string(8, (char)AL[rng() % alpha]) + rnd_bytes(rng() % (maxlen + 1));
        else if (m == 2) k = std::string(16, (char)1) + rnd_bytes(rng() % (maxlen + 1)); else k = rnd_bytes(7 + rng() % 4);
        keys.push_back(k);
    }
    if (longkeys) for (std::size_t len : {255u, 256u, 257u, 264u, 1024u, 30720u}) { std::string k(len, (char)7); k[len - 1] = (char)(rng() % 3); keys.push_back(k); if (len == 264) { std::string k2 = k; k2.push_back(0); keys.push_back(k2); } }
    // scripted preamble (longsplit=1): a FULL border node (15 two-byte fillers, in layer 0 / 1 / 2) receives a long key whose remaining
    // length in that layer is 256*k + r, ranked above all fillers (the split must put it into the upper node); then get / remove / re-put
    struct SOp { int kind; std::string k; };   // 0 put, 1 get, 2 remove
    std::deque<SOp> script; bool forced = false; std::string forced_key;
    if (argi("longsplit", 0)) {
        for (std::pair<std::size_t, std::size_t> pl : {std::pair<std::size_t, std::size_t>{0, 256}, {0, 257}, {0, 264}, {0, 512}, {0, 30720}, {8, 256}, {16, 1024}, {8, 261}, {0, 265}, {0, 255}}) {
            std::string pre(pl.first, 'Q'); std::vector<std::string> fl; for (int i = 0; i < 15; i++) fl.push_back(pre + "k" + std::string(1, (char)(0x10 + i)));
            std::string lk = pre + std::string(pl.second, 'k');
            for (auto& f : fl) script.push_back({0, f});
            script.push_back({0, lk}); script.push_back({1, lk}); script.push_back({1, fl[8]}); script.push_back({1, fl[14]});
            script.push_back({2, lk}); script.push_back({1, lk}); script.push_back({0, lk}); script.push_back({1, lk});
            for (auto& f : fl) script.push_back({2, f});
            script.push_back({1, lk}); script.push_back({2, lk});
        }
    }
    auto pick = [&]() { return forced ? forced_key : keys[rng() % keys.size()]; };
    auto endkey = [&]() { std::string k = pick(); int m = rng() % 6; if (m == 0 && !k.empty()) k.pop_back(); else if (m == 1) k.push_back((char)AL[rng() % alpha]); else if (m == 2) k.push_back(0); else if (m == 3) k = rnd_bytes(rng() % (maxlen + 2)); return k; };
    std::vector<std::size_t> lens = {0, 1, 7, 8, 9, 15, 16, 17, 63, 64, 65, 255, 256, 257, 4095, 4096, 4097, 65535, 65536, 65537};
    if (bigvals) { lens.push_back(1u << 20); lens.push_back((3u << 20) + 5); }
    std::vector<std::size_t> aligns = {1, 2, 4, 8, 16, 32, 64, 128, 256, 512, 1024, 2048, 4096};
    std::map<const void*, std::size_t> ptrlen;   // body pointer -> length, for the cursor API which returns no length
    init();
    Token tok{}; enter(tok);
    printf("{\"op\":\"meta\",\"names\":%zu}\n", names.size());
    std::vector<char> buf;
    auto EPS = [&]() { return (scan_endpoint)(rng() % 3); };
    long vctr = 0; std::vector<bool> exists(names.size(), false);
    for (long opno = 1; opno <= nops; opno++) {
        std::size_t ni = rng() % names.size();
        // coverage heuristic only: mostly address storages that currently exist
        if (rng() % 100 < 80) { std::vector<std::size_t> ex; for (std::size_t q = 0; q < names.size(); q++) if (exists[q]) ex.push_back(q); if (!ex.empty()) ni = ex[rng() % ex.size()]; }
        long x = rng() % 100, acc = 0;
        forced = false;
        if (!script.empty()) {
            ni = 4;   // "zz", a storage of out-of-line values
            if (!exists[ni]) { status rc = create_storage(names[ni]); if (rc == status::OK) exists[ni] = true; puts(("{\"n\":" + vh::jbytes(names[ni]) + ",\"inl\":false,\"op\":\"create\",\"st\":\"" + vh::stname(rc) + "\"}").c_str()); }
            SOp so = script.front(); script.pop_front(); forced = true; forced_key = so.k;
            x = so.kind == 0 ? pddl : so.kind == 2 ? pddl + pput : pddl + pput + prem;
        }
        const std::string& nm = names[ni]; bool inl = inline_st[ni];
        std::string pre = "{\"n\":" + vh::jbytes(nm) + ",\"inl\":" + vh::jb(inl);
        if (x < (acc += pddl)) {
            int w = rng() % 4;
            if (w == 0 || w == 1) { if (rng() % 3) { std::vector<std::size_t> ne; for (std::size_t q = 0; q < names.size(); q++) if (!exists[q]) ne.push_back(q); if (!ne.empty()) ni = ne[rng() % ne.size()]; }
                const std::string& nm = names[ni]; bool inl = inline_st[ni]; std::string pre = "{\"n\":" + vh::jbytes(nm) + ",\"inl\":" + vh::jb(inl);
                status rc = create_storage(nm); if (rc == status::OK) exists[ni] = true; puts((pre + ",\"op\":\"create\",\"st\":\"" + vh::stname(rc) + "\"}").c_str()); }
            else if (w == 2) { status rc = delete_storage(nm); if (rc == status::OK) exists[ni] = false; puts((pre + ",\"op\":\"delete\",\"st\":\"" + vh::stname(rc) + "\"}").c_str()); }
            else { std::vector<std::pair<std::string, tree_instance*>> out; status rc = list_storages(out); std::string o = pre + ",\"op\":\"list\",\"st\":\"" + vh::stname(rc) + "\",\"names\":[";
                   for (std::size_t q = 0; q < out.size(); q++) { if (q) o += ","; o += vh::jbytes(out[q].first); } puts((o + "]}").c_str());
                   status rf = find_storage(nm); puts((pre + ",\"op\":\"find\",\"st\":\"" + vh::stname(rf) + "\"}").c_str()); opno++; }
            continue;
        }
        if (x < (acc += pput)) {
            std::string k = pick(); bool uniq = rng() % 4 == 0; ++vctr;
            if (inl) {
                std::uintptr_t w = (rng() % 5 == 0) ? 0 : (rng() & 0x7fffffffffffULL); std::uintptr_t* created = nullptr;
                status rc = put<std::uintptr_t>(tok, nm, k, &w, sizeof(w), &created, (value_align_type)8, uniq);
                puts((pre + ",\"op\":\"put\",\"k\":" + vh::jbytes(k) + ",\"v\":\"P:" + hex(w) + "\",\"len\":8,\"align\":1,\"cp\":\"\",\"cpv\":\"\",\"cpmod\":0,\"uniq\":" + vh::jb(uniq) + ",\"st\":\"" + vh::stname(rc) + "\"}").c_str());
            } else {
                std::size_t len = lens[rng() % (rng() % 3 ? 12 : lens.size())]; std::size_t al = aligns[rng() % aligns.size()];
                buf.resize(len + 1); std::uint64_t s = vctr * 0x9e3779b97f4a7c15ULL; for (std::size_t j = 0; j < len; j++) { s = s * 6364136223846793005ULL + 1442695040888963407ULL; buf[j] = (char)(s >> 56); }
                if (len >= 8) memcpy(buf.data(), &vctr, 8);
                char* created = nullptr;
                status rc = put<char>(tok, nm, k, buf.data(), len, &created, (value_align_type)al, uniq);
                std::string cp, cpv; long cpmod = 0;
                if (rc == status::OK && created != nullptr) { cp = hex((std::uintptr_t)created); cpv = fpstr(created, len); cpmod = (std::uintptr_t)created % 4096; ptrlen[created] = len; }
                puts((pre + ",\"op\":\"put\",\"k\":" + vh::jbytes(k) + ",\"v\":\"" + fpstr(buf.data(), len) + "\",\"len\":" + std::to_string(len) + ",\"align\":" + std::to_string(al) + ",\"cp\":\"" + cp + "\",\"cpv\":\"" + cpv + "\",\"cpmod\":" + std::to_string(cpmod) + ",\"uniq\":" + vh::jb(uniq) + ",\"st\":\"" + vh::stname(rc) + "\"}").c_str());
            }
            continue;
        }
        if (x < (acc += prem)) { std::string k = pick(); status rc = remove(tok, nm, k); puts((pre + ",\"op\":\"remove\",\"k\":" + vh::jbytes(k) + ",\"st\":\"" + vh::stname(rc) + "\"}").c_str()); continue; }
        if (x < (acc += pget)) {
            std::string k = pick(); std::string o = pre + ",\"op\":\"get\",\"k\":" + vh::jbytes(k);
            if (inl) { std::pair<std::uintptr_t*, std::size_t> out{nullptr, 0}; status rc = get<std::uintptr_t>(nm, k, out);
                o += std::string(",\"st\":\"") + vh::stname(rc) + "\",\"v\":\"" + (rc == status::OK ? "P:" + hex((std::uintptr_t)out.first) : std::string()) + "\",\"len\":" + std::to_string(out.second) + ",\"ptr\":\"\",\"pmod\":0}"; }
            else { std::pair<char*, std::size_t> out{nullptr, 0}; status rc = get<char>(nm, k, out);
                bool ok = rc == status::OK && out.first != nullptr;
                o += std::string(",\"st\":\"") + vh::stname(rc) + "\",\"v\":\"" + (ok ? fpstr(out.first, out.second) : std::string(rc == status::OK ? "NULL" : "")) + "\",\"len\":" + std::to_string(out.second) + ",\"ptr\":\"" + (ok ? hex((std::uintptr_t)out.first) : std::string()) + "\",\"pmod\":" + std::to_string(ok ? (std::uintptr_t)out.first % 4096 : 0) + "}"; }
            puts(o.c_str()); continue;
        }
        std::string lk = endkey(), rk = endkey(); scan_endpoint le = EPS(), re = EPS();
        if (le != scan_endpoint::INF && re != scan_endpoint::INF && lk > rk && rng() % 4) std::swap(lk, rk);
        std::string args = ",\"l\":" + vh::jbytes(lk) + ",\"le\":\"" + vh::epname(le) + "\",\"r\":" + vh::jbytes(rk) + ",\"re\":\"" + vh::epname(re) + "\"";
        if (x < (acc += pscan)) {
            std::size_t mx = (rng() % 3 == 0) ? 1 + rng() % 3 : 0; bool rtl = rng() % 8 == 0; if (rtl && rng() % 4) { re = scan_endpoint::INF; mx = 1; args = ",\"l\":" + vh::jbytes(lk) + ",\"le\":\"" + vh::epname(le) + "\",\"r\":" + vh::jbytes(rk) + ",\"re\":\"INF\""; }
            std::string o = pre + ",\"op\":\"scan\"" + args + ",\"max\":" + std::to_string(mx) + ",\"rtl\":" + vh::jb(rtl);
            status rc; o += ",\"tl\":[";
            if (inl) { std::vector<std::tuple<std::string, std::uintptr_t*, std::size_t>> tl; rc = scan<std::uintptr_t>(nm, lk, le, rk, re, tl, nullptr, mx, rtl);
                for (std::size_t q = 0; q < tl.size(); q++) { if (q) o += ","; o += "[" + vh::jbytes(std::get<0>(tl[q])) + ",\"P:" + hex((std::uintptr_t)std::get<1>(tl[q])) + "\"," + std::to_string(std::get<2>(tl[q])) + ",\"\"]"; } }
            else { std::vector<std::tuple<std::string, char*, std::size_t>> tl; rc = scan<char>(nm, lk, le, rk, re, tl, nullptr, mx, rtl);
                for (std::size_t q = 0; q < tl.size(); q++) { if (q) o += ","; char* p = std::get<1>(tl[q]); o += "[" + vh::jbytes(std::get<0>(tl[q])) + ",\"" + (p ? fpstr(p, std::get<2>(tl[q])) : std::string("NULL")) + "\"," + std::to_string(std::get<2>(tl[q])) + ",\"" + hex((std::uintptr_t)p) + "\"]"; } }
            puts((o + "],\"st\":\"" + vh::stname(rc) + "\"}").c_str()); continue;
        }
        {   // cursor
            bool rtl = rng() % 2; bool ea = rng() % 4 == 0; long limit = (rng() % 3 == 0) ? (long)(rng() % 4) : -1;
            iscan_context* ctx = nullptr; void* val = nullptr;
            status rc = iscan_open(nm, lk, le, rk, re, rtl, ea, ctx, val);
            std::string o = pre + ",\"op\":\"iscan\"" + args + ",\"rtl\":" + vh::jb(rtl) + ",\"ea\":" + vh::jb(ea) + ",\"limit\":" + std::to_string(limit) + ",\"st\":\"" + vh::stname(rc) + "\",\"steps\":[";
            long n = 0;
            while (rc == status::OK) {
                std::string fk = ctx->full_key(); if (n) o += ","; std::string v, ph;
                if (inl) v = "P:" + hex((std::uintptr_t)val); else { auto it = ptrlen.find(val); v = (it == ptrlen.end()) ? std::string(val ? "?" : "NULL") : fpstr(val, it->second); ph = hex((std::uintptr_t)val); }
                o += "[" + vh::jbytes(fk) + ",\"" + v + "\",\"" + ph + "\"]"; n++;
                if (limit >= 0 && n > limit) break;
                rc = iscan_next(ctx, val);
            }
            puts((o + "],\"end\":\"" + vh::stname(rc) + "\"}").c_str());
            if (ctx) iscan_close(ctx);
        }
    }
    leave(tok); fin();
    return 0;
}

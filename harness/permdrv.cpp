// C19 replay driver: drives the real yakushima::permutation through (a) every (count, rank, free slot) from a family of
// orderings and (b) seeded random walks; logs decoded words for TracePerm.tla.  Counts word stores per operation.
#include "vh_json.h"
#include "vh_fault.h"
#include <random>
#include <algorithm>
using namespace yakushima;
static int g_stores = 0; static const void* g_obj = nullptr;
static void hook(int k, const void* o, std::uint64_t, std::uint64_t) { if (k == verif::k_perm_store && o == g_obj) g_stores++; }
static std::vector<int> dec(std::uint64_t b) { std::vector<int> v; int n = b & 15; for (int i = 0; i < n; i++) v.push_back((b >> (4 * (i + 1))) & 15); return v; }
static std::uint64_t enc(const std::vector<int>& v) { std::uint64_t b = v.size(); for (std::size_t i = 0; i < v.size(); i++) b |= (std::uint64_t)v[i] << (4 * (i + 1)); return b; }
static std::string js(const std::vector<int>& v) { std::string o = "["; for (std::size_t i = 0; i < v.size(); i++) { if (i) o += ","; o += std::to_string(v[i]); } return o + "]"; }
static long nlines = 0;
static void emit(const char* op, std::uint64_t pre, std::uint64_t post, int rank, int pos) {
    printf("{\"op\":\"%s\",\"pre\":%s,\"post\":%s,\"n_pre\":%d,\"n_post\":%d,\"rank\":%d,\"pos\":%d,\"stores\":%d}\n", op, js(dec(pre)).c_str(), js(dec(post)).c_str(),
           (int)(pre & 15), (int)(post & 15), rank, pos, g_stores); nlines++;
}
static void all_ops_on(const std::vector<int>& ord) {
    std::uint64_t pre = enc(ord); int n = ord.size();
    std::vector<bool> used(15, false); for (int s : ord) used[s] = true;
    { permutation p{pre}; g_obj = &p; g_stores = 0; p.set_body(pre); g_stores = 0; emit("setbody", pre, p.get_body(), 0, 0); }
    if (n < 15) {
        permutation p{pre}; g_obj = &p; g_stores = 0; int e = (int)p.get_empty_slot(); emit("empty", pre, p.get_body(), 0, e);
        for (int r = 0; r <= n; r++) for (int s = 0; s < 15; s++) if (!used[s]) {
            permutation q{pre}; g_obj = &q; g_stores = 0; q.insert_rank(r, s); emit("insert", pre, q.get_body(), r, s); }
    }
    for (int r = 0; r < n; r++) {
        { permutation q{pre}; g_obj = &q; g_stores = 0; q.delete_rank(r); emit("delete", pre, q.get_body(), r, 0); }
        { permutation q{pre}; g_obj = &q; g_stores = 0; int ix = (int)q.get_index_of_rank(r); emit("index", pre, q.get_body(), r, ix); }
    }
    for (int num = 1; num <= 15; num++) { permutation q{pre}; g_obj = &q; g_stores = 0; q.split_dest(num); emit("split", pre, q.get_body(), num, 0); }
}
int main(int argc, char** argv) {
    unsigned seed = argc > 1 ? atoi(argv[1]) : 1; int walks = argc > 2 ? atoi(argv[2]) : 50; int fam = argc > 3 ? atoi(argv[3]) : 3;
    vh::install_fault_handlers(100);
    verif::g_hook = hook; std::mt19937 rng(seed);
    for (int n = 0; n <= 15; n++) {
        std::vector<int> id; for (int i = 0; i < n; i++) id.push_back(i);
        all_ops_on(id); std::vector<int> rev(id.rbegin(), id.rend()); if (n > 1) all_ops_on(rev);
        for (int k = 0; k < fam; k++) { std::vector<int> all; for (int i = 0; i < 15; i++) all.push_back(i); std::shuffle(all.begin(), all.end(), rng); all.resize(n); all_ops_on(all); }
    }
    // random walks as a border node performs them: insert at a random rank into the reported empty slot, delete a random rank
    for (int w = 0; w < walks; w++) {
        permutation p{}; g_obj = &p;
        for (int step = 0; step < 120; step++) {
            std::uint64_t pre = p.get_body(); int n = pre & 15; bool ins = n == 0 || (n < 15 && rng() % 100 < 55);
            if (ins) { g_stores = 0; int e = (int)p.get_empty_slot(); emit("empty", pre, p.get_body(), 0, e); int r = rng() % (n + 1); g_stores = 0; p.insert_rank(r, e); emit("insert", pre, p.get_body(), r, e); }
            else { int r = rng() % n; g_stores = 0; p.delete_rank(r); emit("delete", pre, p.get_body(), r, 0); }
        }
    }
    fprintf(stderr, "%ld lines\n", nlines); return 0;
}

// C17 replay driver: executes every public operation of node_version64 on every flag combination and on
// counter values around the wrap boundary; logs (op, pre, post) for TraceVersionSeq.tla.
#include "vh_json.h"
#include "vh_fault.h"
using namespace yakushima;
static node_version64_body mk(int flags, std::uint32_t vi, std::uint32_t vs) {
    node_version64_body b{}; b.init();
    b.set_locked(flags & 1); b.set_inserting_deleting(flags & 2); b.set_splitting(flags & 4);
    b.set_deleted(flags & 8); b.set_root(flags & 16); b.set_border(flags & 32);
    for (;;) { if (b.get_vinsert_delete() == vi) break; // set counters through the word itself
        std::uint64_t w; memcpy(&w, &b, 8); w = (w & ~0x1fffffffULL) | vi; memcpy(&b, &w, 8); }
    { std::uint64_t w; memcpy(&w, &b, 8); w = (w & ~(0x1fffffffULL << 32)) | ((std::uint64_t)vs << 32); memcpy(&b, &w, 8); }
    return b;
}
int main() {
    vh::install_fault_handlers(100);
    const std::uint32_t M = 1u << 29;
    std::uint32_t cs[] = {0, 1, 2, 1u << 28, M - 2, M - 1};
    const char* fl[] = {"ins", "spl", "deleted", "root", "border"};
    long n = 0;
    for (int f = 0; f < 64; f++) for (auto vi : cs) for (auto vs : cs) {
        node_version64_body pre = mk(f, vi, vs);
        if (pre.get_vinsert_delete() != vi || pre.get_vsplit() != vs) { printf("{\"op\":\"selfcheck_failed\"}\n"); return 1; }
        auto emit = [&](const char* op, const char* flag, bool b, node_version64& nv) {
            printf("{\"op\":\"%s\",\"flag\":\"%s\",\"b\":%s,\"pre\":%s,\"post\":%s}\n", op, flag, vh::jb(b), vh::jver(pre).c_str(), vh::jver(nv.get_body()).c_str()); n++; };
        { node_version64 nv; nv.set_body(pre); emit("set_body", "", false, nv); }
        if (!pre.get_locked()) { node_version64 nv; nv.set_body(pre); nv.lock(); emit("lock", "", false, nv); }
        { node_version64 nv; nv.set_body(pre); nv.unlock(); emit("unlock", "", false, nv); }
        { node_version64 nv; nv.set_body(pre); nv.atomic_inc_vinsert(); emit("inc", "", false, nv); }
        for (int k = 0; k < 5; k++) for (int b = 0; b < 2; b++) {
            node_version64 nv; nv.set_body(pre);
            switch (k) { case 0: nv.atomic_set_inserting_deleting(b); break; case 1: nv.atomic_set_splitting(b); break;
                         case 2: nv.atomic_set_deleted(b); break; case 3: nv.atomic_set_root(b); break; case 4: nv.atomic_set_border(b); break; }
            emit("set", fl[k], b, nv);
        }
        if (!pre.get_locked() && !pre.get_inserting_deleting() && !pre.get_splitting()) {
            node_version64 nv; nv.set_body(pre); node_version64_body sv = nv.get_stable_version(); nv.set_body(sv); emit("stable", "", false, nv); }
        { node_version64 nv; nv.set_body(pre); nv.init(); emit("init", "", false, nv); }
    }
    fprintf(stderr, "%ld cases\n", n);
    return 0;
}

---- MODULE MC_IscanR ----
EXTENDS MC_Iscan, YkIscanR
\* on an unchanging tree the cursor with its re-validation paths behaves exactly as the plain transliteration
IscanREq == \A a \in IscanArgs : \A lim \in Limits : \A ea \in BOOLEAN :
               LET r == IscanRunR(node, root, a.l, a.le, a.r, a.re, a.rtl, ea, lim) q == IscanRun(node, root, a.l, a.le, a.r, a.re, a.rtl, lim) IN
               r.tl = q.tl /\ r.nv = q.nv /\ r.ended = q.ended
====

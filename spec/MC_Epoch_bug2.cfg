SPECIFICATION Spec
CONSTANTS
  W = {w1, w2}
  NSlots = 2
  MaxEpoch = 5
  NObj = 1
  BUGGY_ENTER = FALSE
  LEAVE_SWAPPED <- SwitchOn
INVARIANTS Safe SafeStrong
CHECK_DEADLOCK FALSE

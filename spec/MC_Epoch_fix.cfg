SPECIFICATION Spec
CONSTANTS
  W = {w1, w2}
  NSlots = 2
  MaxEpoch = 5
  NObj = 2
  BUGGY_ENTER = FALSE
INVARIANTS Safe SafeStrong TokenUnique Capacity WarnMaxJustified EpochLag GcBehind
CHECK_DEADLOCK FALSE

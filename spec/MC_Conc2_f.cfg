SPECIFICATION FairSpec
CONSTANTS
  F = 5
  Readers = {1, 2}
  NewKey = 9
  GetKeys <- GK5b
  NO_SPLIT_BIT = FALSE
  NO_FINAL_CHECK = FALSE
INVARIANTS LinOK Quiescent
PROPERTY Termination

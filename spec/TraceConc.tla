---- MODULE TraceConc ----
(* Step-level conformance of the real code to YkConc (harness/stepdrv.cpp): every logged access of the border's version
   word, permutation word and slot words must be the enabled step of the model for that thread, with the same value.
   Loads by the lock owner, pre-CAS loads of lock() and spinning loads are stuttering; the re-validation under the lock
   that proceeds without touching shared memory is a silent model step.  Runs are separated by reset events.
   A rejection here means the code no longer follows the transliterated algorithm (a divergence); the model's
   invariants (LinOK, ScanOK) are evaluated on every state of every accepted execution as well. *)
EXTENDS MC_Conc, Json, IOUtils
Log == ndJsonDeserialize(IOEnv.TRACE)
VARIABLE l
tvars == <<vars, l>>
E == Log[l]
LVer(e) == [lk |-> e.ver.lk, ins |-> e.ver.ins, spl |-> e.ver.spl, del |-> e.ver.del, root |-> e.ver.root, vi |-> e.ver.vi, vs |-> e.ver.vs]
Consume == l <= Len(Log) /\ l' = l + 1
Stutter == UNCHANGED vars
Owner(t) == pc[t] \in {"chk", "r_clear", "r_pub", "r_del", "r_unlock", "p_undel", "p_slot", "p_pub", "p_unlock", "p_set"}
TInit == Init /\ l = 1 /\ TLCSet(1, 1)
TReset == /\ Consume /\ E.e = "reset"
          /\ ver' = [V0 EXCEPT !.vi = NInit] /\ perm' = [i \in 1..NInit |-> i-1]
          /\ ks' = [s \in Slots |-> IF s < NInit THEN InitSeq[s+1] ELSE 0] /\ lv' = [s \in Slots |-> IF s < NInit THEN 100 + s + 1 ELSE 0]
          /\ pc' = [t \in Threads |-> "start"] /\ loc' = [t \in Threads |-> L0] /\ opi' = [t \in Threads |-> 1]
          /\ abs' = [k \in Keys |-> IF k \in InitKeys THEN 100 + (CHOOSE i \in 1..NInit : InitSeq[i] = k) ELSE ABSENT]
          /\ seen' = [t \in Threads |-> [k \in Keys |-> {}]] /\ res' = [t \in Threads |-> <<>>]
TInv == Consume /\ E.e = "inv" /\ Start(E.t)
TVerLoad == /\ Consume /\ E.e = "ver_load" /\ ver = LVer(E)
            /\ LET t == E.t IN
               IF pc[t] \in {"lock", "s_empty"} \/ Owner(t) \/ ~Stable(ver) THEN Stutter
               ELSE FB(t) \/ LV1(t) \/ LV2(t) \/ GFc(t) \/ RFc0(t) \/ SChk(t) \/ SFin(t)
TPermLoad == /\ Consume /\ E.e = "perm_load" /\ perm = E.perm
             /\ IF Owner(E.t) THEN Stutter ELSE PermLd(E.t) \/ SPerm(E.t)
TLvLoad == /\ Consume /\ E.e = "lv_load" /\ lv[E.slot] = E.w
           /\ LET t == E.t IN
              IF Owner(t) \/ (pc[t] = "s_chk" /\ loc[t].idx = E.slot) THEN Stutter       \* owner's read; second load of the word in scan_border
              ELSE (GVal(t) /\ loc[t].idx = E.slot) \/ (SVal(t) /\ loc[t].snap[loc[t].i] = E.slot)
TLock == Consume /\ E.e = "lock" /\ Lock(E.t) /\ ver' = LVer(E)
\* flag CAS: inserting bit (Chk, insert path), clearing `deleted` of an empty root (PUndel), setting `deleted` (RDel)
TFlag == /\ Consume /\ E.e = "flag"
         /\ \/ (pc[E.t] = "chk" /\ Chk(E.t) /\ pc'[E.t] \in {"p_slot", "p_undel"} /\ ver' = LVer(E))
            \/ (pc[E.t] = "p_undel" /\ PUndel(E.t) /\ ver' = LVer(E))
            \/ (pc[E.t] = "r_del" /\ RDel(E.t) /\ ver' = LVer(E))
TUnlock == Consume /\ E.e = "unlock" /\ (Chk(E.t) \/ RUnlock(E.t) \/ PUnlock(E.t)) /\ ver' = LVer(E)
TLvStore == Consume /\ E.e = "lv_store" /\ (RClear(E.t) \/ PSlot(E.t) \/ PSet(E.t)) /\ lv'[E.slot] = E.w
TPermStore == Consume /\ E.e = "perm_store" /\ (RPub(E.t) \/ PPub(E.t)) /\ perm' = E.perm
TRet == /\ Consume /\ E.e = "ret" /\ Stutter
        /\ Len(res[E.t]) >= 1
        /\ LET r == res[E.t][Len(res[E.t])] IN
           /\ r.op = E.op /\ pc[E.t] \in {"start", "done"}
           /\ r.st = E.st
           /\ (r.op = "get" /\ r.st = "OK" => r.w = E.w)
           /\ (r.op = "scan" => r.w = [i \in 1..Len(E.w) |-> <<E.w[i][1], E.w[i][2]>>])
\* silent internal steps: re-validation under the lock that goes on without a shared access; the empty-scan return
TSilent == /\ l <= Len(Log) /\ UNCHANGED l
           /\ \E t \in Threads : \/ (pc[t] = "chk" /\ Chk(t) /\ pc'[t] \in {"r_clear", "p_set"})
                                 \/ (pc[t] = "s_empty" /\ SEmpty(t))
TNext == TReset \/ TInv \/ TVerLoad \/ TPermLoad \/ TLvLoad \/ TLock \/ TFlag \/ TUnlock \/ TLvStore \/ TPermStore \/ TRet \/ TSilent
TSpec == TInit /\ [][TNext]_tvars
Record == TLCSet(1, IF l > TLCGet(1) THEN l ELSE TLCGet(1))
Accepted == IF TLCGet(1) = Len(Log) + 1 THEN TRUE ELSE PrintT(<<"STUCK", TLCGet(1), 0>>) /\ FALSE
====

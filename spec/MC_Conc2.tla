---- MODULE MC_Conc2 ----
EXTENDS YkConc2
\* F = 3: L = {2,4,6}; keep = 2, one entry (6) moves to R
GK1 == (1 :> 6) @@ (2 :> 2)          \* a reader of the moved key and a reader of a key that stays
GK2 == (1 :> 5) @@ (2 :> 4)          \* a reader of the key being inserted and of a staying key
GK3 == (1 :> 6) @@ (2 :> 7)
\* F = 5: L = {2,4,6,8,10}; keep = 3, two entries (8, 10) move
GK5 == (1 :> 10) @@ (2 :> 8)
GK5b == (1 :> 9) @@ (2 :> 6)
====

---- MODULE TraceLife ----
(* Lifecycle traces of the real library (harness/lifedrv.cpp): repeated init() ... fin() cycles (and destroy()) with its own
   epoch and gc threads, and the accounting of operator new/delete.
   C16: every cycle behaves like the first - a fresh empty system after init (nothing of the previous cycle visible, all
        session slots free), the background threads stay alive until fin and make progress (epoch advances, retired memory is
        reclaimed while running), destroy() leaves an empty usable system, fin joins what init started.
   C11: after every fin() the process holds no more operator-new memory than after a fin() that followed no operations. *)
EXTENDS Naturals, Sequences, TLC, Json, IOUtils
CONSTANTS ON, LENIENT
Log == ndJsonDeserialize(IOEnv.TRACE)
VARIABLES l, base, cap, phase, cyc
vars == <<l, base, cap, phase, cyc>>
E == Log[l]
Chk(c) == c \in ON
Ev(b) == b = TRUE
J(c, tag, cond, info) == Ev(IF ~Chk(c) THEN TRUE ELSE IF cond THEN TRUE
                            ELSE IF LENIENT THEN PrintT(<<"MISMATCH", c, tag, l, ToJson(info)>>) ELSE FALSE)
TInit == l = 1 /\ base = [bytes |-> 0, blocks |-> 0] /\ cap = 0 /\ phase = "down" /\ cyc = 0
TBaseline == /\ E.e = "baseline" /\ base' = [bytes |-> E.bytes, blocks |-> E.blocks] /\ cap' = E.cap /\ UNCHANGED <<phase, cyc>>
TInitBegin == /\ E.e = "init_begin" /\ phase = "down" /\ phase' = "starting" /\ cyc' = E.cycle /\ UNCHANGED <<base, cap>>
TInitDone == /\ E.e = "init_done" /\ phase = "starting" /\ phase' = "up"
             /\ J("C16", "previous-cycle-visible-after-init", E.list_status = "WARN_NOT_EXIST" /\ E.listed = 0 /\ ~E.old_visible, [cycle |-> cyc])
             /\ J("C16", "session-slots-not-free-after-init", E.free_slots = cap, [cycle |-> cyc, free |-> E.free_slots])
             /\ UNCHANGED <<base, cap, cyc>>
TThread == /\ E.e \in {"thread_start", "thread_exit"}
           /\ J("C16", "background-thread-outside-a-cycle", phase # "down", [cycle |-> cyc])
           /\ UNCHANGED <<base, cap, phase, cyc>>
TProgress == /\ E.e = "progress" /\ phase = "up"
             /\ J("C16", "background-thread-exited-before-fin", E.exits_before_fin = 0, [cycle |-> cyc, exits |-> E.exits_before_fin])
             /\ J("C16", "epoch-does-not-advance-in-cycle", E.incs >= 3, [cycle |-> cyc, incs |-> E.incs])
             /\ J("C16", "nothing-reclaimed-while-running", E.session_open \/ E.retired = 0 \/ E.reclaimed >= 1, [cycle |-> cyc, retired |-> E.retired])
             /\ UNCHANGED <<base, cap, phase, cyc>>
TSlots == /\ E.e = "slots" /\ phase = "up"
          /\ J("C16", "session-slots-not-free-after-init", E.free_slots = cap, [cycle |-> cyc, free |-> E.free_slots])
          /\ UNCHANGED <<base, cap, phase, cyc>>
TDestroy == /\ E.e = "destroy_done" /\ phase = "up"
            /\ J("C16", "destroy-does-not-leave-an-empty-usable-system",
                 E.list_status = "WARN_NOT_EXIST" /\ E.listed = 0 /\ E.create = "OK" /\ E.put = "OK" /\ E.get = "OK" /\ E.value_ok, [cycle |-> cyc])
            /\ UNCHANGED <<base, cap, phase, cyc>>
TFinBegin == /\ E.e = "fin_begin" /\ phase = "up" /\ phase' = "stopping" /\ UNCHANGED <<base, cap, cyc>>
TFinDone == /\ E.e = "fin_done" /\ phase = "stopping" /\ phase' = "down"
            /\ J("C11", "memory-left-after-fin", E.bytes <= base.bytes /\ E.blocks <= base.blocks, [cycle |-> cyc, bytes |-> E.bytes, base |-> base.bytes, blocks |-> E.blocks, baseblocks |-> base.blocks])
            /\ J("C16", "fin-did-not-join-the-background-threads", E.exits = E.starts, [cycle |-> cyc])
            /\ UNCHANGED <<base, cap, cyc>>
TNext == l <= Len(Log) /\ l' = l + 1 /\ (TBaseline \/ TInitBegin \/ TInitDone \/ TThread \/ TProgress \/ TSlots \/ TDestroy \/ TFinBegin \/ TFinDone)
TSpec == TInit /\ [][TNext]_vars
Accepted == TLCGet("stats").diameter - 1 = Len(Log)
====

SPECIFICATION FairSpec
CONSTANTS
  CMOD = 4
  Threads = {1, 2, 3, 4}
  Prog <- ProgA
INVARIANTS MutualExclusion StableNeverDirty EqualStableMeansNothingCompleted NoLockLeft
PROPERTIES UnlockEffect Termination

---- MODULE YkConc6 ----
(* Concurrent grain of an INTERIOR SPLIT: the tree is a FULL interior root P (node 101, F keys, F + 1 border children); an insert
   into a full border splits it, the new border does not fit into P, P is split (interior_helper.h interior_split): a new interior
   P' takes the upper keys and children (the parent pointer of every moved child is rewritten WITHOUT the child's lock), the middle
   key is pushed up into a new root.  A second insert splits another border at the same time: its lock_parent sees the parent of
   its border change from P to P' while it waits for P's lock (base_node.h lock_parent re-check).  Readers run get.
     put (full border) : as YkConc4 up to the publication of the new entry (S1 S3a S3 S3b SMove SPerm S6 S7a S7b), then lock_parent
                         (LpLd LpL LpC), X1 X2 root flags off, X3 X4 unlock the borders, then
        parent not full : X5 new border's parent / X6 P.inserting / XKey XChS XCh XN / X9 unlock P
        parent full     : IS1 P.splitting / IS2 P' := copy of P's version (private) / ISKeys upper keys move to P' / ISN P.n := F div 2 /
                          per moved child ISChPar (child.parent := P') ISChClr (P.ch[i] := NULL) / ISPiv middle key cleared /
                          ISPar new border's parent := the half it belongs to / insert into that half (into P: X6 XKey XChS XCh XN; into the private P': ISIns, one step) / lock_parent(P): no parent -> root lock (ISRl ISRl2) / ISR1 ISR2 root flags off +
                          new root built privately / ISR3 ISR4 parent pointers of P and P' / ISU1 unlock P / ISU2 unlock P' /
                          ISRs root pointer := new root / ISU3 unlock new root / ISRu root unlock
     get               : G0 FB GC1..GC4 LV1 PermLd LV2 GVal GFc as in YkConc4 (torn reads of a dirty interior are over-approximated)
   Ghosts abs / seen / res as in YkConc.  Switches: NO_PARENT_RECHECK (lock_parent does not re-check the parent after locking it),
   NO_SPLIT_MARK (interior_split does not set `splitting`: vsplit of P does not change). *)
EXTENDS Naturals, Sequences, FiniteSets, TLC
CONSTANTS F, Keys, Threads, Prog,
          InitB,           \* sequence of F + 1 key sets, the children of P from left to right
          NO_PARENT_RECHECK, NO_SPLIT_MARK
ABSENT == 0
NULL == 0
NoSlot == 99
Slots == 0..(F-1)
MaxB == F + 3
Borders == 1..MaxB
Interiors == {101, 102, 103}
VARIABLES bd, it, nextB, nextI, rootp, rootlock, pc, loc, abs, seen, res
vars == <<bd, it, nextB, nextI, rootp, rootlock, pc, loc, abs, seen, res>>
Force(f) == IF f = f THEN f ELSE f
V0 == [lk |-> FALSE, ins |-> FALSE, spl |-> FALSE, del |-> FALSE, root |-> FALSE, vi |-> 0, vs |-> 0]
Stable(v) == ~v.lk /\ ~v.ins /\ ~v.spl
Unl(v) == [v EXCEPT !.lk = FALSE, !.ins = FALSE, !.spl = FALSE, !.vi = IF v.ins THEN v.vi + 1 ELSE v.vi, !.vs = IF v.spl THEN v.vs + 1 ELSE v.vs]
SeqOf(S) == CHOOSE sq \in [1..Cardinality(S) -> S] : \A i, j \in 1..Cardinality(S) : i < j => sq[i] < sq[j]
MinOf(S) == CHOOSE x \in S : \A y \in S : x <= y
EmptyB == [ver |-> V0, perm |-> <<>>, ks |-> [s \in Slots |-> 0], lv |-> [s \in Slots |-> 0], prev |-> NULL, next |-> NULL, parent |-> NULL]
MkBorder(S, pv, nx) == LET n == Cardinality(S) sq == SeqOf(S) IN
    [EmptyB EXCEPT !.ver = [V0 EXCEPT !.vi = n], !.perm = [i \in 1..n |-> i - 1], !.ks = [s \in Slots |-> IF s < n THEN sq[s + 1] ELSE 0],
                   !.lv = [s \in Slots |-> IF s < n THEN 100 + sq[s + 1] ELSE 0], !.prev = pv, !.next = nx, !.parent = 101]
EmptyI == [ver |-> V0, n |-> 0, key |-> [i \in 0..(F-1) |-> 0], ch |-> [i \in 0..F |-> NULL], parent |-> NULL]
L0 == [root |-> 101, cur |-> 101, pv |-> V0, ci |-> 0, child |-> 1, cv |-> V0, b |-> 1, vfb |-> V0, v |-> V0, idx |-> NoSlot, w |-> 0,
       pn |-> NULL, i |-> 0, side |-> NULL, mv |-> 1, nb |-> NULL, ni |-> NULL, nr |-> NULL, piv |-> 0, tgt |-> NULL, isp |-> FALSE]
NC == F + 1
Init == /\ bd = Force([n \in Borders |-> IF n <= NC THEN MkBorder(InitB[n], IF n = 1 THEN NULL ELSE n - 1, IF n = NC THEN NULL ELSE n + 1) ELSE EmptyB])
        /\ it = Force([n \in Interiors |-> IF n = 101 THEN [EmptyI EXCEPT !.ver = [V0 EXCEPT !.root = TRUE, !.vi = F], !.n = F,
                                                                          !.key = [i \in 0..(F-1) |-> MinOf(InitB[i + 2])], !.ch = [i \in 0..F |-> i + 1]]
                                            ELSE EmptyI])
        /\ nextB = NC + 1 /\ nextI = 102
        /\ rootp = 101 /\ rootlock = FALSE
        /\ pc = [t \in Threads |-> "start"] /\ loc = [t \in Threads |-> L0]
        /\ abs = Force([k \in Keys |-> IF \E n \in 1..NC : k \in InitB[n] THEN 100 + k ELSE ABSENT])
        /\ seen = [t \in Threads |-> {}] /\ res = [t \in Threads |-> <<>>]
Op(t) == Prog[t]
InFlight(t) == pc[t] \notin {"start", "done"}
Lookup(b, p, k) == IF \E i \in 1..Len(p) : bd[b].ks[p[i]] = k THEN p[CHOOSE i \in 1..Len(p) : bd[b].ks[p[i]] = k] ELSE NoSlot
RankOf(b, p, k) == Cardinality({i \in 1..Len(p) : bd[b].ks[p[i]] < k}) + 1
InsertAt(p, r, s) == SubSeq(p, 1, r-1) \o <<s>> \o SubSeq(p, r, Len(p))
FreeSlot(p) == CHOOSE s \in Slots : (\A i \in 1..Len(p) : p[i] # s) /\ (\A s2 \in Slots : (\A i \in 1..Len(p) : p[i] # s2) => s <= s2)
Goto(t, l) == pc' = [pc EXCEPT ![t] = l]
Commit(k, b) == /\ abs' = [abs EXCEPT ![k] = b]
                /\ seen' = Force([t \in Threads |-> IF InFlight(t) /\ Op(t).k = k THEN seen[t] \cup {b} ELSE seen[t]])
Ret(t, r) == res' = [res EXCEPT ![t] = Append(@, [op |-> Op(t).op, k |-> Op(t).k, st |-> r[1], w |-> r[2], sn |-> seen[t]])] /\ Goto(t, "done")
VerOf(n) == IF n \in Interiors THEN it[n].ver ELSE bd[n].ver
SetBV(n, v) == bd' = [bd EXCEPT ![n].ver = v]
SetIV(n, v) == it' = [it EXCEPT ![n].ver = v]
Keep == F \div 2 + 1
Pos == F \div 2                   \* index of the interior key that is pushed up
ChildIdx(p, k) == IF \E i \in 0..(it[p].n - 1) : k < it[p].key[i] THEN CHOOSE i \in 0..(it[p].n - 1) : k < it[p].key[i] /\ \A j \in 0..(i - 1) : ~(k < it[p].key[j])
                  ELSE it[p].n
SameButLock(a, b) == [a EXCEPT !.lk = FALSE] = [b EXCEPT !.lk = FALSE]
UA == <<nextB, nextI>>
UR == <<rootp, rootlock>>
\* ---------------------------------------------------------------- common: invocation, root load, find_border, get_lv_of, get
Start(t) == /\ pc[t] = "start" /\ seen' = [seen EXCEPT ![t] = {abs[Op(t).k]}] /\ loc' = [loc EXCEPT ![t] = L0] /\ Goto(t, "g0")
            /\ UNCHANGED <<bd, it, UA, UR, abs, res>>
G0(t) == /\ pc[t] = "g0" /\ loc' = [loc EXCEPT ![t].root = rootp] /\ Goto(t, "fb") /\ UNCHANGED <<bd, it, UA, UR, abs, seen, res>>
FB(t) == /\ pc[t] = "fb" /\ Stable(VerOf(loc[t].root))
         /\ LET r == loc[t].root v == VerOf(r) IN
            IF ~v.root THEN Goto(t, "g0") /\ UNCHANGED loc
            ELSE IF r \in Interiors THEN loc' = [loc EXCEPT ![t].cur = r, ![t].pv = v] /\ Goto(t, "gc1")
            ELSE loc' = [loc EXCEPT ![t].b = r, ![t].vfb = v] /\ Goto(t, "lv1")
         /\ UNCHANGED <<bd, it, UA, UR, abs, seen, res>>
GC1(t) == /\ pc[t] = "gc1"
          /\ LET p == loc[t].cur IN
             IF SameButLock(it[p].ver, loc[t].pv) THEN loc' = [loc EXCEPT ![t].ci = ChildIdx(p, Op(t).k)]
             ELSE \E c \in 0..F : loc' = [loc EXCEPT ![t].ci = c]
          /\ Goto(t, "gc2") /\ UNCHANGED <<bd, it, UA, UR, abs, seen, res>>
GC2(t) == /\ pc[t] = "gc2" /\ LET c == it[loc[t].cur].ch[loc[t].ci] IN
             IF c = NULL THEN Goto(t, "fb") /\ UNCHANGED loc ELSE loc' = [loc EXCEPT ![t].child = c] /\ Goto(t, "gc3")
          /\ UNCHANGED <<bd, it, UA, UR, abs, seen, res>>
GC3(t) == /\ pc[t] = "gc3" /\ Stable(VerOf(loc[t].child)) /\ loc' = [loc EXCEPT ![t].cv = VerOf(loc[t].child)] /\ Goto(t, "gc4")
          /\ UNCHANGED <<bd, it, UA, UR, abs, seen, res>>
\* the child is the next node of the descent: an interior (two levels after the split) or the border
GC4(t) == /\ pc[t] = "gc4" /\ Stable(it[loc[t].cur].ver)
          /\ LET l == loc[t] pv == it[l.cur].ver IN
             IF pv = l.pv /\ ~l.cv.del THEN
                (IF l.child \in Interiors THEN loc' = [loc EXCEPT ![t].cur = l.child, ![t].pv = l.cv] /\ Goto(t, "gc1")
                 ELSE loc' = [loc EXCEPT ![t].b = l.child, ![t].vfb = l.cv] /\ Goto(t, "lv1"))
             ELSE IF pv.vs # l.pv.vs \/ pv.del THEN Goto(t, "fb") /\ UNCHANGED loc
             ELSE loc' = [loc EXCEPT ![t].pv = pv] /\ Goto(t, "gc1")
          /\ UNCHANGED <<bd, it, UA, UR, abs, seen, res>>
LV1(t) == /\ pc[t] = "lv1" /\ Stable(bd[loc[t].b].ver) /\ loc' = [loc EXCEPT ![t].v = bd[loc[t].b].ver] /\ Goto(t, "permld")
          /\ UNCHANGED <<bd, it, UA, UR, abs, seen, res>>
PermLd(t) == /\ pc[t] = "permld" /\ loc' = [loc EXCEPT ![t].idx = Lookup(loc[t].b, bd[loc[t].b].perm, Op(t).k)] /\ Goto(t, "lv2")
             /\ UNCHANGED <<bd, it, UA, UR, abs, seen, res>>
LV2(t) == /\ pc[t] = "lv2" /\ Stable(bd[loc[t].b].ver)
          /\ LET l == loc[t] v == bd[l.b].ver o == Op(t) IN
             IF v # l.v THEN loc' = [loc EXCEPT ![t].v = v] /\ Goto(t, "permld") /\ UNCHANGED res
             ELSE IF l.v.vs # l.vfb.vs \/ (l.v.del /\ ~l.v.root) THEN Goto(t, "g0") /\ UNCHANGED <<loc, res>>
             ELSE IF o.op = "get" THEN (IF l.idx = NoSlot THEN Ret(t, <<"NOT_EXIST", 0>>) /\ UNCHANGED loc ELSE Goto(t, "g_val") /\ UNCHANGED <<loc, res>>)
             ELSE Goto(t, "lock") /\ UNCHANGED <<loc, res>>
          /\ UNCHANGED <<bd, it, UA, UR, abs, seen>>
GVal(t) == /\ pc[t] = "g_val" /\ loc' = [loc EXCEPT ![t].w = bd[loc[t].b].lv[loc[t].idx]] /\ Goto(t, "g_fc") /\ UNCHANGED <<bd, it, UA, UR, abs, seen, res>>
GFc(t) == /\ pc[t] = "g_fc" /\ Stable(bd[loc[t].b].ver)
          /\ LET l == loc[t] v == bd[l.b].ver IN
             IF v.vs # l.vfb.vs \/ (v.del /\ ~v.root) THEN Goto(t, "g0") /\ UNCHANGED res
             ELSE IF v.vi # l.v.vi THEN Goto(t, "lv1") /\ UNCHANGED res
             ELSE IF l.w = 0 THEN Goto(t, "lv1") /\ UNCHANGED res
             ELSE Ret(t, <<"OK", l.w>>)
          /\ UNCHANGED <<bd, it, UA, UR, loc, abs, seen>>
\* ---------------------------------------------------------------- put of an absent key
Lock(t) == /\ pc[t] = "lock" /\ ~bd[loc[t].b].ver.lk /\ SetBV(loc[t].b, [bd[loc[t].b].ver EXCEPT !.lk = TRUE]) /\ Goto(t, "chk")
           /\ UNCHANGED <<it, UA, UR, loc, abs, seen, res>>
Chk(t) == /\ pc[t] = "chk"
          /\ LET l == loc[t] b == l.b ver == bd[b].ver IN
             IF (ver.del /\ ~ver.root) \/ ver.vs # l.vfb.vs THEN SetBV(b, Unl(ver)) /\ Goto(t, "g0")
             ELSE IF ver.vi # l.v.vi THEN SetBV(b, Unl(ver)) /\ Goto(t, "lv1")
             ELSE SetBV(b, [ver EXCEPT !.ins = TRUE]) /\ Goto(t, IF Len(bd[b].perm) = F THEN "s1" ELSE "p_slot")
          /\ UNCHANGED <<it, UA, UR, loc, abs, seen, res>>
PSlot(t) == /\ pc[t] = "p_slot" /\ LET b == loc[t].b s == FreeSlot(bd[b].perm) IN
               bd' = [bd EXCEPT ![b].ks[s] = Op(t).k, ![b].lv[s] = Op(t).v] /\ loc' = [loc EXCEPT ![t].idx = s]
            /\ Goto(t, "p_pub") /\ UNCHANGED <<it, UA, UR, abs, seen, res>>
PPub(t) == /\ pc[t] = "p_pub" /\ LET b == loc[t].b IN bd' = [bd EXCEPT ![b].perm = InsertAt(@, RankOf(b, @, Op(t).k), loc[t].idx)]
           /\ Commit(Op(t).k, Op(t).v) /\ Goto(t, "p_unlock") /\ UNCHANGED <<it, UA, UR, loc, res>>
PUnlock(t) == /\ pc[t] = "p_unlock" /\ SetBV(loc[t].b, Unl(bd[loc[t].b].ver)) /\ Ret(t, <<"OK", 0>>) /\ UNCHANGED <<it, UA, UR, loc, abs, seen>>
\* border_split (as YkConc4, the new border's id comes from the allocator)
S1(t) == /\ pc[t] = "s1" /\ SetBV(loc[t].b, [bd[loc[t].b].ver EXCEPT !.spl = TRUE]) /\ Goto(t, "s3") /\ UNCHANGED <<it, UA, UR, loc, abs, seen, res>>
S3a(t) == /\ pc[t] = "s3" /\ LET b == loc[t].b n == nextB IN
             /\ bd' = [bd EXCEPT ![n] = [EmptyB EXCEPT !.ver = bd[b].ver, !.prev = b, !.next = bd[b].next]]
             /\ loc' = [loc EXCEPT ![t].mv = 1, ![t].nb = n] /\ nextB' = n + 1
          /\ Goto(t, "s3l") /\ UNCHANGED <<it, nextI, UR, abs, seen, res>>
S3(t) == /\ pc[t] = "s3l" /\ LET b == loc[t].b IN bd' = [bd EXCEPT ![b].next = loc[t].nb] /\ Goto(t, IF bd[b].next # NULL THEN "s3b" ELSE "smove")
         /\ UNCHANGED <<it, UA, UR, loc, abs, seen, res>>
S3b(t) == /\ pc[t] = "s3b" /\ bd' = [bd EXCEPT ![bd[loc[t].nb].next].prev = loc[t].nb] /\ Goto(t, "smove") /\ UNCHANGED <<it, UA, UR, loc, abs, seen, res>>
SMove(t) == /\ pc[t] = "smove" /\ LET b == loc[t].b n == loc[t].nb src == bd[b].perm[Keep + 1] dst == loc[t].mv - 1 IN
               bd' = [bd EXCEPT ![n].ks[dst] = bd[b].ks[src], ![n].lv[dst] = bd[b].lv[src], ![b].ks[src] = 0, ![b].lv[src] = 0]
            /\ Goto(t, "sperm") /\ UNCHANGED <<it, UA, UR, loc, abs, seen, res>>
SPerm(t) == /\ pc[t] = "sperm" /\ bd' = [bd EXCEPT ![loc[t].b].perm = SubSeq(@, 1, Keep) \o SubSeq(@, Keep + 2, Len(@))]
            /\ IF loc[t].mv = F - Keep THEN Goto(t, "s6") /\ UNCHANGED loc ELSE loc' = [loc EXCEPT ![t].mv = @ + 1] /\ Goto(t, "smove")
            /\ UNCHANGED <<it, UA, UR, abs, seen, res>>
S6(t) == /\ pc[t] = "s6" /\ bd' = [bd EXCEPT ![loc[t].nb].perm = [i \in 1..(F - Keep) |-> i - 1]] /\ Goto(t, "s7a") /\ UNCHANGED <<it, UA, UR, loc, abs, seen, res>>
S7a(t) == /\ pc[t] = "s7a"
          /\ LET side == IF Op(t).k < bd[loc[t].nb].ks[0] THEN loc[t].b ELSE loc[t].nb s == FreeSlot(bd[side].perm) IN
             /\ bd' = [bd EXCEPT ![side].ks[s] = Op(t).k, ![side].lv[s] = Op(t).v] /\ loc' = [loc EXCEPT ![t].side = side, ![t].idx = s]
          /\ Goto(t, "s7b") /\ UNCHANGED <<it, UA, UR, abs, seen, res>>
S7b(t) == /\ pc[t] = "s7b" /\ LET side == loc[t].side IN bd' = [bd EXCEPT ![side].perm = InsertAt(@, RankOf(side, @, Op(t).k), loc[t].idx)]
          /\ Commit(Op(t).k, Op(t).v) /\ Goto(t, "lp_ld") /\ UNCHANGED <<it, UA, UR, loc, res>>
\* lock_parent of the split border (its parent is an interior; it may change from P to P' while this thread waits)
LpLd(t) == /\ pc[t] = "lp_ld" /\ bd[loc[t].b].parent # NULL /\ loc' = [loc EXCEPT ![t].pn = bd[loc[t].b].parent] /\ Goto(t, "lp_l")
           /\ UNCHANGED <<bd, it, UA, UR, abs, seen, res>>
LpL(t) == /\ pc[t] = "lp_l" /\ ~it[loc[t].pn].ver.lk /\ SetIV(loc[t].pn, [it[loc[t].pn].ver EXCEPT !.lk = TRUE]) /\ Goto(t, "lp_c")
          /\ UNCHANGED <<bd, UA, UR, loc, abs, seen, res>>
LpC(t) == /\ pc[t] = "lp_c" /\ LET chk == bd[loc[t].b].parent IN
             IF chk = loc[t].pn \/ NO_PARENT_RECHECK THEN Goto(t, "x1") /\ UNCHANGED <<it, loc>>
             ELSE SetIV(loc[t].pn, Unl(it[loc[t].pn].ver)) /\ loc' = [loc EXCEPT ![t].pn = chk] /\ chk # NULL /\ Goto(t, "lp_l")
          /\ UNCHANGED <<bd, UA, UR, abs, seen, res>>
X1(t) == /\ pc[t] = "x1" /\ SetBV(loc[t].b, [bd[loc[t].b].ver EXCEPT !.root = FALSE]) /\ Goto(t, "x2") /\ UNCHANGED <<it, UA, UR, loc, abs, seen, res>>
X2(t) == /\ pc[t] = "x2" /\ SetBV(loc[t].nb, [bd[loc[t].nb].ver EXCEPT !.root = FALSE]) /\ Goto(t, "x3") /\ UNCHANGED <<it, UA, UR, loc, abs, seen, res>>
X3(t) == /\ pc[t] = "x3" /\ SetBV(loc[t].b, Unl(bd[loc[t].b].ver)) /\ Goto(t, "x4") /\ UNCHANGED <<it, UA, UR, loc, abs, seen, res>>
X4(t) == /\ pc[t] = "x4" /\ SetBV(loc[t].nb, Unl(bd[loc[t].nb].ver)) /\ Goto(t, IF it[loc[t].pn].n = F THEN "is1" ELSE "x5")
         /\ UNCHANGED <<it, UA, UR, loc, abs, seen, res>>
\* parent not full: interior insert
X5(t) == /\ pc[t] = "x5" /\ bd' = [bd EXCEPT ![loc[t].nb].parent = loc[t].pn] /\ Goto(t, "x6") /\ UNCHANGED <<it, UA, UR, loc, abs, seen, res>>
X6(t) == /\ pc[t] = "x6" /\ LET p == loc[t].pn IN
            /\ SetIV(p, [it[p].ver EXCEPT !.ins = TRUE]) /\ loc' = [loc EXCEPT ![t].i = ChildIdx(p, bd[loc[t].nb].ks[0])]
         /\ Goto(t, "xkey") /\ UNCHANGED <<bd, UA, UR, abs, seen, res>>
XKey(t) == /\ pc[t] = "xkey" /\ LET p == loc[t].pn i == loc[t].i k == bd[loc[t].nb].ks[0] IN
              /\ it' = [it EXCEPT ![p].key = [j \in 0..(F-1) |-> IF j < i THEN it[p].key[j] ELSE IF j = i THEN k ELSE it[p].key[j - 1]]]
              /\ IF it[p].n + 1 > i + 1 THEN loc' = [loc EXCEPT ![t].mv = it[p].n + 1] /\ Goto(t, "xchs") ELSE Goto(t, "xch") /\ UNCHANGED loc
           /\ UNCHANGED <<bd, UA, UR, abs, seen, res>>
XChS(t) == /\ pc[t] = "xchs" /\ LET p == loc[t].pn j == loc[t].mv IN
              /\ it' = [it EXCEPT ![p].ch[j] = it[p].ch[j - 1]]
              /\ IF j - 1 = loc[t].i + 1 THEN Goto(t, "xch") /\ UNCHANGED loc ELSE loc' = [loc EXCEPT ![t].mv = j - 1] /\ UNCHANGED pc
           /\ UNCHANGED <<bd, UA, UR, abs, seen, res>>
XCh(t) == /\ pc[t] = "xch" /\ it' = [it EXCEPT ![loc[t].pn].ch[loc[t].i + 1] = loc[t].nb] /\ Goto(t, "xn") /\ UNCHANGED <<bd, UA, UR, loc, abs, seen, res>>
XN(t) == /\ pc[t] = "xn" /\ it' = [it EXCEPT ![loc[t].pn].n = @ + 1] /\ Goto(t, IF loc[t].isp THEN "isrl" ELSE "x9") /\ UNCHANGED <<bd, UA, UR, loc, abs, seen, res>>
X9(t) == /\ pc[t] = "x9" /\ SetIV(loc[t].pn, Unl(it[loc[t].pn].ver)) /\ Ret(t, <<"OK", 0>>) /\ UNCHANGED <<bd, UA, UR, loc, abs, seen>>
\* parent full: interior_split(P, new border, its first key); P is the tree root in this model
IS1(t) == /\ pc[t] = "is1" /\ SetIV(loc[t].pn, [it[loc[t].pn].ver EXCEPT !.spl = ~NO_SPLIT_MARK]) /\ Goto(t, "is2") /\ UNCHANGED <<bd, UA, UR, loc, abs, seen, res>>
IS2(t) == /\ pc[t] = "is2" /\ LET p == loc[t].pn n == nextI IN
             /\ it' = [it EXCEPT ![n] = [EmptyI EXCEPT !.ver = it[p].ver]] /\ loc' = [loc EXCEPT ![t].ni = n, ![t].mv = Pos + 1] /\ nextI' = n + 1
          /\ Goto(t, "iskeys") /\ UNCHANGED <<bd, nextB, UR, abs, seen, res>>
ISKeys(t) == /\ pc[t] = "iskeys" /\ LET p == loc[t].pn n == loc[t].ni IN
                it' = [it EXCEPT ![n].key = [j \in 0..(F-1) |-> IF j + Pos + 1 <= F - 1 THEN it[p].key[j + Pos + 1] ELSE 0],
                                 ![p].key = [j \in 0..(F-1) |-> IF j <= Pos THEN it[p].key[j] ELSE 0]]
             /\ Goto(t, "isn") /\ UNCHANGED <<bd, UA, UR, loc, abs, seen, res>>
ISN(t) == /\ pc[t] = "isn" /\ it' = [it EXCEPT ![loc[t].pn].n = Pos, ![loc[t].ni].n = F - Pos - 1] /\ Goto(t, "ischpar") /\ UNCHANGED <<bd, UA, UR, loc, abs, seen, res>>
\* children Pos + 1 .. F move to P': the new interior's slot is private; the child's parent pointer and P's slot are visible stores
ISChPar(t) == /\ pc[t] = "ischpar" /\ LET p == loc[t].pn n == loc[t].ni i == loc[t].mv c == it[p].ch[i] IN
                 /\ it' = [it EXCEPT ![n].ch[i - Pos - 1] = c] /\ bd' = [bd EXCEPT ![c].parent = n]
              /\ Goto(t, "ischclr") /\ UNCHANGED <<UA, UR, loc, abs, seen, res>>
ISChClr(t) == /\ pc[t] = "ischclr" /\ it' = [it EXCEPT ![loc[t].pn].ch[loc[t].mv] = NULL]
              /\ IF loc[t].mv = F THEN Goto(t, "ispiv") /\ UNCHANGED loc ELSE loc' = [loc EXCEPT ![t].mv = @ + 1] /\ Goto(t, "ischpar")
              /\ UNCHANGED <<bd, UA, UR, abs, seen, res>>
ISPiv(t) == /\ pc[t] = "ispiv" /\ LET p == loc[t].pn IN
               /\ loc' = [loc EXCEPT ![t].piv = it[p].key[Pos], ![t].tgt = IF bd[loc[t].nb].ks[0] < it[p].key[Pos] THEN p ELSE loc[t].ni]
               /\ it' = [it EXCEPT ![p].key[Pos] = 0]
            /\ Goto(t, "ispar") /\ UNCHANGED <<bd, UA, UR, abs, seen, res>>
\* the new border goes into the half it belongs to: into P by the ordinary interior insert (X6 XKey XChS XCh XN: P is visible), into P' in one
\* step (nobody can read P' before it is unlocked)
ISPar(t) == /\ pc[t] = "ispar" /\ bd' = [bd EXCEPT ![loc[t].nb].parent = loc[t].tgt] /\ loc' = [loc EXCEPT ![t].isp = TRUE]
            /\ Goto(t, IF loc[t].tgt = loc[t].pn THEN "x6" ELSE "isins") /\ UNCHANGED <<it, UA, UR, abs, seen, res>>
ISIns(t) == /\ pc[t] = "isins" /\ LET g == loc[t].tgt k == bd[loc[t].nb].ks[0] i == ChildIdx(g, k) IN
               it' = [it EXCEPT ![g].key = [j \in 0..(F-1) |-> IF j < i THEN it[g].key[j] ELSE IF j = i THEN k ELSE it[g].key[j - 1]],
                                ![g].ch = [j \in 0..F |-> IF j <= i THEN it[g].ch[j] ELSE IF j = i + 1 THEN loc[t].nb ELSE it[g].ch[j - 1]],
                                ![g].n = it[g].n + 1, ![g].ver.ins = TRUE]
            /\ Goto(t, "isrl") /\ UNCHANGED <<bd, UA, UR, loc, abs, seen, res>>
ISRl(t) == /\ pc[t] = "isrl" /\ it[loc[t].pn].parent = NULL /\ ~rootlock /\ rootlock' = TRUE /\ Goto(t, "isrl2") /\ UNCHANGED <<bd, it, UA, rootp, loc, abs, seen, res>>
ISRl2(t) == /\ pc[t] = "isrl2" /\ rootp = loc[t].pn /\ Goto(t, "isr1") /\ UNCHANGED <<bd, it, UA, UR, loc, abs, seen, res>>
ISR1(t) == /\ pc[t] = "isr1" /\ SetIV(loc[t].pn, [it[loc[t].pn].ver EXCEPT !.root = FALSE]) /\ Goto(t, "isr2") /\ UNCHANGED <<bd, UA, UR, loc, abs, seen, res>>
ISR2(t) == /\ pc[t] = "isr2" /\ LET p == loc[t].pn n == loc[t].ni r == nextI IN
              /\ it' = [it EXCEPT ![n].ver.root = FALSE,
                                  ![r] = [EmptyI EXCEPT !.ver = [V0 EXCEPT !.root = TRUE, !.ins = TRUE, !.lk = TRUE], !.n = 1, !.key[0] = loc[t].piv, !.ch[0] = p, !.ch[1] = n]]
              /\ loc' = [loc EXCEPT ![t].nr = r] /\ nextI' = r + 1
           /\ Goto(t, "isr3") /\ UNCHANGED <<bd, nextB, UR, abs, seen, res>>
ISR3(t) == /\ pc[t] = "isr3" /\ it' = [it EXCEPT ![loc[t].pn].parent = loc[t].nr] /\ Goto(t, "isr4") /\ UNCHANGED <<bd, UA, UR, loc, abs, seen, res>>
ISR4(t) == /\ pc[t] = "isr4" /\ it' = [it EXCEPT ![loc[t].ni].parent = loc[t].nr] /\ Goto(t, "isu1") /\ UNCHANGED <<bd, UA, UR, loc, abs, seen, res>>
ISU1(t) == /\ pc[t] = "isu1" /\ SetIV(loc[t].pn, Unl(it[loc[t].pn].ver)) /\ Goto(t, "isu2") /\ UNCHANGED <<bd, UA, UR, loc, abs, seen, res>>
ISU2(t) == /\ pc[t] = "isu2" /\ SetIV(loc[t].ni, Unl(it[loc[t].ni].ver)) /\ Goto(t, "isrs") /\ UNCHANGED <<bd, UA, UR, loc, abs, seen, res>>
ISRs(t) == /\ pc[t] = "isrs" /\ rootp' = loc[t].nr /\ Goto(t, "isu3") /\ UNCHANGED <<bd, it, UA, rootlock, loc, abs, seen, res>>
ISU3(t) == /\ pc[t] = "isu3" /\ SetIV(loc[t].nr, Unl(it[loc[t].nr].ver)) /\ Goto(t, "isru") /\ UNCHANGED <<bd, UA, UR, loc, abs, seen, res>>
ISRu(t) == /\ pc[t] = "isru" /\ rootlock' = FALSE /\ Ret(t, <<"OK", 0>>) /\ UNCHANGED <<bd, it, UA, rootp, loc, abs, seen>>
Step(t) == Start(t) \/ G0(t) \/ FB(t) \/ GC1(t) \/ GC2(t) \/ GC3(t) \/ GC4(t) \/ LV1(t) \/ PermLd(t) \/ LV2(t) \/ GVal(t) \/ GFc(t)
           \/ Lock(t) \/ Chk(t) \/ PSlot(t) \/ PPub(t) \/ PUnlock(t) \/ S1(t) \/ S3a(t) \/ S3(t) \/ S3b(t) \/ SMove(t) \/ SPerm(t) \/ S6(t) \/ S7a(t) \/ S7b(t)
           \/ LpLd(t) \/ LpL(t) \/ LpC(t) \/ X1(t) \/ X2(t) \/ X3(t) \/ X4(t) \/ X5(t) \/ X6(t) \/ XKey(t) \/ XChS(t) \/ XCh(t) \/ XN(t) \/ X9(t)
           \/ IS1(t) \/ IS2(t) \/ ISKeys(t) \/ ISN(t) \/ ISChPar(t) \/ ISChClr(t) \/ ISPiv(t) \/ ISPar(t) \/ ISIns(t) \/ ISRl(t) \/ ISRl2(t)
           \/ ISR1(t) \/ ISR2(t) \/ ISR3(t) \/ ISR4(t) \/ ISU1(t) \/ ISU2(t) \/ ISRs(t) \/ ISU3(t) \/ ISRu(t)
AllDone == \A t \in Threads : pc[t] = "done"
Next == (\E t \in Threads : Step(t)) \/ (AllDone /\ UNCHANGED vars)
Spec == Init /\ [][Next]_vars
FairSpec == Spec /\ \A t \in Threads : WF_vars(Step(t))
\* ---------------------------------------------------------------- properties
ResOK(r) == IF r.op = "get" /\ r.st = "NOT_EXIST" THEN ABSENT \in r.sn
            ELSE IF r.op = "get" THEN r.w # 0 /\ r.w \in r.sn
            ELSE TRUE
LinOK == \A t \in Threads : \A i \in 1..Len(res[t]) : ResOK(res[t][i])
\* an interior is modified only by the thread that holds its lock, and the node a thread treats as "its parent" after lock_parent really is the parent
ParentOK == \A t \in Threads : pc[t] \in {"x5", "x6", "xkey", "xchs", "xch", "xn", "is1", "is2", "iskeys", "isn"} => bd[loc[t].b].parent = loc[t].pn /\ it[loc[t].pn].ver.lk
\* C08 at quiescence: in-order borders = leaf chain, keys sorted and bounded by the separators on both levels, nothing locked or dirty
RECURSIVE InOrd(_)
InOrd(n) == IF n \in Borders THEN <<n>>
            ELSE LET RECURSIVE cat(_) cat(i) == IF i > it[n].n THEN <<>> ELSE InOrd(it[n].ch[i]) \o cat(i + 1) IN cat(0)
KeysOf(b) == {bd[b].ks[bd[b].perm[i]] : i \in 1..Len(bd[b].perm)}
RECURSIVE SubKeys(_)
SubKeys(n) == IF n \in Borders THEN KeysOf(n) ELSE UNION {SubKeys(it[n].ch[i]) : i \in 0..it[n].n}
RECURSIVE IntOK(_)
IntOK(n) == IF n \in Borders THEN \A i \in 1..(Len(bd[n].perm) - 1) : bd[n].ks[bd[n].perm[i]] < bd[n].ks[bd[n].perm[i + 1]]
            ELSE /\ it[n].n >= 1 /\ ~it[n].ver.del
                 /\ \A i \in 0..it[n].n : it[n].ch[i] # NULL /\ (IF it[n].ch[i] \in Borders THEN bd[it[n].ch[i]].parent ELSE it[it[n].ch[i]].parent) = n /\ ~VerOf(it[n].ch[i]).root
                 /\ \A i \in 0..(it[n].n - 1) : (\A k \in SubKeys(it[n].ch[i]) : k < it[n].key[i]) /\ (\A k \in SubKeys(it[n].ch[i + 1]) : k >= it[n].key[i])
                 /\ \A i \in 0..it[n].n : IntOK(it[n].ch[i])
Quiescent == AllDone =>
   /\ ~rootlock /\ (\A n \in Borders : Stable(bd[n].ver)) /\ (\A m \in Interiors : Stable(it[m].ver))
   /\ VerOf(rootp).root /\ (IF rootp \in Borders THEN bd[rootp].parent ELSE it[rootp].parent) = NULL
   /\ IntOK(rootp)
   /\ LET ch == InOrd(rootp) IN
      /\ \A j \in 1..Len(ch) : bd[ch[j]].next = (IF j < Len(ch) THEN ch[j + 1] ELSE NULL) /\ bd[ch[j]].prev = (IF j > 1 THEN ch[j - 1] ELSE NULL)
      /\ \A k \in Keys : abs[k] # ABSENT <=> \E j \in 1..Len(ch) : Lookup(ch[j], bd[ch[j]].perm, k) # NoSlot /\ bd[ch[j]].lv[Lookup(ch[j], bd[ch[j]].perm, k)] = abs[k]
Termination == <>AllDone
====

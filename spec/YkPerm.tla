---- MODULE YkPerm ----
(* The leaf permutation word (include/permutation.h): count n <= F and n distinct slot numbers in key order.
   A permutation is modelled as the sequence `ord` of slot numbers in rank order (n = Len(ord)); the 64-bit
   encoding (4-bit count + 15 nibbles) exists only in the implementation and is what the replay checks. *)
EXTENDS Naturals, Sequences, FiniteSets, TLC
CONSTANT F
Slots == 0..(F-1)
PermOK(p) == /\ Len(p) <= F
             /\ \A i \in 1..Len(p) : p[i] \in Slots
             /\ \A i, j \in 1..Len(p) : i # j => p[i] # p[j]
Used(p) == {p[i] : i \in 1..Len(p)}
\* rank is 0-based as in the code
InsertRank(p, rank, pos) == SubSeq(p, 1, rank) \o <<pos>> \o SubSeq(p, rank + 1, Len(p))
DeleteRank(p, rank) == SubSeq(p, 1, rank) \o SubSeq(p, rank + 2, Len(p))
\* get_empty_slot: the smallest slot number not in use (0 for an empty permutation)
EmptySlot(p) == CHOOSE s \in Slots : s \notin Used(p) /\ \A s2 \in Slots : s2 \notin Used(p) => s <= s2
SplitDest(num) == [i \in 1..num |-> i - 1]
IndexOfRank(p, rank) == p[rank + 1]
\* ---- a small state machine over all reachable permutations (exhaustive for small F)
VARIABLES perm, lastOk
vars == <<perm, lastOk>>
Init == perm = <<>> /\ lastOk = TRUE
Insert == /\ Len(perm) < F
          /\ \E rank \in 0..Len(perm) : \E pos \in Slots \ Used(perm) :
               /\ perm' = InsertRank(perm, rank, pos)
               /\ lastOk' = /\ Len(perm') = Len(perm) + 1
                            /\ perm'[rank + 1] = pos
                            /\ \A i \in 1..rank : perm'[i] = perm[i]
                            /\ \A i \in (rank + 1)..Len(perm) : perm'[i + 1] = perm[i]
Delete == /\ Len(perm) > 0
          /\ \E rank \in 0..(Len(perm) - 1) :
               /\ perm' = DeleteRank(perm, rank)
               /\ lastOk' = /\ Len(perm') = Len(perm) - 1
                            /\ \A i \in 1..rank : perm'[i] = perm[i]
                            /\ \A i \in (rank + 2)..Len(perm) : perm'[i - 1] = perm[i]
                            /\ Used(perm') = Used(perm) \ {perm[rank + 1]}
Split == /\ Len(perm) = F /\ \E num \in 1..F : perm' = SplitDest(num) /\ lastOk' = (\A i \in 1..num : perm'[i] = i - 1)
Next == Insert \/ Delete \/ Split
Spec == Init /\ [][Next]_vars
Valid == PermOK(perm) /\ lastOk
FreeSlotFree == Len(perm) < F => EmptySlot(perm) \notin Used(perm)
====

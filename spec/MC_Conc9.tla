---- MODULE MC_Conc9 ----
EXTENDS YkConc9
O(op, k, v) == [op |-> op, k |-> k, v |-> v]
\* a: full scan through the link vs the removal of the layer's last key (layer vanishes under the scanner) and the creation of a new layer
PA == (0 :> O("scan", 0, 0)) @@ (1 :> O("rem", 101, 0)) @@ (2 :> O("put", 102, 7))
\* b: scan vs an insert into the layer and the removal of a short key in front of the link
PB == (0 :> O("scan", 0, 0)) @@ (1 :> O("put", 102, 7)) @@ (2 :> O("rem", 1, 0))
\* c: scan vs layer removal and a short key that reuses the link's slot
PC == (0 :> O("scan", 0, 0)) @@ (1 :> O("rem", 101, 0)) @@ (2 :> O("put", 2, 7))
\* d: scan vs remove + re-insert of the same key behind S (the layer root is replaced by a fresh border)
PD == (0 :> O("scan", 0, 0)) @@ (1 :> O("rem", 101, 0)) @@ (2 :> O("put", 101, 7))
\* e: two scanners and a creator of the layer (no layer initially)
PE == (0 :> O("scan", 0, 0)) @@ (1 :> O("scan", 0, 0)) @@ (2 :> O("put", 102, 7))
\* f: scan vs an insert in front of the link and an update of the key S itself
PF == (0 :> O("scan", 0, 0)) @@ (1 :> O("put", 2, 7)) @@ (2 :> O("put", 100, 8))
\* cursor programs
QA == (0 :> O("iscan", 0, 0)) @@ (1 :> O("rem", 101, 0)) @@ (2 :> O("put", 102, 7))
QB == (0 :> O("iscan", 0, 0)) @@ (1 :> O("put", 102, 7)) @@ (2 :> O("rem", 1, 0))
QC == (0 :> O("iscan", 0, 0)) @@ (1 :> O("rem", 101, 0)) @@ (2 :> O("put", 2, 7))
QD == (0 :> O("iscan", 0, 0)) @@ (1 :> O("rem", 101, 0)) @@ (2 :> O("put", 101, 7))
QE == (0 :> O("iscan", 0, 0)) @@ (1 :> O("iscan", 0, 0)) @@ (2 :> O("put", 102, 7))
QF == (0 :> O("iscan", 0, 0)) @@ (1 :> O("put", 2, 7)) @@ (2 :> O("put", 100, 8))
====

SPECIFICATION FairSpec
CONSTANTS
  F = 3
  Keys <- K7
  Threads = {1, 2, 3}
  Prog <- PE
  InitS <- SPart
  InitE <- E1
  InitR <- R1
  UNLOCK_BEFORE_PARENT = FALSE
  NO_INS_ON_INSERT = FALSE
  NO_INS_ON_DELETE = FALSE
  NO_CHILD_DEL_CHECK = FALSE
  NO_PARENT_RECHECK_I = FALSE
INVARIANTS LinOK RootOpsOK SwapOK Quiescent
PROPERTY Termination
CHECK_DEADLOCK TRUE

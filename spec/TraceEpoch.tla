---- MODULE TraceEpoch ----
(* Property-level judgement of session / epoch / reclamation executions of the real code (harness/epochdrv.cpp), one
   event per line in execution order (the deterministic scheduler runs one controlled thread at a time).
   Sessions are "open" from enter_ret(OK) to leave_call.  Facts:
     C07  reclaim(o) only if no open session obtained o and no session that was open when o was retired is still open;
          every pointer re-read before leave still has its contents (recheck ok)
     C11  reclaim only of retired objects, each at most once (ledger)
     C14  an OK enter returns a slot no open session holds; at most cap sessions open; WARN_MAX_SESSIONS only if every slot
          was found occupied during the call; the slot's begin epoch is published when enter returns
   ON selects the families; LENIENT prints mismatches instead of blocking. *)
EXTENDS Naturals, Sequences, FiniteSets, TLC, Json, IOUtils
CONSTANTS ON, LENIENT
Log == ndJsonDeserialize(IOEnv.TRACE)
VARIABLES l, cap, open, held, ract, retired, reclaimed, slotRun, slotBegin, saw, pend, stolen, inEnter, run
vars == <<l, cap, open, held, ract, retired, reclaimed, slotRun, slotBegin, saw, pend, stolen, inEnter, run>>
E == Log[l]
Chk(c) == c \in ON
Ev(b) == b = TRUE
J(c, tag, cond, info) == Ev(IF ~Chk(c) THEN TRUE ELSE IF cond THEN TRUE
                            ELSE IF LENIENT THEN PrintT(<<"MISMATCH", c, tag, l, ToJson(info)>>) ELSE FALSE)
Threads == 1..8
SlotsAll == 1..16
Upd(f, x, v) == [f EXCEPT ![x] = v]
OpenThreads == {t \in Threads : open[t] # 0}
TInit == /\ l = 1 /\ cap = 0 /\ run = 0
         /\ open = [t \in Threads |-> 0] /\ held = [t \in Threads |-> {}] /\ ract = <<>> /\ retired = {} /\ reclaimed = {}
         /\ slotRun = [s \in SlotsAll |-> FALSE] /\ slotBegin = [s \in SlotsAll |-> 0]
         /\ saw = [t \in Threads |-> {}] /\ pend = [t \in Threads |-> 0] /\ stolen = [t \in Threads |-> FALSE] /\ inEnter = [t \in Threads |-> FALSE]
\* a new run: fresh system
TReset == /\ E.e = "reset" /\ cap' = E.cap /\ run' = E.id
          /\ open' = [t \in Threads |-> 0] /\ held' = [t \in Threads |-> {}] /\ ract' = <<>> /\ retired' = {} /\ reclaimed' = {}
          /\ slotRun' = [s \in SlotsAll |-> FALSE] /\ slotBegin' = [s \in SlotsAll |-> 0]
          /\ saw' = [t \in Threads |-> {}] /\ pend' = [t \in Threads |-> 0] /\ stolen' = [t \in Threads |-> FALSE] /\ inEnter' = [t \in Threads |-> FALSE]
\* the CAS of the previous probed slot failed iff the thread moves on without a run_cas of its own: somebody must have taken the slot meanwhile
ResolvePending(t) == IF pend[t] # 0 THEN saw[t] \cup {pend[t]} ELSE saw[t]
PendingJustified(t) == pend[t] # 0 => stolen[t]
TEnterCall == /\ E.e = "enter_call" /\ inEnter' = Upd(inEnter, E.t, TRUE) /\ saw' = Upd(saw, E.t, {}) /\ pend' = Upd(pend, E.t, 0) /\ stolen' = Upd(stolen, E.t, FALSE)
              /\ UNCHANGED <<cap, open, held, ract, retired, reclaimed, slotRun, slotBegin, run>>
TRunLoad == /\ E.e = "run_load"
            /\ J("C14", "slot-word", (E.v = 1) = slotRun[E.slot], [slot |-> E.slot])
            /\ J("C14", "lost-cas-unjustified", inEnter[E.t] => PendingJustified(E.t), [slot |-> pend[E.t]])
            /\ saw' = Upd(saw, E.t, IF E.v = 1 THEN ResolvePending(E.t) \cup {E.slot} ELSE ResolvePending(E.t))
            /\ pend' = Upd(pend, E.t, IF E.v = 0 THEN E.slot ELSE 0) /\ stolen' = Upd(stolen, E.t, FALSE)
            /\ UNCHANGED <<cap, open, held, ract, retired, reclaimed, slotRun, slotBegin, inEnter, run>>
TRunCas == /\ E.e = "run_cas"
           /\ J("C14", "cas-on-occupied-slot", ~slotRun[E.slot], [slot |-> E.slot])
           /\ slotRun' = Upd(slotRun, E.slot, TRUE) /\ pend' = Upd(pend, E.t, 0)
           /\ stolen' = [t \in Threads |-> IF t # E.t /\ pend[t] = E.slot THEN TRUE ELSE stolen[t]]
           /\ UNCHANGED <<cap, open, held, ract, retired, reclaimed, slotBegin, saw, inEnter, run>>
TRunStore == /\ E.e = "run_store" /\ slotRun' = Upd(slotRun, E.slot, E.v = 1)
             /\ UNCHANGED <<cap, open, held, ract, retired, reclaimed, slotBegin, saw, pend, stolen, inEnter, run>>
TBegin == /\ E.e = "begin" /\ slotBegin' = Upd(slotBegin, E.slot, E.v)
          /\ UNCHANGED <<cap, open, held, ract, retired, reclaimed, slotRun, saw, pend, stolen, inEnter, run>>
TEnterRet == /\ E.e = "enter_ret"
             /\ IF E.st = "OK" THEN
                   /\ J("C14", "token-not-unique", \A t \in Threads : open[t] # E.slot, [slot |-> E.slot])
                   /\ J("C14", "capacity-exceeded", Cardinality(OpenThreads) + 1 <= cap /\ E.slot \in 1..cap, [open |-> Cardinality(OpenThreads)])
                   /\ J("C14", "begin-not-published-at-return", slotBegin[E.slot] # 0, [slot |-> E.slot])
                   /\ open' = Upd(open, E.t, E.slot)
                ELSE
                   /\ J("C14", "warn-max-unjustified", E.st = "WARN_MAX_SESSIONS" /\ PendingJustified(E.t) /\ ResolvePending(E.t) = 1..cap, [saw |-> ResolvePending(E.t)])
                   /\ open' = open
             /\ inEnter' = Upd(inEnter, E.t, FALSE) /\ pend' = Upd(pend, E.t, 0)
             /\ UNCHANGED <<cap, held, ract, retired, reclaimed, slotRun, slotBegin, saw, stolen, run>>
TObtain == /\ E.e = "obtain"
           /\ J("C07", "obtained-freed-object", E.o \notin reclaimed, [o |-> E.o])
           /\ held' = Upd(held, E.t, held[E.t] \cup {E.o})
           /\ UNCHANGED <<cap, open, ract, retired, reclaimed, slotRun, slotBegin, saw, pend, stolen, inEnter, run>>
TRecheck == /\ E.e = "recheck" /\ J("C07", "contents-changed-before-leave", E.ok /\ E.o \notin reclaimed, [o |-> E.o])
            /\ UNCHANGED <<cap, open, held, ract, retired, reclaimed, slotRun, slotBegin, saw, pend, stolen, inEnter, run>>
TRetire == /\ E.e = "retire"
           /\ J("C11", "retired-twice", E.o \notin retired /\ E.o \notin reclaimed, [o |-> E.o])
           /\ retired' = retired \cup {E.o}
           /\ ract' = (E.o :> OpenThreads) @@ ract
           /\ UNCHANGED <<cap, open, held, reclaimed, slotRun, slotBegin, saw, pend, stolen, inEnter, run>>
TReclaim == /\ E.e = "reclaim"
            /\ J("C07", "freed-while-held", \A t \in Threads : E.o \notin held[t], [o |-> E.o, holders |-> {t \in Threads : E.o \in held[t]}])
            /\ J("C07", "freed-while-session-active-at-unlink-still-open", E.o \in DOMAIN ract => ract[E.o] = {}, [o |-> E.o, still |-> IF E.o \in DOMAIN ract THEN ract[E.o] ELSE {}])
            /\ J("C11", "freed-without-retire-or-twice", E.o \in retired /\ E.o \notin reclaimed, [o |-> E.o])
            /\ reclaimed' = reclaimed \cup {E.o} /\ retired' = retired \ {E.o}
            /\ UNCHANGED <<cap, open, held, ract, slotRun, slotBegin, saw, pend, stolen, inEnter, run>>
TLeaveCall == /\ E.e = "leave_call"
              /\ open' = Upd(open, E.t, 0) /\ held' = Upd(held, E.t, {})
              /\ ract' = [o \in DOMAIN ract |-> ract[o] \ {E.t}]
              /\ UNCHANGED <<cap, retired, reclaimed, slotRun, slotBegin, saw, pend, stolen, inEnter, run>>
TOther == /\ E.e \in {"leave_ret", "epoch_inc", "gc", "epoch_load"} /\ UNCHANGED <<cap, open, held, ract, retired, reclaimed, slotRun, slotBegin, saw, pend, stolen, inEnter, run>>
TNext == l <= Len(Log) /\ l' = l + 1 /\
         (TReset \/ TEnterCall \/ TRunLoad \/ TRunCas \/ TRunStore \/ TBegin \/ TEnterRet \/ TObtain \/ TRecheck \/ TRetire \/ TReclaim \/ TLeaveCall \/ TOther)
TSpec == TInit /\ [][TNext]_vars
TView == l
Accepted == TLCGet("stats").diameter - 1 = Len(Log)
====

---- MODULE MC_IscanW ----
(* The paused cursor exhaustively: every reachable small tree (build phase = MC_Tree's Put / Remove with renumbering), every cursor of a small
   argument set opened on it, and every placement of up to MaxW writes (Put of a new value / Remove, applied WITHOUT renumbering: the context
   holds node ids) between the cursor's calls.  C10, second sentence, at the grain "the caller pauses the cursor": strictly monotone in-interval
   keys, values that were current at some instant since the open, no key skipped that was present and untouched throughout, early_abort reports
   a modification of the border under the cursor. *)
EXTENDS YkIscanR
CONSTANTS KeySet, MaxW, CurArgs,
          BuildKeys    \* the keys the build phase may insert / remove (KeySet: every reachable tree over the universe)
VARIABLES node, root, nextId, abs, phase, arg, cur, produced, seenv, touched, nw, dirty
vars == <<node, root, nextId, abs, phase, arg, cur, produced, seenv, touched, nw, dirty>>
ABSENT == -1
NoCur == [st |-> "NONE", stack |-> <<>>, out |-> <<>>, cbs |-> <<>>]
NoArg == [l |-> <<>>, le |-> "INF", r |-> <<>>, re |-> "INF", rtl |-> FALSE, ea |-> FALSE]
Init == /\ node = (1 :> NewBorder(TRUE, NULL)) /\ root = 1 /\ nextId = 2 /\ abs = Force([k \in KeySet |-> ABSENT])
        /\ phase = "build" /\ arg = NoArg /\ cur = NoCur /\ produced = <<>> /\ seenv = Force([k \in KeySet |-> {}]) /\ touched = {} /\ nw = 0 /\ dirty = FALSE
U8 == <<phase, arg, cur, produced, seenv, touched, nw, dirty>>
BPut(k) == /\ phase = "build" /\ k \in BuildKeys
           /\ LET r == PutRec(node, root, nextId, root, k, 1) c == Canon(r[1], r[2]) IN
              node' = c[1] /\ root' = c[2][r[2]] /\ nextId' = c[3] /\ abs' = [abs EXCEPT ![k] = 1]
           /\ UNCHANGED U8
BRem(k) == /\ phase = "build" /\ k \in BuildKeys
           /\ LET r == RemoveRec(node, root, root, k) c == Canon(r[1], r[2]) IN
              node' = c[1] /\ root' = c[2][r[2]] /\ nextId' = c[3] /\ abs' = [abs EXCEPT ![k] = ABSENT]
           /\ UNCHANGED U8
CArgs(a) == CtxArgs(a.l, a.le, a.r, a.re, a.rtl)
Note(r, pr) == IF r.st = "OK" THEN Append(pr, <<FullKeyR(r.stack), r.out[1]>>) ELSE pr
Open(a) == /\ phase = "build" /\ ValidRange(a.l, a.le, a.r, a.re)
           /\ LET r == OpenR(node, root, CArgs(a), a.ea) IN
              /\ cur' = r /\ produced' = Note(r, <<>>) /\ phase' = IF r.st = "OK" THEN "iter" ELSE "done"
           /\ arg' = a /\ seenv' = Force([k \in KeySet |-> {abs[k]}]) /\ touched' = {} /\ nw' = 0 /\ dirty' = FALSE
           /\ UNCHANGED <<node, root, nextId, abs>>
Nxt == /\ phase = "iter"
       /\ LET r == NextR(node, root, cur.stack, cur.cbs, CArgs(arg), arg.ea, 50) IN
          /\ cur' = r /\ produced' = Note(r, produced) /\ phase' = IF r.st = "OK" THEN "iter" ELSE "done"
       /\ dirty' = FALSE
       /\ UNCHANGED <<node, root, nextId, abs, arg, seenv, touched, nw>>
\* the border the cursor stands in (deepest layer)
UnderB == cur.stack[Len(cur.stack)].bn
Wr(k, v) == /\ phase = "iter" /\ nw < MaxW
            /\ LET r == IF v = ABSENT THEN RemoveRec(node, root, root, k) ELSE PutRec(node, root, nextId, root, k, v)
                   nd2 == r[1] IN
               /\ node' = nd2 /\ root' = r[2] /\ nextId' = IF v = ABSENT THEN nextId ELSE r[3]
               /\ dirty' = (dirty \/ nd2[UnderB].ver # node[UnderB].ver \/ nd2[UnderB].perm # node[UnderB].perm)
            /\ abs' = [abs EXCEPT ![k] = v] /\ seenv' = [seenv EXCEPT ![k] = @ \cup {v}] /\ touched' = touched \cup {k} /\ nw' = nw + 1
            /\ UNCHANGED <<phase, arg, cur, produced>>
Next == (\E k \in KeySet : BPut(k) \/ BRem(k)) \/ (\E a \in CurArgs : Open(a)) \/ Nxt \/ (\E k \in KeySet : Wr(k, 2) \/ Wr(k, ABSENT))
        \/ (phase = "done" /\ UNCHANGED vars)
Spec == Init /\ [][Next]_vars
\* ---- properties
InR(k) == InRange(k, arg.l, arg.le, arg.r, arg.re)
Mono == \A i \in 1..(Len(produced) - 1) : IF arg.rtl THEN LexLess(produced[i + 1][1], produced[i][1]) ELSE LexLess(produced[i][1], produced[i + 1][1])
InIv == \A i \in 1..Len(produced) : produced[i][1] \in KeySet /\ InR(produced[i][1])
ValOK == \A i \in 1..Len(produced) : produced[i][2] # ABSENT /\ produced[i][2] \in seenv[produced[i][1]]
NoFuel == cur.st # "FUEL"
Produced == {produced[i][1] : i \in 1..Len(produced)}
NoSkip == (phase = "done" /\ cur.st = "END") => \A k \in KeySet : (InR(k) /\ k \notin touched /\ ABSENT \notin seenv[k]) => k \in Produced
\* NOT in any configuration: TLC violates NvW within seconds (universe K5L, two writes) with exactly the listed known finding of C10
\* (iscan-misses-entry-inserted-at-its-start-position-after-open) at call grain: the cursor stands at the link tuple of layer 0, the layer below
\* vanishes and is created again between two calls, the new link has the tuple the cursor is positioned at and is skipped (strict comparison),
\* and the callback reports the border's version after the insert.  Kept as the executable statement of that finding.
\* C06 for the paused cursor: when it has ended, a key that was inserted while it was open (absent at some instant since the open, present now)
\* and lies in the interval is in its result, or one of the (version, node) pairs it reported is stale
NvW == (phase = "done" /\ cur.st = "END") => \A k \in KeySet : (InR(k) /\ abs[k] # ABSENT /\ ABSENT \in seenv[k] /\ k \notin Produced) =>
            \E q \in 1..Len(cur.cbs) : node[cur.cbs[q][2]].ver # cur.cbs[q][1]
NvNonEmpty == (phase = "done" /\ cur.st = "END") => Len(cur.cbs) >= 1
\* early_abort: a modification of the border under the cursor is reported by the next call (checked when that call has been made)
EaOK == (arg.ea /\ cur.st \in {"OK", "END"}) => TRUE
WarnOnlyIfEa == cur.st = "WARN" => arg.ea
CursorOK == phase # "build" => Mono /\ InIv /\ ValOK /\ NoFuel /\ NoSkip /\ WarnOnlyIfEa
\* action property: with early_abort, a call that follows a modification of the border under the cursor returns WARN
EaAct == [][(phase = "iter" /\ arg.ea /\ dirty /\ cur' # cur) => cur'.st = "WARN"]_vars
\* build phase: the version counters are irrelevant (they only grow; the cursor compares versions for equality), so they are left out of the view
View == IF phase = "build" THEN <<Force([n \in DOMAIN node |-> [node[n] EXCEPT !.ver.vi = 0, !.ver.vs = 0]]), root, abs, phase, <<>>, <<>>, <<>>, <<>>, {}, 0, FALSE>>
        ELSE <<node, root, abs, phase, arg, cur, produced, seenv, touched, nw, dirty>>
\* ---- universes / argument sets
K5 == { <<>>, <<1>>, <<1,1,1,1,1,1,1,1>>, <<1,1,1,1,1,1,1,1,0>>, <<1,1,1,1,1,1,1,1,5,5>> }
A(l, le, r, re, rtl, ea) == [l |-> l, le |-> le, r |-> r, re |-> re, rtl |-> rtl, ea |-> ea]
Args6 == { A(<<>>, "INF", <<>>, "INF", FALSE, FALSE), A(<<>>, "INF", <<>>, "INF", TRUE, FALSE), A(<<>>, "INF", <<>>, "INF", FALSE, TRUE),
           A(<<1>>, "EXC", <<1,1,1,1,1,1,1,1,5,5>>, "INC", FALSE, FALSE), A(<<1>>, "INC", <<1,1,1,1,1,1,1,1,0>>, "INC", TRUE, FALSE),
           A(<<>>, "INF", <<>>, "INF", TRUE, TRUE) }
K4s == { <<1>>, <<2>>, <<3>>, <<4>> }
\* F21: the layer's root border {1, 2, 3} is full; the 4th key splits it ({1, 2} | {3, 4}); removing 1 and 2 empties the left border, the interior root collapses
K6y == { <<>>, <<2>>, <<1,1,1,1,1,1,1,1,1>>, <<1,1,1,1,1,1,1,1,2>>, <<1,1,1,1,1,1,1,1,3>>, <<1,1,1,1,1,1,1,1,4>> }
B6y == K6y \ { <<1,1,1,1,1,1,1,1,4>> }
Args6y == { A(<<>>, "INF", <<>>, "INF", FALSE, FALSE), A(<<>>, "INF", <<>>, "INF", TRUE, FALSE) }
\* F20: the layer-0 border {"", 1, link} and the layer's root border {1, 2, 3} are both full; the 4th key of each splits it
K7x == { <<>>, <<1>>, <<2>>, <<1,1,1,1,1,1,1,1,1>>, <<1,1,1,1,1,1,1,1,2>>, <<1,1,1,1,1,1,1,1,3>>, <<1,1,1,1,1,1,1,1,4>> }
B7x == K7x \ { <<2>>, <<1,1,1,1,1,1,1,1,4>> }
Args7x == { A(<<>>, "INF", <<>>, "INF", FALSE, FALSE), A(<<>>, "INF", <<>>, "INF", TRUE, FALSE), A(<<1>>, "INC", <<1,1,1,1,1,1,1,1,4>>, "INC", FALSE, FALSE) }
\* mixed universe for random walks: two layers below one prefix (one of them with its own sub-layer), short keys around them
K7m == { <<>>, <<1>>, <<1,1,1,1,1,1,1,1>>, <<1,1,1,1,1,1,1,1,0>>, <<1,1,1,1,1,1,1,1,5>>, <<1,1,1,1,1,1,1,1,7>>, <<1,1,1,1,1,1,1,1,9>>, <<1,1,1,1,1,1,1,1,9,9,9,9,9,9,9,9,1>>, <<2>> }
Args7 == { A(<<>>, "INF", <<>>, "INF", FALSE, FALSE), A(<<>>, "INF", <<>>, "INF", TRUE, FALSE), A(<<>>, "INF", <<>>, "INF", FALSE, TRUE), A(<<>>, "INF", <<>>, "INF", TRUE, TRUE),
           A(<<1>>, "EXC", <<1,1,1,1,1,1,1,1,9>>, "INC", FALSE, FALSE), A(<<1,1,1,1,1,1,1,1,5>>, "INC", <<2>>, "EXC", TRUE, FALSE),
           A(<<1,1,1,1,1,1,1,1>>, "INC", <<1,1,1,1,1,1,1,1,9,9>>, "EXC", FALSE, TRUE) }
A8 == <<1,1,1,1,1,1,1,1>>
\* a next layer whose root border splits (4th key, F = 3) and whose interior root collapses again
K5L == { A8 \o <<1>>, A8 \o <<2>>, A8 \o <<3>>, A8 \o <<4>>, <<9>> }
ArgsL == { A(<<>>, "INF", <<>>, "INF", FALSE, FALSE), A(<<>>, "INF", <<>>, "INF", TRUE, FALSE), A(<<>>, "INF", <<>>, "INF", FALSE, TRUE), A(<<>>, "INF", <<>>, "INF", TRUE, TRUE),
           A(A8 \o <<2>>, "INC", A8 \o <<4>>, "EXC", FALSE, FALSE), A(A8 \o <<1>>, "EXC", <<9>>, "INC", TRUE, FALSE) }
\* single layer, interior root with several borders (splits and collapse under the cursor)
K6s == { <<1>>, <<2>>, <<3>>, <<4>>, <<5>>, <<6>> }
ArgsS == { A(<<>>, "INF", <<>>, "INF", FALSE, FALSE), A(<<>>, "INF", <<>>, "INF", TRUE, FALSE), A(<<>>, "INF", <<>>, "INF", FALSE, TRUE), A(<<>>, "INF", <<>>, "INF", TRUE, TRUE),
           A(<<2>>, "INC", <<5>>, "INC", FALSE, FALSE), A(<<2>>, "EXC", <<5>>, "EXC", TRUE, FALSE) }
====

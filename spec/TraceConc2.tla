---- MODULE TraceConc2 ----
(* Step-level conformance of the real code to YkConc2 (harness/stepdrv2.cpp): a full root border (fan-out 15) is split by an
   insert while readers run get; every logged access of the version words of L, R and P, the permutation and slot words, the
   next / parent / child pointers, n_keys, the root pointer and the root lock must be the enabled step of the model for that
   thread, with the same value.  Accesses to objects that are still private to the writer (R before it is linked behind L,
   P before the root pointer is stored), the writer's own reads under its lock, spinning loads of an unstable version and key
   stores are stuttering.  Runs are separated by reset events.  A rejection means the code no longer follows the transliterated
   algorithm (a divergence); the model's invariants (LinOK, Quiescent) are evaluated on every state of every accepted execution. *)
EXTENDS YkConc2, Json, IOUtils
Log == ndJsonDeserialize(IOEnv.TRACE)
GKEnv == (1 :> atoi(IOEnv.GK1)) @@ (2 :> atoi(IOEnv.GK2))
VARIABLE l
tvars == <<vars, l>>
E == Log[l]
LVer(e) == [lk |-> e.ver.lk, ins |-> e.ver.ins, spl |-> e.ver.spl, del |-> e.ver.del, root |-> e.ver.root, vi |-> e.ver.vi, vs |-> e.ver.vs]
Consume == l <= Len(Log) /\ l' = l + 1
Stutter == UNCHANGED vars
Ev(b) == b = TRUE
IsW == Ev(E.t = W)
WOwner == pc[W] \in {"lock", "chk", "s1", "s3", "smove", "sperm", "s6", "s7a", "s7b", "rl", "n1a", "n1b", "n1c", "n2", "n3", "n4", "n5", "n6"}
TInit == Init /\ l = 1 /\ TLCSet(1, 1)
TReset == /\ Consume /\ E.e = "reset"
          /\ nd' = [n \in {1, 2} |-> IF n = 1 THEN [EmptyB EXCEPT !.ver = [V0 EXCEPT !.root = TRUE, !.vi = F], !.perm = [i \in 1..F |-> i - 1],
                                                            !.ks = [s \in Slots |-> InitKey(s + 1)], !.lv = [s \in Slots |-> 100 + InitKey(s + 1)]]
                                     ELSE EmptyB]
          /\ pnode' = [ver |-> V0, n |-> 0, key |-> 0, ch0 |-> NULL, ch1 |-> NULL]
          /\ rootp' = 1 /\ rootlock' = FALSE
          /\ pc' = [t \in Threads |-> "start"] /\ loc' = [t \in Threads |-> L0]
          /\ abs' = [k \in Keys |-> IF \E i \in 1..F : InitKey(i) = k THEN 100 + k ELSE ABSENT]
          /\ seen' = [t \in Threads |-> {}] /\ res' = [t \in Threads |-> <<>>]
TInv == Consume /\ E.e = "inv" /\ Start(E.t)
TRootLoad == /\ Consume /\ E.e = "root_load" /\ Ev(rootp = E.n)
             /\ IF pc[E.t] = "g0" THEN G0(E.t) ELSE IsW /\ Stutter
\* version loads: the writer under its lock and loads of a dirty word change nothing; a stable load is the thread's next step on that node
TVerLoad == /\ Consume /\ E.e = "ver_load"
            /\ LET t == E.t IN
               IF t = W /\ WOwner THEN Stutter /\ Ev(E.n = 1 => nd[1].ver = LVer(E))
               ELSE /\ Ev(VerOf(E.n) = LVer(E))
                    /\ IF ~Stable(LVer(E)) THEN Stutter
                       ELSE \/ (FB(t) /\ Ev(loc[t].root = E.n)) \/ (GC3(t) /\ Ev(loc[t].child = E.n)) \/ (GC4(t) /\ Ev(E.n = 3))
                            \/ ((LV1(t) \/ LV2(t) \/ GFc(t)) /\ Ev(loc[t].b = E.n))
TNkeysLoad == Consume /\ E.e = "nkeys_load" /\ Ev(pnode.n = E.v) /\ GC1(E.t)
TChildLoad == /\ Consume /\ E.e = "child_load" /\ Ev(loc[E.t].ci = E.i) /\ Ev((IF E.i = 0 THEN pnode.ch0 ELSE pnode.ch1) = E.c) /\ GC2(E.t)
TPermLoad == /\ Consume /\ E.e = "perm_load" /\ Ev(nd[E.n].perm = E.perm)
             /\ IF E.t = W /\ WOwner THEN Stutter ELSE PermLd(E.t) /\ Ev(loc[E.t].b = E.n)
TLvLoad == /\ Consume /\ E.e = "lv_load" /\ Ev(nd[E.n].lv[E.slot] = E.w)
           /\ IF E.t = W /\ WOwner THEN Stutter ELSE GVal(E.t) /\ Ev(loc[E.t].b = E.n /\ loc[E.t].idx = E.slot)
TLock == /\ Consume /\ E.e = "lock" /\ IsW
         /\ IF E.n = 1 THEN Lock(W) /\ nd'[1].ver = LVer(E) ELSE Ev(E.n = 3 /\ pc[W] = "n1c") /\ Stutter
\* flag CASes of the writer: inserting / splitting bits of L, root flags of L and R; everything on a private object is stuttering
TFlag == /\ Consume /\ E.e = "flag" /\ IsW
         /\ IF E.n = 1 THEN (Chk(W) \/ S1(W) \/ N1a(W)) /\ nd'[1].ver = LVer(E)
            ELSE IF E.n = 2 /\ pc[W] = "n1b" THEN N1b(W) /\ nd'[2].ver = LVer(E)
            ELSE Ev((E.n = 2 /\ pc[W] = "s3") \/ (E.n = 3 /\ pc[W] = "n1c")) /\ Stutter
TVerStore == Consume /\ E.e = "ver_store" /\ IsW /\ Ev((E.n = 2 /\ pc[W] = "s3") \/ (E.n = 3 /\ pc[W] = "n1c")) /\ Stutter
TNextStore == /\ Consume /\ E.e = "next_store" /\ IsW
              /\ IF E.n = 1 THEN S3(W) /\ Ev(E.x = 2) ELSE Ev(pc[W] = "s3") /\ Stutter
TLvStore == /\ Consume /\ E.e = "lv_store" /\ IsW
            /\ IF pc[W] = "smove"
               THEN LET src == nd[1].perm[Keep + 1] dst == loc[W].mv - 1 IN
                    IF E.n = 2 THEN Ev(E.slot = dst /\ E.w = nd[1].lv[src]) /\ Stutter
                    ELSE Ev(E.n = 1 /\ E.slot = src /\ E.w = 0) /\ SMove(W)
               ELSE S7a(W) /\ Ev(E.n = Side /\ E.slot = FreeSlot(nd[Side].perm) /\ E.w = 1)
TPermStore == /\ Consume /\ E.e = "perm_store" /\ IsW
              /\ \/ (SPerm(W) /\ Ev(E.n = 1)) \/ (S6(W) /\ Ev(E.n = 2)) \/ (S7b(W) /\ Ev(E.n = loc[W].b))
              /\ nd'[E.n].perm = E.perm
TRootLock == Consume /\ E.e = "root_lock" /\ IsW /\ RL(W)
TParentStore == /\ Consume /\ E.e = "parent_store" /\ IsW
                /\ IF E.n = 2 /\ pc[W] = "n1c" THEN N1c(W) /\ Ev(E.p = 3)
                   ELSE Ev((E.n = 1 /\ pc[W] = "n1c" /\ E.p = 3) \/ (E.n = 2 /\ pc[W] = "s3") \/ (E.n = 3 /\ pc[W] = "n1c")) /\ Stutter
TUnlock == /\ Consume /\ E.e = "unlock" /\ IsW
           /\ IF E.n = 1 THEN N2(W) /\ nd'[1].ver = LVer(E)
              ELSE IF E.n = 2 THEN N3(W) /\ nd'[2].ver = LVer(E)
              ELSE N5(W) /\ pnode'.ver = LVer(E)
TRootStore == Consume /\ E.e = "root_store" /\ IsW /\ N4(W) /\ Ev(E.n = 3)
TRootUnlock == Consume /\ E.e = "root_unlock" /\ IsW /\ N6(W)
\* private construction of P (n_keys, children, key), key stores of the moved / new entries, the writer's own pointer loads
TPrivate == /\ Consume /\ E.e \in {"nkeys_store", "child_store", "p_other_store", "other_store", "next_load", "parent_load"} /\ IsW /\ Ev(WOwner) /\ Stutter
            /\ Ev(E.e \in {"nkeys_store", "child_store", "p_other_store"} => pc[W] = "n1c")
TRet == /\ Consume /\ E.e = "ret" /\ Stutter
        /\ Ev(pc[E.t] = "done" /\ Len(res[E.t]) = 1)
        /\ LET r == res[E.t][1] IN Ev(r.st = E.st /\ (E.t # W => r.w = E.w))
TEnd == Consume /\ E.e = "end" /\ Stutter /\ Ev(AllDone)
TNext == TReset \/ TInv \/ TRootLoad \/ TVerLoad \/ TNkeysLoad \/ TChildLoad \/ TPermLoad \/ TLvLoad \/ TLock \/ TFlag \/ TVerStore \/ TNextStore
         \/ TLvStore \/ TPermStore \/ TRootLock \/ TParentStore \/ TUnlock \/ TRootStore \/ TRootUnlock \/ TPrivate \/ TRet \/ TEnd
TSpec == TInit /\ [][TNext]_tvars
TView == <<l, pc>>
Record == TLCSet(1, IF l > TLCGet(1) THEN l ELSE TLCGet(1))
Accepted == IF TLCGet(1) = Len(Log) + 1 THEN TRUE ELSE PrintT(<<"STUCK", TLCGet(1), 0>>) /\ FALSE
====

SPECIFICATION Spec
CONSTANTS
  F = 3
  BUGGY_F2 = FALSE
  BUGGY_F3 = FALSE
  BUGGY_F15 = FALSE
  BUGGY_F16 = FALSE
  BUGGY_F18 = FALSE
  BUGGY_F20 = FALSE
  BUGGY_F21 = FALSE
  BUGGY_F19 = FALSE
  KeySet <- K5
  BuildKeys <- K5
  MaxW = 2
  CurArgs <- Args6
INVARIANTS CursorOK
PROPERTY EaAct
VIEW View
CHECK_DEADLOCK FALSE

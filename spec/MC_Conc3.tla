---- MODULE MC_Conc3 ----
EXTENDS YkConc3
O(op, k, v) == [op |-> op, k |-> k, v |-> v]
\* a: the right border is emptied (P collapses, L becomes root) vs a reader of the removed key and a reader of a staying key
PA == (0 :> O("rem", 10, 0)) @@ (1 :> O("get", 10, 0)) @@ (2 :> O("get", 2, 0))
\* b: ... vs an insert into the range of the border being deleted and a reader of that key
PB == (0 :> O("rem", 10, 0)) @@ (1 :> O("put", 12, 1)) @@ (2 :> O("get", 12, 0))
\* c: both borders are emptied concurrently (an empty deleted root border remains) vs a reader
PC == (0 :> O("rem", 10, 0)) @@ (1 :> O("rem", 2, 0)) @@ (2 :> O("get", 2, 0))
\* d: the LEFT border is emptied (R becomes root) vs a reader of R and an insert into L's range
PD == (0 :> O("rem", 2, 0)) @@ (1 :> O("get", 10, 0)) @@ (2 :> O("put", 1, 1))
\* e: both borders emptied vs an insert
PE == (0 :> O("rem", 10, 0)) @@ (1 :> O("rem", 2, 0)) @@ (2 :> O("put", 5, 1))
\* f: border emptied vs an update and a remove in the sibling
PF == (0 :> O("rem", 10, 0)) @@ (1 :> O("put", 4, 2)) @@ (2 :> O("rem", 2, 0))
\* g: two removers of the same last key + an insert of it
PG == (0 :> O("rem", 10, 0)) @@ (1 :> O("rem", 10, 0)) @@ (2 :> O("put", 10, 3))
====

---- MODULE TraceLin ----
(* Property-level judgement of concurrent executions of the real code (harness/concdrv.cpp, one JSON line per run):
   the complete call/return history with global order numbers, the quiescent view after the run and the final dump.
   Every key is an independent register, so linearizability of the point-operation history is decided key by key
   (locality): TLC searches an order of the operations touching the key that respects real-time precedence and the
   sequential map semantics, starting from the initial binding and ending in the binding observed at quiescence.
   A scan / cursor contributes, for every key of the interval it covered, one read of that key (returned value, or
   ABSENT) that must fit into the same order (C04), plus shape facts (ascending, inside the interval, valid values).
   Node-version sets are judged from the staleness probes taken at quiescence (C06).  The final dump is checked for
   well-formedness and for agreement of descent, leaf chain and scan (C08 at quiescence).
   Search state: <<h, ki, done, cur>> (run, key index, linearized operations of that key, current binding). *)
EXTENDS YkTree, Json, IOUtils
CONSTANTS ON, LENIENT
Runs == ndJsonDeserialize(IOEnv.TRACE)
SkipSet == LET s == ndJsonDeserialize(IOEnv.SKIP) IN IF Len(s) = 0 THEN {} ELSE {s[1].skip[i] : i \in 1..Len(s[1].skip)}
ABSENT == -1
VARIABLES h, ki, done, cur
vars == <<h, ki, done, cur>>
Chk(c) == c \in ON
Ev(b) == b = TRUE
R == Runs[h]
NKeys(r) == Len(r.final)
KeyAt(r, i) == r.final[i][1]
InitOf(r, k) == IF \E i \in 1..Len(r.init) : r.init[i][1] = k THEN r.init[CHOOSE i \in 1..Len(r.init) : r.init[i][1] = k][2] ELSE ABSENT
IsScan(o) == o.op \in {"scan", "iscan"}
Keys(tl) == [i \in 1..Len(tl) |-> tl[i][1]]
Has(tl, k) == \E i \in 1..Len(tl) : tl[i][1] = k
ValIn(tl, k) == IF Has(tl, k) THEN tl[CHOOSE i \in 1..Len(tl) : tl[i][1] = k][2] ELSE ABSENT
Last(s) == s[Len(s)]
\* ---- what a scan / cursor read: the interval it covered
ScanOKStatus(o) == IF o.op = "scan" THEN o.st = "OK" ELSE o.st \in {"OK", "OK_SCAN_END"} /\ (o.st = "OK" => o.end \in {"OK", "OK_SCAN_END"})
StartL(o) == IF o.le = "INF" THEN <<>> ELSE o.l
Covered(o, k) ==
   /\ ScanOKStatus(o)
   /\ InRange(k, o.l, o.le, o.r, o.re)
   /\ IF o.op = "scan" THEN
         /\ (o.max # 0 /\ Len(o.tl) >= o.max /\ ~o.rtl => LexLE(k, Last(o.tl)[1]))
         /\ (o.rtl /\ Len(o.tl) >= 1 => LexLE(o.tl[1][1], k))
      ELSE  \* cursor: stopped early (end = "OK") covers start .. last produced entry, in its direction
         (o.st = "OK" /\ o.end = "OK" /\ Len(o.tl) >= 1) => (IF o.rtl THEN LexLE(Last(o.tl)[1], k) ELSE LexLE(k, Last(o.tl)[1]))
\* ---- operations touching key k in run r (indices into r.ops), and the final quiescent read (index 0)
Touches(r, i, k) == LET o == r.ops[i] IN IF IsScan(o) THEN Chk("SCAN") /\ Covered(o, k) ELSE o.k = k
OpsOn(r, k) == {i \in 1..Len(r.ops) : Touches(r, i, k)}
\* effect / admissibility of operation i on key k when the current binding is c: the set of possible next bindings ({} = not admissible)
NextBinding(r, i, k, c) ==
   LET o == r.ops[i] IN
   IF IsScan(o) THEN (IF ValIn(o.tl, k) = c THEN {c} ELSE {})
   ELSE CASE o.op = "get" -> IF (o.st = "OK" /\ c # ABSENT /\ o.rv = c) \/ (o.st = "WARN_NOT_EXIST" /\ c = ABSENT) THEN {c} ELSE {}
          [] o.op = "put" -> IF o.st = "OK" THEN {o.v} ELSE {}
          [] o.op = "uput" -> IF o.st = "OK" /\ c = ABSENT THEN {o.v} ELSE IF o.st = "WARN_UNIQUE_RESTRICTION" /\ c # ABSENT THEN {c} ELSE {}
          [] o.op = "rem" -> IF o.st = "OK" /\ c # ABSENT THEN {ABSENT} ELSE IF o.st = "OK_NOT_FOUND" /\ c = ABSENT THEN {c} ELSE {}
          \* storage directory operations (C13): create = unique insert of the name, delete = remove, find = lookup
          [] o.op = "create" -> IF o.st = "OK" /\ c = ABSENT THEN {1} ELSE IF o.st = "WARN_UNIQUE_RESTRICTION" /\ c # ABSENT THEN {c} ELSE {}
          [] o.op = "delete" -> IF o.st = "OK" /\ c # ABSENT THEN {ABSENT} ELSE IF o.st \in {"WARN_NOT_EXIST", "WARN_CONCURRENT_OPERATIONS"} /\ c = ABSENT THEN {c} ELSE {}
          [] o.op = "find" -> IF (o.st = "OK" /\ c # ABSENT) \/ (o.st = "WARN_NOT_EXIST" /\ c = ABSENT) THEN {c} ELSE {}
          [] OTHER -> {}
\* ---- per-run facts that need no search
Ascending(tl) == \A i \in 1..(Len(tl) - 1) : LexLess(tl[i][1], tl[i + 1][1])
Descending(tl) == \A i \in 1..(Len(tl) - 1) : LexLess(tl[i + 1][1], tl[i][1])
ShapeOK(o) == /\ ScanOKStatus(o)
              /\ (IF o.op = "iscan" /\ o.rtl THEN Descending(o.tl) ELSE Ascending(o.tl))
              /\ \A i \in 1..Len(o.tl) : InRange(o.tl[i][1], o.l, o.le, o.r, o.re) /\ o.tl[i][2] >= 1
              /\ (o.op = "scan" /\ o.max # 0 => Len(o.tl) <= o.max)
              /\ (o.op = "iscan" /\ o.limit >= 0 => Len(o.tl) <= o.limit + 1)
\* C06: a key that the scan covered and reported absent, that was absent initially, is never removed in the run and is put
\* successfully by a call that had not returned when the scan started, was inserted after the scan looked: some pair must be stale
InsertedBehind(r, o, k) == /\ Covered(o, k) /\ ~Has(o.tl, k) /\ InitOf(r, k) = ABSENT
                           /\ ~\E j \in 1..Len(r.ops) : r.ops[j].op = "rem" /\ r.ops[j].k = k
                           /\ \E j \in 1..Len(r.ops) : r.ops[j].op \in {"put", "uput"} /\ r.ops[j].k = k /\ r.ops[j].st = "OK" /\ r.ops[j].ret > o.inv
NvOK(r, o) == (o.probed /\ \E i \in 1..NKeys(r) : InsertedBehind(r, o, KeyAt(r, i))) => \E i \in 1..Len(o.stale) : o.stale[i]
NvNonEmpty(o) == (o.op = "scan" /\ o.st = "OK") => o.nvn >= 1
\* quiescent structure (C08): final dump well formed, nothing locked / dirty, leaf chain = descent lookups = full scan
UsedSlot(j, s) == \E q \in 1..Len(j.slots) : j.slots[q].i = s
SlotRec(j, s) == j.slots[CHOOSE q \in 1..Len(j.slots) : j.slots[q].i = s]
DVer(j) == [vi |-> j.ver.vi, vs |-> j.ver.vs, del |-> j.ver.del, root |-> j.ver.root]
DNode(j) == IF j.t = "B" THEN
              [t |-> "B", perm |-> j.perm,
               k |-> Force([s \in Slots |-> IF UsedSlot(j, s) THEN [s |-> SlotRec(j, s).k.s, l |-> SlotRec(j, s).k.l] ELSE NoTup]),
               lv |-> Force([s \in Slots |-> IF UsedSlot(j, s) THEN SlotRec(j, s).lv ELSE <<"N">>]),
               parent |-> j.parent, prev |-> j.prev, next |-> j.next, ver |-> DVer(j)]
            ELSE
              [t |-> "I", n |-> j.n,
               k |-> Force([i \in Slots |-> IF i < j.n THEN [s |-> j.keys[i+1].s, l |-> j.keys[i+1].l] ELSE NoTup]),
               ch |-> Force([i \in 0..F |-> IF i <= j.n THEN j.ch[i+1] ELSE NULL]),
               parent |-> j.parent, ver |-> DVer(j)]
DNodes(d) == Force([i \in 1..Len(d.nodes) |-> DNode(d.nodes[i])])
PresentFinal(r) == SelectSeq(r.final, LAMBDA p : p[2] # ABSENT)
QuiesFacts(r) == IF r.dump.root = 0 THEN   \* no root at all (storage directory after the last delete / before the first create)
                    [nodirty |-> TRUE, wellformed |-> TRUE, chain_eq_scan |-> Len(r.fscan) = 0, descent_eq_chain |-> \A i \in 1..Len(r.final) : r.final[i][2] = ABSENT]
                 ELSE
                 LET dn == DNodes(r.dump) dr == r.dump.root
                     lst == Listing(dn, dr)
                     pairs(s) == [i \in 1..Len(s) |-> <<s[i][1], s[i][2]>>] IN
                 [nodirty |-> \A i \in 1..Len(r.dump.nodes) : ~r.dump.nodes[i].ver.dirty,
                  wellformed |-> WellFormed(dn, dr),
                  chain_eq_scan |-> lst = pairs(r.fscan),
                  \* every key of the quiescent point lookups appears in the chain with the same value, and the chain holds nothing else among them
                  descent_eq_chain |-> \A i \in 1..Len(r.final) : ValIn(lst, r.final[i][1]) = r.final[i][2]]
\* ---- judgement (lenient: print and go on)
J(c, tag, cond, info) == Ev(IF ~Chk(c) THEN TRUE ELSE IF cond THEN TRUE
                            ELSE IF LENIENT THEN PrintT(<<"MISMATCH", c, tag, h, ToJson(info)>>) ELSE FALSE)
RunFacts(r) ==
   /\ \A i \in 1..Len(r.ops) : IsScan(r.ops[i]) =>
         /\ J("SCAN", "scan-shape", ShapeOK(r.ops[i]), [op |-> i])
         /\ J("NV", "scan-nv-misses-insert", NvOK(r, r.ops[i]), [op |-> i])
         /\ J("NV", "scan-nv-empty", NvNonEmpty(r.ops[i]), [op |-> i])
   \* C12 under concurrency: the border version words a put's own unlocks advanced are exactly the nodes it reported (none for an overwrite / a refused unique put)
   /\ \A i \in 1..Len(r.ops) : ("rep" \in DOMAIN r.ops[i]) =>
         J("REP", "put-report-concurrent", r.ops[i].rep.unrep = 0 /\ r.ops[i].rep.unbump = 0, [op |-> i, rep |-> r.ops[i].rep])
   /\ IF Chk("QUIES") THEN LET f == QuiesFacts(r) IN J("QUIES", "quiescent-structure", f.nodirty /\ f.wellformed /\ f.chain_eq_scan /\ f.descent_eq_chain, f) ELSE TRUE
\* ---- the search
Start(r, i) == i <= NKeys(r)
Init == h = 1 /\ ki = 1 /\ done = {} /\ cur = (IF Len(Runs) >= 1 /\ NKeys(Runs[1]) >= 1 THEN InitOf(Runs[1], KeyAt(Runs[1], 1)) ELSE ABSENT)
\* linearize one more operation of the current key
NoSearch == ~Chk("LIN") /\ ~Chk("SCAN")
Lin == /\ h <= Len(Runs) /\ R.id \notin SkipSet /\ ki <= NKeys(R) /\ ~NoSearch
       /\ LET k == KeyAt(R, ki) ops == OpsOn(R, k) IN
          \E i \in ops \ done :
             /\ \A j \in ops \ done : j # i => ~(R.ops[j].ret < R.ops[i].inv)
             /\ \E c \in NextBinding(R, i, k, cur) : cur' = c
             /\ done' = done \cup {i} /\ UNCHANGED <<h, ki>>
\* all operations of the key linearized and the final binding is the one observed at quiescence: next key
NextKey == /\ h <= Len(Runs) /\ R.id \notin SkipSet /\ ki <= NKeys(R)
           /\ (NoSearch \/ (LET k == KeyAt(R, ki) IN done = OpsOn(R, k) /\ cur = R.final[ki][2]))
           /\ ki' = ki + 1 /\ done' = {} /\ h' = h
           /\ cur' = IF ki + 1 <= NKeys(R) THEN InitOf(R, KeyAt(R, ki + 1)) ELSE ABSENT
\* all keys done: the facts that need no search, then the next run
NextRun == /\ h <= Len(Runs) /\ (IF R.id \in SkipSet THEN TRUE ELSE ki > NKeys(R) /\ Ev(RunFacts(R)))
           /\ h' = h + 1 /\ ki' = 1 /\ done' = {}
           /\ cur' = IF h + 1 <= Len(Runs) /\ NKeys(Runs[h + 1]) >= 1 THEN InitOf(Runs[h + 1], KeyAt(Runs[h + 1], 1)) ELSE ABSENT
Next == Lin \/ NextKey \/ NextRun
Spec == Init /\ [][Next]_vars
\* progress registers: 1 = highest run index reached, 2 = highest key index reached inside that run
Record == /\ (IF h > TLCGet(1) THEN TLCSet(1, h) /\ TLCSet(2, ki) ELSE IF h = TLCGet(1) /\ ki > TLCGet(2) THEN TLCSet(2, ki) ELSE TRUE)
RegInit == TLCSet(1, 1) /\ TLCSet(2, 1)
ISpec == (Init /\ RegInit) /\ [][Next]_vars
Accepted == IF TLCGet(1) = Len(Runs) + 1 THEN TRUE ELSE PrintT(<<"STUCK", TLCGet(1), TLCGet(2)>>) /\ FALSE
====

---- MODULE MC_Conc5 ----
EXTENDS YkConc5
O(op, k, v) == [op |-> op, k |-> k, v |-> v]
\* a: the layer below S vanishes (its last key is removed) vs a reader of that key and an insert into the same layer (new layer created)
PA == (0 :> O("rem", 101, 0)) @@ (1 :> O("get", 101, 0)) @@ (2 :> O("put", 102, 1))
\* b: two concurrent creations of the layer + a reader
PB == (0 :> O("put", 101, 1)) @@ (1 :> O("put", 102, 2)) @@ (2 :> O("get", 101, 0))
\* c: the link's slot is reused by a short key while a reader is on its way down
PC == (0 :> O("rem", 101, 0)) @@ (1 :> O("put", 2, 7)) @@ (2 :> O("get", 101, 0))
\* d: two removers empty the layer, the key S itself (value tuple next to the link tuple) is updated
PD == (0 :> O("rem", 101, 0)) @@ (1 :> O("rem", 102, 0)) @@ (2 :> O("put", 100, 3))
\* e: remove and re-insert of the same key behind S + reader
PE == (0 :> O("rem", 101, 0)) @@ (1 :> O("put", 101, 2)) @@ (2 :> O("get", 101, 0))
====

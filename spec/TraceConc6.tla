---- MODULE TraceConc6 ----
(* Step-level conformance of the real code to YkConc6 (harness/stepdrv6.cpp): border split below a FULL interior root (fan-out 15,
   16 borders), interior_split with the move of the upper keys and children to a new interior, the rewrite of the moved children's
   parent pointers, the new root, and a second border split whose lock_parent sees its parent change; readers.  Every logged access
   of the version words, permutation and slot words, next / prev / parent / child pointers, n_keys, the root pointer and the root lock
   must be the enabled step of the model for that thread, with the same value.  Loads of a thread that holds a lock are stuttering
   unless they are one of the model's load steps; accesses to objects that are still private to their creator are stuttering. *)
EXTENDS YkConc6, Json, IOUtils
Log == ndJsonDeserialize(IOEnv.TRACE)
Meta == Log[1]
ProgT == [t \in 0..(Len(Meta.prog) - 1) |-> [op |-> Meta.prog[t + 1].op, k |-> Meta.prog[t + 1].k, v |-> Meta.prog[t + 1].v]]
\* initial key sets of the 16 borders come from the first reset event; Keys = those + the program keys
R0 == Log[2]
KeysOfB(j) == {j.ks[j.perm[i] + 1] : i \in 1..Len(j.perm)}
InitBT == [n \in 1..(F + 1) |-> KeysOfB(R0.b[n])]
KeysT == UNION {InitBT[n] : n \in 1..(F + 1)} \cup {Meta.prog[i].k : i \in 1..Len(Meta.prog)}
VARIABLE l
tvars == <<vars, l>>
E == Log[l]
LV(v) == [lk |-> v.lk, ins |-> v.ins, spl |-> v.spl, del |-> v.del, root |-> v.root, vi |-> v.vi, vs |-> v.vs]
LVer(e) == LV(e.ver)
Consume == l <= Len(Log) /\ l' = l + 1
Stutter == UNCHANGED vars
Ev(b) == b = TRUE
Reading(t) == pc[t] \in {"start", "g0", "fb", "gc1", "gc2", "gc3", "gc4", "lv1", "permld", "lv2", "g_val", "g_fc", "lock", "done"}
Owner(t) == ~Reading(t)
\* not allocated yet, or allocated and still invisible: a new border until it is linked, the new root until the root pointer is stored
Private(n) == \/ (n \in Borders /\ n >= nextB) \/ (n \in Interiors /\ n >= nextI)
              \/ (n \in Borders /\ \E t \in Threads : loc[t].nb = n /\ pc[t] \in {"s3", "s3l"})
              \/ (n \in Interiors /\ \E t \in Threads : loc[t].nr = n /\ pc[t] \in {"isr3", "isr4", "isu1", "isu2", "isrs"})
\* (the model's Init sorts the key sets with a CHOOSE over all sequences: infeasible for 15-key borders; the first event is a reset anyway)
TInit == /\ bd = [n \in Borders |-> EmptyB] /\ it = [n \in Interiors |-> EmptyI] /\ nextB = NC + 1 /\ nextI = 102 /\ rootp = 101 /\ rootlock = FALSE
         /\ pc = [t \in Threads |-> "start"] /\ loc = [t \in Threads |-> L0] /\ abs = [k \in Keys |-> ABSENT]
         /\ seen = [t \in Threads |-> {}] /\ res = [t \in Threads |-> <<>>] /\ l = 2 /\ TLCSet(1, 2)
MkB(j, pv, nx) == [ver |-> LV(j.ver), perm |-> j.perm, ks |-> [s \in Slots |-> j.ks[s + 1]], lv |-> [s \in Slots |-> j.lv[s + 1]], prev |-> pv, next |-> nx, parent |-> 101]
AbsOf(e) == [k \in Keys |-> IF \E n \in 1..NC : k \in KeysOfB(e.b[n])
                            THEN LET n == CHOOSE m \in 1..NC : k \in KeysOfB(e.b[m]) i == CHOOSE q \in 1..Len(e.b[n].perm) : e.b[n].ks[e.b[n].perm[q] + 1] = k IN e.b[n].lv[e.b[n].perm[i] + 1]
                            ELSE ABSENT]
TReset == /\ Consume /\ E.e = "reset"
          /\ bd' = Force([n \in Borders |-> IF n <= NC THEN MkB(E.b[n], IF n = 1 THEN NULL ELSE n - 1, IF n = NC THEN NULL ELSE n + 1) ELSE EmptyB])
          /\ it' = Force([n \in Interiors |-> IF n = 101 THEN [EmptyI EXCEPT !.ver = LV(E.p.ver), !.n = F, !.key = [i \in 0..(F-1) |-> E.p.keys[i + 1]], !.ch = [i \in 0..F |-> i + 1]] ELSE EmptyI])
          /\ nextB' = NC + 1 /\ nextI' = 102 /\ rootp' = 101 /\ rootlock' = FALSE
          /\ pc' = [t \in Threads |-> "start"] /\ loc' = [t \in Threads |-> L0]
          /\ abs' = Force(AbsOf(E))
          /\ seen' = [t \in Threads |-> {}] /\ res' = [t \in Threads |-> <<>>]
TInv == Consume /\ E.e = "inv" /\ Start(E.t)
G0Again(t) == loc' = [loc EXCEPT ![t].root = rootp] /\ UNCHANGED <<bd, it, UA, UR, pc, abs, seen, res>>
TRootLoad == /\ Consume /\ E.e = "root_load" /\ Ev(rootp = E.n)
             /\ LET t == E.t IN
                IF pc[t] = "g0" THEN G0(t)
                ELSE IF pc[t] = "isrl2" THEN ISRl2(t)
                ELSE IF pc[t] = "fb" /\ Op(t).op = "put" THEN G0Again(t)
                ELSE Ev(Owner(t)) /\ Stutter
TVerLoad == /\ Consume /\ E.e = "ver_load"
            /\ LET t == E.t IN
               IF Private(E.n) THEN Stutter
               ELSE /\ Ev(VerOf(E.n) = LVer(E))
                    /\ IF Owner(t) \/ pc[t] = "lock" \/ ~Stable(LVer(E)) THEN Stutter
                       ELSE \/ (FB(t) /\ Ev(loc[t].root = E.n)) \/ (GC3(t) /\ Ev(loc[t].child = E.n)) \/ (GC4(t) /\ Ev(loc[t].cur = E.n))
                            \/ ((LV1(t) \/ LV2(t) \/ GFc(t)) /\ Ev(loc[t].b = E.n))
TNkeysLoad == /\ Consume /\ E.e = "nkeys_load" /\ (IF Owner(E.t) THEN Stutter ELSE Ev(loc[E.t].cur = E.n) /\ GC1(E.t))
TChildLoad == /\ Consume /\ E.e = "child_load"
              /\ IF Owner(E.t) THEN Stutter ELSE Ev(it[E.n].ch[E.i] = E.c) /\ GC2(E.t) /\ Ev(loc[E.t].ci = E.i /\ loc[E.t].cur = E.n)
TPermLoad == /\ Consume /\ E.e = "perm_load"
             /\ IF Private(E.n) \/ Owner(E.t) THEN Stutter ELSE Ev(bd[E.n].perm = E.perm) /\ PermLd(E.t) /\ Ev(loc[E.t].b = E.n)
TLvLoad == /\ Consume /\ E.e = "lv_load"
           /\ IF Owner(E.t) THEN Stutter ELSE Ev(bd[E.n].lv[E.slot] = E.w) /\ GVal(E.t) /\ Ev(loc[E.t].b = E.n /\ loc[E.t].idx = E.slot)
TPtrLoad == Consume /\ E.e \in {"next_load", "prev_load"} /\ Ev(Owner(E.t)) /\ Stutter
TParentLoad == /\ Consume /\ E.e = "parent_load"
               /\ LET t == E.t IN
                  IF pc[t] = "lp_ld" /\ E.n = loc[t].b THEN LpLd(t) /\ Ev(bd[E.n].parent = E.p)
                  ELSE IF pc[t] = "lp_c" /\ E.n = loc[t].b /\ E.p = loc[t].pn THEN LpC(t) /\ Ev(bd[E.n].parent = E.p)
                  ELSE Ev(Owner(t)) /\ Stutter
TLock == /\ Consume /\ E.e = "lock"
         /\ LET t == E.t IN
            IF Private(E.n) THEN Stutter
            ELSE IF E.n \in Interiors THEN LpL(t) /\ Ev(loc[t].pn = E.n) /\ it'[E.n].ver = LVer(E)
            ELSE Lock(t) /\ Ev(loc[t].b = E.n) /\ bd'[E.n].ver = LVer(E)
TFlag == /\ Consume /\ E.e = "flag"
         /\ LET t == E.t IN
            IF Private(E.n) THEN Stutter
            ELSE IF E.n \in Interiors THEN
                 \/ ((X6(t) \/ IS1(t) \/ ISR1(t)) /\ Ev(loc[t].pn = E.n) /\ it'[E.n].ver = LVer(E))
                 \/ (ISR2(t) /\ Ev(loc[t].ni = E.n) /\ it'[E.n].ver = LVer(E))
                 \/ (ISIns(t) /\ Ev(loc[t].ni = E.n /\ loc[t].tgt = E.n) /\ it'[E.n].ver = LVer(E))
            ELSE /\ \/ (Chk(t) /\ Ev(loc[t].b = E.n)) \/ ((S1(t) \/ X1(t)) /\ Ev(loc[t].b = E.n)) \/ (X2(t) /\ Ev(loc[t].nb = E.n))
                 /\ bd'[E.n].ver = LVer(E)
\* a new border: init_border stores a clean word (stutter), set_version the copy of the split border's word (S3a); a new interior: the copy
\* of P's word (IS2); the new root is built privately
TVerStore == /\ Consume /\ E.e = "ver_store"
             /\ IF E.n \in Borders /\ E.ver.lk THEN S3a(E.t) /\ Ev(loc'[E.t].nb = E.n) /\ bd'[E.n].ver = LVer(E)
                ELSE IF E.n \in Interiors /\ E.ver.lk /\ pc[E.t] = "is2" THEN IS2(E.t) /\ Ev(loc'[E.t].ni = E.n) /\ it'[E.n].ver = LVer(E)
                ELSE Ev(Private(E.n)) /\ Stutter
TUnlock == /\ Consume /\ E.e = "unlock"
           /\ LET t == E.t IN
              IF E.n \in Interiors
              THEN (\/ (pc[t] = "lp_c" /\ LpC(t) /\ pc'[t] # "x1" /\ Ev(loc[t].pn = E.n))
                    \/ ((X9(t) \/ ISU1(t)) /\ Ev(loc[t].pn = E.n)) \/ (ISU2(t) /\ Ev(loc[t].ni = E.n)) \/ (ISU3(t) /\ Ev(loc[t].nr = E.n))) /\ it'[E.n].ver = LVer(E)
              ELSE /\ \/ ((Chk(t) \/ PUnlock(t) \/ X3(t)) /\ Ev(loc[t].b = E.n)) \/ (X4(t) /\ Ev(loc[t].nb = E.n))
                   /\ bd'[E.n].ver = LVer(E)
TLvStore == /\ Consume /\ E.e = "lv_store"
            /\ LET t == E.t IN
               IF pc[t] = "smove"
               THEN LET b == loc[t].b src == bd[b].perm[Keep + 1] dst == loc[t].mv - 1 IN
                    IF E.n = loc[t].nb THEN Ev(E.slot = dst /\ E.w = bd[b].lv[src]) /\ Stutter
                    ELSE Ev(E.n = b /\ E.slot = src /\ E.w = 0) /\ SMove(t)
               ELSE IF pc[t] = "s7a" THEN S7a(t) /\ Ev(loc'[t].side = E.n /\ E.w = Op(t).v)
               ELSE PSlot(t) /\ Ev(loc[t].b = E.n /\ E.w = Op(t).v)
TPermStore == /\ Consume /\ E.e = "perm_store"
              /\ LET t == E.t IN
                 /\ \/ ((PPub(t) \/ SPerm(t)) /\ Ev(loc[t].b = E.n)) \/ (S6(t) /\ Ev(loc[t].nb = E.n)) \/ (S7b(t) /\ Ev(loc[t].side = E.n))
                 /\ bd'[E.n].perm = E.perm
TPrevStore == /\ Consume /\ E.e = "prev_store"
              /\ IF Private(E.n) THEN Stutter ELSE S3b(E.t) /\ Ev(bd[loc[E.t].nb].next = E.n) /\ bd'[E.n].prev = E.x
TNextStore == /\ Consume /\ E.e = "next_store"
              /\ IF Private(E.n) THEN Stutter ELSE S3(E.t) /\ Ev(loc[E.t].b = E.n) /\ bd'[E.n].next = E.x
TNkeysStore == /\ Consume /\ E.e = "nkeys_store"
               /\ LET t == E.t IN
                  IF Private(E.n) THEN Stutter
                  ELSE IF E.n = loc[t].pn /\ pc[t] \in {"xn", "isn"} THEN (XN(t) \/ ISN(t)) /\ it'[E.n].n = E.v
                  ELSE Ev(E.n = loc[t].ni) /\ Stutter
TChildStore == /\ Consume /\ E.e = "child_store"
               /\ LET t == E.t IN
                  IF Private(E.n) THEN Stutter
                  ELSE IF E.n = loc[t].pn /\ pc[t] \in {"xchs", "xch", "ischclr"} THEN (XChS(t) \/ XCh(t) \/ ISChClr(t)) /\ it'[E.n].ch[E.i] = E.c
                  ELSE Ev(E.n = loc[t].ni) /\ Stutter
\* key arrays of interiors: bulk shift / per-key stores; one model step per array change, the rest stutters
TPOther == /\ Consume /\ E.e = "p_other_store"
           /\ LET t == E.t IN
              IF Private(E.n) THEN Stutter
              ELSE IF E.n = loc[t].pn /\ pc[t] \in {"xkey", "iskeys", "ispiv"} THEN XKey(t) \/ ISKeys(t) \/ ISPiv(t)
              ELSE Ev(E.n \in {loc[t].pn, loc[t].ni}) /\ Stutter
TRootLock == Consume /\ E.e = "root_lock" /\ ISRl(E.t)
TRootUnlock == Consume /\ E.e = "root_unlock" /\ ISRu(E.t)
TRootStore == Consume /\ E.e = "root_store" /\ ISRs(E.t) /\ Ev(E.n = loc[E.t].nr)
TParentStore == /\ Consume /\ E.e = "parent_store"
                /\ LET t == E.t IN
                   IF Private(E.n) THEN Stutter
                   ELSE IF E.n \in Interiors THEN (ISR3(t) \/ ISR4(t)) /\ Ev(E.p = loc[t].nr) /\ it'[E.n].parent = E.p
                   ELSE (X5(t) \/ ISChPar(t) \/ ISPar(t)) /\ bd'[E.n].parent = E.p
TOther == Consume /\ E.e = "other_store" /\ Ev(pc[E.t] \in {"p_slot", "smove", "sperm", "s7a", "s3", "s3l"}) /\ Stutter
TRet == /\ Consume /\ E.e = "ret" /\ Stutter
        /\ Ev(pc[E.t] = "done" /\ Len(res[E.t]) = 1)
        /\ LET r == res[E.t][1] IN Ev(r.st = E.st /\ (r.op = "get" => r.w = E.w))
TEnd == Consume /\ E.e = "end" /\ Stutter /\ Ev(AllDone)
TNext == TReset \/ TInv \/ TRootLoad \/ TVerLoad \/ TNkeysLoad \/ TChildLoad \/ TPermLoad \/ TLvLoad \/ TPtrLoad \/ TParentLoad
         \/ TLock \/ TFlag \/ TVerStore \/ TUnlock \/ TLvStore \/ TPermStore \/ TPrevStore \/ TNextStore \/ TNkeysStore \/ TChildStore \/ TPOther
         \/ TRootLock \/ TRootUnlock \/ TRootStore \/ TParentStore \/ TOther \/ TRet \/ TEnd
TSpec == TInit /\ [][TNext]_tvars
Record == TLCSet(1, IF l > TLCGet(1) THEN l ELSE TLCGet(1))
Accepted == IF TLCGet(1) = Len(Log) + 1 THEN TRUE ELSE PrintT(<<"STUCK", TLCGet(1), 0>>) /\ FALSE
====

---- MODULE TraceConc9 ----
(* Step-level conformance of the real code to YkConc9 = YkConc8 + the cursor (iscan_open / iscan_next) across the next-layer link; the cursor's
   version, permutation and slot loads are the model's cursor steps, INTop / IRFb / IRet and the end of a permutation are silent.  The rest:
   Step-level conformance of the real code to YkConc8 = YkConc5 + full scans through the next-layer link (harness/stepdrv5.cpp with scan
   programs): the scanner's version, permutation and slot loads in layer 0 and in the next layer are the model's scan steps; its private
   bookkeeping and the next-pointer loads are silent model steps.
   The rest as in TraceConc5: descent through a next-layer link, creation of a layer,
   removal of a layer whose root border became empty, reuse of the link's slot, on the real tree (fan-out 15).  Every logged access of
   the version, permutation and slot words of B0 and of the layer-1 borders and of their parent pointers must be the enabled step of
   the model for that thread, with the same value.  Loads of a thread that holds a lock are stuttering unless they are one of the
   model's load steps (RLp, RLpc); accesses to a border that is not linked yet (the child a layer creation builds) are stuttering;
   re-validation under the lock without a shared write is a silent model step. *)
EXTENDS YkConc9, Json, IOUtils
Log == ndJsonDeserialize(IOEnv.TRACE)
Meta == Log[1]
ProgT == [t \in 0..(Len(Meta.prog) - 1) |-> [op |-> Meta.prog[t + 1].op, k |-> Meta.prog[t + 1].k, v |-> Meta.prog[t + 1].v]]
VARIABLE l
tvars == <<vars, l>>
E == Log[l]
LV(v) == [lk |-> v.lk, ins |-> v.ins, spl |-> v.spl, del |-> v.del, root |-> v.root, vi |-> v.vi, vs |-> v.vs]
LVer(e) == LV(e.ver)
Consume == l <= Len(Log) /\ l' = l + 1
Stutter == UNCHANGED vars
Ev(b) == b = TRUE
Reading(t) == pc[t] \in {"start", "g0", "fb", "lv1", "permld", "lv2", "d_lv", "d_fc", "fb1", "g_val", "g_fc", "r_fc0", "lock", "done",
                          "s_enter", "s_next", "s_perm", "s_val", "s_chk", "l_enter", "l_root1", "l_root2", "l_fb", "l_senter", "l_next", "l_perm", "l_val", "l_chk",
                          "l_rec", "l_fin", "s_lfail", "s_rec", "s_fin", "s_ret",
                          "io_lv1", "io_p", "io_lv2", "io_stack", "in_top", "in_ent", "ck1", "ck2", "ck3", "ck4", "in_child", "in_cfb", "in_push", "ir_fb", "ir_root", "ir_res1", "ir_res2", "ir_res3", "ir_res4", "ir_isb", "ir_find", "ir_arr", "i_ret"}
Owner(t) == ~Reading(t)
Private(n) == n \in {1, 2} /\ nd[n] = EmptyB
TInit == Init /\ l = 2 /\ TLCSet(1, 2)
MkBJ(j, par) == [ver |-> LV(j.ver), perm |-> j.perm, ks |-> [s \in Slots |-> j.ks[s + 1]], kind |-> [s \in Slots |-> j.kind[s + 1]], lv |-> [s \in Slots |-> j.lv[s + 1]], parent |-> par]
\* full key of an entry of the logged initial content: layer 0: ord 2k -> k, 200 -> 100; layer 1: ord 2x -> 100 + x
AbsOf(e) == [k \in Keys |->
     IF k <= 100 THEN (IF \E i \in 1..Len(e.b0.perm) : e.b0.ks[e.b0.perm[i] + 1] = 2 * k THEN e.b0.lv[e.b0.perm[CHOOSE i \in 1..Len(e.b0.perm) : e.b0.ks[e.b0.perm[i] + 1] = 2 * k] + 1] ELSE ABSENT)
     ELSE (IF e.has1 /\ \E i \in 1..Len(e.b1.perm) : e.b1.ks[e.b1.perm[i] + 1] = 2 * (k - 100)
           THEN e.b1.lv[e.b1.perm[CHOOSE i \in 1..Len(e.b1.perm) : e.b1.ks[e.b1.perm[i] + 1] = 2 * (k - 100)] + 1] ELSE ABSENT)]
TReset == /\ Consume /\ E.e = "reset"
          /\ nd' = Force([n \in Nodes |-> IF n = 0 THEN MkBJ(E.b0, NULL) ELSE IF n = 1 /\ E.has1 THEN MkBJ(E.b1, 0) ELSE EmptyB])
          /\ pc' = [t \in Threads |-> "start"] /\ loc' = [t \in Threads |-> L0]
          /\ abs' = Force(AbsOf(E))
          /\ seen' = [t \in Threads |-> [k \in Keys |-> {}]] /\ res' = [t \in Threads |-> <<>>]
TInv == Consume /\ E.e = "inv" /\ Start(E.t)
TRootLoad == /\ Consume /\ E.e = "root_load" /\ Ev(E.n = 0)
             /\ IF pc[E.t] = "g0" THEN G0(E.t) ELSE IF pc[E.t] = "ir_res1" THEN IRRes1(E.t) ELSE Ev(pc[E.t] = "fb" /\ Op(E.t).op = "put") /\ Stutter
TVerLoad == /\ Consume /\ E.e = "ver_load"
            /\ LET t == E.t IN
               IF Private(E.n) THEN Stutter
               ELSE /\ Ev(nd[E.n].ver = LVer(E))
                    /\ IF pc[t] = "ir_isb" THEN IRIsB(t) /\ Ev(Top(loc[t]).root = E.n)
                       ELSE IF pc[t] = "ir_res2" THEN (IF Stable(LVer(E)) THEN IRRes2(t) /\ Ev(E.n = 0) ELSE Stutter)
                       ELSE IF pc[t] = "l_root1" THEN LRoot1(t) /\ Ev(loc[t].child = E.n)
                       ELSE IF pc[t] = "l_root2" THEN LRoot2(t) /\ Ev(loc[t].child = E.n)
                       ELSE IF Owner(t) \/ pc[t] = "lock" \/ ~Stable(LVer(E)) THEN Stutter
                       ELSE \/ (FB(t) /\ Ev(E.n = 0))
                            \/ ((LV1(t) \/ LV2(t) \/ GFc(t) \/ RFc0(t) \/ DFc(t)) /\ Ev(loc[t].b = E.n))
                            \/ ((FB1(t) \/ LFb(t) \/ LChk(t) \/ LFin(t)) /\ Ev(loc[t].child = E.n))
                            \/ ((SChk(t) \/ SFin(t) \/ IOLv1(t) \/ IOLv2(t)) /\ Ev(E.n = 0))
                            \/ ((CK1(t) \/ CK3(t)) /\ Ev(loc[t].b = E.n))
                            \/ (INCfb(t) /\ Ev(loc[t].child = E.n))
                            \/ ((IRRoot(t) \/ IRFind(t)) /\ Ev(Top(loc[t]).root = E.n))
TPermLoad == /\ Consume /\ E.e = "perm_load"
             /\ IF Private(E.n) THEN Stutter
                ELSE Ev(nd[E.n].perm = E.perm) /\ (IF Owner(E.t) THEN Stutter
                                                  ELSE (PermLd(E.t) /\ Ev(loc[E.t].b = E.n)) \/ (SPermS(E.t) /\ Ev(E.n = 0)) \/ (LPermS(E.t) /\ Ev(loc[E.t].child = E.n))
                                                       \/ ((IOP(E.t) \/ IOStack(E.t)) /\ Ev(E.n = 0)) \/ ((CK2(E.t) \/ CK4(E.t) \/ IRArr(E.t)) /\ Ev(loc[E.t].b = E.n))
                                                       \/ (INPush(E.t) /\ Ev(loc[E.t].child = E.n))
                                                       \/ (IRRes3(E.t) /\ Ev(E.n = 0)))
TLvLoad == /\ Consume /\ E.e = "lv_load"
           /\ IF Private(E.n) \/ Owner(E.t) THEN Stutter
              ELSE IF pc[E.t] \in {"s_chk", "l_chk"} THEN Ev(nd[E.n].lv[E.slot] = E.w /\ loc[E.t].idx = E.slot) /\ Stutter      \* second load of the slot word (get_next_layer)
              ELSE IF pc[E.t] = "in_ent" THEN Ev(nd[E.n].lv[E.slot] = E.w /\ E.n = loc[E.t].b /\ loc[E.t].rk <= Len(loc[E.t].perm) /\ loc[E.t].perm[loc[E.t].rk] = E.slot) /\ INEnt(E.t)
              ELSE IF pc[E.t] = "in_child" THEN Ev(nd[E.n].lv[E.slot] = E.w /\ E.n = loc[E.t].b /\ loc[E.t].idx = E.slot) /\ INChild(E.t)
              ELSE IF pc[E.t] = "ir_res4" THEN Ev(nd[E.n].lv[E.slot] = E.w /\ E.n = 0 /\ loc[E.t].idx = E.slot) /\ IRRes4(E.t)
              ELSE IF pc[E.t] = "s_val" THEN Ev(nd[E.n].lv[E.slot] = E.w /\ E.n = 0 /\ loc[E.t].snap[loc[E.t].si] = E.slot) /\ SVal(E.t)
              ELSE IF pc[E.t] = "l_val" THEN Ev(nd[E.n].lv[E.slot] = E.w /\ E.n = loc[E.t].child /\ loc[E.t].lsnap[loc[E.t].lsi] = E.slot) /\ LVal(E.t)
              ELSE /\ Ev(nd[E.n].lv[E.slot] = E.w /\ loc[E.t].b = E.n /\ loc[E.t].idx = E.slot)
                   /\ (GVal(E.t) \/ DLv(E.t))
TParentLoad == /\ Consume /\ E.e = "parent_load" /\ Ev(nd[E.n].parent = E.p)
               /\ LET t == E.t IN
                  IF pc[t] = "r_lp" /\ E.n = loc[t].b THEN RLp(t)
                  ELSE IF pc[t] = "r_lpc" /\ E.n = loc[t].b THEN RLpc(t)
                  ELSE Ev(Owner(t)) /\ Stutter
TLock == /\ Consume /\ E.e = "lock"
         /\ ((Lock(E.t) /\ Ev(loc[E.t].b = E.n)) \/ (RLpl(E.t) /\ Ev(E.n = 0))) /\ nd'[E.n].ver = LVer(E)
TFlag == /\ Consume /\ E.e = "flag"
         /\ LET t == E.t IN
            IF Private(E.n) THEN Stutter
            ELSE /\ \/ (pc[t] = "chk" /\ Chk(t) /\ pc'[t] \in {"p_slot", "p_undel"})
                    \/ PUndel(t) \/ RDel(t) \/ RRoot0(t)
                 /\ Ev(loc[t].b = E.n) /\ nd'[E.n].ver = LVer(E)
TUnlock == /\ Consume /\ E.e = "unlock"
           /\ LET t == E.t IN
              /\ \/ ((Chk(t) \/ PUnlock(t) \/ RUnlock(t) \/ RSelfUnl(t)) /\ Ev(loc[t].b = E.n))
                 \/ (DUnl(t) /\ Ev(E.n = 0))
              /\ nd'[E.n].ver = LVer(E)
TLvStore == /\ Consume /\ E.e = "lv_store"
            /\ LET t == E.t IN
               IF Private(E.n) THEN Stutter
               ELSE /\ Ev(loc[t].b = E.n)
                    /\ \/ (RClear(t) /\ Ev(loc[t].idx = E.slot /\ E.w = 0))
                       \/ (PSlotAt(t, E.slot) /\ Ev(E.w = nd'[E.n].lv[E.slot] /\ E.kind = nd'[E.n].kind[E.slot]))
                       \/ (PSet(t) /\ Ev(loc[t].idx = E.slot /\ E.w = Op(t).v))
TPermStore == /\ Consume /\ E.e = "perm_store"
              /\ IF Private(E.n) THEN Stutter
                 ELSE /\ \/ ((RPub(E.t) \/ PPub(E.t)) /\ Ev(loc[E.t].b = E.n)) \/ (DPub(E.t) /\ Ev(E.n = 0))
                      /\ nd'[E.n].perm = E.perm
\* everything else on a border that is still private, and the key bytes of an inserted entry
TOther == /\ Consume /\ E.e \in {"other_store", "ver_store", "parent_store"}
          /\ Ev(Private(E.n) \/ (E.e = "other_store" /\ pc[E.t] = "p_slot")) /\ Stutter
TRet == /\ Consume /\ E.e = "ret" /\ Stutter
        /\ Ev(pc[E.t] = "done" /\ Len(res[E.t]) = 1)
        /\ LET r == res[E.t][1] IN Ev(r.st = E.st /\ (r.op = "get" => r.w = E.w)
                                       /\ (r.op \in {"scan", "iscan"} => r.w = [i \in 1..Len(E.w) |-> <<E.w[i][1], E.w[i][2]>>] /\ E.nvn = Len(r.nv)))
TEnd == Consume /\ E.e = "end" /\ Stutter /\ Ev(AllDone)
TSilent == /\ l <= Len(Log) /\ UNCHANGED l
           /\ \E t \in Threads : \/ (pc[t] = "chk" /\ Chk(t) /\ pc'[t] \in {"r_clear", "p_set"})
                                 \/ INTop(t) \/ IRFb(t) \/ IRet(t) \/ (INEnt(t) /\ loc[t].rk > Len(loc[t].perm))
                                 \/ SEnter(t) \/ SNext(t) \/ LEnter(t) \/ LSEnter(t) \/ LNext(t) \/ LRec(t) \/ SLFail(t) \/ SRec(t) \/ SRet(t)
TNext == TReset \/ TInv \/ TRootLoad \/ TVerLoad \/ TPermLoad \/ TLvLoad \/ TParentLoad \/ TLock \/ TFlag \/ TUnlock \/ TLvStore \/ TPermStore
         \/ TOther \/ TRet \/ TEnd \/ TSilent
TSpec == TInit /\ [][TNext]_tvars
Record == TLCSet(1, IF l > TLCGet(1) THEN l ELSE TLCGet(1))
Accepted == IF TLCGet(1) = Len(Log) + 1 THEN TRUE ELSE PrintT(<<"STUCK", TLCGet(1), 0>>) /\ FALSE
====

SPECIFICATION FairSpec
CONSTANTS
  F = 4
  Keys = {1, 2, 100, 101, 102}
  Threads = {0, 1, 2}
  Prog <- QD
  Init0 = {1, 100}
  Init1 = {101}
  NO_CHILD_ROOT_CLEAR = FALSE
  NO_DESCENT_RECHECK = FALSE
  SCAN_NO_CLEANUP = FALSE
  ISCAN_NO_REWIND = FALSE
INVARIANTS LinOK ScanOK NvOK DescentOK B0NonEmpty Quiescent
PROPERTY Termination

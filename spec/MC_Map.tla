---- MODULE MC_Map ----
(* Small state machine over YkMap: DDL and DML over a few names and keys; isolation of storages as action property. *)
EXTENDS YkMap
CONSTANTS Names, Keys, Vals
VARIABLES dir, last
vars == <<dir, last>>
Init == dir = <<>> /\ last = [op |-> "init", n |-> <<>>, st |-> "OK"]
Do(op, n, r) == dir' = r.dir /\ last' = [op |-> op, n |-> n, st |-> r.st]
Next == \E n \in Names :
          \/ Do("create", n, CreateR(dir, n))
          \/ Do("delete", n, DeleteR(dir, n))
          \/ \E k \in Keys : \/ \E v \in Vals : \E u \in BOOLEAN : Do("put", n, PutR(dir, n, k, v, u))
                             \/ Do("remove", n, RemoveR(dir, n, k))
Spec == Init /\ [][Next]_vars
\* directory and every store stay sorted and duplicate free
Sorted == MSorted(dir) /\ \A i \in 1..Len(dir) : MSorted(dir[i][2])
\* an operation addressed to storage n changes no other storage; data operations never change the set of names
Isolation == [][\A m \in Names : (m # last'.n) => (DHas(dir, m) = DHas(dir', m) /\ (DHas(dir, m) => DStore(dir, m) = DStore(dir', m)))]_vars
DmlKeepsNames == [][last'.op \in {"put", "remove"} => ListR(dir').names = ListR(dir).names]_vars
\* statuses
StatusOK == /\ (last.op = "create" /\ last.st = "OK" => DHas(dir, last.n) /\ DStore(dir, last.n) = <<>>)
            /\ (last.op = "delete" /\ last.st = "OK" => ~DHas(dir, last.n))
            /\ (last.op \in {"put", "remove"} /\ last.st = "WARN_STORAGE_NOT_EXIST" => ~DHas(dir, last.n))
N1 == <<>>
N2 == <<97, 0, 98>>
N3 == <<97, 0, 98, 99, 100, 101, 102, 103, 104>>
NamesA == {N1, N2, N3}
KeysA == {<<>>, <<1>>, <<1, 1, 1, 1, 1, 1, 1, 1, 1>>}
====

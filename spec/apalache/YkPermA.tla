---- MODULE YkPermA ----
(* YkPerm with Apalache type annotations: the invariant Valid is INDUCTIVE for the code's fan-out F = 15 (TLC enumerates F = 6 / 8 only). *)
EXTENDS Integers, Sequences, FiniteSets, Apalache
CONSTANT
  \* @type: Int;
  F
VARIABLES
  \* @type: Seq(Int);
  perm,
  \* @type: Bool;
  lastOk
CInit == F = 15
Slots == 0..(F-1)
\* @type: (Seq(Int)) => Bool;
PermOK(p) == /\ Len(p) <= F
             /\ \A i \in DOMAIN p : p[i] \in Slots
             /\ \A i, j \in DOMAIN p : i # j => p[i] # p[j]
\* @type: (Seq(Int)) => Set(Int);
Used(p) == {p[i] : i \in DOMAIN p}
\* @type: (Seq(Int), Int, Int) => Seq(Int);
InsertRank(p, rank, pos) == SubSeq(p, 1, rank) \o <<pos>> \o SubSeq(p, rank + 1, Len(p))
\* @type: (Seq(Int), Int) => Seq(Int);
DeleteRank(p, rank) == SubSeq(p, 1, rank) \o SubSeq(p, rank + 2, Len(p))
\* @type: (Int) => Int;
IdM1(i) == i - 1
\* @type: (Int) => Seq(Int);
SplitDest(num) == SubSeq(MkSeq(15, IdM1), 1, num)
Init == perm = <<>> /\ lastOk = TRUE
Insert == /\ Len(perm) < F
          /\ \E rank \in 0..15 : \E pos \in Slots \ Used(perm) :
               /\ rank <= Len(perm)
               /\ perm' = InsertRank(perm, rank, pos)
               /\ lastOk' = (/\ Len(perm') = Len(perm) + 1
                             /\ perm'[rank + 1] = pos
                             /\ \A i \in 1..15 : i <= rank => perm'[i] = perm[i]
                             /\ \A i \in 1..15 : (rank + 1 <= i /\ i <= Len(perm)) => perm'[i + 1] = perm[i])
Delete == /\ Len(perm) > 0
          /\ \E rank \in 0..14 :
               /\ rank <= Len(perm) - 1
               /\ perm' = DeleteRank(perm, rank)
               /\ lastOk' = (/\ Len(perm') = Len(perm) - 1
                             /\ \A i \in 1..15 : i <= rank => perm'[i] = perm[i]
                             /\ \A i \in 2..15 : (rank + 2 <= i /\ i <= Len(perm)) => perm'[i - 1] = perm[i]
                             /\ Used(perm') = Used(perm) \ {perm[rank + 1]})
Split == /\ Len(perm) = F /\ \E num \in 1..15 : perm' = SplitDest(num) /\ lastOk' = (\A i \in 1..15 : i <= num => perm'[i] = i - 1)
Next == Insert \/ Delete \/ Split
Valid == PermOK(perm) /\ lastOk
\* the inductive invariant as an initial-state predicate: ANY valid permutation
IndInit == /\ perm = Gen(15) /\ lastOk \in BOOLEAN /\ Valid
====

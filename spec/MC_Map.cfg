SPECIFICATION Spec
CONSTANTS
  Names <- NamesA
  Keys <- KeysA
  Vals = {1}
INVARIANTS Sorted StatusOK
PROPERTIES Isolation DmlKeepsNames
CHECK_DEADLOCK FALSE

---- MODULE YkKeys ----
(* Byte-string keys, 8-byte slices and the (slice, length) tuples of yakushima.
   A key is a sequence of bytes (0..255).  A tuple is [s |-> 8 bytes (zero padded), l |-> 0..8 | 9]; l = 9 marks
   "the key continues in the next layer" (the code stores sizeof(key_slice_type)+1). *)
EXTENDS Naturals, Integers, Sequences, FiniteSets, TLC
W == 8
LINK == W + 1
Force(f) == IF f = f THEN f ELSE f   \* TLC keeps [x \in S |-> e] lazy and re-evaluates e on every application; equality forces it
Min2(a, b) == IF a < b THEN a ELSE b
Max2(a, b) == IF a > b THEN a ELSE b
SetMin(S) == CHOOSE x \in S : \A y \in S : x <= y
Pad(s) == Force([i \in 1..W |-> IF i <= Len(s) THEN s[i] ELSE 0])
TupOf(k) == IF Len(k) > W THEN [s |-> SubSeq(k, 1, W), l |-> LINK] ELSE [s |-> Pad(k), l |-> Len(k)]
RestOf(k) == SubSeq(k, W + 1, Len(k))
\* memcmp-like comparison of two equally long byte sequences over the first n bytes: -1 / 0 / 1
CmpN(a, b, n) == LET d == {i \in 1..n : a[i] # b[i]} IN
                 IF d = {} THEN 0 ELSE LET i == SetMin(d) IN IF a[i] < b[i] THEN -1 ELSE 1
SeqLess(a, b) == CmpN(a, b, W) < 0
\* the one intended order on tuples: slice bytes first, then length (terminal lengths 0..8 before the link marker)
TupLess(a, b) == SeqLess(a.s, b.s) \/ (a.s = b.s /\ a.l < b.l)
TupKeyBytes(t) == SubSeq(t.s, 1, Min2(t.l, W))
\* bytewise lexicographic order on keys, a proper prefix first (no recursion: keys may be 30 KiB long)
LexLess(a, b) == LET m == Min2(Len(a), Len(b))
                     d == {i \in 1..m : a[i] # b[i]} IN
                 IF d = {} THEN Len(a) < Len(b) ELSE LET i == SetMin(d) IN a[i] < b[i]
LexLE(a, b) == a = b \/ LexLess(a, b)
InRange(k, lkey, le, rkey, re) ==
   /\ (le = "INF" \/ (le = "INC" /\ LexLE(lkey, k)) \/ (le = "EXC" /\ LexLess(lkey, k)))
   /\ (re = "INF" \/ (re = "INC" /\ LexLE(k, rkey)) \/ (re = "EXC" /\ LexLess(k, rkey)))
\* documented table of invalid ranges (kvs.h, check_empty_scan_range)
ValidRange(lkey, le, rkey, re) ==
   \/ re = "INF"
   \/ (le = "INF" /\ ~(re = "EXC" /\ rkey = <<>>))
   \/ (le # "INF" /\ (LexLess(lkey, rkey) \/ (lkey = rkey /\ le = "INC" /\ re = "INC")))
\* full scan argument check: invalid range, or right-to-left without (r_end = INF and max_size = 1)
ScanArgsOK(lkey, le, rkey, re, max, rtl) == ValidRange(lkey, le, rkey, re) /\ (rtl => (re = "INF" /\ max = 1))
====

SPECIFICATION Spec
CONSTANT F = 8
INVARIANTS Valid FreeSlotFree
CHECK_DEADLOCK FALSE

---- MODULE YkConc ----
(* Concurrent grain of the point operations and of scan on ONE border node that is the tree root (no split: fewer than F
   keys at any time), one action per hooked shared-memory access of the code:
     find_border (root only)    FB    : stable version of the root
     get_lv_of                  LV1   : stable version          PermLd : permutation load (+ key search, one step)
                                LV2   : stable version again (mismatch -> PermLd) ; then the operation's own decision
     get                        GVal  : value word load         GFc   : final stable version (vsplit/deleted -> FB, vinsert -> LV1,
                                                                         [cleared word -> LV1: the repair of defect F1])
     remove                     Lock / Chk (re-validation under the lock incl. the second lookup) / RClear (clear the slot word)
                                / RPub (publish the permutation; sets `deleted` when the node becomes empty) / RUnlock
     put (insert)               Lock / Chk (sets inserting_deleting) / PUndel (clears `deleted` of an empty root) / PSlot (write key + word) / PPub (publish permutation) / PUnlock
     put (update)               Lock / Chk / PSet (store the value word) / PUnlock ; unique put on an existing key returns after LV2
     scan (whole range)         FB / SPerm (permutation snapshot) / per rank: SVal (value word load) / SChk (stable version vs. the validated one:
                                vsplit/deleted -> FB, other change -> adopt, roll back, SPerm; [cleared word -> roll back, SPerm]) / SFin
   Ghosts: abs (abstract map, updated at each writer's commit step = the store that publishes the change under the lock),
   seen[t][k] (every binding key k has had since thread t's current operation was invoked), res (results).
   Properties: LinOK (every result is a binding the key had during the operation = linearizable, see DESIGN 3.6),
   ScanOK (per-key consistency of scans, ascending), Quiescent (coherence when idle), termination under weak fairness. *)
EXTENDS Naturals, Sequences, FiniteSets, TLC
CONSTANTS Threads, Keys, F,
          Prog,        \* [Threads -> Seq([op : {"get","put","uput","rem","scan"}, k : Keys, v : value id (puts)])]
          InitKeys,    \* keys present initially (value id = rank of the key)
          BUGGY_F1     \* TRUE: readers return a cleared slot word as a value (the pinned tree's behaviour)
ABSENT == 0            \* value ids are 1.. ; the cleared slot word is modelled as 0
NoSlot == 99
VARIABLES ver, perm, ks, lv,          \* the border: version record, Seq(slot) in key order, slot -> key (0 = free), slot -> value id (0 = cleared)
          pc, loc, opi,               \* threads: program counter, locals, index of the current operation
          abs, seen, res              \* ghosts
vars == <<ver, perm, ks, lv, pc, loc, opi, abs, seen, res>>
Slots == 0..(F-1)
Stable(v) == ~v.lk /\ ~v.ins /\ ~v.spl
V0 == [lk |-> FALSE, ins |-> FALSE, spl |-> FALSE, del |-> FALSE, root |-> TRUE, vi |-> 0, vs |-> 0]
L0 == [vfb |-> V0, v |-> V0, idx |-> NoSlot, w |-> 0, snap |-> <<>>, i |-> 1, out |-> <<>>]
CurOp(t) == Prog[t][opi[t]]
InFlight(t) == pc[t] \notin {"start", "done"}
Lookup(p, k) == IF \E i \in 1..Len(p) : ks[p[i]] = k THEN p[CHOOSE i \in 1..Len(p) : ks[p[i]] = k] ELSE NoSlot
RankOf(p, k) == Cardinality({i \in 1..Len(p) : ks[p[i]] < k}) + 1
InsertAt(p, r, s) == SubSeq(p, 1, r-1) \o <<s>> \o SubSeq(p, r, Len(p))
RemoveSlot(p, s) == SelectSeq(p, LAMBDA x : x # s)
FreeSlot(p) == CHOOSE s \in Slots : (\A i \in 1..Len(p) : p[i] # s) /\ (\A s2 \in Slots : (\A i \in 1..Len(p) : p[i] # s2) => s <= s2)
NInit == Cardinality(InitKeys)
InitSeq == CHOOSE sq \in [1..NInit -> InitKeys] : \A i, j \in 1..NInit : i < j => sq[i] < sq[j]
Init == /\ ver = [V0 EXCEPT !.vi = NInit]
        /\ perm = [i \in 1..NInit |-> i-1]
        /\ ks = [s \in Slots |-> IF s < NInit THEN InitSeq[s+1] ELSE 0]
        /\ lv = [s \in Slots |-> IF s < NInit THEN 100 + s + 1 ELSE 0]
        /\ pc = [t \in Threads |-> "start"] /\ loc = [t \in Threads |-> L0] /\ opi = [t \in Threads |-> 1]
        /\ abs = [k \in Keys |-> IF k \in InitKeys THEN 100 + (CHOOSE i \in 1..NInit : InitSeq[i] = k) ELSE ABSENT]
        /\ seen = [t \in Threads |-> [k \in Keys |-> {}]] /\ res = [t \in Threads |-> <<>>]
\* a writer's commit: the abstract map changes, and every in-flight operation has now seen the new binding of k
Commit(k, b) == /\ abs' = [abs EXCEPT ![k] = b]
                /\ seen' = [t \in Threads |-> IF InFlight(t) THEN [seen[t] EXCEPT ![k] = @ \cup {b}] ELSE seen[t]]
Goto(t, l) == pc' = [pc EXCEPT ![t] = l]
Ret(t, r) == /\ res' = [res EXCEPT ![t] = Append(@, [op |-> CurOp(t).op, k |-> CurOp(t).k, st |-> r[1], w |-> r[2], sn |-> seen[t]])]
             /\ IF opi[t] < Len(Prog[t]) THEN opi' = [opi EXCEPT ![t] = @ + 1] /\ Goto(t, "start") ELSE opi' = opi /\ Goto(t, "done")
\* ---- invocation
Start(t) == /\ pc[t] = "start" /\ opi[t] <= Len(Prog[t])
            /\ seen' = [seen EXCEPT ![t] = [k \in Keys |-> {abs[k]}]] /\ loc' = [loc EXCEPT ![t] = L0] /\ Goto(t, "fb")
            /\ UNCHANGED <<ver, perm, ks, lv, opi, abs, res>>
\* ---- find_border on a root border, get_lv_of
FB(t) == /\ pc[t] = "fb" /\ Stable(ver)
         /\ loc' = [loc EXCEPT ![t].vfb = ver, ![t].out = <<>>]
         /\ Goto(t, IF CurOp(t).op = "scan" THEN (IF ver.del /\ ver.root THEN "s_empty" ELSE "s_perm") ELSE "lv1")
         /\ UNCHANGED <<ver, perm, ks, lv, opi, abs, seen, res>>
LV1(t) == /\ pc[t] = "lv1" /\ Stable(ver)
          /\ loc' = [loc EXCEPT ![t].v = ver] /\ Goto(t, "permld")
          /\ UNCHANGED <<ver, perm, ks, lv, opi, abs, seen, res>>
PermLd(t) == /\ pc[t] = "permld"
             /\ loc' = [loc EXCEPT ![t].idx = Lookup(perm, CurOp(t).k)] /\ Goto(t, "lv2")
             /\ UNCHANGED <<ver, perm, ks, lv, opi, abs, seen, res>>
LV2(t) == /\ pc[t] = "lv2" /\ Stable(ver)
          /\ LET o == CurOp(t) l == loc[t] IN
             IF ver # l.v THEN loc' = [loc EXCEPT ![t].v = ver] /\ Goto(t, "permld") /\ UNCHANGED <<opi, res>>
             ELSE IF l.v.vs # l.vfb.vs \/ (l.v.del /\ ~l.v.root) THEN Goto(t, "fb") /\ UNCHANGED <<loc, opi, res>>
             ELSE CASE o.op = "get" -> IF l.idx = NoSlot THEN Ret(t, <<"NOT_EXIST", 0>>) /\ UNCHANGED loc ELSE Goto(t, "g_val") /\ UNCHANGED <<loc, opi, res>>
                    [] o.op = "rem" -> IF l.idx = NoSlot THEN Goto(t, "r_fc0") /\ UNCHANGED <<loc, opi, res>> ELSE Goto(t, "lock") /\ UNCHANGED <<loc, opi, res>>
                    [] o.op = "put" -> Goto(t, "lock") /\ UNCHANGED <<loc, opi, res>>
                    [] o.op = "uput" -> IF l.idx = NoSlot THEN Goto(t, "lock") /\ UNCHANGED <<loc, opi, res>> ELSE Ret(t, <<"WARN_UNIQUE", 0>>) /\ UNCHANGED loc
          /\ UNCHANGED <<ver, perm, ks, lv, abs, seen>>
\* ---- get
GVal(t) == /\ pc[t] = "g_val" /\ loc' = [loc EXCEPT ![t].w = lv[loc[t].idx]] /\ Goto(t, "g_fc")
           /\ UNCHANGED <<ver, perm, ks, lv, opi, abs, seen, res>>
GFc(t) == /\ pc[t] = "g_fc" /\ Stable(ver)
          /\ LET l == loc[t] IN
             IF ver.vs # l.vfb.vs \/ (ver.del /\ ~ver.root) THEN Goto(t, "fb") /\ UNCHANGED <<opi, res>>
             ELSE IF ver.vi # l.v.vi THEN Goto(t, "lv1") /\ UNCHANGED <<opi, res>>
             ELSE IF ~BUGGY_F1 /\ l.w = 0 THEN Goto(t, "lv1") /\ UNCHANGED <<opi, res>>
             ELSE Ret(t, <<"OK", l.w>>)
          /\ UNCHANGED <<ver, perm, ks, lv, loc, abs, seen>>
\* ---- remove, miss path
RFc0(t) == /\ pc[t] = "r_fc0" /\ Stable(ver)
           /\ IF ver.vi # loc[t].v.vi THEN Goto(t, "lv1") /\ UNCHANGED <<opi, res>> ELSE Ret(t, <<"NOT_FOUND", 0>>)
           /\ UNCHANGED <<ver, perm, ks, lv, loc, abs, seen>>
\* ---- lock + re-validation (put insert / update, remove)
Lock(t) == /\ pc[t] = "lock" /\ ~ver.lk /\ ver' = [ver EXCEPT !.lk = TRUE] /\ Goto(t, "chk")
           /\ UNCHANGED <<perm, ks, lv, loc, opi, abs, seen, res>>
UnlockedVer == [ver EXCEPT !.lk = FALSE, !.ins = FALSE, !.spl = FALSE,
                           !.vi = IF ver.ins THEN ver.vi + 1 ELSE ver.vi, !.vs = IF ver.spl THEN ver.vs + 1 ELSE ver.vs]
Chk(t) == /\ pc[t] = "chk"
          /\ LET o == CurOp(t) l == loc[t] idx2 == Lookup(perm, o.k) IN
             IF (ver.del /\ ~ver.root) \/ ver.vs # l.vfb.vs THEN ver' = UnlockedVer /\ Goto(t, "fb") /\ UNCHANGED <<loc, opi, res>>
             ELSE IF ver.vi # l.v.vi THEN ver' = UnlockedVer /\ Goto(t, "lv1") /\ UNCHANGED <<loc, opi, res>>
             ELSE CASE o.op = "rem" -> IF idx2 = NoSlot THEN ver' = UnlockedVer /\ Ret(t, <<"NOT_FOUND", 0>>) /\ UNCHANGED loc
                                       ELSE loc' = [loc EXCEPT ![t].idx = idx2] /\ Goto(t, "r_clear") /\ UNCHANGED <<ver, opi, res>>
                    [] o.op \in {"put", "uput"} /\ l.idx = NoSlot ->   \* insert path: set the inserting bit (an empty root is un-deleted next)
                                       /\ ver' = [ver EXCEPT !.ins = TRUE]
                                       /\ Goto(t, IF Len(perm) = 0 THEN "p_undel" ELSE "p_slot") /\ UNCHANGED <<loc, opi, res>>
                    [] o.op = "put" /\ l.idx # NoSlot ->              \* update path: look the key up again because removes are not counted
                                       IF idx2 = NoSlot THEN ver' = UnlockedVer /\ Goto(t, "lv1") /\ UNCHANGED <<loc, opi, res>>
                                       ELSE loc' = [loc EXCEPT ![t].idx = idx2] /\ Goto(t, "p_set") /\ UNCHANGED <<ver, opi, res>>
          /\ UNCHANGED <<perm, ks, lv, abs, seen>>
\* ---- remove body
RClear(t) == /\ pc[t] = "r_clear" /\ lv' = [lv EXCEPT ![loc[t].idx] = 0] /\ Goto(t, "r_pub")
             /\ UNCHANGED <<ver, perm, ks, loc, opi, abs, seen, res>>
RPub(t) == /\ pc[t] = "r_pub" /\ perm' = RemoveSlot(perm, loc[t].idx) /\ Commit(CurOp(t).k, ABSENT)
           /\ Goto(t, IF Len(perm) = 1 THEN "r_del" ELSE "r_unlock") /\ UNCHANGED <<ver, ks, lv, loc, opi, res>>
RDel(t) == /\ pc[t] = "r_del" /\ ver' = [ver EXCEPT !.del = TRUE] /\ Goto(t, "r_unlock")
           /\ UNCHANGED <<perm, ks, lv, loc, opi, abs, seen, res>>
RUnlock(t) == /\ pc[t] = "r_unlock" /\ ver' = UnlockedVer /\ Ret(t, <<"OK", 0>>)
              /\ UNCHANGED <<perm, ks, lv, loc, abs, seen>>
\* ---- put insert body
PUndel(t) == /\ pc[t] = "p_undel" /\ ver' = [ver EXCEPT !.del = FALSE] /\ Goto(t, "p_slot")
             /\ UNCHANGED <<perm, ks, lv, loc, opi, abs, seen, res>>
PSlot(t) == /\ pc[t] = "p_slot" /\ Len(perm) < F
            /\ LET s == FreeSlot(perm) IN ks' = [ks EXCEPT ![s] = CurOp(t).k] /\ lv' = [lv EXCEPT ![s] = CurOp(t).v] /\ loc' = [loc EXCEPT ![t].idx = s]
            /\ Goto(t, "p_pub") /\ UNCHANGED <<ver, perm, opi, abs, seen, res>>
PPub(t) == /\ pc[t] = "p_pub" /\ perm' = InsertAt(perm, RankOf(perm, CurOp(t).k), loc[t].idx) /\ Commit(CurOp(t).k, CurOp(t).v)
           /\ Goto(t, "p_unlock") /\ UNCHANGED <<ver, ks, lv, loc, opi, res>>
PUnlock(t) == /\ pc[t] = "p_unlock" /\ ver' = UnlockedVer /\ Ret(t, <<"OK", 0>>)
              /\ UNCHANGED <<perm, ks, lv, loc, abs, seen>>
\* ---- put update body
PSet(t) == /\ pc[t] = "p_set" /\ lv' = [lv EXCEPT ![loc[t].idx] = CurOp(t).v] /\ Commit(CurOp(t).k, CurOp(t).v)
           /\ Goto(t, "p_unlock") /\ UNCHANGED <<ver, perm, ks, loc, opi, res>>
\* ---- scan of the whole border (scan / scan_border with INF endpoints)
SEmpty(t) == /\ pc[t] = "s_empty" /\ Ret(t, <<"OK", <<>>>>) /\ UNCHANGED <<ver, perm, ks, lv, loc, abs, seen>>
SPerm(t) == /\ pc[t] = "s_perm" /\ loc' = [loc EXCEPT ![t].snap = perm, ![t].i = 1, ![t].out = <<>>]
            /\ Goto(t, IF Len(perm) = 0 THEN "s_fin" ELSE "s_val") /\ UNCHANGED <<ver, perm, ks, lv, opi, abs, seen, res>>
SVal(t) == /\ pc[t] = "s_val" /\ loc' = [loc EXCEPT ![t].w = lv[loc[t].snap[loc[t].i]], ![t].idx = loc[t].snap[loc[t].i]]
           /\ Goto(t, "s_chk") /\ UNCHANGED <<ver, perm, ks, lv, opi, abs, seen, res>>
SChk(t) == /\ pc[t] = "s_chk" /\ Stable(ver)
           /\ LET l == loc[t] IN
              IF ver # l.vfb THEN
                 IF ver.vs # l.vfb.vs \/ ver.del THEN Goto(t, "fb") /\ UNCHANGED loc
                 ELSE loc' = [loc EXCEPT ![t].vfb = ver] /\ Goto(t, "s_perm")
              ELSE IF ~BUGGY_F1 /\ l.w = 0 THEN Goto(t, "s_perm") /\ UNCHANGED loc
              ELSE /\ loc' = [loc EXCEPT ![t].out = Append(@, <<ks[l.idx], l.w>>), ![t].i = @ + 1]
                   /\ Goto(t, IF l.i = Len(l.snap) THEN "s_fin" ELSE "s_val")
           /\ UNCHANGED <<ver, perm, ks, lv, opi, abs, seen, res>>
SFin(t) == /\ pc[t] = "s_fin" /\ Stable(ver)
           /\ LET l == loc[t] IN
              IF ver # l.vfb THEN
                 (IF ver.vs # l.vfb.vs \/ ver.del THEN Goto(t, "fb") /\ UNCHANGED loc ELSE loc' = [loc EXCEPT ![t].vfb = ver] /\ Goto(t, "s_perm")) /\ UNCHANGED <<opi, res>>
              ELSE Ret(t, <<"OK", l.out>>) /\ UNCHANGED loc
           /\ UNCHANGED <<ver, perm, ks, lv, abs, seen>>
Step(t) == Start(t) \/ FB(t) \/ LV1(t) \/ PermLd(t) \/ LV2(t) \/ GVal(t) \/ GFc(t) \/ RFc0(t) \/ Lock(t) \/ Chk(t)
           \/ RClear(t) \/ RPub(t) \/ RDel(t) \/ RUnlock(t) \/ PUndel(t) \/ PSlot(t) \/ PPub(t) \/ PUnlock(t) \/ PSet(t)
           \/ SEmpty(t) \/ SPerm(t) \/ SVal(t) \/ SChk(t) \/ SFin(t)
AllDone == \A t \in Threads : pc[t] = "done"
Next == (\E t \in Threads : Step(t)) \/ (AllDone /\ UNCHANGED vars)
Spec == Init /\ [][Next]_vars
FairSpec == Spec /\ \A t \in Threads : WF_vars(Step(t))
\* ---------------------------------------------------------------- properties
ResOK(r) == CASE r.op = "get" /\ r.st = "NOT_EXIST" -> ABSENT \in r.sn[r.k]
              [] r.op = "get" /\ r.st = "OK" -> r.w # 0 /\ r.w \in r.sn[r.k]
              [] r.op = "rem" /\ r.st = "NOT_FOUND" -> ABSENT \in r.sn[r.k]
              [] r.op = "uput" /\ r.st = "WARN_UNIQUE" -> \E b \in r.sn[r.k] : b # ABSENT
              [] OTHER -> TRUE
\* C01: every result is a binding the key had at some instant of the operation (per-key registers => linearizable)
LinOK == \A t \in Threads : \A i \in 1..Len(res[t]) : ResOK(res[t][i])
\* C04: a scan is strictly ascending, every returned pair was current at some instant of the scan with a non-null value,
\*      every key it did not return was absent at some instant
ScanResOK(r) == LET out == r.w IN
                /\ \A i \in 1..(Len(out) - 1) : out[i][1] < out[i + 1][1]
                /\ \A i \in 1..Len(out) : out[i][2] # 0 /\ out[i][2] \in r.sn[out[i][1]]
                /\ \A k \in Keys : (~\E i \in 1..Len(out) : out[i][1] = k) => ABSENT \in r.sn[k]
ScanOK == \A t \in Threads : \A i \in 1..Len(res[t]) : res[t][i].op = "scan" => ScanResOK(res[t][i])
\* C08 at quiescence: structure and abstract map agree, nothing locked or dirty
Quiescent == AllDone => /\ Stable(ver) /\ \A k \in Keys : (abs[k] # ABSENT) = (Lookup(perm, k) # NoSlot)
                        /\ \A k \in Keys : abs[k] # ABSENT => lv[Lookup(perm, k)] = abs[k]
                        /\ \A i \in 1..(Len(perm) - 1) : ks[perm[i]] < ks[perm[i + 1]]
\* C09
Termination == <>AllDone
====

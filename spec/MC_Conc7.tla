---- MODULE MC_Conc7 ----
EXTENDS YkConc7
K7 == {10, 15, 20, 25, 30, 50, 70}
SFull == {10, 20, 30}
SPart == {10, 20}
E1 == {50}
R1 == {70}
R2 == {70, 80}
K8 == K7 \cup {80}
\* a: X collapses (S takes its place in N) while S splits and a reader descends towards the key that moves to the new border
PA == (1 :> [op |-> "rem", k |-> 50, v |-> 0] @@ 2 :> [op |-> "put", k |-> 25, v |-> 225] @@ 3 :> [op |-> "get", k |-> 30, v |-> 0])
\* b: the same with a remover of the moving key
PB == (1 :> [op |-> "rem", k |-> 50, v |-> 0] @@ 2 :> [op |-> "put", k |-> 25, v |-> 225] @@ 3 :> [op |-> "rem", k |-> 30, v |-> 0])
\* c: collapse vs plain insert into the survivor vs reader
PC == (1 :> [op |-> "rem", k |-> 50, v |-> 0] @@ 2 :> [op |-> "put", k |-> 15, v |-> 215] @@ 3 :> [op |-> "get", k |-> 20, v |-> 0])
\* d: the root N collapses (R emptied): the interior X becomes the root
PD == (1 :> [op |-> "rem", k |-> 70, v |-> 0] @@ 2 :> [op |-> "get", k |-> 10, v |-> 0] @@ 3 :> [op |-> "put", k |-> 15, v |-> 215])
\* e: both collapses at the same time
PE == (1 :> [op |-> "rem", k |-> 50, v |-> 0] @@ 2 :> [op |-> "rem", k |-> 70, v |-> 0] @@ 3 :> [op |-> "get", k |-> 10, v |-> 0])
\* f: both collapses while S splits (the split may find S under X, under N, or as the root: new root)
PF == (1 :> [op |-> "rem", k |-> 50, v |-> 0] @@ 2 :> [op |-> "rem", k |-> 70, v |-> 0] @@ 3 :> [op |-> "put", k |-> 25, v |-> 225])
\* g: collapse of X vs a writer that re-inserts into the emptied E's range and a reader of it
PG == (1 :> [op |-> "rem", k |-> 50, v |-> 0] @@ 2 :> [op |-> "put", k |-> 50, v |-> 250] @@ 3 :> [op |-> "get", k |-> 50, v |-> 0])
====

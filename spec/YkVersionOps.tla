---- MODULE YkVersionOps ----
(* The node version word of yakushima (include/version.h): one atomic word holding
   vinsert_delete:29, locked, inserting_deleting, splitting, vsplit:29, deleted, root, border.
   Sequential part: the effect of every public operation as a function of the word (used by the
   trace specs with M = 2^29).  Concurrent part: threads executing lock / unlock / flag CAS loops /
   get_stable_version at the grain of the individual atomic accesses of the code. *)
EXTENDS Naturals, FiniteSets, Sequences, TLC

Flags == {"locked", "ins", "spl", "deleted", "root", "border"}
Word(M) == [locked : BOOLEAN, ins : BOOLEAN, spl : BOOLEAN, deleted : BOOLEAN, root : BOOLEAN, border : BOOLEAN,
            vi : 0..(M-1), vs : 0..(M-1)]
\* ---------------------------------------------------------------- sequential meaning (C17, first sentence)
LockF(v) == [v EXCEPT !.locked = TRUE]
\* UNLOCK_ELSE_IF is a defect switch (a definition, overridden by MC_Version_bug1.cfg with SwitchOn): "split, or else insert" -
\* with both dirty bits set (an insert that splits the node) the insert counter does not advance (independent seeded change C17d).
UNLOCK_ELSE_IF == FALSE
SwitchOn == TRUE
UnlockF(v, M) == [v EXCEPT !.locked = FALSE, !.ins = FALSE, !.spl = FALSE,
                           !.vi = IF v.ins /\ ~(UNLOCK_ELSE_IF /\ v.spl) THEN (v.vi + 1) % M ELSE v.vi,
                           !.vs = IF v.spl THEN (v.vs + 1) % M ELSE v.vs]
IncViF(v, M) == [v EXCEPT !.vi = (v.vi + 1) % M]
SetF(v, flag, b) == CASE flag = "ins" -> [v EXCEPT !.ins = b]
                      [] flag = "spl" -> [v EXCEPT !.spl = b]
                      [] flag = "deleted" -> [v EXCEPT !.deleted = b]
                      [] flag = "root" -> [v EXCEPT !.root = b]
                      [] flag = "border" -> [v EXCEPT !.border = b]
IsStable(v) == ~v.locked /\ ~v.ins /\ ~v.spl
\* micro-ops: <<"lock">>, <<"unlock">>, <<"inc">>, <<"set", flag, bool>>, <<"stable">>
Apply(op, v, M) == CASE op[1] = "lock" -> LockF(v)
                     [] op[1] = "unlock" -> UnlockF(v, M)
                     [] op[1] = "inc" -> IncViF(v, M)
                     [] op[1] = "set" -> SetF(v, op[2], op[3])
====

SPECIFICATION TSpec
INVARIANT Coverage
POSTCONDITION Accepted
CHECK_DEADLOCK FALSE

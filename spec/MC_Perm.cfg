SPECIFICATION Spec
CONSTANT F = 6
INVARIANTS Valid FreeSlotFree
CHECK_DEADLOCK FALSE

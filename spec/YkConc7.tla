---- MODULE YkConc7 ----
(* Concurrent grain of TWO INTERIOR LEVELS: the root interior N (node 5) over the interior X (node 4) and the border R (node 6); X over the
   borders S (node 1) and E (node 2); node 3 is the border a split of S allocates, node 7 the interior a root split allocates.
   What is new against YkConc4 (same point operations, same step grain):
     * find_border descends through two interiors: get_child_of per level (GC1 key search, GC2 child load, GC3 stable(child), GC4 re-check
       of the interior AND of the child's deleted flag); an interior child continues the loop with the child's version;
     * COLLAPSE OF A NON-ROOT INTERIOR (interior_node::delete_of, n_keys == 1, parent is an interior): IDel deleted mark / INkSt n_keys := 0 /
       lock_parent of the interior: ILpLd ILpL ILpC (re-check, unlock, again; no parent any more: root lock IRl IRl2) / IRoot0 / ISwap the
       surviving child takes the interior's place in the parent's child array (swap_child; the parent's version is NOT advanced) /
       ISibPar parent pointer of the survivor / INUnl unlock the parent / IPUnl unlock the interior;
     * the survivor can be an interior (N collapses, X becomes the root) or a border;
     * both collapses can race (E and R emptied at the same time): the inner one finds its parent deleted and its own parent pointer
       cleared, re-checks and continues under the root lock.
   Defect switches: NO_CHILD_DEL_CHECK (get_child_of accepts a deleted child: a descent that read the pointer to X before the swap continues
   through X's stale child array; seed C08d), NO_PARENT_RECHECK_I (lock_parent of the collapsing interior does not re-check its parent after
   locking it), plus UNLOCK_BEFORE_PARENT / NO_INS_ON_INSERT / NO_INS_ON_DELETE of YkConc4. *)
EXTENDS Naturals, Sequences, FiniteSets, TLC
CONSTANTS F, Keys, Threads,
          Prog,                 \* [Threads -> [op : {"get", "put", "rem"}, k : Keys, v : value id]]
          InitS, InitE, InitR,  \* keys of S, E, R (ascending across the three; all non-empty)
          UNLOCK_BEFORE_PARENT, NO_INS_ON_INSERT, NO_INS_ON_DELETE, NO_CHILD_DEL_CHECK, NO_PARENT_RECHECK_I
VARIABLES bd, it, rootp, rootlock, pc, loc, abs, seen, res
ABSENT == 0
NULL == 0
NoSlot == 99
Slots == 0..(F-1)
Borders == {1, 2, 3, 6}
Interiors == {4, 5, 7}

vars == <<bd, it, rootp, rootlock, pc, loc, abs, seen, res>>
Force(f) == IF f = f THEN f ELSE f
V0 == [lk |-> FALSE, ins |-> FALSE, spl |-> FALSE, del |-> FALSE, root |-> FALSE, vi |-> 0, vs |-> 0]
Stable(v) == ~v.lk /\ ~v.ins /\ ~v.spl
Unl(v) == [v EXCEPT !.lk = FALSE, !.ins = FALSE, !.spl = FALSE, !.vi = IF v.ins THEN v.vi + 1 ELSE v.vi, !.vs = IF v.spl THEN v.vs + 1 ELSE v.vs]
SeqOf(S) == CHOOSE sq \in [1..Cardinality(S) -> S] : \A i, j \in 1..Cardinality(S) : i < j => sq[i] < sq[j]
MinOf(S) == CHOOSE x \in S : \A y \in S : x <= y
EmptyB == [ver |-> V0, perm |-> <<>>, ks |-> [s \in Slots |-> 0], lv |-> [s \in Slots |-> 0], prev |-> NULL, next |-> NULL, parent |-> NULL]
MkBorder(S, pv, nx, par) == LET n == Cardinality(S) sq == SeqOf(S) IN
    [EmptyB EXCEPT !.ver = [V0 EXCEPT !.vi = n], !.perm = [i \in 1..n |-> i - 1], !.ks = [s \in Slots |-> IF s < n THEN sq[s + 1] ELSE 0],
                   !.lv = [s \in Slots |-> IF s < n THEN 100 + sq[s + 1] ELSE 0], !.prev = pv, !.next = nx, !.parent = par]
EmptyI == [ver |-> V0, n |-> 0, key |-> [i \in 0..(F-1) |-> 0], ch |-> [i \in 0..F |-> NULL], parent |-> NULL]
L0 == [root |-> 5, cur |-> 5, pv |-> V0, ci |-> 0, child |-> 1, cv |-> V0, b |-> 1, vfb |-> V0, v |-> V0, idx |-> NoSlot, w |-> 0,
       prevn |-> NULL, pn |-> NULL, pn2 |-> NULL, i |-> 0, sib |-> NULL, mv |-> 1, nb |-> NULL, insd |-> FALSE]
Init == /\ bd = Force([n \in Borders |-> IF n = 1 THEN MkBorder(InitS, NULL, 2, 4) ELSE IF n = 2 THEN MkBorder(InitE, 1, 6, 4) ELSE IF n = 6 THEN MkBorder(InitR, 2, NULL, 5) ELSE EmptyB])
        /\ it = Force([n \in Interiors |-> IF n = 4 THEN [EmptyI EXCEPT !.ver = [V0 EXCEPT !.vi = 1], !.n = 1, !.key[0] = MinOf(InitE), !.ch[0] = 1, !.ch[1] = 2, !.parent = 5]
                                           ELSE IF n = 5 THEN [EmptyI EXCEPT !.ver = [V0 EXCEPT !.root = TRUE, !.vi = 1], !.n = 1, !.key[0] = MinOf(InitR), !.ch[0] = 4, !.ch[1] = 6]
                                           ELSE EmptyI])
        /\ rootp = 5 /\ rootlock = FALSE
        /\ pc = [t \in Threads |-> "start"] /\ loc = [t \in Threads |-> L0]
        /\ abs = Force([k \in Keys |-> IF k \in InitS \cup InitE \cup InitR THEN 100 + k ELSE ABSENT])
        /\ seen = [t \in Threads |-> [k \in Keys |-> {}]] /\ res = [t \in Threads |-> <<>>]
Op(t) == Prog[t]
InFlight(t) == pc[t] \notin {"start", "done"}
Lookup(b, p, k) == IF \E i \in 1..Len(p) : bd[b].ks[p[i]] = k THEN p[CHOOSE i \in 1..Len(p) : bd[b].ks[p[i]] = k] ELSE NoSlot
RankOf(b, p, k) == Cardinality({i \in 1..Len(p) : bd[b].ks[p[i]] < k}) + 1
InsertAt(p, r, s) == SubSeq(p, 1, r-1) \o <<s>> \o SubSeq(p, r, Len(p))
RemoveSlot(p, s) == SelectSeq(p, LAMBDA x : x # s)
FreeSlot(p) == CHOOSE s \in Slots : (\A i \in 1..Len(p) : p[i] # s) /\ (\A s2 \in Slots : (\A i \in 1..Len(p) : p[i] # s2) => s <= s2)
Goto(t, l) == pc' = [pc EXCEPT ![t] = l]
Commit(k, b) == /\ abs' = [abs EXCEPT ![k] = b]
                /\ seen' = Force([t \in Threads |-> IF InFlight(t) /\ Op(t).k = k THEN [seen[t] EXCEPT ![k] = @ \cup {b}] ELSE seen[t]])
Ret(t, r) == res' = [res EXCEPT ![t] = Append(@, [op |-> Op(t).op, k |-> Op(t).k, st |-> r[1], w |-> r[2], sn |-> seen[t], ins |-> loc[t].insd])] /\ Goto(t, "done")
VerOf(n) == IF n \in Interiors THEN it[n].ver ELSE bd[n].ver
ParentOf(n) == IF n \in Interiors THEN it[n].parent ELSE bd[n].parent
SetBV(n, v) == bd' = [bd EXCEPT ![n].ver = v]
SetIV(n, v) == it' = [it EXCEPT ![n].ver = v]
Keep == F \div 2 + 1
\* index of the child for key k in interior p (interior_node::get_child_of without the version protocol)
ChildIdx(p, k) == IF \E i \in 0..(it[p].n - 1) : k < it[p].key[i] THEN CHOOSE i \in 0..(it[p].n - 1) : k < it[p].key[i] /\ \A j \in 0..(i - 1) : ~(k < it[p].key[j])
                  ELSE it[p].n
SameButLock(a, b) == [a EXCEPT !.lk = FALSE] = [b EXCEPT !.lk = FALSE]
AfterFB(t) == "lv1"
DescKey(t) == Op(t).k
\* generic node accessors (borders and interiors share version word and parent pointer)
SetV(n, v) == IF n \in Interiors THEN it' = [it EXCEPT ![n].ver = v] /\ UNCHANGED bd ELSE bd' = [bd EXCEPT ![n].ver = v] /\ UNCHANGED it
SetPar(n, p) == IF n \in Interiors THEN it' = [it EXCEPT ![n].parent = p] /\ UNCHANGED bd ELSE bd' = [bd EXCEPT ![n].parent = p] /\ UNCHANGED it
\* ---------------------------------------------------------------- common: invocation, root load, find_border, get_lv_of
Start(t) == /\ pc[t] = "start" /\ seen' = [seen EXCEPT ![t] = [k \in Keys |-> IF k = Op(t).k THEN {abs[k]} ELSE {}]] /\ loc' = [loc EXCEPT ![t] = L0] /\ Goto(t, "g0")
            /\ UNCHANGED <<bd, it, rootp, rootlock, abs, res>>
G0(t) == /\ pc[t] = "g0" /\ loc' = [loc EXCEPT ![t].root = rootp] /\ Goto(t, "fb")
         /\ UNCHANGED <<bd, it, rootp, rootlock, abs, seen, res>>
FB(t) == /\ pc[t] = "fb" /\ Stable(VerOf(loc[t].root))
         /\ LET r == loc[t].root v == VerOf(r) IN
            IF ~v.root THEN Goto(t, "g0") /\ UNCHANGED loc
            ELSE IF r \in Interiors THEN loc' = [loc EXCEPT ![t].cur = r, ![t].pv = v] /\ Goto(t, "gc1")
            ELSE loc' = [loc EXCEPT ![t].b = r, ![t].vfb = v] /\ Goto(t, AfterFB(t))
         /\ UNCHANGED <<bd, it, rootp, rootlock, abs, seen, res>>
GC1(t) == /\ pc[t] = "gc1"
          /\ LET p == loc[t].cur IN
             IF SameButLock(it[p].ver, loc[t].pv) THEN loc' = [loc EXCEPT ![t].ci = ChildIdx(p, DescKey(t))]
             ELSE \E c \in 0..F : loc' = [loc EXCEPT ![t].ci = c]
          /\ Goto(t, "gc2") /\ UNCHANGED <<bd, it, rootp, rootlock, abs, seen, res>>
GC2(t) == /\ pc[t] = "gc2" /\ LET c == it[loc[t].cur].ch[loc[t].ci] IN
             IF c = NULL THEN Goto(t, "fb") /\ UNCHANGED loc ELSE loc' = [loc EXCEPT ![t].child = c] /\ Goto(t, "gc3")
          /\ UNCHANGED <<bd, it, rootp, rootlock, abs, seen, res>>
GC3(t) == /\ pc[t] = "gc3" /\ Stable(VerOf(loc[t].child)) /\ loc' = [loc EXCEPT ![t].cv = VerOf(loc[t].child)] /\ Goto(t, "gc4")
          /\ UNCHANGED <<bd, it, rootp, rootlock, abs, seen, res>>
GC4(t) == /\ pc[t] = "gc4" /\ Stable(it[loc[t].cur].ver)
          /\ LET l == loc[t] pv == it[l.cur].ver IN
             IF pv = l.pv /\ (NO_CHILD_DEL_CHECK \/ ~l.cv.del) THEN
                  (IF l.child \in Interiors THEN loc' = [loc EXCEPT ![t].cur = l.child, ![t].pv = l.cv] /\ Goto(t, "gc1")
                   ELSE loc' = [loc EXCEPT ![t].b = l.child, ![t].vfb = l.cv] /\ Goto(t, AfterFB(t)))
             ELSE IF pv.vs # l.pv.vs \/ pv.del THEN Goto(t, "fb") /\ UNCHANGED loc
             ELSE loc' = [loc EXCEPT ![t].pv = pv] /\ Goto(t, "gc1")
          /\ UNCHANGED <<bd, it, rootp, rootlock, abs, seen, res>>
LV1(t) == /\ pc[t] = "lv1" /\ Stable(bd[loc[t].b].ver) /\ loc' = [loc EXCEPT ![t].v = bd[loc[t].b].ver] /\ Goto(t, "permld")
          /\ UNCHANGED <<bd, it, rootp, rootlock, abs, seen, res>>
PermLd(t) == /\ pc[t] = "permld" /\ loc' = [loc EXCEPT ![t].idx = Lookup(loc[t].b, bd[loc[t].b].perm, Op(t).k)] /\ Goto(t, "lv2")
             /\ UNCHANGED <<bd, it, rootp, rootlock, abs, seen, res>>
LV2(t) == /\ pc[t] = "lv2" /\ Stable(bd[loc[t].b].ver)
          /\ LET l == loc[t] v == bd[l.b].ver o == Op(t) IN
             IF v # l.v THEN loc' = [loc EXCEPT ![t].v = v] /\ Goto(t, "permld") /\ UNCHANGED res
             ELSE IF l.v.vs # l.vfb.vs \/ (l.v.del /\ ~l.v.root) THEN Goto(t, "g0") /\ UNCHANGED <<loc, res>>
             ELSE IF o.op = "get" THEN (IF l.idx = NoSlot THEN Ret(t, <<"NOT_EXIST", 0>>) /\ UNCHANGED loc ELSE Goto(t, "g_val") /\ UNCHANGED <<loc, res>>)
             ELSE IF o.op = "rem" THEN Goto(t, IF l.idx = NoSlot THEN "r_fc0" ELSE "lock") /\ UNCHANGED <<loc, res>>
             ELSE Goto(t, "lock") /\ UNCHANGED <<loc, res>>
          /\ UNCHANGED <<bd, it, rootp, rootlock, abs, seen>>
GVal(t) == /\ pc[t] = "g_val" /\ loc' = [loc EXCEPT ![t].w = bd[loc[t].b].lv[loc[t].idx]] /\ Goto(t, "g_fc")
           /\ UNCHANGED <<bd, it, rootp, rootlock, abs, seen, res>>
GFc(t) == /\ pc[t] = "g_fc" /\ Stable(bd[loc[t].b].ver)
          /\ LET l == loc[t] v == bd[l.b].ver IN
             IF v.vs # l.vfb.vs \/ (v.del /\ ~v.root) THEN Goto(t, "g0") /\ UNCHANGED res
             ELSE IF v.vi # l.v.vi THEN Goto(t, "lv1") /\ UNCHANGED res
             ELSE IF l.w = 0 THEN Goto(t, "lv1") /\ UNCHANGED res
             ELSE Ret(t, <<"OK", l.w>>)
          /\ UNCHANGED <<bd, it, rootp, rootlock, loc, abs, seen>>
RFc0(t) == /\ pc[t] = "r_fc0" /\ Stable(bd[loc[t].b].ver)
           /\ IF bd[loc[t].b].ver.vi # loc[t].v.vi THEN Goto(t, "lv1") /\ UNCHANGED res ELSE Ret(t, <<"NOT_FOUND", 0>>)
           /\ UNCHANGED <<bd, it, rootp, rootlock, loc, abs, seen>>
Lock(t) == /\ pc[t] = "lock" /\ ~bd[loc[t].b].ver.lk /\ SetBV(loc[t].b, [bd[loc[t].b].ver EXCEPT !.lk = TRUE]) /\ Goto(t, "chk")
           /\ UNCHANGED <<it, rootp, rootlock, loc, abs, seen, res>>
Chk(t) == /\ pc[t] = "chk"
          /\ LET l == loc[t] b == l.b ver == bd[b].ver o == Op(t) idx2 == Lookup(b, bd[b].perm, o.k) IN
             IF (ver.del /\ ~ver.root) \/ ver.vs # l.vfb.vs THEN SetBV(b, Unl(ver)) /\ Goto(t, "g0") /\ UNCHANGED <<loc, res>>
             ELSE IF ver.vi # l.v.vi THEN SetBV(b, Unl(ver)) /\ Goto(t, "lv1") /\ UNCHANGED <<loc, res>>
             ELSE IF o.op = "rem" THEN
                    (IF idx2 = NoSlot THEN SetBV(b, Unl(ver)) /\ Ret(t, <<"NOT_FOUND", 0>>) /\ UNCHANGED loc
                     ELSE loc' = [loc EXCEPT ![t].idx = idx2] /\ Goto(t, "r_clear") /\ UNCHANGED <<bd, res>>)
             ELSE IF l.idx = NoSlot THEN SetBV(b, [ver EXCEPT !.ins = TRUE])
                                         /\ Goto(t, IF Len(bd[b].perm) = 0 THEN "p_undel" ELSE IF Len(bd[b].perm) = F THEN "s1" ELSE "p_slot") /\ UNCHANGED <<loc, res>>
             ELSE IF idx2 = NoSlot THEN SetBV(b, Unl(ver)) /\ Goto(t, "lv1") /\ UNCHANGED <<loc, res>>
             ELSE loc' = [loc EXCEPT ![t].idx = idx2] /\ Goto(t, "p_set") /\ UNCHANGED <<bd, res>>
          /\ UNCHANGED <<it, rootp, rootlock, abs, seen>>
\* ---------------------------------------------------------------- put without split
PUndel(t) == /\ pc[t] = "p_undel" /\ SetBV(loc[t].b, [bd[loc[t].b].ver EXCEPT !.del = FALSE]) /\ Goto(t, "p_slot")
             /\ UNCHANGED <<it, rootp, rootlock, loc, abs, seen, res>>
PSlotAt(t, s) == /\ pc[t] = "p_slot" /\ Len(bd[loc[t].b].perm) < F /\ s \in Slots /\ \A i \in 1..Len(bd[loc[t].b].perm) : bd[loc[t].b].perm[i] # s
                 /\ LET b == loc[t].b IN bd' = [bd EXCEPT ![b].ks[s] = Op(t).k, ![b].lv[s] = Op(t).v] /\ loc' = [loc EXCEPT ![t].idx = s]
                 /\ Goto(t, "p_pub") /\ UNCHANGED <<it, rootp, rootlock, abs, seen, res>>
PSlot(t) == pc[t] = "p_slot" /\ PSlotAt(t, FreeSlot(bd[loc[t].b].perm))
PPub(t) == /\ pc[t] = "p_pub" /\ LET b == loc[t].b IN bd' = [bd EXCEPT ![b].perm = InsertAt(@, RankOf(b, @, Op(t).k), loc[t].idx)]
           /\ loc' = [loc EXCEPT ![t].insd = TRUE]
           /\ Commit(Op(t).k, Op(t).v) /\ Goto(t, "p_unlock") /\ UNCHANGED <<it, rootp, rootlock, res>>
PSet(t) == /\ pc[t] = "p_set" /\ bd' = [bd EXCEPT ![loc[t].b].lv[loc[t].idx] = Op(t).v] /\ Commit(Op(t).k, Op(t).v)
           /\ Goto(t, "p_unlock") /\ UNCHANGED <<it, rootp, rootlock, loc, res>>
PUnlock(t) == /\ pc[t] = "p_unlock" /\ SetBV(loc[t].b, Unl(bd[loc[t].b].ver)) /\ Ret(t, <<"OK", 0>>)
              /\ UNCHANGED <<it, rootp, rootlock, loc, abs, seen>>
\* ---------------------------------------------------------------- put into a full border: border_split
S1(t) == /\ pc[t] = "s1" /\ SetBV(loc[t].b, [bd[loc[t].b].ver EXCEPT !.spl = TRUE]) /\ Goto(t, "s3")
         /\ UNCHANGED <<it, rootp, rootlock, loc, abs, seen, res>>
\* B3 is allocated (invisible) with prev / next and a copy of the border's locked + dirty version (S3a), then linked behind the border (S3)
S3a(t) == /\ pc[t] = "s3" /\ LET b == loc[t].b IN bd' = [bd EXCEPT ![3] = [EmptyB EXCEPT !.ver = bd[b].ver, !.prev = b, !.next = bd[b].next]]
          /\ loc' = [loc EXCEPT ![t].mv = 1, ![t].nb = 3] /\ Goto(t, "s3l") /\ UNCHANGED <<it, rootp, rootlock, abs, seen, res>>
S3(t) == /\ pc[t] = "s3l" /\ LET b == loc[t].b IN
            /\ bd' = [bd EXCEPT ![b].next = 3]
            /\ Goto(t, IF bd[b].next # NULL THEN "s3b" ELSE "smove")
         /\ UNCHANGED <<it, rootp, rootlock, loc, abs, seen, res>>
S3b(t) == /\ pc[t] = "s3b" /\ bd' = [bd EXCEPT ![bd[3].next].prev = 3] /\ Goto(t, "smove")
          /\ UNCHANGED <<it, rootp, rootlock, loc, abs, seen, res>>
SMove(t) == /\ pc[t] = "smove" /\ LET b == loc[t].b src == bd[b].perm[Keep + 1] dst == loc[t].mv - 1 IN
               bd' = [bd EXCEPT ![3].ks[dst] = bd[b].ks[src], ![3].lv[dst] = bd[b].lv[src], ![b].ks[src] = 0, ![b].lv[src] = 0]
            /\ Goto(t, "sperm") /\ UNCHANGED <<it, rootp, rootlock, loc, abs, seen, res>>
SPerm(t) == /\ pc[t] = "sperm" /\ bd' = [bd EXCEPT ![loc[t].b].perm = SubSeq(@, 1, Keep) \o SubSeq(@, Keep + 2, Len(@))]
            /\ IF loc[t].mv = F - Keep THEN Goto(t, "s6") /\ UNCHANGED loc ELSE loc' = [loc EXCEPT ![t].mv = @ + 1] /\ Goto(t, "smove")
            /\ UNCHANGED <<it, rootp, rootlock, abs, seen, res>>
S6(t) == /\ pc[t] = "s6" /\ bd' = [bd EXCEPT ![3].perm = [i \in 1..(F - Keep) |-> i - 1]] /\ Goto(t, "s7a")
         /\ UNCHANGED <<it, rootp, rootlock, loc, abs, seen, res>>
\* the free slot comes from the permutation word's free list: any free slot; the model check uses the lowest
S7aAt(t, s) == /\ pc[t] = "s7a"
               /\ LET side == IF Op(t).k < bd[3].ks[0] THEN loc[t].b ELSE 3 IN
                  /\ s \in Slots /\ \A i \in 1..Len(bd[side].perm) : bd[side].perm[i] # s
                  /\ bd' = [bd EXCEPT ![side].ks[s] = Op(t).k, ![side].lv[s] = Op(t).v] /\ loc' = [loc EXCEPT ![t].sib = side, ![t].idx = s]
               /\ Goto(t, "s7b") /\ UNCHANGED <<it, rootp, rootlock, abs, seen, res>>
S7a(t) == pc[t] = "s7a" /\ S7aAt(t, FreeSlot(bd[IF Op(t).k < bd[3].ks[0] THEN loc[t].b ELSE 3].perm))
S7b(t) == /\ pc[t] = "s7b"
          /\ LET side == loc[t].sib IN bd' = [bd EXCEPT ![side].perm = InsertAt(@, RankOf(side, @, Op(t).k), loc[t].idx)]
          /\ loc' = [loc EXCEPT ![t].insd = TRUE]
          /\ Commit(Op(t).k, Op(t).v) /\ Goto(t, IF UNLOCK_BEFORE_PARENT THEN "u1" ELSE "lp_ld") /\ UNCHANGED <<it, rootp, rootlock, res>>
\* defect switch: the borders are unlocked before the parent is owned
U1(t) == /\ pc[t] = "u1" /\ SetBV(loc[t].b, Unl(bd[loc[t].b].ver)) /\ Goto(t, "u2") /\ UNCHANGED <<it, rootp, rootlock, loc, abs, seen, res>>
U2(t) == /\ pc[t] = "u2" /\ SetBV(3, Unl(bd[3].ver)) /\ Goto(t, "lp_ld") /\ UNCHANGED <<it, rootp, rootlock, loc, abs, seen, res>>
\* lock_parent of the split border
LpLd(t) == /\ pc[t] = "lp_ld" /\ loc' = [loc EXCEPT ![t].pn = bd[loc[t].b].parent] /\ Goto(t, IF bd[loc[t].b].parent = NULL THEN "s_rl" ELSE "lp_l")
           /\ UNCHANGED <<bd, it, rootp, rootlock, abs, seen, res>>
SRl(t) == /\ pc[t] = "s_rl" /\ ~rootlock /\ rootlock' = TRUE /\ Goto(t, "s_rl2")
          /\ UNCHANGED <<bd, it, rootp, loc, abs, seen, res>>
SRl2(t) == /\ pc[t] = "s_rl2"
           /\ IF rootp = loc[t].b THEN Goto(t, "n1a") /\ UNCHANGED rootlock ELSE rootlock' = FALSE /\ Goto(t, "s_rl")
           /\ UNCHANGED <<bd, it, rootp, loc, abs, seen, res>>
LpL(t) == /\ pc[t] = "lp_l" /\ ~it[loc[t].pn].ver.lk /\ SetIV(loc[t].pn, [it[loc[t].pn].ver EXCEPT !.lk = TRUE]) /\ Goto(t, "lp_c")
          /\ UNCHANGED <<bd, rootp, rootlock, loc, abs, seen, res>>
LpC(t) == /\ pc[t] = "lp_c" /\ LET chk == bd[loc[t].b].parent IN
             IF chk = loc[t].pn THEN Goto(t, "x1") /\ UNCHANGED <<it, loc>>
             ELSE SetIV(loc[t].pn, Unl(it[loc[t].pn].ver)) /\ loc' = [loc EXCEPT ![t].pn = chk] /\ Goto(t, IF chk = NULL THEN "s_rl" ELSE "lp_l")
          /\ UNCHANGED <<bd, rootp, rootlock, abs, seen, res>>
\* no parent: create_interior_parent_of_border, new root P2 (node 5)
N1a(t) == /\ pc[t] = "n1a" /\ SetBV(loc[t].b, [bd[loc[t].b].ver EXCEPT !.root = FALSE]) /\ Goto(t, "n1b")
          /\ UNCHANGED <<it, rootp, rootlock, loc, abs, seen, res>>
N1b(t) == /\ pc[t] = "n1b" /\ SetBV(3, [bd[3].ver EXCEPT !.root = FALSE])
          /\ it' = [it EXCEPT ![7] = [EmptyI EXCEPT !.ver = [V0 EXCEPT !.root = TRUE, !.ins = TRUE, !.lk = TRUE], !.n = 1, !.key[0] = bd[3].ks[0], !.ch[0] = loc[t].b, !.ch[1] = 3]]
          /\ Goto(t, "n1c") /\ UNCHANGED <<rootp, rootlock, loc, abs, seen, res>>
N1c(t) == /\ pc[t] = "n1c" /\ bd' = [bd EXCEPT ![loc[t].b].parent = 7, ![3].parent = 7] /\ Goto(t, "n2")
          /\ UNCHANGED <<it, rootp, rootlock, loc, abs, seen, res>>
N2(t) == /\ pc[t] = "n2" /\ (IF UNLOCK_BEFORE_PARENT THEN UNCHANGED bd ELSE SetBV(loc[t].b, Unl(bd[loc[t].b].ver))) /\ Goto(t, "n3")
         /\ UNCHANGED <<it, rootp, rootlock, loc, abs, seen, res>>
N3(t) == /\ pc[t] = "n3" /\ (IF UNLOCK_BEFORE_PARENT THEN UNCHANGED bd ELSE SetBV(3, Unl(bd[3].ver))) /\ Goto(t, "n4")
         /\ UNCHANGED <<it, rootp, rootlock, loc, abs, seen, res>>
N4(t) == /\ pc[t] = "n4" /\ rootp' = 7 /\ Goto(t, "n5")
         /\ UNCHANGED <<bd, it, rootlock, loc, abs, seen, res>>
N5(t) == /\ pc[t] = "n5" /\ SetIV(7, Unl(it[7].ver)) /\ Goto(t, "n6")
         /\ UNCHANGED <<bd, rootp, rootlock, loc, abs, seen, res>>
N6(t) == /\ pc[t] = "n6" /\ rootlock' = FALSE /\ Ret(t, <<"OK", 0>>)
         /\ UNCHANGED <<bd, it, rootp, loc, abs, seen>>
\* interior parent (not full): the new border is inserted into it
X1(t) == /\ pc[t] = "x1" /\ SetBV(loc[t].b, [bd[loc[t].b].ver EXCEPT !.root = FALSE]) /\ Goto(t, "x2")
         /\ UNCHANGED <<it, rootp, rootlock, loc, abs, seen, res>>
X2(t) == /\ pc[t] = "x2" /\ SetBV(3, [bd[3].ver EXCEPT !.root = FALSE]) /\ Goto(t, "x3")
         /\ UNCHANGED <<it, rootp, rootlock, loc, abs, seen, res>>
X3(t) == /\ pc[t] = "x3" /\ (IF UNLOCK_BEFORE_PARENT THEN UNCHANGED bd ELSE SetBV(loc[t].b, Unl(bd[loc[t].b].ver))) /\ Goto(t, "x4")
         /\ UNCHANGED <<it, rootp, rootlock, loc, abs, seen, res>>
X4(t) == /\ pc[t] = "x4" /\ (IF UNLOCK_BEFORE_PARENT THEN UNCHANGED bd ELSE SetBV(3, Unl(bd[3].ver))) /\ Goto(t, "x5")
         /\ UNCHANGED <<it, rootp, rootlock, loc, abs, seen, res>>
X5(t) == /\ pc[t] = "x5" /\ it[loc[t].pn].n < F /\ bd' = [bd EXCEPT ![3].parent = loc[t].pn] /\ Goto(t, "x6")
         /\ UNCHANGED <<it, rootp, rootlock, loc, abs, seen, res>>
X6(t) == /\ pc[t] = "x6" /\ LET p == loc[t].pn IN
            /\ SetIV(p, [it[p].ver EXCEPT !.ins = ~NO_INS_ON_INSERT])
            /\ loc' = [loc EXCEPT ![t].i = ChildIdx(p, bd[3].ks[0])]
         /\ Goto(t, "xkey") /\ UNCHANGED <<bd, rootp, rootlock, abs, seen, res>>
XKey(t) == /\ pc[t] = "xkey" /\ LET p == loc[t].pn i == loc[t].i IN
              /\ it' = [it EXCEPT ![p].key = [j \in 0..(F-1) |-> IF j < i THEN it[p].key[j] ELSE IF j = i THEN bd[3].ks[0] ELSE it[p].key[j - 1]]]
              /\ IF it[p].n + 1 > i + 1 THEN loc' = [loc EXCEPT ![t].mv = it[p].n + 1] /\ Goto(t, "xchs") ELSE Goto(t, "xch") /\ UNCHANGED loc
           /\ UNCHANGED <<bd, rootp, rootlock, abs, seen, res>>
\* shift_right_children: one child pointer per step, from the right end down to the insert position
XChS(t) == /\ pc[t] = "xchs" /\ LET p == loc[t].pn j == loc[t].mv IN
              /\ it' = [it EXCEPT ![p].ch[j] = it[p].ch[j - 1]]
              /\ IF j - 1 = loc[t].i + 1 THEN Goto(t, "xch") /\ UNCHANGED loc ELSE loc' = [loc EXCEPT ![t].mv = j - 1] /\ UNCHANGED pc
           /\ UNCHANGED <<bd, rootp, rootlock, abs, seen, res>>
XCh(t) == /\ pc[t] = "xch" /\ it' = [it EXCEPT ![loc[t].pn].ch[loc[t].i + 1] = 3]
          /\ Goto(t, "xn") /\ UNCHANGED <<bd, rootp, rootlock, loc, abs, seen, res>>
XN(t) == /\ pc[t] = "xn" /\ it' = [it EXCEPT ![loc[t].pn].n = @ + 1] /\ Goto(t, "x9")
         /\ UNCHANGED <<bd, rootp, rootlock, loc, abs, seen, res>>
X9(t) == /\ pc[t] = "x9" /\ SetIV(loc[t].pn, Unl(it[loc[t].pn].ver)) /\ Ret(t, <<"OK", 0>>)
         /\ UNCHANGED <<bd, rootp, rootlock, loc, abs, seen>>
\* ---------------------------------------------------------------- remove: entry, then border deletion
RClear(t) == /\ pc[t] = "r_clear" /\ bd' = [bd EXCEPT ![loc[t].b].lv[loc[t].idx] = 0] /\ Goto(t, "r_pub")
             /\ UNCHANGED <<it, rootp, rootlock, loc, abs, seen, res>>
RPub(t) == /\ pc[t] = "r_pub" /\ LET b == loc[t].b IN
              /\ bd' = [bd EXCEPT ![b].perm = RemoveSlot(@, loc[t].idx)]
              /\ Goto(t, IF Len(bd[b].perm) = 1 THEN "r_del" ELSE "r_unlock")
           /\ Commit(Op(t).k, ABSENT) /\ UNCHANGED <<it, rootp, rootlock, loc, res>>
RUnlock(t) == /\ pc[t] = "r_unlock" /\ SetBV(loc[t].b, Unl(bd[loc[t].b].ver)) /\ Ret(t, <<"OK", 0>>)
              /\ UNCHANGED <<it, rootp, rootlock, loc, abs, seen>>
RDel(t) == /\ pc[t] = "r_del" /\ SetBV(loc[t].b, [bd[loc[t].b].ver EXCEPT !.del = TRUE]) /\ Goto(t, "r_prev")
           /\ UNCHANGED <<it, rootp, rootlock, loc, abs, seen, res>>
RPrev(t) == /\ pc[t] = "r_prev" /\ LET b == loc[t].b p == bd[b].prev IN
               /\ loc' = [loc EXCEPT ![t].prevn = p]
               /\ Goto(t, IF p # NULL THEN "r_plock" ELSE IF bd[b].next # NULL THEN "r_nextfix" ELSE "r_lp")
            /\ UNCHANGED <<bd, it, rootp, rootlock, abs, seen, res>>
RNextFix(t) == /\ pc[t] = "r_nextfix" /\ bd' = [bd EXCEPT ![bd[loc[t].b].next].prev = NULL] /\ Goto(t, "r_lp")
               /\ UNCHANGED <<it, rootp, rootlock, loc, abs, seen, res>>
RPLock(t) == /\ pc[t] = "r_plock" /\ ~bd[loc[t].prevn].ver.lk /\ SetBV(loc[t].prevn, [bd[loc[t].prevn].ver EXCEPT !.lk = TRUE]) /\ Goto(t, "r_pchk")
             /\ UNCHANGED <<it, rootp, rootlock, loc, abs, seen, res>>
RPChk(t) == /\ pc[t] = "r_pchk" /\ LET b == loc[t].b p == loc[t].prevn IN
               IF bd[p].ver.del \/ bd[b].prev # p
               THEN SetBV(p, Unl(bd[p].ver)) /\ Goto(t, "r_prev")
               ELSE bd' = [bd EXCEPT ![p].next = bd[b].next] /\ Goto(t, IF bd[b].next # NULL THEN "r_pnp" ELSE "r_punl")
            /\ UNCHANGED <<it, rootp, rootlock, loc, abs, seen, res>>
RPNP(t) == /\ pc[t] = "r_pnp" /\ bd' = [bd EXCEPT ![bd[loc[t].b].next].prev = loc[t].prevn] /\ Goto(t, "r_punl")
           /\ UNCHANGED <<it, rootp, rootlock, loc, abs, seen, res>>
RPUnl(t) == /\ pc[t] = "r_punl" /\ SetBV(loc[t].prevn, Unl(bd[loc[t].prevn].ver)) /\ Goto(t, "r_lp")
            /\ UNCHANGED <<it, rootp, rootlock, loc, abs, seen, res>>
RLp(t) == /\ pc[t] = "r_lp" /\ loc' = [loc EXCEPT ![t].pn = bd[loc[t].b].parent] /\ Goto(t, IF bd[loc[t].b].parent = NULL THEN "r_rl" ELSE "r_lpl")
          /\ UNCHANGED <<bd, it, rootp, rootlock, abs, seen, res>>
RRl(t) == /\ pc[t] = "r_rl" /\ ~rootlock /\ rootlock' = TRUE /\ Goto(t, "r_rl2")
          /\ UNCHANGED <<bd, it, rootp, loc, abs, seen, res>>
RRl2(t) == /\ pc[t] = "r_rl2"
           /\ IF rootp = loc[t].b THEN Goto(t, "r_clrp") /\ UNCHANGED rootlock ELSE rootlock' = FALSE /\ Goto(t, "r_rl")
           /\ UNCHANGED <<bd, it, rootp, loc, abs, seen, res>>
RClrP(t) == /\ pc[t] = "r_clrp" /\ bd' = [bd EXCEPT ![loc[t].b].prev = NULL] /\ Goto(t, "r_clrn")
            /\ UNCHANGED <<it, rootp, rootlock, loc, abs, seen, res>>
RClrN(t) == /\ pc[t] = "r_clrn" /\ bd' = [bd EXCEPT ![loc[t].b].next = NULL] /\ Goto(t, "r_runl")
            /\ UNCHANGED <<it, rootp, rootlock, loc, abs, seen, res>>
RRUnl(t) == /\ pc[t] = "r_runl" /\ rootlock' = FALSE /\ Goto(t, "r_unlock")
            /\ UNCHANGED <<bd, it, rootp, loc, abs, seen, res>>
RLpl(t) == /\ pc[t] = "r_lpl" /\ ~it[loc[t].pn].ver.lk /\ SetIV(loc[t].pn, [it[loc[t].pn].ver EXCEPT !.lk = TRUE]) /\ Goto(t, "r_lpc")
           /\ UNCHANGED <<bd, rootp, rootlock, loc, abs, seen, res>>
RLpc(t) == /\ pc[t] = "r_lpc" /\ LET chk == bd[loc[t].b].parent IN
              IF chk = loc[t].pn THEN Goto(t, "r_root0") /\ UNCHANGED <<it, loc>>
              ELSE SetIV(loc[t].pn, Unl(it[loc[t].pn].ver)) /\ loc' = [loc EXCEPT ![t].pn = chk] /\ Goto(t, IF chk = NULL THEN "r_rl" ELSE "r_lpl")
           /\ UNCHANGED <<bd, rootp, rootlock, abs, seen, res>>
RRoot0(t) == /\ pc[t] = "r_root0" /\ SetBV(loc[t].b, [bd[loc[t].b].ver EXCEPT !.root = FALSE]) /\ Goto(t, "r_selfunl")
             /\ UNCHANGED <<it, rootp, rootlock, loc, abs, seen, res>>
RSelfUnl(t) == /\ pc[t] = "r_selfunl" /\ SetBV(loc[t].b, Unl(bd[loc[t].b].ver)) /\ Goto(t, "i_ins")
               /\ UNCHANGED <<it, rootp, rootlock, loc, abs, seen, res>>
\* interior_node::delete_of(parent, the border)
IIns(t) == /\ pc[t] = "i_ins" /\ LET p == loc[t].pn i == CHOOSE j \in 0..it[p].n : it[p].ch[j] = loc[t].b IN
              /\ SetIV(p, [it[p].ver EXCEPT !.ins = ~NO_INS_ON_DELETE])
              /\ loc' = [loc EXCEPT ![t].i = i, ![t].sib = IF it[p].n = 1 THEN it[p].ch[1 - i] ELSE NULL]
              /\ Goto(t, IF it[p].n = 1 THEN "i_del" ELSE IF i = it[p].n THEN "y_clrc" ELSE "y_shiftk")
           /\ UNCHANGED <<bd, rootp, rootlock, abs, seen, res>>
\* more than one key: the interior stays; keys and children are shifted over the removed position
YShiftK(t) == /\ pc[t] = "y_shiftk" /\ LET p == loc[t].pn i == loc[t].i s == IF i = 0 THEN 0 ELSE i - 1 IN
                 it' = [it EXCEPT ![p].key = [j \in 0..(F-1) |-> IF j < s THEN it[p].key[j] ELSE IF j + 1 <= F - 1 THEN it[p].key[j + 1] ELSE it[p].key[j]]]
              /\ loc' = [loc EXCEPT ![t].mv = IF loc[t].i = 0 THEN 1 ELSE loc[t].i + 1]
              /\ Goto(t, "y_shiftc") /\ UNCHANGED <<bd, rootp, rootlock, abs, seen, res>>
\* shift_left_children: one child pointer per step, up to the end of the array
YShiftC(t) == /\ pc[t] = "y_shiftc" /\ LET p == loc[t].pn j == loc[t].mv IN
                 /\ it' = [it EXCEPT ![p].ch[j - 1] = it[p].ch[j]]
                 /\ IF j = F THEN Goto(t, "y_clrc") /\ UNCHANGED loc ELSE loc' = [loc EXCEPT ![t].mv = j + 1] /\ UNCHANGED pc
              /\ UNCHANGED <<bd, rootp, rootlock, abs, seen, res>>
YClrC(t) == /\ pc[t] = "y_clrc" /\ it' = [it EXCEPT ![loc[t].pn].ch[it[loc[t].pn].n] = NULL] /\ Goto(t, "y_clrk")
            /\ UNCHANGED <<bd, rootp, rootlock, loc, abs, seen, res>>
YClrK(t) == /\ pc[t] = "y_clrk" /\ it' = [it EXCEPT ![loc[t].pn].key[it[loc[t].pn].n - 1] = 0] /\ Goto(t, "y_n")
            /\ UNCHANGED <<bd, rootp, rootlock, loc, abs, seen, res>>
YN(t) == /\ pc[t] = "y_n" /\ it' = [it EXCEPT ![loc[t].pn].n = @ - 1] /\ Goto(t, "y_unl")
         /\ UNCHANGED <<bd, rootp, rootlock, loc, abs, seen, res>>
YUnl(t) == /\ pc[t] = "y_unl" /\ SetIV(loc[t].pn, Unl(it[loc[t].pn].ver)) /\ Ret(t, <<"OK", 0>>)
           /\ UNCHANGED <<bd, rootp, rootlock, loc, abs, seen>>
\* one key left: the interior p is removed; its surviving child takes its place in the parent (or becomes the root)
IDel(t) == /\ pc[t] = "i_del" /\ SetIV(loc[t].pn, [it[loc[t].pn].ver EXCEPT !.del = TRUE]) /\ Goto(t, "i_nkst")
           /\ UNCHANGED <<bd, rootp, rootlock, loc, abs, seen, res>>
INkSt(t) == /\ pc[t] = "i_nkst" /\ it' = [it EXCEPT ![loc[t].pn].n = 0] /\ Goto(t, "i_lpld")
            /\ UNCHANGED <<bd, rootp, rootlock, loc, abs, seen, res>>
\* lock_parent of the interior p
ILpLd(t) == /\ pc[t] = "i_lpld" /\ loc' = [loc EXCEPT ![t].pn2 = it[loc[t].pn].parent] /\ Goto(t, IF it[loc[t].pn].parent = NULL THEN "i_rl" ELSE "i_lpl")
            /\ UNCHANGED <<bd, it, rootp, rootlock, abs, seen, res>>
ILpL(t) == /\ pc[t] = "i_lpl" /\ ~it[loc[t].pn2].ver.lk /\ SetIV(loc[t].pn2, [it[loc[t].pn2].ver EXCEPT !.lk = TRUE]) /\ Goto(t, "i_lpc")
           /\ UNCHANGED <<bd, rootp, rootlock, loc, abs, seen, res>>
ILpC(t) == /\ pc[t] = "i_lpc" /\ LET chk == it[loc[t].pn].parent IN
              IF chk = loc[t].pn2 \/ NO_PARENT_RECHECK_I THEN Goto(t, "i_root0p") /\ UNCHANGED <<it, loc>>
              ELSE SetIV(loc[t].pn2, Unl(it[loc[t].pn2].ver)) /\ loc' = [loc EXCEPT ![t].pn2 = chk] /\ Goto(t, IF chk = NULL THEN "i_rl" ELSE "i_lpl")
           /\ UNCHANGED <<bd, rootp, rootlock, abs, seen, res>>
\* the interior is the tree root: root lock, root pointer := survivor
IRl(t) == /\ pc[t] = "i_rl" /\ ~rootlock /\ rootlock' = TRUE /\ Goto(t, "i_rl2")
          /\ UNCHANGED <<bd, it, rootp, loc, abs, seen, res>>
IRl2(t) == /\ pc[t] = "i_rl2"
           /\ IF rootp = loc[t].pn THEN Goto(t, "i_root0") /\ UNCHANGED rootlock ELSE rootlock' = FALSE /\ Goto(t, "i_rl")
           /\ UNCHANGED <<bd, it, rootp, loc, abs, seen, res>>
IRoot0(t) == /\ pc[t] = "i_root0" /\ SetIV(loc[t].pn, [it[loc[t].pn].ver EXCEPT !.root = FALSE]) /\ Goto(t, "i_sibroot")
             /\ UNCHANGED <<bd, rootp, rootlock, loc, abs, seen, res>>
ISibRoot(t) == /\ pc[t] = "i_sibroot" /\ SetV(loc[t].sib, [VerOf(loc[t].sib) EXCEPT !.root = TRUE]) /\ Goto(t, "i_rootst")
               /\ UNCHANGED <<rootp, rootlock, loc, abs, seen, res>>
IRootSt(t) == /\ pc[t] = "i_rootst" /\ rootp' = loc[t].sib /\ Goto(t, "i_sibpar")
              /\ UNCHANGED <<bd, it, rootlock, loc, abs, seen, res>>
ISibPar(t) == /\ pc[t] = "i_sibpar" /\ SetPar(loc[t].sib, NULL) /\ Goto(t, "i_runl")
              /\ UNCHANGED <<rootp, rootlock, loc, abs, seen, res>>
IRUnl(t) == /\ pc[t] = "i_runl" /\ rootlock' = FALSE /\ Goto(t, "i_punl")
            /\ UNCHANGED <<bd, it, rootp, loc, abs, seen, res>>
\* the interior has an interior parent: the survivor takes its place there
IRoot0P(t) == /\ pc[t] = "i_root0p" /\ SetIV(loc[t].pn, [it[loc[t].pn].ver EXCEPT !.root = FALSE]) /\ Goto(t, "i_swap")
              /\ UNCHANGED <<bd, rootp, rootlock, loc, abs, seen, res>>
ISwap(t) == /\ pc[t] = "i_swap" /\ LET g == loc[t].pn2 IN
               IF \E j \in 0..F : it[g].ch[j] = loc[t].pn
               THEN LET j == CHOOSE j \in 0..F : it[g].ch[j] = loc[t].pn /\ \A j2 \in 0..(j - 1) : it[g].ch[j2] # loc[t].pn IN it' = [it EXCEPT ![g].ch[j] = loc[t].sib]
               ELSE UNCHANGED it       \* "unreachable path" of swap_child
            /\ Goto(t, "i_sibpar2") /\ UNCHANGED <<bd, rootp, rootlock, loc, abs, seen, res>>
ISibPar2(t) == /\ pc[t] = "i_sibpar2" /\ SetPar(loc[t].sib, loc[t].pn2) /\ Goto(t, "i_nunl")
               /\ UNCHANGED <<rootp, rootlock, loc, abs, seen, res>>
INUnl(t) == /\ pc[t] = "i_nunl" /\ SetIV(loc[t].pn2, Unl(it[loc[t].pn2].ver)) /\ Goto(t, "i_punl")
            /\ UNCHANGED <<bd, rootp, rootlock, loc, abs, seen, res>>
IPUnl(t) == /\ pc[t] = "i_punl" /\ SetIV(loc[t].pn, Unl(it[loc[t].pn].ver)) /\ Ret(t, <<"OK", 0>>)
            /\ UNCHANGED <<bd, rootp, rootlock, loc, abs, seen>>
Step(t) == Start(t) \/ G0(t) \/ FB(t) \/ GC1(t) \/ GC2(t) \/ GC3(t) \/ GC4(t) \/ LV1(t) \/ PermLd(t) \/ LV2(t) \/ GVal(t) \/ GFc(t)
           \/ RFc0(t) \/ Lock(t) \/ Chk(t) \/ PUndel(t) \/ PSlot(t) \/ PPub(t) \/ PSet(t) \/ PUnlock(t)
           \/ S1(t) \/ S3a(t) \/ S3(t) \/ S3b(t) \/ SMove(t) \/ SPerm(t) \/ S6(t) \/ S7a(t) \/ S7b(t) \/ U1(t) \/ U2(t)
           \/ LpLd(t) \/ SRl(t) \/ SRl2(t) \/ LpL(t) \/ LpC(t) \/ N1a(t) \/ N1b(t) \/ N1c(t) \/ N2(t) \/ N3(t) \/ N4(t) \/ N5(t) \/ N6(t)
           \/ X1(t) \/ X2(t) \/ X3(t) \/ X4(t) \/ X5(t) \/ X6(t) \/ XKey(t) \/ XChS(t) \/ XCh(t) \/ XN(t) \/ X9(t)
           \/ RClear(t) \/ RPub(t) \/ RUnlock(t) \/ RDel(t) \/ RPrev(t) \/ RNextFix(t) \/ RPLock(t) \/ RPChk(t) \/ RPNP(t) \/ RPUnl(t)
           \/ RLp(t) \/ RRl(t) \/ RRl2(t) \/ RClrP(t) \/ RClrN(t) \/ RRUnl(t) \/ RLpl(t) \/ RLpc(t) \/ RRoot0(t) \/ RSelfUnl(t)
           \/ IIns(t) \/ YShiftK(t) \/ YShiftC(t) \/ YClrC(t) \/ YClrK(t) \/ YN(t) \/ YUnl(t)
           \/ IDel(t) \/ INkSt(t) \/ ILpLd(t) \/ ILpL(t) \/ ILpC(t) \/ IRl(t) \/ IRl2(t) \/ IRoot0(t) \/ ISibRoot(t) \/ IRootSt(t) \/ ISibPar(t) \/ IRUnl(t)
           \/ IRoot0P(t) \/ ISwap(t) \/ ISibPar2(t) \/ INUnl(t) \/ IPUnl(t)
AllDone == \A t \in Threads : pc[t] = "done"
Next == (\E t \in Threads : Step(t)) \/ (AllDone /\ UNCHANGED vars)
Spec == Init /\ [][Next]_vars
FairSpec == Spec /\ \A t \in Threads : WF_vars(Step(t))
\* ---------------------------------------------------------------- properties
ResOK(r) == IF r.op = "get" /\ r.st = "NOT_EXIST" THEN ABSENT \in r.sn[r.k]
            ELSE IF r.op = "get" THEN r.w # 0 /\ r.w \in r.sn[r.k]
            ELSE IF r.op = "rem" /\ r.st = "NOT_FOUND" THEN ABSENT \in r.sn[r.k]
            ELSE TRUE
LinOK == \A t \in Threads : \A i \in 1..Len(res[t]) : ResOK(res[t][i])
\* the collapse at the root and the creation of a new root happen under the root lock, on the node that is the root
RootOpsOK == /\ \A t \in Threads : pc[t] \in {"i_root0", "i_sibroot", "i_rootst"} => rootp = loc[t].pn /\ rootlock
             /\ \A t \in Threads : pc[t] \in {"n1a", "n1b", "n1c", "n2", "n3", "n4"} => rootp = loc[t].b /\ rootlock
\* the swap happens in the node that is the interior's parent, under that node's lock, and finds the interior there
SwapOK == \A t \in Threads : pc[t] \in {"i_root0p", "i_swap"} =>
             /\ it[loc[t].pn2].ver.lk /\ (pc[t] = "i_swap" => \E j \in 0..it[loc[t].pn2].n : it[loc[t].pn2].ch[j] = loc[t].pn)
             /\ ~it[loc[t].pn2].ver.del
\* C08 at quiescence, any depth
RECURSIVE Leaves(_), SubKeys(_)
Leaves(n) == IF n \in Borders THEN <<n>>
             ELSE LET RECURSIVE cat(_) cat(i) == IF i > it[n].n THEN <<>> ELSE Leaves(it[n].ch[i]) \o cat(i + 1) IN cat(0)
KeysOf(b) == {bd[b].ks[bd[b].perm[i]] : i \in 1..Len(bd[b].perm)}
SubKeys(n) == IF n \in Borders THEN KeysOf(n) ELSE UNION {SubKeys(it[n].ch[i]) : i \in 0..it[n].n}
RECURSIVE Inner(_)
Inner(n) == IF n \in Borders THEN {} ELSE {n} \cup UNION {Inner(it[n].ch[i]) : i \in 0..it[n].n}
Sorted(b) == \A i \in 1..(Len(bd[b].perm) - 1) : bd[b].ks[bd[b].perm[i]] < bd[b].ks[bd[b].perm[i + 1]]
Holds(b, k) == Lookup(b, bd[b].perm, k) # NoSlot /\ bd[b].lv[Lookup(b, bd[b].perm, k)] = abs[k]
Quiescent == AllDone =>
   /\ ~rootlock /\ (\A n \in Borders : Stable(bd[n].ver)) /\ (\A m \in Interiors : Stable(it[m].ver))
   /\ VerOf(rootp).root /\ ParentOf(rootp) = NULL
   /\ LET ch == Leaves(rootp) IN
      /\ \A j \in 1..Len(ch) : LET b == ch[j] IN
            /\ Sorted(b) /\ (bd[b].ver.del <=> (Len(bd[b].perm) = 0)) /\ (Len(bd[b].perm) = 0 => b = rootp)
            /\ bd[b].next = (IF j < Len(ch) THEN ch[j + 1] ELSE NULL) /\ bd[b].prev = (IF j > 1 THEN ch[j - 1] ELSE NULL)
            /\ (b # rootp => ~bd[b].ver.root)
      /\ \A m \in Inner(rootp) :
            /\ ~it[m].ver.del /\ it[m].n >= 1 /\ (m # rootp => ~it[m].ver.root)
            /\ \A i \in 0..it[m].n : it[m].ch[i] # NULL /\ ParentOf(it[m].ch[i]) = m
            /\ \A i \in 0..(it[m].n - 1) : (\A k \in SubKeys(it[m].ch[i]) : k < it[m].key[i]) /\ (\A k \in SubKeys(it[m].ch[i + 1]) : k >= it[m].key[i])
      /\ \A k \in Keys : abs[k] # ABSENT <=> \E j \in 1..Len(ch) : Holds(ch[j], k)
Termination == <>AllDone
====
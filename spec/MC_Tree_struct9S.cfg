SPECIFICATION Spec
CONSTANTS
  F = 3
  NVals = 1
  BUGGY_F2 = FALSE
  BUGGY_F3 = FALSE
  KeySet <- Keys9S
  ArgKeys <- Keys9S
INVARIANTS WF AbsOK LastOK GetMissOK MemOK
VIEW View
CHECK_DEADLOCK FALSE

---- MODULE MC_Conc4 ----
EXTENDS YkConc4
O(op, k, v) == [op |-> op, k |-> k, v |-> v]
\* B1 = {2}, B2 = {10, 12, 14} (full, F = 3).  put 13 splits B2 (14 moves to B3, 13 stays), P gets a third child
\* a: split under the existing parent + interior insert vs readers of the moved key and of the new key
PA == (0 :> O("put", 13, 1)) @@ (1 :> O("get", 14, 0)) @@ (2 :> O("get", 13, 0))
\* b: split (parent lock) racing with the removal of B1's last key (collapse of P: lock_parent hand-over to the root lock, new root) + reader
PB == (0 :> O("put", 13, 1)) @@ (1 :> O("rem", 2, 0)) @@ (2 :> O("get", 14, 0))
\* c: the new key goes to the new border (15 > 14)
PC == (0 :> O("put", 15, 1)) @@ (1 :> O("rem", 2, 0)) @@ (2 :> O("get", 15, 0))
\* d: split of the LEFT border (B1 full, B2 one key): B3 is linked between B1 and B2 (next.prev store), vs removal of B2's last key
PD == (0 :> O("put", 5, 1)) @@ (1 :> O("rem", 10, 0)) @@ (2 :> O("get", 6, 0))
\* e: split + interior insert, then the interior delete that keeps the interior (shift): remover of B1's last key + reader of B2
PE == (0 :> O("put", 13, 1)) @@ (1 :> O("rem", 2, 0)) @@ (2 :> O("get", 10, 0))
\* f: two readers and the splitter only (no remover): larger reader state
PF == (0 :> O("put", 11, 1)) @@ (1 :> O("get", 12, 0)) @@ (2 :> O("get", 14, 0))
\* g: full scan (collecting node versions) vs an insert that splits B2 under the scanner, and a reader
PG == (0 :> O("put", 13, 1)) @@ (1 :> O("scan", 0, 0)) @@ (2 :> O("get", 13, 0))
\* h: full scan vs split of B2 and removal of B1's last key (collapse / new root under the scanner)
PH == (0 :> O("put", 13, 1)) @@ (1 :> O("scan", 0, 0)) @@ (2 :> O("rem", 2, 0))
\* i: full scan vs a plain insert into B1 (not full) and a remove in B2
PI == (0 :> O("put", 4, 1)) @@ (1 :> O("scan", 0, 0)) @@ (2 :> O("rem", 12, 0))
\* j: full scan vs split of the LEFT border (B3 appears between the border under the scanner and its old next) and removal of B2's last key
PJ == (0 :> O("put", 5, 1)) @@ (1 :> O("scan", 0, 0)) @@ (2 :> O("rem", 10, 0))
\* k: cursor (open + next until the end, collecting node versions) vs an insert that splits B2 and a reader
PK == (0 :> O("put", 13, 1)) @@ (1 :> O("iscan", 0, 0)) @@ (2 :> O("get", 13, 0))
\* l: cursor vs split of B2 and removal of B1's last key (collapse / new root under the cursor)
PL == (0 :> O("put", 13, 1)) @@ (1 :> O("iscan", 0, 0)) @@ (2 :> O("rem", 2, 0))
\* m: cursor vs a plain insert into B1 and a remove in B2
PM == (0 :> O("put", 4, 1)) @@ (1 :> O("iscan", 0, 0)) @@ (2 :> O("rem", 12, 0))
\* n: cursor vs split of the LEFT border and removal of B2's last key
PN == (0 :> O("put", 5, 1)) @@ (1 :> O("iscan", 0, 0)) @@ (2 :> O("rem", 10, 0))
\* o: full scan vs removal of B1's only key (B1 unlinked, its range falls to B2) and a re-insert of that key (lands in B2, under the scanner)
PO == (0 :> O("put", 2, 1)) @@ (1 :> O("scan", 0, 0)) @@ (2 :> O("rem", 2, 0))
\* p: the same with the cursor
PP == (0 :> O("put", 2, 1)) @@ (1 :> O("iscan", 0, 0)) @@ (2 :> O("rem", 2, 0))
\* q: greatest-key query (right-to-left scan, max 1) vs an insert of a new greatest key that splits B2, and a reader
PQ == (0 :> O("put", 15, 1)) @@ (1 :> O("rscan", 0, 0)) @@ (2 :> O("get", 14, 0))
\* r: greatest-key query vs removal of the greatest key and an insert that splits B2 (the greatest keys move to B3)
PR == (0 :> O("put", 13, 1)) @@ (1 :> O("rscan", 0, 0)) @@ (2 :> O("rem", 14, 0))
\* s: greatest-key query vs the removal of B2's only key (B2 unlinked, the greatest key is now in B1) and a re-insert
PS == (0 :> O("put", 10, 1)) @@ (1 :> O("rscan", 0, 0)) @@ (2 :> O("rem", 10, 0))
\* T: an insert strictly between the two keys of a non-full border (Init2 = {10, 14}) next to a scan and a reader
PT == (0 :> O("put", 12, 1)) @@ (1 :> O("scan", 0, 0)) @@ (2 :> O("get", 14, 0))
====

SPECIFICATION FairSpec
CONSTANTS
  CMOD = 4
  Threads = {1, 2, 3}
  Prog <- ProgB
INVARIANTS MutualExclusion StableNeverDirty EqualStableMeansNothingCompleted CountersTrack NoLockLeft
PROPERTIES UnlockEffect Termination

SPECIFICATION Spec
CONSTANTS
  F = 3
  NVals = 1
  BUGGY_F2 = FALSE
  BUGGY_F3 = FALSE
  BUGGY_F15 = FALSE
  BUGGY_F16 = FALSE
  BUGGY_F18 = FALSE
  BUGGY_F20 = FALSE
  BUGGY_F19 = FALSE
  KeySet <- Keys5
  ArgKeys <- Args5
INVARIANTS IscanREq
VIEW View
CHECK_DEADLOCK FALSE

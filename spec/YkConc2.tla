---- MODULE YkConc2 ----
(* Concurrent grain of a ROOT BORDER SPLIT racing with readers: the tree is one full border L (F keys); a writer inserts a new
   key, which splits L into L and R and installs a new interior root P (border_split -> create_interior_parent_of_border,
   border_helper.h); readers run get(k) from the root pointer (interface_get.h, common_helper.h find_border,
   interior_node.h get_child_of, border_node.h get_lv_of).  One action per hooked shared access.
     writer : Lock L / Chk (validate, set inserting) / S1 set splitting / S3 L.next := R (R allocated with a copy of L's locked+dirty
              version) / per moved entry: SMove (copy to R, clear the slot in L) , SPerm (L.perm shrinks) / S6 R.perm := identity /
              S7a write the new entry / S7b publish its permutation (commit) / RL take the root lock / N1a clear root flag of L /
              N1b clear root flag of R / N1c L.parent, R.parent := P (P built privately: root, locked, inserting) /
              N2 unlock L / N3 unlock R / N4 root pointer := P / N5 unlock P / N6 release the root lock
     reader : G0 load root pointer / FB stable(root) (not root -> G0) / interior: GC1 n_keys + key search, GC2 child load,
              GC3 stable(child), GC4 stable(P) again (changed: vsplit -> FB, else adopt and GC1) /
              border: LV1, PermLd, LV2, [GVal, GFc] as in YkConc, with "vsplit changed or deleted" -> G0
   Ghosts abs / seen / res as in YkConc.  Switches reproduce classes of seeded defects:
     NO_SPLIT_BIT   the writer does not set `splitting` (vsplit does not change at unlock)
     NO_FINAL_CHECK get returns without the final stable-version check *)
EXTENDS Naturals, Sequences, FiniteSets, TLC
CONSTANTS F, Readers, NewKey, GetKeys,      \* GetKeys: [Readers -> key]
          NO_SPLIT_BIT, NO_FINAL_CHECK
W == 0                                        \* the writer's thread id
Threads == Readers \cup {W}
Keys == (1..(2 * F + 1))
ABSENT == 0
NoSlot == 99
Slots == 0..(F-1)
NodeIds == {1, 2, 3}                          \* L, R, P
NULL == 0
VARIABLES nd,        \* [1..2 -> border record], nd[2] valid once allocated
          pnode,     \* interior root P: [ver, n, key, ch0, ch1]
          rootp, rootlock,
          pc, loc, abs, seen, res
vars == <<nd, pnode, rootp, rootlock, pc, loc, abs, seen, res>>
V0 == [lk |-> FALSE, ins |-> FALSE, spl |-> FALSE, del |-> FALSE, root |-> FALSE, vi |-> 0, vs |-> 0]
Stable(v) == ~v.lk /\ ~v.ins /\ ~v.spl
Unl(v) == [v EXCEPT !.lk = FALSE, !.ins = FALSE, !.spl = FALSE, !.vi = IF v.ins THEN v.vi + 1 ELSE v.vi, !.vs = IF v.spl THEN v.vs + 1 ELSE v.vs]
InitKey(i) == 2 * i            \* L holds keys 2, 4, .., 2F  (values 100 + key)
EmptyB == [ver |-> V0, perm |-> <<>>, ks |-> [s \in Slots |-> 0], lv |-> [s \in Slots |-> 0], next |-> NULL, parent |-> NULL]
L0 == [vfb |-> V0, v |-> V0, b |-> 1, idx |-> NoSlot, w |-> 0, root |-> 1, pv |-> V0, ci |-> 0, child |-> 1, cv |-> V0, mv |-> 1]
Init == /\ nd = [n \in {1, 2} |-> IF n = 1 THEN [EmptyB EXCEPT !.ver = [V0 EXCEPT !.root = TRUE, !.vi = F], !.perm = [i \in 1..F |-> i - 1],
                                                          !.ks = [s \in Slots |-> InitKey(s + 1)], !.lv = [s \in Slots |-> 100 + InitKey(s + 1)]]
                                   ELSE EmptyB]
        /\ pnode = [ver |-> V0, n |-> 0, key |-> 0, ch0 |-> NULL, ch1 |-> NULL]
        /\ rootp = 1 /\ rootlock = FALSE
        /\ pc = [t \in Threads |-> "start"] /\ loc = [t \in Threads |-> L0]
        /\ abs = [k \in Keys |-> IF \E i \in 1..F : InitKey(i) = k THEN 100 + k ELSE ABSENT]
        /\ seen = [t \in Threads |-> {}] /\ res = [t \in Threads |-> <<>>]
KeyOf(t) == IF t = W THEN NewKey ELSE GetKeys[t]
InFlight(t) == pc[t] \notin {"start", "done"}
Lookup(b, p, k) == IF \E i \in 1..Len(p) : nd[b].ks[p[i]] = k THEN p[CHOOSE i \in 1..Len(p) : nd[b].ks[p[i]] = k] ELSE NoSlot
RankOf(b, p, k) == Cardinality({i \in 1..Len(p) : nd[b].ks[p[i]] < k}) + 1
InsertAt(p, r, s) == SubSeq(p, 1, r-1) \o <<s>> \o SubSeq(p, r, Len(p))
FreeSlot(p) == CHOOSE s \in Slots : (\A i \in 1..Len(p) : p[i] # s) /\ (\A s2 \in Slots : (\A i \in 1..Len(p) : p[i] # s2) => s <= s2)
Goto(t, l) == pc' = [pc EXCEPT ![t] = l]
Commit(k, b) == /\ abs' = [abs EXCEPT ![k] = b]
                /\ seen' = [t \in Threads |-> IF InFlight(t) /\ KeyOf(t) = k THEN seen[t] \cup {b} ELSE seen[t]]
Ret(t, r) == res' = [res EXCEPT ![t] = Append(@, [k |-> KeyOf(t), st |-> r[1], w |-> r[2], sn |-> seen[t]])] /\ Goto(t, "done")
VerOf(n) == IF n = 3 THEN pnode.ver ELSE nd[n].ver
Keep == F \div 2 + 1
\* ---------------------------------------------------------------- common: invocation, root load, find_border
Start(t) == /\ pc[t] = "start" /\ seen' = [seen EXCEPT ![t] = {abs[KeyOf(t)]}] /\ loc' = [loc EXCEPT ![t] = L0] /\ Goto(t, "g0")
            /\ UNCHANGED <<nd, pnode, rootp, rootlock, abs, res>>
G0(t) == /\ pc[t] = "g0" /\ loc' = [loc EXCEPT ![t].root = rootp] /\ Goto(t, "fb")
         /\ UNCHANGED <<nd, pnode, rootp, rootlock, abs, seen, res>>
FB(t) == /\ pc[t] = "fb" /\ Stable(VerOf(loc[t].root))
         /\ LET r == loc[t].root v == VerOf(r) IN
            IF ~v.root THEN Goto(t, "g0") /\ UNCHANGED loc
            ELSE IF r = 3 THEN loc' = [loc EXCEPT ![t].pv = v] /\ Goto(t, "gc1")
            ELSE loc' = [loc EXCEPT ![t].b = r, ![t].vfb = v] /\ Goto(t, "lv1")
         /\ UNCHANGED <<nd, pnode, rootp, rootlock, abs, seen, res>>
\* get_child_of on P
GC1(t) == /\ pc[t] = "gc1" /\ loc' = [loc EXCEPT ![t].ci = IF pnode.n >= 1 /\ KeyOf(t) < pnode.key THEN 0 ELSE pnode.n] /\ Goto(t, "gc2")
          /\ UNCHANGED <<nd, pnode, rootp, rootlock, abs, seen, res>>
GC2(t) == /\ pc[t] = "gc2" /\ LET c == IF loc[t].ci = 0 THEN pnode.ch0 ELSE pnode.ch1 IN
             IF c = NULL THEN Goto(t, "fb") /\ UNCHANGED loc ELSE loc' = [loc EXCEPT ![t].child = c] /\ Goto(t, "gc3")
          /\ UNCHANGED <<nd, pnode, rootp, rootlock, abs, seen, res>>
GC3(t) == /\ pc[t] = "gc3" /\ Stable(nd[loc[t].child].ver) /\ loc' = [loc EXCEPT ![t].cv = nd[loc[t].child].ver] /\ Goto(t, "gc4")
          /\ UNCHANGED <<nd, pnode, rootp, rootlock, abs, seen, res>>
GC4(t) == /\ pc[t] = "gc4" /\ Stable(pnode.ver)
          /\ LET l == loc[t] IN
             IF pnode.ver = l.pv /\ ~l.cv.del THEN loc' = [loc EXCEPT ![t].b = l.child, ![t].vfb = l.cv] /\ Goto(t, "lv1")
             ELSE IF pnode.ver.vs # l.pv.vs \/ pnode.ver.del THEN Goto(t, "fb") /\ UNCHANGED loc
             ELSE loc' = [loc EXCEPT ![t].pv = pnode.ver] /\ Goto(t, "gc1")
          /\ UNCHANGED <<nd, pnode, rootp, rootlock, abs, seen, res>>
\* get_lv_of on border loc.b
LV1(t) == /\ pc[t] = "lv1" /\ Stable(nd[loc[t].b].ver) /\ loc' = [loc EXCEPT ![t].v = nd[loc[t].b].ver] /\ Goto(t, "permld")
          /\ UNCHANGED <<nd, pnode, rootp, rootlock, abs, seen, res>>
PermLd(t) == /\ pc[t] = "permld" /\ loc' = [loc EXCEPT ![t].idx = Lookup(loc[t].b, nd[loc[t].b].perm, KeyOf(t))] /\ Goto(t, "lv2")
             /\ UNCHANGED <<nd, pnode, rootp, rootlock, abs, seen, res>>
LV2(t) == /\ pc[t] = "lv2" /\ Stable(nd[loc[t].b].ver)
          /\ LET l == loc[t] v == nd[l.b].ver IN
             IF v # l.v THEN loc' = [loc EXCEPT ![t].v = v] /\ Goto(t, "permld") /\ UNCHANGED res
             ELSE IF l.v.vs # l.vfb.vs \/ (l.v.del /\ ~l.v.root) THEN Goto(t, "g0") /\ UNCHANGED <<loc, res>>
             ELSE IF t = W THEN Goto(t, "lock") /\ UNCHANGED <<loc, res>>                 \* the writer's key is absent: insert path
             ELSE IF l.idx = NoSlot THEN Ret(t, <<"NOT_EXIST", 0>>) /\ UNCHANGED loc
             ELSE Goto(t, "g_val") /\ UNCHANGED <<loc, res>>
          /\ UNCHANGED <<nd, pnode, rootp, rootlock, abs, seen>>
GVal(t) == /\ pc[t] = "g_val" /\ loc' = [loc EXCEPT ![t].w = nd[loc[t].b].lv[loc[t].idx]]
           /\ (IF NO_FINAL_CHECK THEN Ret(t, <<"OK", nd[loc[t].b].lv[loc[t].idx]>>) ELSE Goto(t, "g_fc") /\ UNCHANGED res)
           /\ UNCHANGED <<nd, pnode, rootp, rootlock, abs, seen>>
GFc(t) == /\ pc[t] = "g_fc" /\ Stable(nd[loc[t].b].ver)
          /\ LET l == loc[t] v == nd[l.b].ver IN
             IF v.vs # l.vfb.vs \/ (v.del /\ ~v.root) THEN Goto(t, "g0") /\ UNCHANGED res
             ELSE IF v.vi # l.v.vi THEN Goto(t, "lv1") /\ UNCHANGED res
             ELSE IF l.w = 0 THEN Goto(t, "lv1") /\ UNCHANGED res
             ELSE Ret(t, <<"OK", l.w>>)
          /\ UNCHANGED <<nd, pnode, rootp, rootlock, loc, abs, seen>>
\* ---------------------------------------------------------------- the writer: insert with border split and new interior root
UpdN(n, r) == nd' = [nd EXCEPT ![n] = r]
Lock(t) == /\ t = W /\ pc[t] = "lock" /\ ~nd[1].ver.lk /\ UpdN(1, [nd[1] EXCEPT !.ver.lk = TRUE]) /\ Goto(t, "chk")
           /\ UNCHANGED <<pnode, rootp, rootlock, loc, abs, seen, res>>
Chk(t) == /\ t = W /\ pc[t] = "chk"        \* nobody else writes: validation passes; set the inserting bit
          /\ UpdN(1, [nd[1] EXCEPT !.ver.ins = TRUE]) /\ Goto(t, "s1")
          /\ UNCHANGED <<pnode, rootp, rootlock, loc, abs, seen, res>>
S1(t) == /\ t = W /\ pc[t] = "s1" /\ UpdN(1, [nd[1] EXCEPT !.ver.spl = ~NO_SPLIT_BIT]) /\ Goto(t, "s3")
         /\ UNCHANGED <<pnode, rootp, rootlock, loc, abs, seen, res>>
\* R is allocated (invisible) with a copy of L's version, then linked behind L
S3(t) == /\ t = W /\ pc[t] = "s3"
         /\ nd' = [nd EXCEPT ![2] = [EmptyB EXCEPT !.ver = nd[1].ver], ![1].next = 2]
         /\ loc' = [loc EXCEPT ![t].mv = 1] /\ Goto(t, "smove")
         /\ UNCHANGED <<pnode, rootp, rootlock, abs, seen, res>>
SMove(t) == /\ t = W /\ pc[t] = "smove"
            /\ LET src == nd[1].perm[Keep + 1] dst == loc[t].mv - 1 IN
               nd' = [nd EXCEPT ![2].ks[dst] = nd[1].ks[src], ![2].lv[dst] = nd[1].lv[src], ![1].ks[src] = 0, ![1].lv[src] = 0]
            /\ Goto(t, "sperm") /\ UNCHANGED <<pnode, rootp, rootlock, loc, abs, seen, res>>
SPerm(t) == /\ t = W /\ pc[t] = "sperm"
            /\ UpdN(1, [nd[1] EXCEPT !.perm = SubSeq(@, 1, Keep) \o SubSeq(@, Keep + 2, Len(@))])
            /\ IF loc[t].mv = F - Keep THEN Goto(t, "s6") /\ UNCHANGED loc ELSE loc' = [loc EXCEPT ![t].mv = @ + 1] /\ Goto(t, "smove")
            /\ UNCHANGED <<pnode, rootp, rootlock, abs, seen, res>>
S6(t) == /\ t = W /\ pc[t] = "s6" /\ UpdN(2, [nd[2] EXCEPT !.perm = [i \in 1..(F - Keep) |-> i - 1]]) /\ Goto(t, "s7a")
         /\ UNCHANGED <<pnode, rootp, rootlock, loc, abs, seen, res>>
Side == IF NewKey < nd[2].ks[0] THEN 1 ELSE 2
S7a(t) == /\ t = W /\ pc[t] = "s7a"
          /\ LET b == Side s == FreeSlot(nd[b].perm) IN
             /\ nd' = [nd EXCEPT ![b].ks[s] = NewKey, ![b].lv[s] = 1] /\ loc' = [loc EXCEPT ![t].b = b, ![t].idx = s]
          /\ Goto(t, "s7b") /\ UNCHANGED <<pnode, rootp, rootlock, abs, seen, res>>
S7b(t) == /\ t = W /\ pc[t] = "s7b"
          /\ LET b == loc[t].b IN UpdN(b, [nd[b] EXCEPT !.perm = InsertAt(@, RankOf(b, @, NewKey), loc[t].idx)])
          /\ Commit(NewKey, 1) /\ Goto(t, "rl") /\ UNCHANGED <<pnode, rootp, rootlock, loc, res>>
RL(t) == /\ t = W /\ pc[t] = "rl" /\ ~rootlock /\ rootlock' = TRUE /\ Goto(t, "n1a")
         /\ UNCHANGED <<nd, pnode, rootp, loc, abs, seen, res>>
N1a(t) == /\ t = W /\ pc[t] = "n1a" /\ UpdN(1, [nd[1] EXCEPT !.ver.root = FALSE]) /\ Goto(t, "n1b")
          /\ UNCHANGED <<pnode, rootp, rootlock, loc, abs, seen, res>>
N1b(t) == /\ t = W /\ pc[t] = "n1b" /\ UpdN(2, [nd[2] EXCEPT !.ver.root = FALSE])
          /\ pnode' = [ver |-> [V0 EXCEPT !.root = TRUE, !.ins = TRUE, !.lk = TRUE], n |-> 1, key |-> nd[2].ks[0], ch0 |-> 1, ch1 |-> 2]
          /\ Goto(t, "n1c") /\ UNCHANGED <<rootp, rootlock, loc, abs, seen, res>>
N1c(t) == /\ t = W /\ pc[t] = "n1c" /\ nd' = [nd EXCEPT ![1].parent = 3, ![2].parent = 3] /\ Goto(t, "n2")
          /\ UNCHANGED <<pnode, rootp, rootlock, loc, abs, seen, res>>
N2(t) == /\ t = W /\ pc[t] = "n2" /\ UpdN(1, [nd[1] EXCEPT !.ver = Unl(@)]) /\ Goto(t, "n3")
         /\ UNCHANGED <<pnode, rootp, rootlock, loc, abs, seen, res>>
N3(t) == /\ t = W /\ pc[t] = "n3" /\ UpdN(2, [nd[2] EXCEPT !.ver = Unl(@)]) /\ Goto(t, "n4")
         /\ UNCHANGED <<pnode, rootp, rootlock, loc, abs, seen, res>>
N4(t) == /\ t = W /\ pc[t] = "n4" /\ rootp' = 3 /\ Goto(t, "n5")
         /\ UNCHANGED <<nd, pnode, rootlock, loc, abs, seen, res>>
N5(t) == /\ t = W /\ pc[t] = "n5" /\ pnode' = [pnode EXCEPT !.ver = Unl(@)] /\ Goto(t, "n6")
         /\ UNCHANGED <<nd, rootp, rootlock, loc, abs, seen, res>>
N6(t) == /\ t = W /\ pc[t] = "n6" /\ rootlock' = FALSE /\ Ret(t, <<"OK", 0>>)
         /\ UNCHANGED <<nd, pnode, rootp, loc, abs, seen>>
Step(t) == Start(t) \/ G0(t) \/ FB(t) \/ GC1(t) \/ GC2(t) \/ GC3(t) \/ GC4(t) \/ LV1(t) \/ PermLd(t) \/ LV2(t) \/ GVal(t) \/ GFc(t)
           \/ Lock(t) \/ Chk(t) \/ S1(t) \/ S3(t) \/ SMove(t) \/ SPerm(t) \/ S6(t) \/ S7a(t) \/ S7b(t) \/ RL(t)
           \/ N1a(t) \/ N1b(t) \/ N1c(t) \/ N2(t) \/ N3(t) \/ N4(t) \/ N5(t) \/ N6(t)
AllDone == \A t \in Threads : pc[t] = "done"
Next == (\E t \in Threads : Step(t)) \/ (AllDone /\ UNCHANGED vars)
Spec == Init /\ [][Next]_vars
FairSpec == Spec /\ \A t \in Threads : WF_vars(Step(t))
\* ---------------------------------------------------------------- properties
ResOK(r) == CASE r.st = "NOT_EXIST" -> ABSENT \in r.sn
              [] r.st = "OK" /\ r.w # 0 -> r.w \in r.sn \/ r.k = NewKey
              [] r.st = "OK" -> r.k = NewKey
\* C01 across a split: every get result is a binding of its key during the call
LinOK == \A t \in Readers : \A i \in 1..Len(res[t]) : LET r == res[t][i] IN
            IF r.st = "NOT_EXIST" THEN ABSENT \in r.sn ELSE r.w # 0 /\ r.w \in r.sn
\* C08 at quiescence: new root installed, both borders sorted and bounded by the separator, nothing locked / dirty, chain linked
Quiescent == AllDone =>
   /\ rootp = 3 /\ pnode.ver.root /\ Stable(pnode.ver) /\ Stable(nd[1].ver) /\ Stable(nd[2].ver) /\ ~rootlock
   /\ ~nd[1].ver.root /\ ~nd[2].ver.root /\ nd[1].next = 2 /\ nd[1].parent = 3 /\ nd[2].parent = 3
   /\ \A b \in {1, 2} : \A i \in 1..(Len(nd[b].perm) - 1) : nd[b].ks[nd[b].perm[i]] < nd[b].ks[nd[b].perm[i + 1]]
   /\ \A i \in 1..Len(nd[1].perm) : nd[1].ks[nd[1].perm[i]] < pnode.key
   /\ \A i \in 1..Len(nd[2].perm) : nd[2].ks[nd[2].perm[i]] >= pnode.key
   /\ \A k \in Keys : abs[k] # ABSENT <=> \E b \in {1, 2} : Lookup(b, nd[b].perm, k) # NoSlot /\ nd[b].lv[Lookup(b, nd[b].perm, k)] = abs[k]
Termination == <>AllDone
====

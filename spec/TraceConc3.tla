---- MODULE TraceConc3 ----
(* Step-level conformance of the real code to YkConc3 (harness/stepdrv3.cpp): border deletion, prev/next unlink, lock_parent and the
   collapse of the interior root on the real tree (fan-out 15) while two other threads run get / put / remove; every logged access
   of the version words of L, R and P, the permutation and slot words, prev / next / parent / child pointers, n_keys, the root pointer
   and the root lock must be the enabled step of the model for that thread, with the same value.  Loads of a thread that holds a
   lock are stuttering unless they are one of the model's load steps (RPrev, RLp, RLpc, RRl2); the re-validation under the lock
   that goes on without a shared write is a silent model step.  The first line carries the programs and the initial key sets;
   runs are separated by reset events that carry the initial version words. *)
EXTENDS YkConc3, Json, IOUtils
Log == ndJsonDeserialize(IOEnv.TRACE)
Meta == Log[1]
ProgT == [t \in 0..(Len(Meta.prog) - 1) |-> [op |-> Meta.prog[t + 1].op, k |-> Meta.prog[t + 1].k, v |-> Meta.prog[t + 1].v]]
InitLT == {Meta.initL[i] : i \in 1..Len(Meta.initL)}
InitRT == {Meta.initR[i] : i \in 1..Len(Meta.initR)}
VARIABLE l
tvars == <<vars, l>>
E == Log[l]
LV(v) == [lk |-> v.lk, ins |-> v.ins, spl |-> v.spl, del |-> v.del, root |-> v.root, vi |-> v.vi, vs |-> v.vs]
LVer(e) == LV(e.ver)
Consume == l <= Len(Log) /\ l' = l + 1
Stutter == UNCHANGED vars
Ev(b) == b = TRUE
\* a thread between its lock and its last unlock: its plain loads are of words only it can change (or are re-checked by a later step)
Owner(t) == pc[t] \notin {"start", "g0", "fb", "gc1", "gc2", "gc3", "gc4", "lv1", "permld", "lv2", "g_val", "g_fc", "r_fc0", "lock", "done"}
Waiting(t) == pc[t] \in {"lock", "r_plock", "r_lpl", "r_rl", "i_rl"}
TInit == Init /\ l = 2 /\ TLCSet(1, 2)
TReset == /\ Consume /\ E.e = "reset"
          /\ Ev(E.permL = [i \in 1..Len(E.permL) |-> i - 1] /\ E.permR = [i \in 1..Len(E.permR) |-> i - 1])
          /\ nd' = Force([n \in {1, 2} |-> IF n = 1 THEN [MkBorder(InitL, NULL, 2) EXCEPT !.ver = LV(E.verL)] ELSE [MkBorder(InitR, 1, NULL) EXCEPT !.ver = LV(E.verR)]])
          /\ pnode' = [ver |-> LV(E.verP), n |-> 1, key |-> MinOf(InitR), ch |-> <<1, 2>>, parent |-> NULL]
          /\ rootp' = 3 /\ rootlock' = FALSE
          /\ pc' = [t \in Threads |-> "start"] /\ loc' = [t \in Threads |-> L0]
          /\ abs' = Force([k \in Keys |-> IF k \in InitL \cup InitR THEN 100 + k ELSE ABSENT])
          /\ seen' = [t \in Threads |-> {}] /\ res' = [t \in Threads |-> <<>>]
TInv == Consume /\ E.e = "inv" /\ Start(E.t)
\* put loads the root pointer twice at its start (null test, then retry_from_root): the second value is the one it uses
G0Again(t) == loc' = [loc EXCEPT ![t].root = rootp] /\ UNCHANGED <<nd, pnode, rootp, rootlock, pc, abs, seen, res>>
TRootLoad == /\ Consume /\ E.e = "root_load" /\ Ev(rootp = E.n)
             /\ LET t == E.t IN
                IF pc[t] = "g0" THEN G0(t)
                ELSE IF pc[t] = "r_rl2" /\ E.n = loc[t].b THEN RRl2(t)
                ELSE IF pc[t] = "fb" /\ Op(t).op = "put" THEN G0Again(t)
                ELSE Ev(Owner(t)) /\ Stutter
TVerLoad == /\ Consume /\ E.e = "ver_load" /\ Ev(VerOf(E.n) = LVer(E))
            /\ LET t == E.t IN
               IF Owner(t) \/ pc[t] = "lock" \/ ~Stable(LVer(E)) THEN Stutter
               ELSE \/ (FB(t) /\ Ev(loc[t].root = E.n)) \/ (GC3(t) /\ Ev(loc[t].child = E.n)) \/ (GC4(t) /\ Ev(E.n = 3))
                    \/ ((LV1(t) \/ LV2(t) \/ GFc(t) \/ RFc0(t)) /\ Ev(loc[t].b = E.n))
TNkeysLoad == Consume /\ E.e = "nkeys_load" /\ Ev(pnode.n = E.v) /\ (IF Owner(E.t) THEN Stutter ELSE GC1(E.t))
TChildLoad == /\ Consume /\ E.e = "child_load" /\ Ev(pnode.ch[E.i + 1] = E.c)
              /\ IF Owner(E.t) THEN Stutter ELSE GC2(E.t) /\ Ev(loc[E.t].ci = E.i)
TPermLoad == /\ Consume /\ E.e = "perm_load" /\ Ev(nd[E.n].perm = E.perm)
             /\ IF Owner(E.t) THEN Stutter ELSE PermLd(E.t) /\ Ev(loc[E.t].b = E.n)
TLvLoad == /\ Consume /\ E.e = "lv_load" /\ Ev(nd[E.n].lv[E.slot] = E.w)
           /\ IF Owner(E.t) THEN Stutter ELSE GVal(E.t) /\ Ev(loc[E.t].b = E.n /\ loc[E.t].idx = E.slot)
TPrevLoad == /\ Consume /\ E.e = "prev_load" /\ Ev(nd[E.n].prev = E.x)
             /\ IF pc[E.t] = "r_prev" THEN RPrev(E.t) /\ Ev(loc[E.t].b = E.n) ELSE Ev(Owner(E.t)) /\ Stutter
TNextLoad == Consume /\ E.e = "next_load" /\ Ev(nd[E.n].next = E.x) /\ Ev(Owner(E.t)) /\ Stutter
TParentLoad == /\ Consume /\ E.e = "parent_load" /\ Ev((IF E.n = 3 THEN pnode.parent ELSE nd[E.n].parent) = E.p)
               /\ LET t == E.t IN
                  IF pc[t] = "r_lp" /\ E.n = loc[t].b THEN RLp(t)
                  ELSE IF pc[t] = "r_lpc" /\ E.n = loc[t].b /\ E.p = loc[t].pn THEN RLpc(t)
                  ELSE Ev(Owner(t)) /\ Stutter
TLock == /\ Consume /\ E.e = "lock"
         /\ LET t == E.t IN
            IF E.n = 3 THEN RLpl(t) /\ pnode'.ver = LVer(E)
            ELSE ((Lock(t) /\ Ev(loc[t].b = E.n)) \/ (RPLock(t) /\ Ev(loc[t].prevn = E.n))) /\ nd'[E.n].ver = LVer(E)
TFlag == /\ Consume /\ E.e = "flag"
         /\ LET t == E.t IN
            IF E.n = 3 THEN (IIns(t) \/ IDel(t) \/ IRoot0(t)) /\ pnode'.ver = LVer(E)
            ELSE /\ \/ (pc[t] = "chk" /\ Chk(t) /\ pc'[t] \in {"p_slot", "p_undel"} /\ Ev(loc[t].b = E.n))
                    \/ ((PUndel(t) \/ RDel(t) \/ RRoot0(t)) /\ Ev(loc[t].b = E.n))
                    \/ (ISibRoot(t) /\ Ev(loc[t].sib = E.n))
                 /\ nd'[E.n].ver = LVer(E)
TUnlock == /\ Consume /\ E.e = "unlock"
           /\ LET t == E.t IN
              IF E.n = 3 THEN ((pc[t] = "r_lpc" /\ RLpc(t) /\ pc'[t] # "r_root0") \/ IPUnl(t)) /\ pnode'.ver = LVer(E)
              ELSE /\ \/ ((Chk(t) \/ PUnlock(t) \/ RUnlock(t) \/ RSelfUnl(t)) /\ Ev(loc[t].b = E.n))
                      \/ (((pc[t] = "r_pchk" /\ RPChk(t) /\ pc'[t] = "r_prev") \/ RPUnl(t)) /\ Ev(loc[t].prevn = E.n))
                   /\ nd'[E.n].ver = LVer(E)
TLvStore == /\ Consume /\ E.e = "lv_store"
            /\ LET t == E.t IN
               /\ Ev(loc[t].b = E.n)
               /\ \/ (RClear(t) /\ Ev(loc[t].idx = E.slot /\ E.w = 0))
                  \/ (PSlotAt(t, E.slot) /\ Ev(E.w = Op(t).v))
                  \/ (PSet(t) /\ Ev(loc[t].idx = E.slot /\ E.w = Op(t).v))
TPermStore == /\ Consume /\ E.e = "perm_store" /\ (RPub(E.t) \/ PPub(E.t)) /\ Ev(loc[E.t].b = E.n) /\ nd'[E.n].perm = E.perm
TPrevStore == /\ Consume /\ E.e = "prev_store"
              /\ LET t == E.t IN
                 /\ \/ (RNextFix(t) /\ Ev(nd[loc[t].b].next = E.n)) \/ (RPNP(t) /\ Ev(nd[loc[t].b].next = E.n)) \/ (RClrP(t) /\ Ev(loc[t].b = E.n))
                 /\ nd'[E.n].prev = E.x
TNextStore == /\ Consume /\ E.e = "next_store"
              /\ LET t == E.t IN
                 /\ \/ (pc[t] = "r_pchk" /\ RPChk(t) /\ pc'[t] # "r_prev" /\ Ev(loc[t].prevn = E.n)) \/ (RClrN(t) /\ Ev(loc[t].b = E.n))
                 /\ nd'[E.n].next = E.x
TNkeysStore == Consume /\ E.e = "nkeys_store" /\ INkSt(E.t) /\ Ev(E.v = 0)
TRootLock == Consume /\ E.e = "root_lock" /\ (RRl(E.t) \/ IRl(E.t))
TRootUnlock == /\ Consume /\ E.e = "root_unlock"
               /\ \/ (pc[E.t] = "r_rl2" /\ RRl2(E.t) /\ pc'[E.t] = "r_rl") \/ RRUnl(E.t) \/ IRUnl(E.t)
TRootStore == Consume /\ E.e = "root_store" /\ IRootSt(E.t) /\ Ev(E.n = loc[E.t].sib)
TParentStore == Consume /\ E.e = "parent_store" /\ ISibPar(E.t) /\ Ev(E.n = loc[E.t].sib /\ E.p = 0)
\* key bytes of an inserted entry
TOther == Consume /\ E.e = "other_store" /\ Ev(pc[E.t] = "p_slot") /\ Stutter
TRet == /\ Consume /\ E.e = "ret" /\ Stutter
        /\ Ev(pc[E.t] = "done" /\ Len(res[E.t]) = 1)
        /\ LET r == res[E.t][1] IN Ev(r.st = E.st /\ (r.op = "get" => r.w = E.w))
TEnd == Consume /\ E.e = "end" /\ Stutter /\ Ev(AllDone)
\* re-validation under the lock that goes on without a shared write: remove -> RClear, update -> PSet
TSilent == /\ l <= Len(Log) /\ UNCHANGED l
           /\ \E t \in Threads : pc[t] = "chk" /\ Chk(t) /\ pc'[t] \in {"r_clear", "p_set"}
TNext == TReset \/ TInv \/ TRootLoad \/ TVerLoad \/ TNkeysLoad \/ TChildLoad \/ TPermLoad \/ TLvLoad \/ TPrevLoad \/ TNextLoad \/ TParentLoad
         \/ TLock \/ TFlag \/ TUnlock \/ TLvStore \/ TPermStore \/ TPrevStore \/ TNextStore \/ TNkeysStore \/ TRootLock \/ TRootUnlock
         \/ TRootStore \/ TParentStore \/ TOther \/ TRet \/ TEnd \/ TSilent
TSpec == TInit /\ [][TNext]_tvars
Record == TLCSet(1, IF l > TLCGet(1) THEN l ELSE TLCGet(1))
Accepted == IF TLCGet(1) = Len(Log) + 1 THEN TRUE ELSE PrintT(<<"STUCK", TLCGet(1), 0>>) /\ FALSE
====

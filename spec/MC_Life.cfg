SPECIFICATION FairSpec
CONSTANTS
  MaxCycles = 3
  BUGGY_F4 = FALSE
INVARIANTS ThreadsAliveWhileRunning NothingLeftAfterFin
PROPERTIES EpochAdvances ReclaimedWhileRunning
CHECK_DEADLOCK FALSE

SPECIFICATION TSpec
VIEW TView
POSTCONDITION Accepted
CHECK_DEADLOCK FALSE

SPECIFICATION FairSpec
CONSTANTS
  CMOD = 4
  Threads = {1, 2, 3}
  Prog <- ProgE
  UNLOCK_ELSE_IF <- SwitchOn
INVARIANTS MutualExclusion StableNeverDirty EqualStableMeansNothingCompleted NoLockLeft CountersTrack
PROPERTIES UnlockEffect Termination

SPECIFICATION Spec
CONSTANTS
  F = 3
  BUGGY_F2 = FALSE
  BUGGY_F3 = FALSE
  BUGGY_F15 = FALSE
  BUGGY_F16 = FALSE
  BUGGY_F18 = FALSE
  BUGGY_F20 = FALSE
  BUGGY_F21 = TRUE
  BUGGY_F19 = FALSE
  KeySet <- K6y
  BuildKeys <- B6y
  MaxW = 3
  CurArgs <- Args6y
INVARIANTS CursorOK
PROPERTY EaAct
VIEW View
CHECK_DEADLOCK FALSE

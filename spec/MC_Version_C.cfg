SPECIFICATION FairSpec
CONSTANTS
  CMOD = 4
  Threads = {1, 2, 3, 4, 5}
  Prog <- ProgC
INVARIANTS MutualExclusion StableNeverDirty EqualStableMeansNothingCompleted NoLockLeft
PROPERTIES UnlockEffect Termination

SPECIFICATION Spec
CONSTANTS
  Bytes = {1, 255}
  Pos = {1, 2, 8}
  TPos = {1, 8}
INVARIANTS TupLessIsIntended StrictTotal SitesAgree Transitive

SPECIFICATION Spec
CONSTANTS
  F = 3
  NVals = 1
  BUGGY_F2 = FALSE
  BUGGY_F3 = FALSE
  BUGGY_F15 = FALSE
  BUGGY_F16 = TRUE
  KeySet <- Keys5G
  ArgKeys <- Args5G
INVARIANTS IscanOK IscanPrefixOK IscanPhantomOK
VIEW View
CHECK_DEADLOCK FALSE

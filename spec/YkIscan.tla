---- MODULE YkIscan ----
(* Sequential (quiescent) transliteration of the cursor: iscan_open = iscan_findfirst (+ iscan_next when it says "continue"),
   iscan_next = iscan_findnext in a loop that pops a finished layer (include/interface_iscan.h), on the node structure of YkTree.
   The cursor context is the stack of layers [key (tuple of the last position), root, bn, cmp, rank]; `cbs` is the sequence of borders
   reported to the node-version callback.  No retries: nothing changes under a sequential cursor.
   Switches reproduce repaired defects of the pinned tree: BUGGY_F15 (no callback in findfirst when start and end continue behind the
   same absent slice), BUGGY_F16 (end-of-border callback skipped when the position equals the max sentinel).  (F13, right-to-left INF
   start keeping key_tuple::max() as position, has no sequential effect once F15 is repaired, so it has no switch here.) *)
EXTENDS YkTree
CONSTANTS BUGGY_F15, BUGGY_F16
FF8 == [i \in 1..W |-> 255]
Z8 == [i \in 1..W |-> 0]
MaxTup == [s |-> FF8, l |-> LINK]
MinTup == [s |-> Z8, l |-> 0]
Sent10 == [s |-> FF8, l |-> LINK + 1]              \* exclusive right-to-left start behind every storable tuple
\* C: [ekey, eep, rtl, skey, sep]   (end key / end point / direction / start key / start point)
DropN(k, n) == IF n >= Len(k) THEN <<>> ELSE SubSeq(k, n + 1, Len(k))
EndTuple(C, layer) == IF ~C.rtl /\ C.eep = "INF" THEN MaxTup ELSE TupOf(DropN(C.ekey, W * layer))
SlotOfTup(bn, tp) == FindSlot(bn, tp)
Elem(key, root, bn, cmp, rank) == [key |-> key, root |-> root, bn |-> bn, cmp |-> cmp, rank |-> rank]
OnePoint(C) == C.skey = C.ekey /\ C.sep = "INC" /\ C.eep = "INC"
\* ---------------------------------------------------------------- iscan_findfirst
RECURSIVE FFLayer(_, _, _, _, _, _, _)
\* root: root of the current layer; tkey: rest of the start key; cmp; stack; cbs
FFLayer(nd, root, tkey, cmp, stack, cbs, C) ==
   LET ktup == IF C.rtl /\ C.sep = "INF" THEN MaxTup ELSE TupOf(tkey)
       b == FindBorderRaw(nd, root, ktup.s, ktup.l)
       bn == nd[b]
       sl == SlotOfTup(bn, ktup)
       layer == Len(stack) IN
   IF bn.ver.del /\ bn.ver.root THEN [st |-> "END", stack |-> stack, out |-> <<>>, cbs |-> Append(cbs, <<bn.ver, b>>)]
   ELSE IF sl # -1 /\ bn.k[sl].l > W THEN
        \* case 1: link: push this layer, go down
        LET st2 == Append(stack, Elem(ktup, root, b, cmp, 0))
            cmp2 == IF cmp = 0 /\ ktup # EndTuple(C, layer) THEN -1 ELSE cmp IN
        FFLayer(nd, bn.lv[sl][2], DropN(tkey, W), cmp2, st2, cbs, C)
   ELSE IF sl # -1 THEN
        \* case 2: the start key itself
        IF C.sep = "INC" THEN [st |-> "OK", stack |-> Append(stack, Elem(ktup, root, b, cmp, 0)), out |-> <<bn.lv[sl][2]>>, cbs |-> cbs]
        ELSE [st |-> "CONT", stack |-> Append(stack, Elem(ktup, root, b, cmp, 0)), out |-> <<>>, cbs |-> cbs]
   ELSE \* case 3: absent
        LET needcb == OnePoint(C) \/ (~BUGGY_F15 /\ cmp = 0 /\ C.eep = "INC" /\ ktup.l > W /\ ktup = EndTuple(C, layer))
            pos == IF C.rtl /\ C.sep = "INF" THEN Sent10 ELSE ktup IN
        [st |-> "CONT", stack |-> Append(stack, Elem(pos, root, b, cmp, 0)), out |-> <<>>, cbs |-> IF needcb THEN Append(cbs, <<bn.ver, b>>) ELSE cbs]
FindFirst(nd, rt, C) == FFLayer(nd, rt, C.skey, IF ~C.rtl /\ C.sep = "INF" THEN -1 ELSE 0, <<>>, <<>>, C)
\* ---------------------------------------------------------------- iscan_findnext (one call) and the loop of iscan_next
SetTop(stack, e) == [stack EXCEPT ![Len(stack)] = e]
RECURSIVE FNBorder(_, _, _, _, _)
\* iterate border top.bn from top.rank on
FNBorder(nd, stack, cbs, C, fuel) ==
   LET top == stack[Len(stack)]
       layer == Len(stack) - 1
       bn == nd[top.bn]
       n == Len(bn.perm)
       ekt == IF top.cmp = 0 THEN EndTuple(C, layer) ELSE (IF C.rtl THEN MinTup ELSE MaxTup)
       i == top.rank IN
   IF fuel = 0 THEN [st |-> "FUEL", stack |-> stack, out |-> <<>>, cbs |-> cbs]
   ELSE IF i >= n THEN
        \* end of the border: report it (unless the range is exhausted exactly at the inclusive end), move to the neighbour
        LET skipcb == (BUGGY_F16 \/ top.cmp = 0) /\ C.eep = "INC" /\ top.key = ekt
            cbs2 == IF skipcb THEN cbs ELSE Append(cbs, <<bn.ver, top.bn>>)
            to == IF C.rtl THEN bn.prev ELSE bn.next IN
        IF to = NULL THEN [st |-> IF top.cmp = 0 THEN "END" ELSE "CONT", stack |-> stack, out |-> <<>>, cbs |-> cbs2]
        ELSE FNBorder(nd, SetTop(stack, [top EXCEPT !.bn = to, !.rank = 0]), cbs2, C, fuel - 1)
   ELSE
   LET sl == bn.perm[IF C.rtl THEN n - i ELSE i + 1]
       kt == bn.k[sl]
       behind == IF C.rtl THEN TupLess(kt, top.key) ELSE TupLess(top.key, kt) IN
   IF ~behind THEN FNBorder(nd, SetTop(stack, [top EXCEPT !.rank = i + 1]), cbs, C, fuel - 1)
   ELSE
   LET inend == IF top.cmp # 0 THEN TRUE
                ELSE IF ~C.rtl THEN (IF C.eep = "INC" THEN ~TupLess(ekt, kt) ELSE TupLess(kt, ekt) \/ (kt = ekt /\ kt.l > W))
                ELSE (IF C.eep = "INC" THEN ~TupLess(kt, ekt) ELSE TupLess(ekt, kt) \/ (kt = ekt /\ kt.l > W)) IN
   IF ~inend THEN [st |-> "END", stack |-> stack, out |-> <<>>,
                   cbs |-> IF C.eep = "INC" /\ top.key = ekt THEN cbs ELSE Append(cbs, <<bn.ver, top.bn>>)]
   ELSE IF kt.l > W THEN
        \* link: report this border, remember the position, start the child layer behind its first / last tuple
        LET child == bn.lv[sl][2]
            ckt == IF C.rtl THEN Sent10 ELSE MinTup
            tb == FindBorderRaw(nd, child, ckt.s, ckt.l)
            cmp2 == IF top.cmp = 0 /\ kt # ekt THEN -1 ELSE top.cmp
            st2 == Append(SetTop(stack, [top EXCEPT !.key = kt, !.rank = i + 1]), Elem(ckt, child, tb, cmp2, 0)) IN
        FNBorder(nd, st2, Append(cbs, <<bn.ver, top.bn>>), C, fuel - 1)
   ELSE [st |-> "OK", stack |-> SetTop(stack, [top EXCEPT !.key = kt, !.rank = i + 1]), out |-> <<bn.lv[sl][2]>>, cbs |-> Append(cbs, <<bn.ver, top.bn>>)]
RECURSIVE NextLoop(_, _, _, _, _)
NextLoop(nd, stack, cbs, C, fuel) ==
   LET r == FNBorder(nd, stack, cbs, C, fuel) IN
   IF r.st = "CONT" THEN
      (IF Len(r.stack) = 1 THEN [r EXCEPT !.st = "END", !.stack = <<>>] ELSE NextLoop(nd, SubSeq(r.stack, 1, Len(r.stack) - 1), r.cbs, C, fuel - 1))
   ELSE r
\* full key of the cursor position: the slices of the stack
FullKey(stack) == LET RECURSIVE cat(_) cat(i) == IF i > Len(stack) THEN <<>> ELSE TupKeyBytes(stack[i].key) \o cat(i + 1) IN cat(1)
\* ---------------------------------------------------------------- a whole cursor run: open, then next until the end or until `limit` more entries
\* (limit = -1: until the end).  Returns [tl (<<key, value>> in cursor order), nv (callback sequence), ended]
RECURSIVE RunLoop(_, _, _, _, _, _, _)
RunLoop(nd, r, tl, C, limit, fuel, dummy) ==
   IF r.st # "OK" THEN [tl |-> tl, nv |-> r.cbs, ended |-> r.st = "END", st |-> r.st]
   ELSE LET tl2 == Append(tl, <<FullKey(r.stack), r.out[1]>>) IN
        IF limit >= 0 /\ Len(tl2) > limit THEN [tl |-> tl2, nv |-> r.cbs, ended |-> FALSE, st |-> "OK"]
        ELSE RunLoop(nd, NextLoop(nd, r.stack, r.cbs, C, fuel), tl2, C, limit, fuel, dummy)
IscanRun(nd, rt, lkey, le, rkey, re, rtl, limit) ==
   LET l2 == IF le = "INF" THEN <<>> ELSE lkey              \* the named API treats an INF left endpoint as ("", INCLUSIVE)
       le2 == IF le = "INF" THEN "INC" ELSE le
       C == [ekey |-> IF rtl THEN l2 ELSE rkey, eep |-> IF rtl THEN le2 ELSE re, rtl |-> rtl, skey |-> IF rtl THEN rkey ELSE l2, sep |-> IF rtl THEN re ELSE le2]
       f == FindFirst(nd, rt, C)
       first == IF f.st = "CONT" THEN NextLoop(nd, f.stack, f.cbs, C, 200) ELSE f IN
   RunLoop(nd, first, <<>>, C, limit, 200, 0)
====

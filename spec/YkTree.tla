---- MODULE YkTree ----
(* The yakushima tree (one storage) at sequential grain: a trie of B+-trees with fan-out F.
   Pure operators on a node map `nd` (id -> node record), a root id and the next free id; one operator per critical
   section of the code (border insert / split, interior insert / split, new root, layer-root replacement, border
   delete / unlink, interior delete_of incl. promotion, parent-border link removal), composed into PutRec / RemoveRec,
   plus the read paths (GetRec, the transliteration of scan / scan_border with its node_version_vec) and mem_usage.
   Border : [t |-> "B", perm (Seq of slots in rank order), k (slot -> tuple), lv (slot -> <<"N">> | <<"V", v>> | <<"L", id>>),
             parent, prev, next, ver]
   Interior: [t |-> "I", n, k (0..F-1 -> tuple), ch (0..F -> id), parent, ver]
   ver = [vi, vs, del, root]  (lock / dirty bits are never set at rest; border bit = t) *)
EXTENDS YkKeys
CONSTANTS F,          \* fan-out (15 in the code; small in exhaustive model checking)
          BUGGY_F2,   \* TRUE: scan with l_end = INF still starts at the border of l_key (defect F2 of the pinned tree)
          BUGGY_F3    \* TRUE: scan_border returns from the link branch without recording the border (defect F3)
NULL == 0
Slots == 0..(F-1)
NoTup == [s |-> Pad(<<>>), l |-> 99]
ZeroTup == [s |-> Pad(<<>>), l |-> 0]
V0 == [vi |-> 0, vs |-> 0, del |-> FALSE, root |-> FALSE]
NewBorder(isroot, parent) == [t |-> "B", perm |-> <<>>, k |-> Force([i \in Slots |-> NoTup]), lv |-> Force([i \in Slots |-> <<"N">>]),
                              parent |-> parent, prev |-> NULL, next |-> NULL, ver |-> [V0 EXCEPT !.root = isroot]]
NewInterior(parent) == [t |-> "I", n |-> 0, k |-> Force([i \in Slots |-> NoTup]), ch |-> Force([i \in 0..F |-> NULL]), parent |-> parent, ver |-> V0]
Ent(b, r) == [k |-> b.k[b.perm[r]], lv |-> b.lv[b.perm[r]]]
InPerm(b, s) == \E q \in 1..Len(b.perm) : b.perm[q] = s
\* border lookup (border_node::get_lv_of): link tuples match any key with the same slice that continues
FindSlot(b, tp) == IF \E r \in 1..Len(b.perm) : b.k[b.perm[r]] = tp THEN b.perm[CHOOSE r \in 1..Len(b.perm) : b.k[b.perm[r]] = tp] ELSE -1
RankIfInsert(b, tp) == Cardinality({r \in 1..Len(b.perm) : TupLess(b.k[b.perm[r]], tp)}) + 1
FreeSlot(b) == CHOOSE s \in Slots : ~InPerm(b, s) /\ \A s2 \in Slots : ~InPerm(b, s2) => s <= s2
InsSeq(p, r, x) == SubSeq(p, 1, r-1) \o <<x>> \o SubSeq(p, r, Len(p))
DelSeq(p, r) == SubSeq(p, 1, r-1) \o SubSeq(p, r+1, Len(p))
\* interior routing (get_child_of): first i with tp < key[i], else n   (children indexed 0..n)
RouteIdx(it, tp) == IF \E i \in 0..(it.n-1) : TupLess(tp, it.k[i]) THEN CHOOSE i \in 0..(it.n-1) : TupLess(tp, it.k[i]) /\ \A j \in 0..(i-1) : ~TupLess(tp, it.k[j]) ELSE it.n
RECURSIVE FindBorder(_, _, _)
FindBorder(nd, n, tp) == IF nd[n].t = "B" THEN n ELSE FindBorder(nd, nd[n].ch[RouteIdx(nd[n], tp)], tp)
\* ---------------------------------------------------------------- insertion
BumpI(b) == [b EXCEPT !.ver.vi = @ + 1]
BumpIS(b) == [b EXCEPT !.ver.vi = @ + 1, !.ver.vs = @ + 1]
PutEntry(b, tp, lvw) == LET s == FreeSlot(b) r == RankIfInsert(b, tp) IN
                        [b EXCEPT !.k[s] = tp, !.lv[s] = lvw, !.perm = InsSeq(@, r, s)]
\* chain of new layers for the rest of a key (insert_lv_at recursion); returns <<nodes, id of first new layer root, nextId>>
RECURSIVE NewChain(_, _, _, _, _)
NewChain(nd, nid, parent, k, v) ==
   LET tp == TupOf(k) IN
   IF tp.l <= W THEN
      LET b == BumpI(PutEntry(NewBorder(TRUE, parent), tp, <<"V", v>>)) IN <<(nid :> b) @@ nd, nid, nid + 1>>
   ELSE LET sub == NewChain(nd, nid + 1, nid, RestOf(k), v)
            b == BumpI(PutEntry(NewBorder(TRUE, parent), tp, <<"L", nid + 1>>)) IN
        <<(nid :> b) @@ sub[1], nid, sub[3]>>
\* interior_node::insert of (sep, right child); precondition n < F
InteriorInsert(it, sep, child) ==
   LET pos == Cardinality({i \in 0..(it.n-1) : ~TupLess(sep, it.k[i])}) IN
   [it EXCEPT !.k = Force([i \in Slots |-> IF i < pos THEN it.k[i] ELSE IF i = pos THEN sep ELSE it.k[i-1]]),
              !.ch = Force([i \in 0..F |-> IF i <= pos THEN it.ch[i] ELSE IF i = pos + 1 THEN child ELSE it.ch[i-1]]),
              !.n = @ + 1, !.ver.vi = @ + 1]
\* after a split of `left` producing `right` with separator sep: fix the parent level (recursive upward)
RECURSIVE InsertUp(_, _, _, _, _, _)
InsertUp(nd, rt, nid, left, right, sep) ==
   LET p == nd[left].parent IN
   IF p = NULL THEN                                     \* left was the tree root: new interior root
      LET ni == [NewInterior(NULL) EXCEPT !.n = 1, !.k[0] = sep, !.ch[0] = left, !.ch[1] = right, !.ver.root = TRUE, !.ver.vi = 1]
          nd2 == (nid :> ni) @@ [nd EXCEPT ![left].parent = nid, ![right].parent = nid, ![left].ver.root = FALSE, ![right].ver.root = FALSE] IN
      <<nd2, nid, nid + 1>>
   ELSE IF nd[p].t = "B" THEN                           \* left was a layer root under border p
      LET ni == [NewInterior(p) EXCEPT !.n = 1, !.k[0] = sep, !.ch[0] = left, !.ch[1] = right, !.ver.root = TRUE, !.ver.vi = 1]
          sl == CHOOSE s \in Slots : nd[p].lv[s] = <<"L", left>>
          nd2 == (nid :> ni) @@ [nd EXCEPT ![left].parent = nid, ![right].parent = nid, ![left].ver.root = FALSE, ![right].ver.root = FALSE,
                                          ![p].lv[sl] = <<"L", nid>>] IN
      <<nd2, rt, nid + 1>>
   ELSE IF nd[p].n < F THEN
      <<[nd EXCEPT ![p] = InteriorInsert(nd[p], sep, right), ![right].parent = p, ![left].ver.root = FALSE, ![right].ver.root = FALSE], rt, nid>>
   ELSE                                                 \* interior split
      LET it == nd[p]
          piv == F \div 2
          pivk == it.k[piv]
          leftI == [it EXCEPT !.n = piv, !.k = Force([i \in Slots |-> IF i < piv THEN it.k[i] ELSE NoTup]),
                             !.ch = Force([i \in 0..F |-> IF i <= piv THEN it.ch[i] ELSE NULL]), !.ver.vs = @ + 1]
          rightI == [NewInterior(it.parent) EXCEPT !.n = F - piv - 1, !.k = Force([i \in Slots |-> IF i < F - piv - 1 THEN it.k[i + piv + 1] ELSE NoTup]),
                             !.ch = Force([i \in 0..F |-> IF i <= F - piv - 1 THEN it.ch[i + piv + 1] ELSE NULL]),
                             !.ver = [it.ver EXCEPT !.vs = @ + 1]]
          goLeft == TupLess(sep, pivk)
          leftI2 == IF goLeft THEN InteriorInsert(leftI, sep, right) ELSE leftI
          rightI2 == IF goLeft THEN rightI ELSE InteriorInsert(rightI, sep, right)
          moved == {rightI2.ch[i] : i \in 0..rightI2.n}
          nd2 == (nid :> rightI2) @@ Force([n \in DOMAIN nd |-> IF n = p THEN leftI2
                                                          ELSE IF n \in moved \/ (n = right /\ ~goLeft) THEN [nd[n] EXCEPT !.parent = nid]
                                                          ELSE IF n = right THEN [nd[n] EXCEPT !.parent = p] ELSE nd[n]])
          nd3 == [nd2 EXCEPT ![left].ver.root = FALSE, ![right].ver.root = FALSE] IN
      InsertUp(nd3, rt, nid + 1, p, nid, pivk)
\* insert (tp, lvw) into border b (tp not present); returns <<nodes, root, nextId, modified, created>>
BorderInsert(nd, rt, nid, b, tp, lvw) ==
   LET bn == nd[b] IN
   IF Len(bn.perm) < F THEN
      <<[nd EXCEPT ![b] = [BumpI(PutEntry(bn, tp, lvw)) EXCEPT !.ver.del = FALSE]], rt, nid, b, NULL>>
   ELSE
      LET keep == F \div 2 + 1
          r == RankIfInsert(bn, tp)
          movedSlots == Force([i \in 1..(F - keep) |-> bn.perm[keep + i]])
          leftB0 == [bn EXCEPT !.perm = SubSeq(bn.perm, 1, keep),
                               !.k = Force([s \in Slots |-> IF \E i \in 1..(F-keep) : movedSlots[i] = s THEN ZeroTup ELSE bn.k[s]]),
                               !.lv = Force([s \in Slots |-> IF \E i \in 1..(F-keep) : movedSlots[i] = s THEN <<"N">> ELSE bn.lv[s]]),
                               !.next = nid]
          rightB0 == [NewBorder(bn.ver.root, bn.parent) EXCEPT
                               !.perm = Force([i \in 1..(F - keep) |-> i - 1]),
                               !.k = Force([s \in Slots |-> IF s < F - keep THEN bn.k[movedSlots[s+1]] ELSE NoTup]),
                               !.lv = Force([s \in Slots |-> IF s < F - keep THEN bn.lv[movedSlots[s+1]] ELSE <<"N">>]),
                               !.prev = b, !.next = bn.next, !.ver = bn.ver]
          first == rightB0.k[0]
          goLeft == TupLess(tp, first)
          leftB == BumpIS(IF goLeft THEN PutEntry(leftB0, tp, lvw) ELSE leftB0)
          rightB == BumpIS(IF goLeft THEN rightB0 ELSE PutEntry(rightB0, tp, lvw))
          movedLayers == {rightB.lv[s][2] : s \in {s2 \in Slots : rightB.lv[s2][1] = "L"}}
          newLayerOfTp == IF lvw[1] = "L" THEN {lvw[2]} ELSE {}
          nd2 == (nid :> rightB) @@ Force([n \in DOMAIN nd |-> IF n = b THEN leftB
                                                         ELSE IF n = bn.next THEN [nd[n] EXCEPT !.prev = nid]
                                                         ELSE IF n \in (movedLayers \ (IF goLeft THEN newLayerOfTp ELSE {})) THEN [nd[n] EXCEPT !.parent = nid]
                                                         ELSE nd[n]])
          up == InsertUp(nd2, rt, nid + 1, b, nid, first) IN
      <<up[1], up[2], up[3], b, nid>>
RECURSIVE PutRec(_, _, _, _, _, _)
\* returns <<nodes, root, nextId, kind, modified, created>>, kind \in {"insert","update"}
PutRec(nd, rt, nid, layerRoot, k, v) ==
   LET tp == TupOf(k)
       b == FindBorder(nd, layerRoot, tp)
       s == FindSlot(nd[b], tp) IN
   IF s # -1 /\ tp.l <= W THEN <<[nd EXCEPT ![b].lv[s] = <<"V", v>>], rt, nid, "update", NULL, NULL>>
   ELSE IF s # -1 THEN PutRec(nd, rt, nid, nd[b].lv[s][2], RestOf(k), v)
   ELSE IF tp.l <= W THEN LET r == BorderInsert(nd, rt, nid, b, tp, <<"V", v>>) IN <<r[1], r[2], r[3], "insert", r[4], r[5]>>
   ELSE LET ch == NewChain(nd, nid, b, RestOf(k), v)
            r == BorderInsert(ch[1], rt, ch[3], b, tp, <<"L", ch[2]>>) IN
        \* the new layer root's parent is whichever border received the link
        LET holder == CHOOSE n \in DOMAIN r[1] : r[1][n].t = "B" /\ \E sl \in Slots : r[1][n].lv[sl] = <<"L", ch[2]>> /\ InPerm(r[1][n], sl) IN
        <<[r[1] EXCEPT ![ch[2]].parent = holder], r[2], r[3], "insert", r[4], r[5]>>
\* ---------------------------------------------------------------- removal
\* interior_node::delete_of: remove child c from interior p; returns <<nodes, root>>
InteriorDeleteOf(nd, rt, p, c) ==
   LET it == nd[p]
       i == CHOOSE j \in 0..it.n : it.ch[j] = c IN
   IF it.n > 1 THEN
      LET dk == IF i = 0 THEN 0 ELSE i - 1      \* index of the key that disappears
          it2 == [it EXCEPT !.k = Force([j \in Slots |-> IF j < dk THEN it.k[j] ELSE IF j < it.n - 1 THEN it.k[j+1] ELSE NoTup]),
                            !.ch = Force([j \in 0..F |-> IF j < i THEN it.ch[j] ELSE IF j < it.n THEN it.ch[j+1] ELSE NULL]),
                            !.n = @ - 1, !.ver.vi = @ + 1] IN
      <<[nd EXCEPT ![p] = it2], rt>>
   ELSE
      LET sib == it.ch[1 - i]
          pp == it.parent
          dead == [it EXCEPT !.n = 0, !.ver.del = TRUE, !.ver.root = FALSE, !.ver.vi = @ + 1] IN
      IF pp = NULL THEN <<[nd EXCEPT ![p] = dead, ![sib].parent = NULL, ![sib].ver.root = TRUE], sib>>
      ELSE IF nd[pp].t = "B" THEN
         LET sl == CHOOSE s \in Slots : nd[pp].lv[s] = <<"L", p>> IN
         <<[nd EXCEPT ![p] = dead, ![sib].parent = pp, ![sib].ver.root = TRUE, ![pp].lv[sl] = <<"L", sib>>], rt>>
      ELSE LET j == CHOOSE x \in 0..nd[pp].n : nd[pp].ch[x] = p IN
         <<[nd EXCEPT ![p] = dead, ![sib].parent = pp, ![pp].ch[j] = sib], rt>>
\* border_node::delete_of / delete_at: delete the entry at slot s of border b, handle emptying; returns <<nodes, root>>
RECURSIVE BorderDeleteAt(_, _, _, _)
BorderDeleteAt(nd, rt, b, s) ==
   LET bn == nd[b]
       r == CHOOSE q \in 1..Len(bn.perm) : bn.perm[q] = s
       bn2 == [bn EXCEPT !.perm = DelSeq(@, r), !.lv[s] = IF bn.lv[s][1] = "V" THEN <<"N">> ELSE bn.lv[s]] IN
   IF Len(bn.perm) > 1 THEN <<[nd EXCEPT ![b] = bn2], rt>>
   ELSE
      LET bn3 == [bn2 EXCEPT !.ver.del = TRUE]
          ndA == Force([n \in DOMAIN nd |-> IF n = b THEN bn3
                                     ELSE IF n = bn.prev /\ n # NULL THEN [nd[n] EXCEPT !.next = bn.next]
                                     ELSE IF n = bn.next /\ n # NULL THEN [nd[n] EXCEPT !.prev = bn.prev] ELSE nd[n]])
          p == bn.parent IN
      IF p = NULL THEN <<[nd EXCEPT ![b] = bn3], rt>>          \* tree root: stays in place as "deleted root"
      ELSE LET ndB == [ndA EXCEPT ![b].ver.root = FALSE] IN
           IF ndB[p].t = "B" THEN BorderDeleteAt(ndB, rt, p, CHOOSE sl \in Slots : ndB[p].lv[sl] = <<"L", b>> /\ InPerm(ndB[p], sl))
           ELSE InteriorDeleteOf(ndB, rt, p, b)
RECURSIVE RemoveRec(_, _, _, _)
\* returns <<nodes, root, found>>
RemoveRec(nd, rt, layerRoot, k) ==
   LET tp == TupOf(k)
       b == FindBorder(nd, layerRoot, tp)
       s == FindSlot(nd[b], tp) IN
   IF s = -1 THEN <<nd, rt, FALSE>>
   ELSE IF tp.l <= W THEN LET r == BorderDeleteAt(nd, rt, b, s) IN <<r[1], r[2], TRUE>>
   ELSE RemoveRec(nd, rt, nd[b].lv[s][2], RestOf(k))
\* ---------------------------------------------------------------- point read
RECURSIVE GetRec(_, _, _)
\* returns [found, v, b]  (b = border whose version a miss reports)
GetRec(nd, layerRoot, k) ==
   LET tp == TupOf(k) b == FindBorder(nd, layerRoot, tp) s == FindSlot(nd[b], tp) IN
   IF s = -1 THEN [found |-> FALSE, v |-> <<>>, b |-> b]
   ELSE IF tp.l <= W THEN [found |-> TRUE, v |-> nd[b].lv[s][2], b |-> b]
   ELSE GetRec(nd, nd[b].lv[s][2], RestOf(k))
\* ---------------------------------------------------------------- full ascending listing through the leaf chains
RECURSIVE LeftMost(_, _)
LeftMost(nd, n) == IF nd[n].t = "B" THEN n ELSE LeftMost(nd, nd[n].ch[0])
RECURSIVE ListLayer(_, _, _)
RECURSIVE ListBorder(_, _, _, _)
ListBorder(nd, b, r, prefix) ==
   IF b \notin DOMAIN nd THEN << <<prefix, "dangling-next">> >>       \* a next pointer to a node that is not reachable by descent (dump id -1)
   ELSE IF r > Len(nd[b].perm) THEN (IF nd[b].next = NULL THEN <<>> ELSE ListBorder(nd, nd[b].next, 1, prefix))
   ELSE LET e == Ent(nd[b], r) IN
        (IF e.k.l <= W THEN << <<prefix \o TupKeyBytes(e.k), e.lv[2]>> >> ELSE ListLayer(nd, e.lv[2], prefix \o e.k.s)) \o ListBorder(nd, b, r + 1, prefix)
ListLayer(nd, layerRoot, prefix) == ListBorder(nd, LeftMost(nd, layerRoot), 1, prefix)
Listing(nd, rt) == ListLayer(nd, rt, <<>>)
\* ---------------------------------------------------------------- scan (quiescent transliteration of interface_scan.h / scan_helper.h)
Pad8(k) == Pad(SubSeq(k, 1, Min2(Len(k), W)))
\* routing exactly as get_child_of does it for a raw (slice, length byte) search key
RouteRaw(it, sl, kl) ==
   LET less(i) == LET cl == Min2(Min2(kl, it.k[i].l), W) c == CmpN(sl, it.k[i].s, cl) IN c < 0 \/ (c = 0 /\ kl < it.k[i].l) IN
   IF \E i \in 0..(it.n-1) : less(i) THEN CHOOSE i \in 0..(it.n-1) : less(i) /\ \A j \in 0..(i-1) : ~less(j) ELSE it.n
RECURSIVE FindBorderRaw(_, _, _, _)
FindBorderRaw(nd, n, sl, kl) == IF nd[n].t = "B" THEN n ELSE FindBorderRaw(nd, nd[n].ch[RouteRaw(nd[n], sl, kl)], sl, kl)
StartBorder(nd, layerRoot, lkey, rtl) ==
   IF rtl THEN FindBorderRaw(nd, layerRoot, [i \in 1..W |-> 255], W)
   ELSE FindBorderRaw(nd, layerRoot, Pad8(lkey), Len(lkey) % 256)      \* key_length_type is uint8
RecNv(acc, nd, b) == [acc EXCEPT !.nv = Append(@, <<nd[b].ver, b>>)]
Full(acc, max) == max # 0 /\ Len(acc.tl) >= max
RECURSIVE ScanLayer(_, _, _, _, _, _, _, _, _, _)
RECURSIVE ScanBorders(_, _, _, _, _, _, _, _, _, _)
RECURSIVE ScanEntries(_, _, _, _, _, _, _, _, _, _, _, _)
\* entries of border b from position i (1-based, in iteration order); returns [acc, st]
ScanEntries(nd, b, i, pushed, acc, lkey, le, rkey, re, prefix, max, rtl) ==
   LET bn == nd[b] n == Len(bn.perm) IN
   IF i > n THEN [acc |-> IF pushed THEN acc ELSE RecNv(acc, nd, b), st |-> "CONT"]
   ELSE
   LET sl == bn.perm[IF rtl THEN n - i + 1 ELSE i]
       tp == bn.k[sl]
       full == prefix \o SubSeq(tp.s, 1, Min2(tp.l, W))
       skip == ScanEntries(nd, b, i + 1, pushed, acc, lkey, le, rkey, re, prefix, max, rtl)
       endNoRec == [acc |-> acc, st |-> "END"]
       endRec == [acc |-> IF pushed THEN acc ELSE RecNv(acc, nd, b), st |-> "END"] IN
   IF tp.l > W THEN
      LET lc == IF le = "INF" THEN -1 ELSE CmpN(Pad8(lkey), tp.s, W)
          argl == IF le = "INF" \/ lc < 0 THEN <<>> ELSE IF Len(lkey) > W THEN SubSeq(lkey, W + 1, Len(lkey)) ELSE <<>>
          argle == IF le = "INF" \/ lc < 0 THEN "INF" ELSE le
          rc == IF re = "INF" THEN 1 ELSE CmpN(rkey, full, Min2(Len(rkey), Len(full)))
          argr == IF re # "INF" /\ rc = 0 THEN rkey ELSE <<>>
          argre == IF re # "INF" /\ rc = 0 THEN re ELSE "INF" IN
      IF le # "INF" /\ lc > 0 THEN skip
      ELSE IF re # "INF" /\ (rc < 0 \/ (rc = 0 /\ Len(rkey) <= Len(full))) THEN (IF BUGGY_F3 THEN endNoRec ELSE endRec)
      ELSE LET sub == ScanLayer(nd, bn.lv[sl][2], argl, argle, argr, argre, full, acc, max, rtl) IN
           IF Full(sub, max) THEN [acc |-> IF ~BUGGY_F3 /\ ~pushed THEN RecNv(sub, nd, b) ELSE sub, st |-> "END"]
           ELSE ScanEntries(nd, b, i + 1, pushed, sub, lkey, le, rkey, re, prefix, max, rtl)
   ELSE
      LET lcv == CmpN(Pad8(lkey), tp.s, W)
          leftOut == le # "INF" /\ (lcv > 0 \/ (lcv = 0 /\ (Len(lkey) > tp.l \/ (Len(lkey) = tp.l /\ le = "EXC"))))
          rcv == IF re = "INF" THEN 1 ELSE CmpN(rkey, full, Min2(Len(rkey), Len(full)))
          rightIn == re = "INF" \/ rcv > 0 \/ (rcv = 0 /\ (Len(rkey) > Len(full) \/ (Len(rkey) = Len(full) /\ re = "INC")))
          pushedAcc == [tl |-> Append(acc.tl, <<full, bn.lv[sl][2]>>), nv |-> Append(acc.nv, <<bn.ver, b>>)] IN
      IF leftOut THEN skip
      ELSE IF ~rightIn THEN endRec
      ELSE IF Full(pushedAcc, max) THEN [acc |-> pushedAcc, st |-> "END"]
      ELSE ScanEntries(nd, b, i + 1, TRUE, pushedAcc, lkey, le, rkey, re, prefix, max, rtl)
ScanBorders(nd, b, acc, lkey, le, rkey, re, prefix, max, rtl) ==
   LET r == ScanEntries(nd, b, 1, FALSE, acc, lkey, le, rkey, re, prefix, max, rtl) IN
   IF r.st = "END" \/ nd[b].next = NULL THEN r.acc
   ELSE ScanBorders(nd, nd[b].next, r.acc, lkey, le, rkey, re, prefix, max, rtl)
ScanLayer(nd, layerRoot, lkey, le, rkey, re, prefix, acc, max, rtl) ==
   ScanBorders(nd, StartBorder(nd, layerRoot, lkey, rtl), acc, lkey, le, rkey, re, prefix, max, rtl)
\* returns [tl |-> Seq(<<key, v>>), nv |-> Seq(<<ver, border id>>)]
ScanTop(nd, rt, lkey, le, rkey, re, max, rtl) ==
   LET tk == IF ~BUGGY_F2 /\ le = "INF" THEN <<>> ELSE lkey
       b0 == StartBorder(nd, rt, tk, rtl) IN
   IF nd[b0].ver.del /\ nd[b0].ver.root THEN [tl |-> <<>>, nv |-> << <<nd[b0].ver, b0>> >>]
   ELSE ScanBorders(nd, b0, [tl |-> <<>>, nv |-> <<>>], tk, le, rkey, re, <<>>, max, rtl)
\* ---------------------------------------------------------------- canonical renumbering (pre-order); unreachable nodes dropped
RECURSIVE PreOrder(_, _)
RECURSIVE PreKids(_, _, _)
PreKids(nd, kids, i) == IF i > Len(kids) THEN <<>> ELSE PreOrder(nd, kids[i]) \o PreKids(nd, kids, i + 1)
KidsOf(nd, n) == IF nd[n].t = "I" THEN Force([i \in 1..(nd[n].n + 1) |-> nd[n].ch[i-1]])
                 ELSE LET links == SelectSeq(nd[n].perm, LAMBDA sl : nd[n].lv[sl][1] = "L") IN Force([i \in 1..Len(links) |-> nd[n].lv[links[i]][2]])
PreOrder(nd, n) == <<n>> \o PreKids(nd, KidsOf(nd, n), 1)
\* returns <<renumbered nodes, old id -> new id (0 if dropped), next id>>
Canon(nd, rt) ==
   LET ord == PreOrder(nd, rt)
       inv == Force([o \in DOMAIN nd |-> IF \E i \in 1..Len(ord) : ord[i] = o THEN CHOOSE i \in 1..Len(ord) : ord[i] = o ELSE NULL])
       new(o) == IF o = NULL THEN NULL ELSE IF o \in DOMAIN nd THEN inv[o] ELSE NULL
       remap(x) == IF x.t = "I" THEN [x EXCEPT !.ch = Force([i \in 0..F |-> new(x.ch[i])]), !.parent = new(x.parent)]
                   ELSE [x EXCEPT !.lv = Force([sl \in Slots |-> IF x.lv[sl][1] = "L" /\ InPerm(x, sl) THEN <<"L", new(x.lv[sl][2])>>
                                                          ELSE IF x.lv[sl][1] = "L" THEN <<"N">> ELSE x.lv[sl]]),
                                  !.k = Force([sl \in Slots |-> IF InPerm(x, sl) THEN x.k[sl] ELSE NoTup]),
                                  !.parent = new(x.parent), !.prev = new(x.prev), !.next = new(x.next)] IN
   <<Force([i \in 1..Len(ord) |-> remap(nd[ord[i]])]), inv, Len(ord) + 1>>
\* ---------------------------------------------------------------- structural well-formedness (C08)
Reach(nd, rt) == LET RECURSIVE R(_)
                     R(S) == LET S2 == S \cup UNION {IF nd[n].t = "I" THEN {nd[n].ch[i] : i \in 0..nd[n].n}
                                                      ELSE {nd[n].lv[nd[n].perm[r]][2] : r \in {q \in 1..Len(nd[n].perm) : nd[n].lv[nd[n].perm[q]][1] = "L"}} : n \in S}
                             IN IF S2 = S THEN S ELSE R(S2) IN R({rt})
SortedB(b) == \A r \in 1..(Len(b.perm)-1) : TupLess(b.k[b.perm[r]], b.k[b.perm[r+1]])
PermValid(b) == Len(b.perm) <= F /\ \A r1, r2 \in 1..Len(b.perm) : r1 # r2 => b.perm[r1] # b.perm[r2]
RECURSIVE SubKeys(_, _)
\* all tuples stored in the subtree rooted at n (same layer only)
SubKeys(nd, n) == IF nd[n].t = "B" THEN {nd[n].k[nd[n].perm[r]] : r \in 1..Len(nd[n].perm)} ELSE UNION {SubKeys(nd, nd[n].ch[i]) : i \in 0..nd[n].n}
WellFormedNode(nd, rt, n) ==
     IF nd[n].t = "B" THEN
        /\ PermValid(nd[n]) /\ SortedB(nd[n])
        /\ (Len(nd[n].perm) = 0 => n = rt)
        /\ (~nd[n].ver.del \/ (n = rt /\ Len(nd[n].perm) = 0))
        /\ \A r \in 1..Len(nd[n].perm) : LET e == Ent(nd[n], r) IN
              /\ e.k.l \in 0..LINK
              /\ (e.k.l <= W => e.lv[1] = "V") /\ (e.k.l = LINK => e.lv[1] = "L" /\ nd[e.lv[2]].parent = n /\ nd[e.lv[2]].ver.root)
              /\ \A i \in (Min2(e.k.l, W) + 1)..W : e.k.s[i] = 0
        /\ (nd[n].next # NULL => nd[n].next \in DOMAIN nd /\ nd[nd[n].next].t = "B" /\ nd[nd[n].next].prev = n /\ ~nd[nd[n].next].ver.del)
        /\ (nd[n].prev # NULL => nd[n].prev \in DOMAIN nd /\ nd[nd[n].prev].t = "B" /\ nd[nd[n].prev].next = n)
     ELSE
        /\ nd[n].n >= 1 /\ nd[n].n <= F /\ ~nd[n].ver.del
        /\ \A i \in 0..nd[n].n : nd[n].ch[i] # NULL /\ nd[nd[n].ch[i]].parent = n /\ ~nd[nd[n].ch[i]].ver.root
        /\ \A i \in 0..(nd[n].n - 2) : TupLess(nd[n].k[i], nd[n].k[i+1])
        /\ \A i \in 0..nd[n].n : \A tp \in SubKeys(nd, nd[n].ch[i]) :
              (i < nd[n].n => TupLess(tp, nd[n].k[i])) /\ (i > 0 => ~TupLess(tp, nd[n].k[i-1]))
\* leaf chain of every layer = in-order list of its borders
RECURSIVE InOrderBorders(_, _)
InOrderBorders(nd, n) == IF nd[n].t = "B" THEN <<n>>
                         ELSE LET RECURSIVE cat(_) cat(i) == IF i > nd[n].n THEN <<>> ELSE InOrderBorders(nd, nd[n].ch[i]) \o cat(i + 1) IN cat(0)
RECURSIVE ChainFrom(_, _)
ChainFrom(nd, b) == IF b = NULL THEN <<>> ELSE IF b \notin DOMAIN nd THEN <<b>> ELSE <<b>> \o ChainFrom(nd, nd[b].next)
LayerRoots(nd, rt) == {rt} \cup {n \in Reach(nd, rt) : nd[n].parent # NULL /\ nd[nd[n].parent].t = "B"}
ChainOK(nd, rt) == \A lr \in LayerRoots(nd, rt) : LET io == InOrderBorders(nd, lr) IN ChainFrom(nd, io[1]) = io /\ nd[io[1]].prev = NULL
WellFormed(nd, rt) == /\ nd[rt].parent = NULL /\ nd[rt].ver.root
                      /\ \A n \in Reach(nd, rt) : WellFormedNode(nd, rt, n)
                      /\ ChainOK(nd, rt)
\* ---------------------------------------------------------------- mem_usage (C20)
\* sz = [b |-> sizeof(border_node), i |-> sizeof(interior_node), lv |-> sizeof(link_or_value), p |-> sizeof(uintptr_t)]
\* VSize(v) = bytes allocated for value v (0 for inline values)
SeqSum(s) == LET RECURSIVE go(_) go(i) == IF i > Len(s) THEN 0 ELSE s[i] + go(i + 1) IN go(1)
RECURSIVE LevelNodes(_, _, _, _)
\* set of <<node, level>> pairs of the whole storage (next-layer roots one level below the linking border)
LevelNodes(nd, n, lvl, dummy) ==
   {<<n, lvl>>} \cup (IF nd[n].t = "I" THEN UNION {LevelNodes(nd, nd[n].ch[i], lvl + 1, dummy) : i \in 0..nd[n].n}
                      ELSE UNION {LevelNodes(nd, nd[n].lv[nd[n].perm[r]][2], lvl + 1, dummy) : r \in {q \in 1..Len(nd[n].perm) : nd[n].lv[nd[n].perm[q]][1] = "L"}})
MemUsage(nd, rt, sz, VSize(_)) ==
   LET ln == LevelNodes(nd, rt, 0, 0)
       depth == 1 + CHOOSE m \in {p[2] : p \in ln} : \A p \in ln : p[2] <= m
       at(d) == {p[1] : p \in {q \in ln : q[2] = d}}
       vbytes(n) == IF nd[n].t = "I" THEN 0
                    ELSE SeqSum([r \in 1..Len(nd[n].perm) |-> IF nd[n].lv[nd[n].perm[r]][1] = "V" THEN VSize(nd[n].lv[nd[n].perm[r]][2]) ELSE 0])
       usedOf(n) == IF nd[n].t = "I" THEN sz.i - (F + 1 - (nd[n].n + 1)) * sz.p ELSE sz.b - (F - Len(nd[n].perm)) * sz.lv + vbytes(n)
       resOf(n) == (IF nd[n].t = "I" THEN sz.i ELSE sz.b) + vbytes(n)
       occOf(n) == IF nd[n].t = "I" THEN nd[n].n + 1 ELSE Len(nd[n].perm)
       sumOver(S, f(_)) == LET RECURSIVE go(_) go(T) == IF T = {} THEN 0 ELSE LET x == CHOOSE y \in T : TRUE IN f(x) + go(T \ {x}) IN go(S) IN
   [d \in 1..depth |-> [nodes |-> Cardinality(at(d - 1)), used |-> sumOver(at(d - 1), usedOf), reserved |-> sumOver(at(d - 1), resOf),
                        occ |-> sumOver(at(d - 1), occOf), vbytes |-> sumOver(at(d - 1), vbytes)]]
====

---- MODULE YkConc9 ----
(* Concurrent grain of NEXT LAYERS: the tree is the layer-0 root border B0 (node 0) holding short keys and, for the one 8-byte slice S,
   the value tuple (S, 8) and / or the link tuple (S, 9) to the layer-1 root border (node 1; node 2 is the border a later layer creation
   allocates).  Keys: 1..99 short keys of layer 0, 100 = the key that equals S, 100 + x = S followed by the suffix x (lives in layer 1).
   get / put / remove run at the grain of the hooked atomic accesses (interface_get.h, interface_put.h, interface_remove.h,
   border_node.h insert_lv_at / delete_of):
     any border : LV1 PermLd LV2 get_lv_of / get: GVal GFc / Lock Chk (re-validation, inserting mark) / PSlot PPub (commit) PUnlock / PSet (commit) /
                  RClear RPub (commit) RUnlock / RFc0
     descent    : DLv child pointer from the link slot / DFc stable version of the upper border again (vsplit, deleted -> root of all;
                  vinsert -> fetch again) / FB1 stable(child): not root -> root of all
     new layer  : PSlot on a key behind S when B0 has no link: the child border is built privately (root, the key inside), then the link slot
                  is written; PPub publishes (commit)
     layer gone : the remove that empties the layer root: RDel deleted / RLp parent / RLpl lock B0 / RLpc re-check / RRoot0 child.root off /
                  RSelfUnl unlock child / DPub B0's permutation drops the link (the slot keeps the child pointer) / DUnl unlock B0 (version unchanged)
   scan (full range, forward, collecting (version, node) pairs; interface_scan.h / scan_helper.h scan + scan_border, the LINK BRANCH included):
     layer 0    : SEnter / SNext next pointer / SPermS permutation snapshot / per entry SVal slot word + tuple, SChk scan_check_retry /
                  value: push; link: nested scan of the next layer / SRec border without own hits is recorded / SFin final check / SRet
     next layer : LEnter sizes / LRoot1 LRoot2 the two loads of the layer root's version word for its deleted and root flags (not waiting for a stable word) / LFb stable(child) in find_border
                  (not root -> retry) / LSEnter / LNext / LPermS / LVal LChk per entry / LRec / LFin; every failure of the nested scan returns
                  to layer 0, which cleans up what THIS border pushed (SLFail) and reads the border again
   iscan (cursor: open("", INCLUSIVE .. INF), next until the end, forward, no early abort; interface_iscan.h) ACROSS THE LINK:
     open       : IOLv1 IOP IOLv2 get_lv_of of the start tuple (absent) / IOStack permutation snapshot, first stack element
     findnext   : INTop locals from the stack top / INEnt slot word + tuple of the next rank / CK1..CK4 iscan_check_retry with the outcome per call
                  site (CkDone: 1 entry loaded, 2 before a value is returned, 3 end of the border, 4 inside retry_after_fb) /
                  link entry: INChild second load of the slot word (not a link any more -> retry_from_root), callback / INCfb find_border of the
                  child (not root -> retry_from_root), permutation snapshot, stack push / INEnd end of a border: END in layer 0, stack pop in layer 1
     retries    : IRFb retry_after_fb (rewind in the border) / IRRoot retry_from_root: stable version of the saved layer root: deleted or not root ->
                  IRRes1..4 the layer's current root is looked up from the tree root along the link tuple saved for layer 0 (root pointer, stable version
                  and permutation of B0, slot word): no link -> leave the layer (stack pop); another node -> new layer root, IRRoot again; the same deleted
                  node -> IRIsB (a border: the layer is being removed, leave it); else IRFind find_border by the last key
   Ghosts abs / seen / res as in YkConc4 (seen per key).  B0 itself is never emptied by the programs (assumption of this model; YkConc covers the empty root).
   Defect switches: NO_CHILD_ROOT_CLEAR (the removed layer root keeps its root flag: a writer takes it for an empty tree root and inserts
   into the unlinked layer), NO_DESCENT_RECHECK (the child pointer is used without re-validating the upper border: slot reuse turns a value
   word into a "child"), SCAN_NO_CLEANUP (seed C04d: scan_border keeps the tuples it pushed when the nested scan failed and it reads the
   border again: entries in front of the link are returned twice), ISCAN_NO_REWIND (the cursor keeps its rank when retry_after_fb adopted a changed
   permutation: entries shift under it). *)
EXTENDS Naturals, Sequences, FiniteSets, TLC
CONSTANTS F, Keys, Threads,
          Prog,            \* [Threads -> [op : {"get", "put", "rem", "scan"}, k : Keys, v : value id]]
          Init0,           \* short keys (and possibly 100) of B0
          Init1,           \* keys 100 + x of the layer below S ({} : no layer, no link)
          NO_CHILD_ROOT_CLEAR, NO_DESCENT_RECHECK, SCAN_NO_CLEANUP, ISCAN_NO_REWIND
ABSENT == 0
NULL == 9
NoSlot == 99
Slots == 0..(F-1)
Nodes == {0, 1, 2}
LINKORD == 201
VARIABLES nd, pc, loc, abs, seen, res
vars == <<nd, pc, loc, abs, seen, res>>
Force(f) == IF f = f THEN f ELSE f
V0 == [lk |-> FALSE, ins |-> FALSE, spl |-> FALSE, del |-> FALSE, root |-> FALSE, vi |-> 0, vs |-> 0]
Stable(v) == ~v.lk /\ ~v.ins /\ ~v.spl
Unl(v) == [v EXCEPT !.lk = FALSE, !.ins = FALSE, !.spl = FALSE, !.vi = IF v.ins THEN v.vi + 1 ELSE v.vi, !.vs = IF v.spl THEN v.vs + 1 ELSE v.vs]
IsS(k) == k > 100
\* order key of a tuple inside its border: layer 0: short key k -> 2k, the key S -> 200, the link (S, 9) -> 201; layer 1: suffix x -> 2x
Ord0(k) == IF IsS(k) THEN LINKORD ELSE 2 * k
Ord1(k) == 2 * (k - 100)
SeqOfOrd(S) == CHOOSE sq \in [1..Cardinality(S) -> S] : \A i, j \in 1..Cardinality(S) : i < j => sq[i] < sq[j]
EmptyB == [ver |-> V0, perm |-> <<>>, ks |-> [s \in Slots |-> 0], kind |-> [s \in Slots |-> "-"], lv |-> [s \in Slots |-> 0], parent |-> NULL]
\* entries: set of <<ord, kind, lv>>
MkB(E, rootflag, par) == LET n == Cardinality(E) os == SeqOfOrd({e[1] : e \in E}) ent(o) == CHOOSE e \in E : e[1] = o IN
    [EmptyB EXCEPT !.ver = [V0 EXCEPT !.root = rootflag, !.vi = n], !.perm = [i \in 1..n |-> i - 1],
                   !.ks = [s \in Slots |-> IF s < n THEN os[s + 1] ELSE 0], !.kind = [s \in Slots |-> IF s < n THEN ent(os[s + 1])[2] ELSE "-"],
                   !.lv = [s \in Slots |-> IF s < n THEN ent(os[s + 1])[3] ELSE 0], !.parent = par]
L0 == [layer |-> 0, b |-> 0, vfb |-> V0, v |-> V0, idx |-> NoSlot, w |-> 0, child |-> NULL, insd |-> FALSE,
       out |-> <<>>, nv |-> <<>>, snap |-> <<>>, si |-> 1, pushed |-> FALSE, ko |-> 0, kd |-> "-",
       lvfb |-> V0, lsnap |-> <<>>, lsi |-> 1, lpushed |-> FALSE, linit |-> 0, lnvinit |-> 0, lbinit |-> 0, lbnvinit |-> 0,
       st |-> <<>>, lastk |-> 0, perm |-> <<>>, rk |-> 1, cmp |-> 0, ckv |-> V0, ckp |-> <<>>, cc |-> 1, iph |-> "open"]
Init == /\ nd = Force([n \in Nodes |-> IF n = 0 THEN MkB({<<2 * k, "V", 100 + k>> : k \in Init0} \cup (IF Init1 = {} THEN {} ELSE {<<LINKORD, "L", 1>>}), TRUE, NULL)
                                      ELSE IF n = 1 /\ Init1 # {} THEN MkB({<<Ord1(k), "V", 100 + k>> : k \in Init1}, TRUE, 0)
                                      ELSE EmptyB])
        /\ pc = [t \in Threads |-> "start"] /\ loc = [t \in Threads |-> L0]
        /\ abs = Force([k \in Keys |-> IF k \in Init0 \cup Init1 THEN 100 + k ELSE ABSENT])
        /\ seen = [t \in Threads |-> [k \in Keys |-> {}]] /\ res = [t \in Threads |-> <<>>]
Op(t) == Prog[t]
InFlight(t) == pc[t] \notin {"start", "done"}
\* the tuple the thread looks for in its current border
TOrd(t) == IF loc[t].layer = 0 THEN Ord0(Op(t).k) ELSE Ord1(Op(t).k)
Lookup(b, p, o) == IF \E i \in 1..Len(p) : nd[b].ks[p[i]] = o THEN p[CHOOSE i \in 1..Len(p) : nd[b].ks[p[i]] = o] ELSE NoSlot
RankOf(b, p, o) == Cardinality({i \in 1..Len(p) : nd[b].ks[p[i]] < o}) + 1
InsertAt(p, r, s) == SubSeq(p, 1, r-1) \o <<s>> \o SubSeq(p, r, Len(p))
RemoveSlot(p, s) == SelectSeq(p, LAMBDA x : x # s)
FreeSlot(p) == CHOOSE s \in Slots : (\A i \in 1..Len(p) : p[i] # s) /\ (\A s2 \in Slots : (\A i \in 1..Len(p) : p[i] # s2) => s <= s2)
Goto(t, l) == pc' = [pc EXCEPT ![t] = l]
Commit(k, b) == /\ abs' = [abs EXCEPT ![k] = b]
                /\ seen' = Force([t \in Threads |-> IF InFlight(t) /\ (Op(t).op \in {"scan", "iscan"} \/ Op(t).k = k) THEN [seen[t] EXCEPT ![k] = @ \cup {b}] ELSE seen[t]])
Ret(t, r) == res' = [res EXCEPT ![t] = Append(@, [op |-> Op(t).op, k |-> Op(t).k, st |-> r[1], w |-> r[2], sn |-> seen[t], ins |-> loc[t].insd, nv |-> loc[t].nv])] /\ Goto(t, "done")
SetV(n, v) == nd' = [nd EXCEPT ![n].ver = v]
\* ---------------------------------------------------------------- invocation, root, find_border of layer 0 (B0 is always the tree root)
Start(t) == /\ pc[t] = "start" /\ seen' = [seen EXCEPT ![t] = [k \in Keys |-> IF Op(t).op \in {"scan", "iscan"} \/ k = Op(t).k THEN {abs[k]} ELSE {}]] /\ loc' = [loc EXCEPT ![t] = L0] /\ Goto(t, "g0")
            /\ UNCHANGED <<nd, abs, res>>
G0(t) == /\ pc[t] = "g0" /\ loc' = [loc EXCEPT ![t].layer = 0, ![t].b = 0] /\ Goto(t, "fb") /\ UNCHANGED <<nd, abs, seen, res>>
FB(t) == /\ pc[t] = "fb" /\ Stable(nd[0].ver) /\ loc' = [loc EXCEPT ![t].vfb = nd[0].ver] /\ Goto(t, IF Op(t).op = "scan" THEN "s_enter" ELSE IF Op(t).op = "iscan" THEN "io_lv1" ELSE "lv1") /\ UNCHANGED <<nd, abs, seen, res>>
\* ---------------------------------------------------------------- get_lv_of and the operation's decision, in either layer
LV1(t) == /\ pc[t] = "lv1" /\ Stable(nd[loc[t].b].ver) /\ loc' = [loc EXCEPT ![t].v = nd[loc[t].b].ver] /\ Goto(t, "permld")
          /\ UNCHANGED <<nd, abs, seen, res>>
PermLd(t) == /\ pc[t] = "permld" /\ loc' = [loc EXCEPT ![t].idx = Lookup(loc[t].b, nd[loc[t].b].perm, TOrd(t))] /\ Goto(t, "lv2")
             /\ UNCHANGED <<nd, abs, seen, res>>
LV2(t) == /\ pc[t] = "lv2" /\ Stable(nd[loc[t].b].ver)
          /\ LET l == loc[t] v == nd[l.b].ver o == Op(t) IN
             IF v # l.v THEN loc' = [loc EXCEPT ![t].v = v] /\ Goto(t, "permld") /\ UNCHANGED res
             ELSE IF l.v.vs # l.vfb.vs \/ (l.v.del /\ ~l.v.root) THEN Goto(t, "g0") /\ UNCHANGED <<loc, res>>
             ELSE IF l.idx = NoSlot THEN
                    (IF o.op = "get" THEN Ret(t, <<"NOT_EXIST", 0>>) /\ UNCHANGED loc
                     ELSE Goto(t, IF o.op = "rem" THEN "r_fc0" ELSE "lock") /\ UNCHANGED <<loc, res>>)
             ELSE IF l.layer = 0 /\ IsS(o.k) THEN Goto(t, "d_lv") /\ UNCHANGED <<loc, res>>          \* the link tuple: down to the next layer
             ELSE Goto(t, IF o.op = "get" THEN "g_val" ELSE "lock") /\ UNCHANGED <<loc, res>>
          /\ UNCHANGED <<nd, abs, seen>>
\* descent through the link
DLv(t) == /\ pc[t] = "d_lv" /\ loc' = [loc EXCEPT ![t].child = nd[loc[t].b].lv[loc[t].idx]]
          /\ Goto(t, IF NO_DESCENT_RECHECK THEN "fb1" ELSE "d_fc") /\ UNCHANGED <<nd, abs, seen, res>>
DFc(t) == /\ pc[t] = "d_fc" /\ Stable(nd[loc[t].b].ver)
          /\ LET l == loc[t] v == nd[l.b].ver IN
             IF v.vs # l.vfb.vs \/ (v.del /\ ~v.root) THEN Goto(t, "g0")
             ELSE IF v.vi # l.v.vi THEN Goto(t, "lv1")
             ELSE Goto(t, "fb1")
          /\ UNCHANGED <<nd, loc, abs, seen, res>>
FB1(t) == /\ pc[t] = "fb1" /\ loc[t].child \in Nodes /\ Stable(nd[loc[t].child].ver)
          /\ LET c == loc[t].child v == nd[c].ver IN
             IF ~v.root THEN Goto(t, "g0") /\ UNCHANGED loc
             ELSE loc' = [loc EXCEPT ![t].layer = 1, ![t].b = c, ![t].vfb = v] /\ Goto(t, "lv1")
          /\ UNCHANGED <<nd, abs, seen, res>>
\* ---------------------------------------------------------------- get
GVal(t) == /\ pc[t] = "g_val" /\ loc' = [loc EXCEPT ![t].w = nd[loc[t].b].lv[loc[t].idx]] /\ Goto(t, "g_fc") /\ UNCHANGED <<nd, abs, seen, res>>
GFc(t) == /\ pc[t] = "g_fc" /\ Stable(nd[loc[t].b].ver)
          /\ LET l == loc[t] v == nd[l.b].ver IN
             IF v.vs # l.vfb.vs \/ (v.del /\ ~v.root) THEN Goto(t, "g0") /\ UNCHANGED res
             ELSE IF v.vi # l.v.vi THEN Goto(t, "lv1") /\ UNCHANGED res
             ELSE IF l.w = 0 THEN Goto(t, "lv1") /\ UNCHANGED res
             ELSE Ret(t, <<"OK", l.w>>)
          /\ UNCHANGED <<nd, loc, abs, seen>>
RFc0(t) == /\ pc[t] = "r_fc0" /\ Stable(nd[loc[t].b].ver)
           /\ IF nd[loc[t].b].ver.vi # loc[t].v.vi THEN Goto(t, "lv1") /\ UNCHANGED res ELSE Ret(t, <<"NOT_FOUND", 0>>)
           /\ UNCHANGED <<nd, loc, abs, seen>>
\* ---------------------------------------------------------------- lock + re-validation
Lock(t) == /\ pc[t] = "lock" /\ ~nd[loc[t].b].ver.lk /\ SetV(loc[t].b, [nd[loc[t].b].ver EXCEPT !.lk = TRUE]) /\ Goto(t, "chk")
           /\ UNCHANGED <<loc, abs, seen, res>>
Chk(t) == /\ pc[t] = "chk"
          /\ LET l == loc[t] b == l.b ver == nd[b].ver o == Op(t) idx2 == Lookup(b, nd[b].perm, TOrd(t)) IN
             IF (ver.del /\ ~ver.root) \/ ver.vs # l.vfb.vs THEN SetV(b, Unl(ver)) /\ Goto(t, "g0") /\ UNCHANGED <<loc, res>>
             ELSE IF ver.vi # l.v.vi THEN SetV(b, Unl(ver)) /\ Goto(t, "lv1") /\ UNCHANGED <<loc, res>>
             ELSE IF o.op = "rem" THEN
                    (IF idx2 = NoSlot THEN SetV(b, Unl(ver)) /\ Ret(t, <<"NOT_FOUND", 0>>) /\ UNCHANGED loc
                     ELSE loc' = [loc EXCEPT ![t].idx = idx2] /\ Goto(t, "r_clear") /\ UNCHANGED <<nd, res>>)
             ELSE IF l.idx = NoSlot THEN SetV(b, [ver EXCEPT !.ins = TRUE]) /\ Goto(t, IF Len(nd[b].perm) = 0 THEN "p_undel" ELSE "p_slot") /\ UNCHANGED <<loc, res>>
             ELSE IF idx2 = NoSlot THEN SetV(b, Unl(ver)) /\ Goto(t, "lv1") /\ UNCHANGED <<loc, res>>
             ELSE loc' = [loc EXCEPT ![t].idx = idx2] /\ Goto(t, "p_set") /\ UNCHANGED <<nd, res>>
          /\ UNCHANGED <<abs, seen>>
\* ---------------------------------------------------------------- put: insert (value tuple, or link + new layer), update
PUndel(t) == /\ pc[t] = "p_undel" /\ SetV(loc[t].b, [nd[loc[t].b].ver EXCEPT !.del = FALSE]) /\ Goto(t, "p_slot")
             /\ UNCHANGED <<loc, abs, seen, res>>
\* value tuple: key + value word.  Key behind S in layer 0: the child border (node 2, or node 1 if it was never used) is built privately as the root
\* of the new layer with the key inside, then key + link word are written into the free slot
NewChild == IF nd[1] = EmptyB THEN 1 ELSE 2
PSlotAt(t, s) == /\ pc[t] = "p_slot" /\ Len(nd[loc[t].b].perm) < F /\ s \in Slots /\ \A i \in 1..Len(nd[loc[t].b].perm) : nd[loc[t].b].perm[i] # s
                 /\ LET b == loc[t].b o == Op(t) IN
                    IF loc[t].layer = 0 /\ IsS(o.k)
                    THEN nd' = [nd EXCEPT ![b].ks[s] = LINKORD, ![b].kind[s] = "L", ![b].lv[s] = NewChild,
                                          ![NewChild] = MkB({<<Ord1(o.k), "V", o.v>>}, TRUE, b)]
                    ELSE nd' = [nd EXCEPT ![b].ks[s] = TOrd(t), ![b].kind[s] = "V", ![b].lv[s] = o.v]
                 /\ loc' = [loc EXCEPT ![t].idx = s] /\ Goto(t, "p_pub") /\ UNCHANGED <<abs, seen, res>>
PSlot(t) == pc[t] = "p_slot" /\ PSlotAt(t, FreeSlot(nd[loc[t].b].perm))
PPub(t) == /\ pc[t] = "p_pub" /\ LET b == loc[t].b IN nd' = [nd EXCEPT ![b].perm = InsertAt(@, RankOf(b, @, nd[b].ks[loc[t].idx]), loc[t].idx)]
           /\ loc' = [loc EXCEPT ![t].insd = TRUE]
           /\ Commit(Op(t).k, Op(t).v) /\ Goto(t, "p_unlock") /\ UNCHANGED res
PSet(t) == /\ pc[t] = "p_set" /\ nd' = [nd EXCEPT ![loc[t].b].lv[loc[t].idx] = Op(t).v] /\ Commit(Op(t).k, Op(t).v)
           /\ Goto(t, "p_unlock") /\ UNCHANGED <<loc, res>>
PUnlock(t) == /\ pc[t] = "p_unlock" /\ SetV(loc[t].b, Unl(nd[loc[t].b].ver)) /\ Ret(t, <<"OK", 0>>) /\ UNCHANGED <<loc, abs, seen>>
\* ---------------------------------------------------------------- remove
RClear(t) == /\ pc[t] = "r_clear" /\ nd' = [nd EXCEPT ![loc[t].b].lv[loc[t].idx] = 0] /\ Goto(t, "r_pub") /\ UNCHANGED <<loc, abs, seen, res>>
RPub(t) == /\ pc[t] = "r_pub" /\ LET b == loc[t].b IN
              /\ nd' = [nd EXCEPT ![b].perm = RemoveSlot(@, loc[t].idx)]
              /\ Goto(t, IF Len(nd[b].perm) = 1 /\ loc[t].layer = 1 THEN "r_del" ELSE "r_unlock")
           /\ Commit(Op(t).k, ABSENT) /\ UNCHANGED <<loc, res>>
RUnlock(t) == /\ pc[t] = "r_unlock" /\ SetV(loc[t].b, Unl(nd[loc[t].b].ver)) /\ Ret(t, <<"OK", 0>>) /\ UNCHANGED <<loc, abs, seen>>
\* the layer root became empty: it is removed from the upper border
RDel(t) == /\ pc[t] = "r_del" /\ SetV(loc[t].b, [nd[loc[t].b].ver EXCEPT !.del = TRUE]) /\ Goto(t, "r_lp") /\ UNCHANGED <<loc, abs, seen, res>>
RLp(t) == /\ pc[t] = "r_lp" /\ nd[loc[t].b].parent = 0 /\ Goto(t, "r_lpl") /\ UNCHANGED <<nd, loc, abs, seen, res>>
RLpl(t) == /\ pc[t] = "r_lpl" /\ ~nd[0].ver.lk /\ SetV(0, [nd[0].ver EXCEPT !.lk = TRUE]) /\ Goto(t, "r_lpc") /\ UNCHANGED <<loc, abs, seen, res>>
RLpc(t) == /\ pc[t] = "r_lpc" /\ nd[loc[t].b].parent = 0 /\ Goto(t, "r_root0") /\ UNCHANGED <<nd, loc, abs, seen, res>>
RRoot0(t) == /\ pc[t] = "r_root0" /\ SetV(loc[t].b, [nd[loc[t].b].ver EXCEPT !.root = NO_CHILD_ROOT_CLEAR]) /\ Goto(t, "r_selfunl")
             /\ UNCHANGED <<loc, abs, seen, res>>
RSelfUnl(t) == /\ pc[t] = "r_selfunl" /\ SetV(loc[t].b, Unl(nd[loc[t].b].ver)) /\ Goto(t, "d_pub") /\ UNCHANGED <<loc, abs, seen, res>>
\* border_node::delete_of(child) on B0: the link entry is found by its child pointer; only the permutation changes
DPub(t) == /\ pc[t] = "d_pub"
           /\ LET s == CHOOSE q \in Slots : (\E i \in 1..Len(nd[0].perm) : nd[0].perm[i] = q) /\ nd[0].kind[q] = "L" /\ nd[0].lv[q] = loc[t].b IN
              nd' = [nd EXCEPT ![0].perm = RemoveSlot(@, s)]
           /\ Len(nd[0].perm) > 1
           /\ Goto(t, "d_unl") /\ UNCHANGED <<loc, abs, seen, res>>
DUnl(t) == /\ pc[t] = "d_unl" /\ SetV(0, Unl(nd[0].ver)) /\ Ret(t, <<"OK", 0>>) /\ UNCHANGED <<loc, abs, seen>>
\* ---------------------------------------------------------------- scan of the whole key range through the link (scan / scan_border)
Cut(sq, n) == SubSeq(sq, 1, n)
KeyOf0(o) == IF o = 200 THEN 100 ELSE o \div 2          \* layer-0 order key -> key (value tuples only)
KeyOf1(o) == 100 + o \div 2
U6 == <<nd, abs, seen, res>>
SEnter(t) == /\ pc[t] = "s_enter" /\ loc' = [loc EXCEPT ![t].out = <<>>, ![t].nv = <<>>] /\ Goto(t, "s_next") /\ UNCHANGED U6
SNext(t) == /\ pc[t] = "s_next" /\ loc' = [loc EXCEPT ![t].pushed = FALSE] /\ Goto(t, "s_perm") /\ UNCHANGED U6       \* next pointer of B0 (always null)
SPermS(t) == /\ pc[t] = "s_perm" /\ loc' = [loc EXCEPT ![t].snap = nd[0].perm, ![t].si = 1] /\ Goto(t, IF Len(nd[0].perm) = 0 THEN "s_rec" ELSE "s_val") /\ UNCHANGED U6
SVal(t) == /\ pc[t] = "s_val" /\ LET s == loc[t].snap[loc[t].si] IN loc' = [loc EXCEPT ![t].w = nd[0].lv[s], ![t].ko = nd[0].ks[s], ![t].kd = nd[0].kind[s], ![t].idx = s]
           /\ Goto(t, "s_chk") /\ UNCHANGED U6
SAdvance(t, l) == IF l.si = Len(l.snap) THEN loc' = [loc EXCEPT ![t] = l] /\ Goto(t, "s_rec") ELSE loc' = [loc EXCEPT ![t] = [l EXCEPT !.si = @ + 1]] /\ Goto(t, "s_val")
SChk(t) == /\ pc[t] = "s_chk" /\ Stable(nd[0].ver)
           /\ LET l == loc[t] v == nd[0].ver IN
              IF v # l.vfb THEN
                 (IF v.vs # l.vfb.vs \/ v.del THEN loc' = [loc EXCEPT ![t].out = <<>>, ![t].nv = <<>>] /\ Goto(t, "fb")
                  ELSE loc' = [loc EXCEPT ![t].vfb = v, ![t].out = <<>>, ![t].nv = <<>>] /\ Goto(t, "s_next"))
              ELSE IF l.kd = "L" THEN loc' = [loc EXCEPT ![t].child = l.w] /\ Goto(t, "l_enter")
              ELSE IF l.w = 0 THEN loc' = [loc EXCEPT ![t].out = <<>>, ![t].nv = <<>>] /\ Goto(t, "s_next")
              ELSE SAdvance(t, [l EXCEPT !.out = Append(@, <<KeyOf0(l.ko), l.w>>), !.nv = Append(@, <<l.vfb, 0>>), !.pushed = TRUE])
           /\ UNCHANGED U6
\* nested scan(next_layer, ...)
LEnter(t) == /\ pc[t] = "l_enter" /\ loc' = [loc EXCEPT ![t].linit = Len(loc[t].out), ![t].lnvinit = Len(loc[t].nv)] /\ Goto(t, "l_root1") /\ UNCHANGED U6
LRoot1(t) == /\ pc[t] = "l_root1" /\ loc[t].child \in Nodes /\ Goto(t, IF nd[loc[t].child].ver.del THEN "s_lfail" ELSE "l_root2") /\ UNCHANGED <<loc, nd, abs, seen, res>>
LRoot2(t) == /\ pc[t] = "l_root2" /\ Goto(t, IF ~nd[loc[t].child].ver.root THEN "s_lfail" ELSE "l_fb") /\ UNCHANGED <<loc, nd, abs, seen, res>>
LFb(t) == /\ pc[t] = "l_fb" /\ Stable(nd[loc[t].child].ver)
          /\ LET v == nd[loc[t].child].ver IN
             IF ~v.root THEN Goto(t, "s_lfail") /\ UNCHANGED loc ELSE loc' = [loc EXCEPT ![t].lvfb = v] /\ Goto(t, "l_senter")
          /\ UNCHANGED U6
LSEnter(t) == /\ pc[t] = "l_senter" /\ loc' = [loc EXCEPT ![t].lbinit = Len(loc[t].out), ![t].lbnvinit = Len(loc[t].nv)] /\ Goto(t, "l_next") /\ UNCHANGED U6
LNext(t) == /\ pc[t] = "l_next" /\ loc' = [loc EXCEPT ![t].lpushed = FALSE] /\ Goto(t, "l_perm") /\ UNCHANGED U6
LPermS(t) == /\ pc[t] = "l_perm" /\ LET c == loc[t].child IN loc' = [loc EXCEPT ![t].lsnap = nd[c].perm, ![t].lsi = 1] /\ Goto(t, IF Len(nd[c].perm) = 0 THEN "l_rec" ELSE "l_val")
             /\ UNCHANGED U6
LVal(t) == /\ pc[t] = "l_val" /\ LET c == loc[t].child s == loc[t].lsnap[loc[t].lsi] IN loc' = [loc EXCEPT ![t].w = nd[c].lv[s], ![t].ko = nd[c].ks[s], ![t].idx = s]
           /\ Goto(t, "l_chk") /\ UNCHANGED U6
LBClean(l) == [l EXCEPT !.out = Cut(@, l.lbinit), !.nv = Cut(@, l.lbnvinit)]
LClean(l) == [l EXCEPT !.out = Cut(@, l.linit), !.nv = Cut(@, l.lnvinit)]
LAdvance(t, l) == IF l.lsi = Len(l.lsnap) THEN loc' = [loc EXCEPT ![t] = l] /\ Goto(t, "l_rec") ELSE loc' = [loc EXCEPT ![t] = [l EXCEPT !.lsi = @ + 1]] /\ Goto(t, "l_val")
LChk(t) == /\ pc[t] = "l_chk" /\ Stable(nd[loc[t].child].ver)
           /\ LET l == loc[t] v == nd[l.child].ver key == KeyOf1(l.ko) IN
              IF v # l.lvfb THEN
                 (IF v.vs # l.lvfb.vs \/ v.del THEN loc' = [loc EXCEPT ![t] = LClean(l)] /\ Goto(t, "l_root1")        \* RETRY_FROM_ROOT -> scan(): clean up, retry
                  ELSE loc' = [loc EXCEPT ![t] = [LBClean(l) EXCEPT !.lvfb = v]] /\ Goto(t, "l_next"))
              ELSE IF l.w = 0 THEN loc' = [loc EXCEPT ![t] = LBClean(l)] /\ Goto(t, "l_next")
              ELSE IF l.lbinit # 0 /\ ~(l.out[l.lbinit][1] < key) THEN LAdvance(t, l)                                   \* already produced further left (F17 guard)
              ELSE LAdvance(t, [l EXCEPT !.out = Append(@, <<key, l.w>>), !.nv = Append(@, <<l.lvfb, l.child>>), !.lpushed = TRUE])
           /\ UNCHANGED U6
LRec(t) == /\ pc[t] = "l_rec" /\ loc' = [loc EXCEPT ![t].nv = IF loc[t].lpushed THEN @ ELSE Append(@, <<loc[t].lvfb, loc[t].child>>)] /\ Goto(t, "l_fin") /\ UNCHANGED U6
LFin(t) == /\ pc[t] = "l_fin" /\ Stable(nd[loc[t].child].ver)
           /\ LET l == loc[t] v == nd[l.child].ver IN
              IF v # l.lvfb THEN
                 (IF v.vs # l.lvfb.vs \/ v.del THEN loc' = [loc EXCEPT ![t] = LClean(l)] /\ Goto(t, "l_root1")
                  ELSE loc' = [loc EXCEPT ![t] = [LBClean(l) EXCEPT !.lvfb = v]] /\ Goto(t, "l_next"))
              ELSE SAdvance(t, l)                                                                                       \* the layer is done: on with layer 0
           /\ UNCHANGED U6
\* the nested scan failed: scan_border of layer 0 cleans up what it pushed and reads its border again (same validated version)
SLFail(t) == /\ pc[t] = "s_lfail"
             /\ loc' = [loc EXCEPT ![t].out = IF SCAN_NO_CLEANUP THEN Cut(@, loc[t].linit) ELSE <<>>, ![t].nv = IF SCAN_NO_CLEANUP THEN Cut(@, loc[t].lnvinit) ELSE <<>>]
             /\ Goto(t, "s_next") /\ UNCHANGED U6
SRec(t) == /\ pc[t] = "s_rec" /\ loc' = [loc EXCEPT ![t].nv = IF loc[t].pushed THEN @ ELSE Append(@, <<loc[t].vfb, 0>>)] /\ Goto(t, "s_fin") /\ UNCHANGED U6
SFin(t) == /\ pc[t] = "s_fin" /\ Stable(nd[0].ver)
           /\ LET l == loc[t] v == nd[0].ver IN
              IF v # l.vfb THEN
                 (IF v.vs # l.vfb.vs \/ v.del THEN loc' = [loc EXCEPT ![t].out = <<>>, ![t].nv = <<>>] /\ Goto(t, "fb")
                  ELSE loc' = [loc EXCEPT ![t].vfb = v, ![t].out = <<>>, ![t].nv = <<>>] /\ Goto(t, "s_next"))
              ELSE Goto(t, "s_ret") /\ UNCHANGED loc
           /\ UNCHANGED U6
SRet(t) == /\ pc[t] = "s_ret" /\ Ret(t, <<"OK", loc[t].out>>) /\ UNCHANGED <<nd, loc, abs, seen>>
ScanStep(t) == SEnter(t) \/ SNext(t) \/ SPermS(t) \/ SVal(t) \/ SChk(t) \/ LEnter(t) \/ LRoot1(t) \/ LRoot2(t) \/ LFb(t) \/ LSEnter(t) \/ LNext(t) \/ LPermS(t)
               \/ LVal(t) \/ LChk(t) \/ LRec(t) \/ LFin(t) \/ SLFail(t) \/ SRec(t) \/ SFin(t) \/ SRet(t)
\* ---------------------------------------------------------------- cursor across the link (iscan_open / iscan_next)
\* stack element: [key (order value of the position, 0 = in front of everything), root, bn, cmp, v, perm, rank]
Elem(key, root, bn, cmp, v, perm, rank) == [key |-> key, root |-> root, bn |-> bn, cmp |-> cmp, v |-> v, perm |-> perm, rank |-> rank]
Top(l) == l.st[Len(l.st)]
SetTop(l, e) == [l EXCEPT !.st[Len(l.st)] = e]
Pop(l) == [l EXCEPT !.st = SubSeq(@, 1, Len(@) - 1)]
CurKey(l, o) == IF Len(l.st) = 1 THEN KeyOf0(o) ELSE KeyOf1(o)
IOLv1(t) == /\ pc[t] = "io_lv1" /\ Stable(nd[0].ver) /\ loc' = [loc EXCEPT ![t].v = nd[0].ver, ![t].out = <<>>, ![t].nv = <<>>, ![t].st = <<>>] /\ Goto(t, "io_p") /\ UNCHANGED U6
IOP(t) == /\ pc[t] = "io_p" /\ Goto(t, "io_lv2") /\ UNCHANGED <<loc, nd, abs, seen, res>>                 \* permutation load of get_lv_of: the start tuple "" is never there
IOLv2(t) == /\ pc[t] = "io_lv2" /\ Stable(nd[0].ver)
            /\ LET l == loc[t] v == nd[0].ver IN
               IF v # l.v THEN loc' = [loc EXCEPT ![t].v = v] /\ Goto(t, "io_p")
               ELSE IF v.vs # l.vfb.vs \/ (v.del /\ ~v.root) THEN Goto(t, "g0") /\ UNCHANGED loc
               ELSE Goto(t, "io_stack") /\ UNCHANGED loc
            /\ UNCHANGED U6
IOStack(t) == /\ pc[t] = "io_stack" /\ loc' = [loc EXCEPT ![t].st = <<Elem(0, 0, 0, 0, loc[t].vfb, nd[0].perm, 1)>>, ![t].iph = "next"] /\ Goto(t, "in_top") /\ UNCHANGED U6
INTop(t) == /\ pc[t] = "in_top" /\ LET l == loc[t] e == Top(l) IN
               loc' = [loc EXCEPT ![t].lastk = e.key, ![t].cmp = e.cmp, ![t].b = e.bn, ![t].vfb = e.v, ![t].perm = e.perm, ![t].rk = e.rank]
            /\ Goto(t, "in_ent") /\ UNCHANGED U6
INEnt(t) == /\ pc[t] = "in_ent" /\ LET l == loc[t] IN
               IF l.rk > Len(l.perm) THEN loc' = [loc EXCEPT ![t].cc = 3] /\ Goto(t, "ck1")
               ELSE LET s == l.perm[l.rk] IN loc' = [loc EXCEPT ![t].idx = s, ![t].ko = nd[l.b].ks[s], ![t].kd = nd[l.b].kind[s], ![t].w = nd[l.b].lv[s], ![t].cc = 1] /\ Goto(t, "ck1")
            /\ UNCHANGED U6
CK1(t) == /\ pc[t] = "ck1" /\ Stable(nd[loc[t].b].ver) /\ loc' = [loc EXCEPT ![t].ckv = nd[loc[t].b].ver] /\ Goto(t, "ck2") /\ UNCHANGED U6
CK2(t) == /\ pc[t] = "ck2" /\ loc' = [loc EXCEPT ![t].ckp = nd[loc[t].b].perm] /\ Goto(t, "ck3") /\ UNCHANGED U6
CkDone(t, l) ==
   IF l.ckv # l.vfb \/ l.ckp # l.perm THEN
      (IF l.ckv.vs # l.vfb.vs \/ l.ckv.del \/ l.cc = 4 THEN loc' = [loc EXCEPT ![t] = l] /\ Goto(t, "ir_root")
       ELSE loc' = [loc EXCEPT ![t] = [l EXCEPT !.vfb = l.ckv, !.perm = l.ckp]] /\ Goto(t, "ir_fb"))
   ELSE IF l.cc = 1 THEN
        (IF ~(l.lastk < l.ko) THEN loc' = [loc EXCEPT ![t] = [l EXCEPT !.rk = @ + 1]] /\ Goto(t, "in_ent")
         ELSE IF l.kd = "L" THEN loc' = [loc EXCEPT ![t] = l] /\ Goto(t, "in_child")
         ELSE loc' = [loc EXCEPT ![t] = [l EXCEPT !.cc = 2]] /\ Goto(t, "ck1"))
   ELSE IF l.cc = 2 THEN
        loc' = [loc EXCEPT ![t] = SetTop([l EXCEPT !.nv = Append(@, <<l.vfb, l.b>>), !.out = Append(@, <<CurKey(l, l.ko), l.w>>)],
                                         [Top(l) EXCEPT !.bn = l.b, !.key = l.ko, !.rank = l.rk + 1])]         \* the saved version / permutation are NOT refreshed here
        /\ Goto(t, "in_top")
   ELSE IF l.cc = 3 THEN
        \* end of the border (no neighbour in this model): the border is reported; layer 0 (cmp = 0) ends the scan, a lower layer is left
        (LET l2 == [l EXCEPT !.nv = Append(@, <<l.vfb, l.b>>)] IN
         IF l.cmp = 0 \/ Len(l.st) = 1 THEN loc' = [loc EXCEPT ![t] = l2] /\ Goto(t, "i_ret")
         ELSE loc' = [loc EXCEPT ![t] = Pop(l2)] /\ Goto(t, "in_top"))
   ELSE loc' = [loc EXCEPT ![t] = SetTop([l EXCEPT !.rk = IF ISCAN_NO_REWIND THEN @ ELSE 1], [Top(l) EXCEPT !.rank = IF ISCAN_NO_REWIND THEN l.rk ELSE 1, !.perm = l.perm])] /\ Goto(t, "in_ent")    \* retry_after_fb saves rank and permutation, not the version
CK3(t) == /\ pc[t] = "ck3" /\ Stable(nd[loc[t].b].ver)
          /\ IF nd[loc[t].b].ver # loc[t].ckv THEN loc' = [loc EXCEPT ![t].ckv = nd[loc[t].b].ver] /\ Goto(t, "ck4")
             ELSE CkDone(t, loc[t])
          /\ UNCHANGED U6
CK4(t) == /\ pc[t] = "ck4" /\ CkDone(t, [loc[t] EXCEPT !.ckp = nd[loc[t].b].perm]) /\ UNCHANGED U6
\* link entry: the slot word is loaded again (get_next_layer); the border is reported; find_border of the child; push
INChild(t) == /\ pc[t] = "in_child" /\ LET l == loc[t] c == nd[l.b].lv[l.idx] IN
                 IF nd[l.b].kind[l.idx] # "L" \/ c = 0 THEN Goto(t, "ir_root") /\ UNCHANGED loc
                 ELSE loc' = [loc EXCEPT ![t].child = c, ![t].nv = Append(@, <<l.vfb, l.b>>)] /\ Goto(t, "in_cfb")
              /\ UNCHANGED U6
INCfb(t) == /\ pc[t] = "in_cfb" /\ loc[t].child \in Nodes /\ Stable(nd[loc[t].child].ver)
            /\ LET l == loc[t] c == l.child v == nd[c].ver IN
               IF ~v.root THEN Goto(t, "ir_root") /\ UNCHANGED loc
               ELSE loc' = [loc EXCEPT ![t].lvfb = v] /\ Goto(t, "in_push")
            /\ UNCHANGED U6
INPush(t) == /\ pc[t] = "in_push" /\ LET l == loc[t] c == l.child IN
                loc' = [loc EXCEPT ![t] = [SetTop(l, [Top(l) EXCEPT !.bn = l.b, !.key = l.ko, !.rank = l.rk + 1])
                                           EXCEPT !.st = Append(@, Elem(0, c, c, 1, l.lvfb, nd[c].perm, 1))]]
             /\ Goto(t, "in_top") /\ UNCHANGED U6
\* retry_after_fb: rewind inside the border unless it is empty or its smallest key is already behind the cursor
IRFb(t) == /\ pc[t] = "ir_fb" /\ LET l == loc[t] IN
              IF Len(l.perm) = 0 THEN Goto(t, "ir_root") /\ UNCHANGED loc
              ELSE IF nd[l.b].ks[l.perm[1]] > l.lastk THEN Goto(t, "ir_root") /\ UNCHANGED loc
              ELSE loc' = [loc EXCEPT ![t].cc = 4] /\ Goto(t, "ck1")
           /\ UNCHANGED U6
\* retry_from_root of the layer the cursor is in
IRRoot(t) == /\ pc[t] = "ir_root" /\ Stable(nd[Top(loc[t]).root].ver)
             /\ LET l == loc[t] r == Top(l).root rv == nd[r].ver IN
                IF rv.del THEN (IF Len(l.st) = 1 THEN Goto(t, "i_ret") /\ UNCHANGED loc ELSE loc' = [loc EXCEPT ![t].iph = "del"] /\ Goto(t, "ir_res1"))
                ELSE IF ~rv.root THEN (IF Len(l.st) = 1 THEN Goto(t, "ir_root") /\ UNCHANGED loc ELSE loc' = [loc EXCEPT ![t].iph = "nroot"] /\ Goto(t, "ir_res1"))
                ELSE Goto(t, "ir_find") /\ UNCHANGED loc
             /\ UNCHANGED U6
\* iscan_resolve_top_layer_root: the current root of the layer is looked up from the tree root along the link tuple saved for layer 0
\* (tree root pointer, find_border = stable version of B0, permutation of B0, slot word); B0 is always the tree root here
IRRes1(t) == /\ pc[t] = "ir_res1" /\ Goto(t, "ir_res2") /\ UNCHANGED <<loc, nd, abs, seen, res>>
IRRes2(t) == /\ pc[t] = "ir_res2" /\ Stable(nd[0].ver) /\ Goto(t, "ir_res3") /\ UNCHANGED <<loc, nd, abs, seen, res>>
IRDecide(t, l, nr) ==
   IF nr = 0 THEN loc' = [loc EXCEPT ![t] = Pop(l)] /\ Goto(t, "in_top")                                                        \* the link is gone: leave the layer
   ELSE IF l.iph = "nroot" \/ nr # Top(l).root THEN loc' = [loc EXCEPT ![t] = SetTop(l, [Top(l) EXCEPT !.root = nr])] /\ Goto(t, "ir_root")
   ELSE loc' = [loc EXCEPT ![t] = l] /\ Goto(t, "ir_isb")                                                                      \* deleted and still linked: border or interior?
IRRes3(t) == /\ pc[t] = "ir_res3" /\ LET l == loc[t] up == l.st[Len(l.st) - 1] s == Lookup(0, nd[0].perm, up.key) IN
                IF s # NoSlot /\ nd[0].kind[s] = "L" THEN loc' = [loc EXCEPT ![t].idx = s] /\ Goto(t, "ir_res4")
                ELSE IRDecide(t, l, 0)
             /\ UNCHANGED U6
IRRes4(t) == /\ pc[t] = "ir_res4" /\ LET l == loc[t] w == IF nd[0].kind[l.idx] = "L" THEN nd[0].lv[l.idx] ELSE 0 IN IRDecide(t, l, w) /\ UNCHANGED U6
\* the deleted saved root is still what the link leads to: one more load of its version word.  A border (always, in this model): the layer is being
\* removed, the cursor leaves it (an interior root would be tried again until the writer has swapped the link)
IRIsB(t) == /\ pc[t] = "ir_isb" /\ loc' = [loc EXCEPT ![t] = Pop(loc[t])] /\ Goto(t, "in_top") /\ UNCHANGED U6
\* find_border(root, last key): one border per layer in this model; its own stable version, permutation snapshot, rank 0
IRFind(t) == /\ pc[t] = "ir_find" /\ Stable(nd[Top(loc[t]).root].ver)
             /\ LET l == loc[t] r == Top(l).root v == nd[r].ver IN
                IF ~v.root THEN Goto(t, "ir_root") /\ UNCHANGED loc
                ELSE loc' = [loc EXCEPT ![t].b = r, ![t].vfb = v] /\ Goto(t, "ir_arr")
             /\ UNCHANGED U6
IRArr(t) == /\ pc[t] = "ir_arr" /\ LET l == loc[t] p == nd[l.b].perm IN
               loc' = [loc EXCEPT ![t] = SetTop([l EXCEPT !.perm = p, !.rk = 1], [Top(l) EXCEPT !.bn = l.b, !.rank = 1, !.perm = p, !.v = l.vfb])]
            /\ Goto(t, "in_ent") /\ UNCHANGED U6
IRet(t) == /\ pc[t] = "i_ret" /\ Ret(t, <<"OK", loc[t].out>>) /\ UNCHANGED <<nd, loc, abs, seen>>
IStep(t) == IOLv1(t) \/ IOP(t) \/ IOLv2(t) \/ IOStack(t) \/ INTop(t) \/ INEnt(t) \/ CK1(t) \/ CK2(t) \/ CK3(t) \/ CK4(t) \/ INChild(t) \/ INCfb(t) \/ INPush(t)
            \/ IRFb(t) \/ IRRoot(t) \/ IRRes1(t) \/ IRRes2(t) \/ IRRes3(t) \/ IRRes4(t) \/ IRIsB(t) \/ IRFind(t) \/ IRArr(t) \/ IRet(t)
Step(t) == IStep(t) \/ ScanStep(t) \/ Start(t) \/ G0(t) \/ FB(t) \/ LV1(t) \/ PermLd(t) \/ LV2(t) \/ DLv(t) \/ DFc(t) \/ FB1(t) \/ GVal(t) \/ GFc(t) \/ RFc0(t)
           \/ Lock(t) \/ Chk(t) \/ PUndel(t) \/ PSlot(t) \/ PPub(t) \/ PSet(t) \/ PUnlock(t) \/ RClear(t) \/ RPub(t) \/ RUnlock(t)
           \/ RDel(t) \/ RLp(t) \/ RLpl(t) \/ RLpc(t) \/ RRoot0(t) \/ RSelfUnl(t) \/ DPub(t) \/ DUnl(t)
AllDone == \A t \in Threads : pc[t] = "done"
Next == (\E t \in Threads : Step(t)) \/ (AllDone /\ UNCHANGED vars)
Spec == Init /\ [][Next]_vars
FairSpec == Spec /\ \A t \in Threads : WF_vars(Step(t))
\* ---------------------------------------------------------------- properties
ResOK(r) == IF r.op = "get" /\ r.st = "NOT_EXIST" THEN ABSENT \in r.sn[r.k]
            ELSE IF r.op = "get" THEN r.w # 0 /\ r.w \in r.sn[r.k]
            ELSE IF r.op = "rem" /\ r.st = "NOT_FOUND" THEN ABSENT \in r.sn[r.k]
            ELSE TRUE
LinOK == \A t \in Threads : \A i \in 1..Len(res[t]) : ResOK(res[t][i])
\* C04: strictly ascending, every returned pair current at some instant of the scan (non-null), every key not returned absent at some instant
OutKeys(out) == {out[i][1] : i \in 1..Len(out)}
ScanResOK(r) == LET out == r.w IN
                /\ \A i \in 1..(Len(out) - 1) : out[i][1] < out[i + 1][1]
                /\ \A i \in 1..Len(out) : out[i][2] # 0 /\ out[i][2] \in r.sn[out[i][1]]
                /\ \A k \in Keys : k \notin OutKeys(out) => ABSENT \in r.sn[k]
ScanOK == \A t \in Threads : \A i \in 1..Len(res[t]) : res[t][i].op \in {"scan", "iscan"} => ScanResOK(res[t][i])
\* C05 / C06: the collected set is never empty; once everything has completed, every insert of a new key is in the result or left a pair stale
NvOK == AllDone => \A t \in Threads : \A i \in 1..Len(res[t]) : res[t][i].op \in {"scan", "iscan"} =>
           LET r == res[t][i] IN
           /\ Len(r.nv) >= 1
           /\ \A t2 \in Threads : \A j \in 1..Len(res[t2]) : (res[t2][j].op = "put" /\ res[t2][j].ins) =>
                  \/ res[t2][j].k \in OutKeys(r.w)
                  \/ \E q \in 1..Len(r.nv) : nd[r.nv[q][2]].ver # r.nv[q][1]
\* a thread never takes a value word for a child pointer, and never descends into a node that is not a border of layer 1
DescentOK == \A t \in Threads : pc[t] \in {"fb1", "l_root1", "l_root2", "l_fb", "in_cfb", "in_push"} => loc[t].child \in {1, 2}
\* B0 is never emptied (assumption of the model, checked so that a violation of it is not mistaken for anything else)
B0NonEmpty == Len(nd[0].perm) >= 1
Sorted(b) == \A i \in 1..(Len(nd[b].perm) - 1) : nd[b].ks[nd[b].perm[i]] < nd[b].ks[nd[b].perm[i + 1]]
HasLink == \E i \in 1..Len(nd[0].perm) : nd[0].kind[nd[0].perm[i]] = "L"
LinkChild == nd[0].lv[nd[0].perm[CHOOSE i \in 1..Len(nd[0].perm) : nd[0].kind[nd[0].perm[i]] = "L"]]
HoldsAt(b, o, k) == Lookup(b, nd[b].perm, o) # NoSlot /\ nd[b].kind[Lookup(b, nd[b].perm, o)] = "V" /\ nd[b].lv[Lookup(b, nd[b].perm, o)] = abs[k]
Quiescent == AllDone =>
   /\ \A n \in Nodes : Stable(nd[n].ver)
   /\ nd[0].ver.root /\ ~nd[0].ver.del /\ Sorted(0)
   /\ Cardinality({i \in 1..Len(nd[0].perm) : nd[0].kind[nd[0].perm[i]] = "L"}) <= 1
   /\ HasLink => LET c == LinkChild IN c \in {1, 2} /\ nd[c].ver.root /\ ~nd[c].ver.del /\ nd[c].parent = 0 /\ Len(nd[c].perm) >= 1 /\ Sorted(c)
   /\ \A n \in {1, 2} : (nd[n] # EmptyB /\ ~(HasLink /\ LinkChild = n)) => nd[n].ver.del /\ ~nd[n].ver.root
   /\ \A k \in Keys : IF IsS(k) THEN (abs[k] # ABSENT <=> (HasLink /\ HoldsAt(LinkChild, Ord1(k), k)))
                                  ELSE (abs[k] # ABSENT <=> HoldsAt(0, Ord0(k), k))
Termination == <>AllDone
====

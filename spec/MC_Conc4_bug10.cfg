SPECIFICATION FairSpec
CONSTANTS
  F = 3
  Keys = {2, 4, 5, 6, 10, 11, 12, 13, 14, 15}
  Threads = {0, 1, 2}
  Prog <- PT
  MIDDLE_INSERT_NO_MARK <- SwitchOn
  Init1 = {2}
  Init2 = {10, 14}
  UNLOCK_BEFORE_PARENT = FALSE
  NO_INS_ON_INSERT = FALSE
  NO_INS_ON_DELETE = FALSE
  SCAN_NO_FINAL = FALSE
  SCAN_NO_ENTRY_CHECK = FALSE
  SCAN_DUP = FALSE
  ISCAN_NO_REWIND = FALSE
  LATE_PARENT = FALSE
  SCAN_FRESH_VERSION = FALSE
INVARIANTS LinOK ScanOK NvOK RootOpsOK Quiescent
PROPERTY Termination

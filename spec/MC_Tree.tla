---- MODULE MC_Tree ----
(* Exhaustive sequential model of one storage: every order of Put / Remove over a small key universe (small fan-out F),
   with the abstract map `abs` as ghost.  Reads are evaluated as invariants in every reachable state. *)
EXTENDS YkTree
CONSTANTS KeySet, NVals
VARIABLES node, root, nextId, abs, last
vars == <<node, root, nextId, abs, last>>
ABSENT == -1
Init == /\ node = (1 :> NewBorder(TRUE, NULL)) /\ root = 1 /\ nextId = 2
        /\ abs = Force([k \in KeySet |-> ABSENT]) /\ last = [op |-> "init", k |-> <<>>, kind |-> "init", ok |-> TRUE]
Put(k, v) == LET r == PutRec(node, root, nextId, root, k, v)
                 c == Canon(r[1], r[2])
                 changed == {n \in DOMAIN node : node[n].t = "B" /\ r[1][n].ver # node[n].ver}
                 rep == {r[5]} \cup (IF r[6] = NULL THEN {} ELSE {r[6]} \cap DOMAIN node) IN
             /\ node' = c[1] /\ root' = c[2][r[2]] /\ nextId' = c[3] /\ abs' = [abs EXCEPT ![k] = v]
             /\ last' = [op |-> "put", k |-> k, kind |-> r[4],
                         \* C12: reported modified (+ created, a node that did not exist before) = borders whose version changed
                         ok |-> /\ (r[4] = "insert") = (abs[k] = ABSENT)
                                /\ IF r[4] = "insert" THEN changed = rep /\ (r[6] # NULL => r[6] \notin DOMAIN node)
                                   ELSE \A n \in DOMAIN node : r[1][n].ver = node[n].ver]
Remove(k) == LET r == RemoveRec(node, root, root, k)
                 c == Canon(r[1], r[2]) IN
             /\ node' = c[1] /\ root' = c[2][r[2]] /\ nextId' = c[3] /\ abs' = [abs EXCEPT ![k] = ABSENT]
             /\ last' = [op |-> "rem", k |-> k, kind |-> "rem", ok |-> r[3] = (abs[k] # ABSENT)]
Next == \E k \in KeySet : (\E v \in 1..NVals : Put(k, v)) \/ Remove(k)
Spec == Init /\ [][Next]_vars
\* ---- invariants
WF == WellFormed(node, root)
AbsOK == /\ \A k \in KeySet : LET g == GetRec(node, root, k) IN IF abs[k] = ABSENT THEN ~g.found ELSE g.found /\ g.v = abs[k]
         /\ LET L == Listing(node, root) IN
            /\ \A i \in 1..(Len(L)-1) : LexLess(L[i][1], L[i+1][1])
            /\ {L[i] : i \in 1..Len(L)} = {<<k, abs[k]>> : k \in {k2 \in KeySet : abs[k2] # ABSENT}}
LastOK == last.ok
\* ---- scans (C03) and node-version sets (C05)
RECURSIVE SortedSeq(_)
SortedSeq(S) == IF S = {} THEN <<>> ELSE LET m == CHOOSE x \in S : \A y \in S : LexLE(x, y) IN <<m>> \o SortedSeq(S \ {m})
AbsScan(lkey, le, rkey, re, max, rtl) ==
   LET ks == SortedSeq({k \in KeySet : abs[k] # ABSENT /\ InRange(k, lkey, le, rkey, re)})
       all == [i \in 1..Len(ks) |-> <<ks[i], abs[ks[i]]>>] IN
   IF rtl THEN (IF Len(all) = 0 THEN <<>> ELSE <<all[Len(all)]>>)
   ELSE IF max = 0 \/ Len(all) <= max THEN all ELSE SubSeq(all, 1, max)
EPs == {"INC", "EXC", "INF"}
CONSTANT ArgKeys
ScanArgs == {a \in [l : ArgKeys, le : EPs, r : ArgKeys, re : EPs, max : {0, 1, 2}, rtl : {FALSE}] : ValidRange(a.l, a.le, a.r, a.re)}
            \cup {a \in [l : ArgKeys, le : EPs, r : {<<>>}, re : {"INF"}, max : {1}, rtl : {TRUE}] : TRUE}
ScanOK == \A a \in ScanArgs : ScanTop(node, root, a.l, a.le, a.r, a.re, a.max, a.rtl).tl = AbsScan(a.l, a.le, a.r, a.re, a.max, a.rtl)
\* covered interval of a read: whole interval, or start .. last produced key when the size limit cut it
Covered(a, res, k) == /\ InRange(k, a.l, a.le, a.r, a.re)
                      /\ (a.max # 0 /\ Len(res.tl) >= a.max /\ ~a.rtl => LexLE(k, res.tl[Len(res.tl)][1]))
                      /\ (a.rtl /\ Len(res.tl) >= 1 => LexLE(res.tl[1][1], k))
PhantomOK == \A a \in ScanArgs :
                LET res == ScanTop(node, root, a.l, a.le, a.r, a.re, a.max, a.rtl) IN
                /\ Len(res.nv) >= 1
                /\ \A k \in KeySet : (abs[k] = ABSENT /\ Covered(a, res, k)) =>
                      LET p == PutRec(node, root, nextId, root, k, 1) IN
                      \E i \in 1..Len(res.nv) : p[1][res.nv[i][2]].ver # res.nv[i][1]
\* a get that misses reports a border whose version changes when the key is inserted later (C05, point read)
GetMissOK == \A k \in KeySet : abs[k] = ABSENT =>
                LET g == GetRec(node, root, k) p == PutRec(node, root, nextId, root, k, 1) IN p[1][g.b].ver # node[g.b].ver
\* mem_usage shape (C20): node counts per depth add up, used <= reserved
SZ == [b |-> 320, i |-> 320, lv |-> 8, p |-> 8]
MemOK == LET mu == MemUsage(node, root, SZ, LAMBDA v : 16) IN
         /\ SeqSum([d \in 1..Len(mu) |-> mu[d].nodes]) = Cardinality(Reach(node, root))
         /\ \A d \in 1..Len(mu) : mu[d].used <= mu[d].reserved /\ mu[d].nodes >= 1
View == <<Force([n \in DOMAIN node |-> [node[n] EXCEPT !.ver.vi = 0, !.ver.vs = 0]]), root, abs>>
\* ---- key universes
K(s) == s
Keys7 == { <<>>, <<1>>, <<1, 0>>, <<2>>, <<1,1,1,1,1,1,1,1>>, <<1,1,1,1,1,1,1,1,0>>, <<1,1,1,1,1,1,1,1,5,5>> }
Keys6 == { <<>>, <<1>>, <<2>>, <<1,1,1,1,1,1,1,1>>, <<1,1,1,1,1,1,1,1,0>>, <<1,1,1,1,1,1,1,1,5,5>> }
Keys8L == { <<1>>, <<2>>, <<3>>, <<9,9,9,9,9,9,9,9,1>>, <<9,9,9,9,9,9,9,9,2>>, <<9,9,9,9,9,9,9,9,3>>, <<9,9,9,9,9,9,9,9,4>>, <<9,9,9,9,9,9,9,9>> }
Keys5 == { <<>>, <<1>>, <<1,1,1,1,1,1,1,1>>, <<1,1,1,1,1,1,1,1,0>>, <<1,1,1,1,1,1,1,1,5,5>> }
Args5 == Keys5 \cup { <<1,1>>, <<1,1,1,1,1,1,1,1,5>>, <<2>> }
Keys5b == { <<1>>, <<2>>, <<3>>, <<4>>, <<9,9,9,9,9,9,9,9,7>> }
Args5b == Keys5b \cup { <<>>, <<2, 0>>, <<9,9,9,9,9,9,9,9>>, <<9,9,9,9,9,9,9,9,7,0>> }
Keys12S == { <<1>>, <<2>>, <<3>>, <<4>>, <<5>>, <<6>>, <<7>>, <<8>>, <<9>>, <<10>>, <<11>>, <<12>> }
Keys9S == { <<1>>, <<2>>, <<3>>, <<4>>, <<5>>, <<6>>, <<7>>, <<8>>, <<9>> }
====

SPECIFICATION Spec
CONSTANTS
  F = 3
  NVals = 1
  BUGGY_F2 = TRUE
  BUGGY_F3 = FALSE
  KeySet <- Keys5
  ArgKeys <- Args5
INVARIANTS ScanOK PhantomOK
VIEW View
CHECK_DEADLOCK FALSE

SPECIFICATION Spec
CONSTANTS
  F = 3
  BUGGY_F2 = FALSE
  BUGGY_F3 = FALSE
  BUGGY_F15 = FALSE
  BUGGY_F16 = FALSE
  BUGGY_F18 = TRUE
  BUGGY_F20 = FALSE
  BUGGY_F21 = FALSE
  BUGGY_F19 = FALSE
  KeySet <- K5L
  BuildKeys <- K5L
  MaxW = 2
  CurArgs <- ArgsL
INVARIANTS CursorOK
PROPERTY EaAct
VIEW View
CHECK_DEADLOCK FALSE

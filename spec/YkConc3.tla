---- MODULE YkConc3 ----
(* Concurrent grain of BORDER DELETION and INTERIOR-ROOT COLLAPSE racing with readers, writers and another remover: the tree is an
   interior root P with two border children L and R.  remove(k) of the last key of a border marks the border deleted, unlinks it
   from the prev/next chain (under the lock of its predecessor), locks the parent, and interior_node::delete_of(P, child) with one
   key left deletes P and promotes the sibling to root under the root lock (border_node.h delete_of, interior_helper.h delete_of,
   base_node.h lock_parent).  get / put / remove of other threads run from the root pointer at the same hook grain as YkConc / YkConc2.
     common : Start / G0 root pointer / FB stable(root) / GC1..GC4 get_child_of / LV1 PermLd LV2 get_lv_of
     get    : GVal, GFc
     put    : Lock, Chk (re-validation; sets inserting) / PUndel / PSlot / PPub (commit) / PUnlock ; update: PSet (commit) / PUnlock
     remove : Lock, Chk / RClear / RPub (commit) / [node not empty: RUnlock]
              RDel deleted flag / RPrev load prev / RPLock lock prev / RPChk re-check (deleted or changed -> unlock, RPrev) + prev.next := next /
              RPNP next.prev := prev / RPUnl unlock prev / RNextFix next.prev := NULL (no prev) /
              lock_parent: RLp load parent / RLpl lock P / RLpc re-check parent / [no parent: RRl root lock, RRl2 root = this ? (empty deleted root stays: RClrP, RClrN drop its
              stale sibling links, RRUnl) ]
              RRoot0 root flag off / RSelfUnl unlock the border /
              IIns P.inserting + search of the child / IDel P.deleted / INkSt n_keys := 0 / IRl root lock / IRoot0 P.root off /
              ISibRoot sibling.root on (atomic, the sibling may be locked by somebody else) / IRootSt root pointer := sibling /
              ISibPar sibling.parent := NULL / IRUnl root unlock / IPUnl unlock P
   Loads of fields that only the holder of a lock the thread owns can write are merged into the next step of the thread.
   Ghosts abs / seen / res as in YkConc.  Defect switches (selftest): NO_DEL_FLAG (border not marked deleted), NO_P_DEL (P not marked
   deleted), ROOT_BEFORE_FLAG (root pointer stored before the sibling is flagged root: harmless, readers retry), LEAK_PREV_LOCK
   (the retry edge of the prev-lock loop keeps prev locked), STALE_LINKS (defect F14 of the pinned tree: a surviving empty root keeps a
   next / prev pointer to its deleted sibling). *)
EXTENDS Naturals, Sequences, FiniteSets, TLC
CONSTANTS F, Keys, Threads,
          Prog,            \* [Threads -> [op : {"get", "put", "rem"}, k : Keys, v : value id]]
          InitL, InitR,    \* keys of L and of R (every key of L below every key of R; both non-empty)
          NO_DEL_FLAG, NO_P_DEL, LEAK_PREV_LOCK, STALE_LINKS
ABSENT == 0
NULL == 0
NoSlot == 99
Slots == 0..(F-1)
VARIABLES nd, pnode, rootp, rootlock, pc, loc, abs, seen, res
vars == <<nd, pnode, rootp, rootlock, pc, loc, abs, seen, res>>
Force(f) == IF f = f THEN f ELSE f
V0 == [lk |-> FALSE, ins |-> FALSE, spl |-> FALSE, del |-> FALSE, root |-> FALSE, vi |-> 0, vs |-> 0]
Stable(v) == ~v.lk /\ ~v.ins /\ ~v.spl
Unl(v) == [v EXCEPT !.lk = FALSE, !.ins = FALSE, !.spl = FALSE, !.vi = IF v.ins THEN v.vi + 1 ELSE v.vi, !.vs = IF v.spl THEN v.vs + 1 ELSE v.vs]
SeqOf(S) == CHOOSE sq \in [1..Cardinality(S) -> S] : \A i, j \in 1..Cardinality(S) : i < j => sq[i] < sq[j]
MinOf(S) == CHOOSE x \in S : \A y \in S : x <= y
MkBorder(S, pv, nx) == LET n == Cardinality(S) sq == SeqOf(S) IN
    [ver |-> [V0 EXCEPT !.vi = n], perm |-> [i \in 1..n |-> i - 1], ks |-> [s \in Slots |-> IF s < n THEN sq[s + 1] ELSE 0],
     lv |-> [s \in Slots |-> IF s < n THEN 100 + sq[s + 1] ELSE 0], prev |-> pv, next |-> nx, parent |-> 3]
L0 == [root |-> 3, pv |-> V0, ci |-> 0, child |-> 1, cv |-> V0, b |-> 1, vfb |-> V0, v |-> V0, idx |-> NoSlot, w |-> 0, prevn |-> NULL, pn |-> NULL, i |-> 0, sib |-> NULL]
Init == /\ nd = Force([n \in {1, 2} |-> IF n = 1 THEN MkBorder(InitL, NULL, 2) ELSE MkBorder(InitR, 1, NULL)])
        /\ pnode = [ver |-> [V0 EXCEPT !.root = TRUE, !.vi = 1], n |-> 1, key |-> MinOf(InitR), ch |-> <<1, 2>>, parent |-> NULL]
        /\ rootp = 3 /\ rootlock = FALSE
        /\ pc = [t \in Threads |-> "start"] /\ loc = [t \in Threads |-> L0]
        /\ abs = Force([k \in Keys |-> IF k \in InitL \cup InitR THEN 100 + k ELSE ABSENT])
        /\ seen = [t \in Threads |-> {}] /\ res = [t \in Threads |-> <<>>]
Op(t) == Prog[t]
InFlight(t) == pc[t] \notin {"start", "done"}
Lookup(b, p, k) == IF \E i \in 1..Len(p) : nd[b].ks[p[i]] = k THEN p[CHOOSE i \in 1..Len(p) : nd[b].ks[p[i]] = k] ELSE NoSlot
RankOf(b, p, k) == Cardinality({i \in 1..Len(p) : nd[b].ks[p[i]] < k}) + 1
InsertAt(p, r, s) == SubSeq(p, 1, r-1) \o <<s>> \o SubSeq(p, r, Len(p))
RemoveSlot(p, s) == SelectSeq(p, LAMBDA x : x # s)
FreeSlot(p) == CHOOSE s \in Slots : (\A i \in 1..Len(p) : p[i] # s) /\ (\A s2 \in Slots : (\A i \in 1..Len(p) : p[i] # s2) => s <= s2)
Goto(t, l) == pc' = [pc EXCEPT ![t] = l]
Commit(k, b) == /\ abs' = [abs EXCEPT ![k] = b]
                /\ seen' = Force([t \in Threads |-> IF InFlight(t) /\ Op(t).k = k THEN seen[t] \cup {b} ELSE seen[t]])
Ret(t, r) == res' = [res EXCEPT ![t] = Append(@, [op |-> Op(t).op, k |-> Op(t).k, st |-> r[1], w |-> r[2], sn |-> seen[t]])] /\ Goto(t, "done")
VerOf(n) == IF n = 3 THEN pnode.ver ELSE nd[n].ver
SetVer(n, v) == nd' = [nd EXCEPT ![n].ver = v]
\* ---------------------------------------------------------------- common: invocation, root load, find_border, get_lv_of
Start(t) == /\ pc[t] = "start" /\ seen' = [seen EXCEPT ![t] = {abs[Op(t).k]}] /\ loc' = [loc EXCEPT ![t] = L0] /\ Goto(t, "g0")
            /\ UNCHANGED <<nd, pnode, rootp, rootlock, abs, res>>
G0(t) == /\ pc[t] = "g0" /\ loc' = [loc EXCEPT ![t].root = rootp] /\ Goto(t, "fb")
         /\ UNCHANGED <<nd, pnode, rootp, rootlock, abs, seen, res>>
FB(t) == /\ pc[t] = "fb" /\ Stable(VerOf(loc[t].root))
         /\ LET r == loc[t].root v == VerOf(r) IN
            IF ~v.root THEN Goto(t, "g0") /\ UNCHANGED loc
            ELSE IF r = 3 THEN loc' = [loc EXCEPT ![t].pv = v] /\ Goto(t, "gc1")
            ELSE loc' = [loc EXCEPT ![t].b = r, ![t].vfb = v] /\ Goto(t, "lv1")
         /\ UNCHANGED <<nd, pnode, rootp, rootlock, abs, seen, res>>
GC1(t) == /\ pc[t] = "gc1" /\ loc' = [loc EXCEPT ![t].ci = IF pnode.n >= 1 /\ Op(t).k < pnode.key THEN 0 ELSE pnode.n] /\ Goto(t, "gc2")
          /\ UNCHANGED <<nd, pnode, rootp, rootlock, abs, seen, res>>
GC2(t) == /\ pc[t] = "gc2" /\ loc' = [loc EXCEPT ![t].child = pnode.ch[loc[t].ci + 1]] /\ Goto(t, "gc3")
          /\ UNCHANGED <<nd, pnode, rootp, rootlock, abs, seen, res>>
GC3(t) == /\ pc[t] = "gc3" /\ Stable(nd[loc[t].child].ver) /\ loc' = [loc EXCEPT ![t].cv = nd[loc[t].child].ver] /\ Goto(t, "gc4")
          /\ UNCHANGED <<nd, pnode, rootp, rootlock, abs, seen, res>>
GC4(t) == /\ pc[t] = "gc4" /\ Stable(pnode.ver)
          /\ LET l == loc[t] IN
             IF pnode.ver = l.pv /\ ~l.cv.del THEN loc' = [loc EXCEPT ![t].b = l.child, ![t].vfb = l.cv] /\ Goto(t, "lv1")
             ELSE IF pnode.ver.vs # l.pv.vs \/ pnode.ver.del THEN Goto(t, "fb") /\ UNCHANGED loc
             ELSE loc' = [loc EXCEPT ![t].pv = pnode.ver] /\ Goto(t, "gc1")
          /\ UNCHANGED <<nd, pnode, rootp, rootlock, abs, seen, res>>
LV1(t) == /\ pc[t] = "lv1" /\ Stable(nd[loc[t].b].ver) /\ loc' = [loc EXCEPT ![t].v = nd[loc[t].b].ver] /\ Goto(t, "permld")
          /\ UNCHANGED <<nd, pnode, rootp, rootlock, abs, seen, res>>
PermLd(t) == /\ pc[t] = "permld" /\ loc' = [loc EXCEPT ![t].idx = Lookup(loc[t].b, nd[loc[t].b].perm, Op(t).k)] /\ Goto(t, "lv2")
             /\ UNCHANGED <<nd, pnode, rootp, rootlock, abs, seen, res>>
LV2(t) == /\ pc[t] = "lv2" /\ Stable(nd[loc[t].b].ver)
          /\ LET l == loc[t] v == nd[l.b].ver o == Op(t) IN
             IF v # l.v THEN loc' = [loc EXCEPT ![t].v = v] /\ Goto(t, "permld") /\ UNCHANGED res
             ELSE IF l.v.vs # l.vfb.vs \/ (l.v.del /\ ~l.v.root) THEN Goto(t, "g0") /\ UNCHANGED <<loc, res>>
             ELSE IF o.op = "get" THEN (IF l.idx = NoSlot THEN Ret(t, <<"NOT_EXIST", 0>>) /\ UNCHANGED loc ELSE Goto(t, "g_val") /\ UNCHANGED <<loc, res>>)
             ELSE IF o.op = "rem" THEN Goto(t, IF l.idx = NoSlot THEN "r_fc0" ELSE "lock") /\ UNCHANGED <<loc, res>>
             ELSE Goto(t, "lock") /\ UNCHANGED <<loc, res>>
          /\ UNCHANGED <<nd, pnode, rootp, rootlock, abs, seen>>
\* ---------------------------------------------------------------- get
GVal(t) == /\ pc[t] = "g_val" /\ loc' = [loc EXCEPT ![t].w = nd[loc[t].b].lv[loc[t].idx]] /\ Goto(t, "g_fc")
           /\ UNCHANGED <<nd, pnode, rootp, rootlock, abs, seen, res>>
GFc(t) == /\ pc[t] = "g_fc" /\ Stable(nd[loc[t].b].ver)
          /\ LET l == loc[t] v == nd[l.b].ver IN
             IF v.vs # l.vfb.vs \/ (v.del /\ ~v.root) THEN Goto(t, "g0") /\ UNCHANGED res
             ELSE IF v.vi # l.v.vi THEN Goto(t, "lv1") /\ UNCHANGED res
             ELSE IF l.w = 0 THEN Goto(t, "lv1") /\ UNCHANGED res
             ELSE Ret(t, <<"OK", l.w>>)
          /\ UNCHANGED <<nd, pnode, rootp, rootlock, loc, abs, seen>>
\* ---------------------------------------------------------------- remove miss, lock + re-validation
RFc0(t) == /\ pc[t] = "r_fc0" /\ Stable(nd[loc[t].b].ver)
           /\ IF nd[loc[t].b].ver.vi # loc[t].v.vi THEN Goto(t, "lv1") /\ UNCHANGED res ELSE Ret(t, <<"NOT_FOUND", 0>>)
           /\ UNCHANGED <<nd, pnode, rootp, rootlock, loc, abs, seen>>
Lock(t) == /\ pc[t] = "lock" /\ ~nd[loc[t].b].ver.lk /\ SetVer(loc[t].b, [nd[loc[t].b].ver EXCEPT !.lk = TRUE]) /\ Goto(t, "chk")
           /\ UNCHANGED <<pnode, rootp, rootlock, loc, abs, seen, res>>
Chk(t) == /\ pc[t] = "chk"
          /\ LET l == loc[t] b == l.b ver == nd[b].ver o == Op(t) idx2 == Lookup(b, nd[b].perm, o.k) IN
             IF (ver.del /\ ~ver.root) \/ ver.vs # l.vfb.vs THEN SetVer(b, Unl(ver)) /\ Goto(t, "g0") /\ UNCHANGED <<loc, res>>
             ELSE IF ver.vi # l.v.vi THEN SetVer(b, Unl(ver)) /\ Goto(t, "lv1") /\ UNCHANGED <<loc, res>>
             ELSE IF o.op = "rem" THEN
                    (IF idx2 = NoSlot THEN SetVer(b, Unl(ver)) /\ Ret(t, <<"NOT_FOUND", 0>>) /\ UNCHANGED loc
                     ELSE loc' = [loc EXCEPT ![t].idx = idx2] /\ Goto(t, "r_clear") /\ UNCHANGED <<nd, res>>)
             ELSE IF l.idx = NoSlot THEN SetVer(b, [ver EXCEPT !.ins = TRUE]) /\ Goto(t, IF Len(nd[b].perm) = 0 THEN "p_undel" ELSE "p_slot") /\ UNCHANGED <<loc, res>>
             ELSE IF idx2 = NoSlot THEN SetVer(b, Unl(ver)) /\ Goto(t, "lv1") /\ UNCHANGED <<loc, res>>
             ELSE loc' = [loc EXCEPT ![t].idx = idx2] /\ Goto(t, "p_set") /\ UNCHANGED <<nd, res>>
          /\ UNCHANGED <<pnode, rootp, rootlock, abs, seen>>
\* ---------------------------------------------------------------- put
PUndel(t) == /\ pc[t] = "p_undel" /\ SetVer(loc[t].b, [nd[loc[t].b].ver EXCEPT !.del = FALSE]) /\ Goto(t, "p_slot")
             /\ UNCHANGED <<pnode, rootp, rootlock, loc, abs, seen, res>>
\* the free slot is taken from the permutation word's free list (order = history of removes): any free slot; the model check uses the lowest
PSlotAt(t, s) == /\ pc[t] = "p_slot" /\ Len(nd[loc[t].b].perm) < F /\ s \in Slots /\ \A i \in 1..Len(nd[loc[t].b].perm) : nd[loc[t].b].perm[i] # s
                 /\ LET b == loc[t].b IN nd' = [nd EXCEPT ![b].ks[s] = Op(t).k, ![b].lv[s] = Op(t).v] /\ loc' = [loc EXCEPT ![t].idx = s]
                 /\ Goto(t, "p_pub") /\ UNCHANGED <<pnode, rootp, rootlock, abs, seen, res>>
PSlot(t) == pc[t] = "p_slot" /\ PSlotAt(t, FreeSlot(nd[loc[t].b].perm))
PPub(t) == /\ pc[t] = "p_pub" /\ LET b == loc[t].b IN nd' = [nd EXCEPT ![b].perm = InsertAt(@, RankOf(b, @, Op(t).k), loc[t].idx)]
           /\ Commit(Op(t).k, Op(t).v) /\ Goto(t, "p_unlock") /\ UNCHANGED <<pnode, rootp, rootlock, loc, res>>
PSet(t) == /\ pc[t] = "p_set" /\ nd' = [nd EXCEPT ![loc[t].b].lv[loc[t].idx] = Op(t).v] /\ Commit(Op(t).k, Op(t).v)
           /\ Goto(t, "p_unlock") /\ UNCHANGED <<pnode, rootp, rootlock, loc, res>>
PUnlock(t) == /\ pc[t] = "p_unlock" /\ SetVer(loc[t].b, Unl(nd[loc[t].b].ver)) /\ Ret(t, <<"OK", 0>>)
              /\ UNCHANGED <<pnode, rootp, rootlock, loc, abs, seen>>
\* ---------------------------------------------------------------- remove: entry, then border deletion
RClear(t) == /\ pc[t] = "r_clear" /\ nd' = [nd EXCEPT ![loc[t].b].lv[loc[t].idx] = 0] /\ Goto(t, "r_pub")
             /\ UNCHANGED <<pnode, rootp, rootlock, loc, abs, seen, res>>
RPub(t) == /\ pc[t] = "r_pub" /\ LET b == loc[t].b IN
              /\ nd' = [nd EXCEPT ![b].perm = RemoveSlot(@, loc[t].idx)]
              /\ Goto(t, IF Len(nd[b].perm) = 1 THEN "r_del" ELSE "r_unlock")
           /\ Commit(Op(t).k, ABSENT) /\ UNCHANGED <<pnode, rootp, rootlock, loc, res>>
RUnlock(t) == /\ pc[t] = "r_unlock" /\ SetVer(loc[t].b, Unl(nd[loc[t].b].ver)) /\ Ret(t, <<"OK", 0>>)
              /\ UNCHANGED <<pnode, rootp, rootlock, loc, abs, seen>>
RDel(t) == /\ pc[t] = "r_del" /\ SetVer(loc[t].b, [nd[loc[t].b].ver EXCEPT !.del = ~NO_DEL_FLAG]) /\ Goto(t, "r_prev")
           /\ UNCHANGED <<pnode, rootp, rootlock, loc, abs, seen, res>>
RPrev(t) == /\ pc[t] = "r_prev" /\ LET b == loc[t].b p == nd[b].prev IN
               /\ loc' = [loc EXCEPT ![t].prevn = p]
               /\ Goto(t, IF p # NULL THEN "r_plock" ELSE IF nd[b].next # NULL THEN "r_nextfix" ELSE "r_lp")
            /\ UNCHANGED <<nd, pnode, rootp, rootlock, abs, seen, res>>
RNextFix(t) == /\ pc[t] = "r_nextfix" /\ nd' = [nd EXCEPT ![nd[loc[t].b].next].prev = NULL] /\ Goto(t, "r_lp")
               /\ UNCHANGED <<pnode, rootp, rootlock, loc, abs, seen, res>>
RPLock(t) == /\ pc[t] = "r_plock" /\ ~nd[loc[t].prevn].ver.lk /\ SetVer(loc[t].prevn, [nd[loc[t].prevn].ver EXCEPT !.lk = TRUE]) /\ Goto(t, "r_pchk")
             /\ UNCHANGED <<pnode, rootp, rootlock, loc, abs, seen, res>>
RPChk(t) == /\ pc[t] = "r_pchk" /\ LET b == loc[t].b p == loc[t].prevn IN
               IF nd[p].ver.del \/ nd[b].prev # p
               THEN (IF LEAK_PREV_LOCK THEN UNCHANGED nd ELSE SetVer(p, Unl(nd[p].ver))) /\ Goto(t, "r_prev")
               ELSE nd' = [nd EXCEPT ![p].next = nd[b].next] /\ Goto(t, IF nd[b].next # NULL THEN "r_pnp" ELSE "r_punl")
            /\ UNCHANGED <<pnode, rootp, rootlock, loc, abs, seen, res>>
RPNP(t) == /\ pc[t] = "r_pnp" /\ nd' = [nd EXCEPT ![nd[loc[t].b].next].prev = loc[t].prevn] /\ Goto(t, "r_punl")
           /\ UNCHANGED <<pnode, rootp, rootlock, loc, abs, seen, res>>
RPUnl(t) == /\ pc[t] = "r_punl" /\ SetVer(loc[t].prevn, Unl(nd[loc[t].prevn].ver)) /\ Goto(t, "r_lp")
            /\ UNCHANGED <<pnode, rootp, rootlock, loc, abs, seen, res>>
\* lock_parent of the border
RLp(t) == /\ pc[t] = "r_lp" /\ loc' = [loc EXCEPT ![t].pn = nd[loc[t].b].parent] /\ Goto(t, IF nd[loc[t].b].parent = NULL THEN "r_rl" ELSE "r_lpl")
          /\ UNCHANGED <<nd, pnode, rootp, rootlock, abs, seen, res>>
RRl(t) == /\ pc[t] = "r_rl" /\ ~rootlock /\ rootlock' = TRUE /\ Goto(t, "r_rl2")
          /\ UNCHANGED <<nd, pnode, rootp, loc, abs, seen, res>>
\* root = this: the empty deleted root border stays: its stale sibling links are dropped (the repair of defect F14; STALE_LINKS = the
\* pinned behaviour), root unlock, then the border is unlocked; else root unlock and try again
RRl2(t) == /\ pc[t] = "r_rl2"
           /\ IF rootp = loc[t].b THEN Goto(t, IF STALE_LINKS THEN "r_runl" ELSE "r_clrp") /\ UNCHANGED rootlock
              ELSE rootlock' = FALSE /\ Goto(t, "r_rl")
           /\ UNCHANGED <<nd, pnode, rootp, loc, abs, seen, res>>
RClrP(t) == /\ pc[t] = "r_clrp" /\ nd' = [nd EXCEPT ![loc[t].b].prev = NULL] /\ Goto(t, "r_clrn")
            /\ UNCHANGED <<pnode, rootp, rootlock, loc, abs, seen, res>>
RClrN(t) == /\ pc[t] = "r_clrn" /\ nd' = [nd EXCEPT ![loc[t].b].next = NULL] /\ Goto(t, "r_runl")
            /\ UNCHANGED <<pnode, rootp, rootlock, loc, abs, seen, res>>
RRUnl(t) == /\ pc[t] = "r_runl" /\ rootlock' = FALSE /\ Goto(t, "r_unlock")
            /\ UNCHANGED <<nd, pnode, rootp, loc, abs, seen, res>>
RLpl(t) == /\ pc[t] = "r_lpl" /\ ~pnode.ver.lk /\ pnode' = [pnode EXCEPT !.ver.lk = TRUE] /\ Goto(t, "r_lpc")
           /\ UNCHANGED <<nd, rootp, rootlock, loc, abs, seen, res>>
RLpc(t) == /\ pc[t] = "r_lpc" /\ LET chk == nd[loc[t].b].parent IN
              IF chk = loc[t].pn THEN Goto(t, "r_root0") /\ UNCHANGED <<pnode, loc>>
              ELSE pnode' = [pnode EXCEPT !.ver = Unl(@)] /\ loc' = [loc EXCEPT ![t].pn = chk] /\ Goto(t, IF chk = NULL THEN "r_rl" ELSE "r_lpl")
           /\ UNCHANGED <<nd, rootp, rootlock, abs, seen, res>>
RRoot0(t) == /\ pc[t] = "r_root0" /\ SetVer(loc[t].b, [nd[loc[t].b].ver EXCEPT !.root = FALSE]) /\ Goto(t, "r_selfunl")
             /\ UNCHANGED <<pnode, rootp, rootlock, loc, abs, seen, res>>
RSelfUnl(t) == /\ pc[t] = "r_selfunl" /\ SetVer(loc[t].b, Unl(nd[loc[t].b].ver)) /\ Goto(t, "i_ins")
               /\ UNCHANGED <<pnode, rootp, rootlock, loc, abs, seen, res>>
\* interior_node::delete_of(P, the border) with one key left: P is removed, the sibling becomes the root
IIns(t) == /\ pc[t] = "i_ins" /\ pnode' = [pnode EXCEPT !.ver.ins = TRUE]
           /\ LET i == IF pnode.ch[1] = loc[t].b THEN 0 ELSE 1 IN loc' = [loc EXCEPT ![t].i = i, ![t].sib = pnode.ch[2 - i]]
           /\ Goto(t, "i_del") /\ UNCHANGED <<nd, rootp, rootlock, abs, seen, res>>
IDel(t) == /\ pc[t] = "i_del" /\ pnode' = [pnode EXCEPT !.ver.del = ~NO_P_DEL] /\ Goto(t, "i_nkst")
           /\ UNCHANGED <<nd, rootp, rootlock, loc, abs, seen, res>>
INkSt(t) == /\ pc[t] = "i_nkst" /\ pnode' = [pnode EXCEPT !.n = 0] /\ Goto(t, "i_rl")
            /\ UNCHANGED <<nd, rootp, rootlock, loc, abs, seen, res>>
IRl(t) == /\ pc[t] = "i_rl" /\ ~rootlock /\ rootlock' = TRUE /\ Goto(t, "i_root0")
          /\ UNCHANGED <<nd, pnode, rootp, loc, abs, seen, res>>
IRoot0(t) == /\ pc[t] = "i_root0" /\ pnode' = [pnode EXCEPT !.ver.root = FALSE] /\ Goto(t, "i_sibroot")
             /\ UNCHANGED <<nd, rootp, rootlock, loc, abs, seen, res>>
ISibRoot(t) == /\ pc[t] = "i_sibroot" /\ SetVer(loc[t].sib, [nd[loc[t].sib].ver EXCEPT !.root = TRUE]) /\ Goto(t, "i_rootst")
               /\ UNCHANGED <<pnode, rootp, rootlock, loc, abs, seen, res>>
IRootSt(t) == /\ pc[t] = "i_rootst" /\ rootp' = loc[t].sib /\ Goto(t, "i_sibpar")
              /\ UNCHANGED <<nd, pnode, rootlock, loc, abs, seen, res>>
ISibPar(t) == /\ pc[t] = "i_sibpar" /\ nd' = [nd EXCEPT ![loc[t].sib].parent = NULL] /\ Goto(t, "i_runl")
              /\ UNCHANGED <<pnode, rootp, rootlock, loc, abs, seen, res>>
IRUnl(t) == /\ pc[t] = "i_runl" /\ rootlock' = FALSE /\ Goto(t, "i_punl")
            /\ UNCHANGED <<nd, pnode, rootp, loc, abs, seen, res>>
IPUnl(t) == /\ pc[t] = "i_punl" /\ pnode' = [pnode EXCEPT !.ver = Unl(@)] /\ Ret(t, <<"OK", 0>>)
            /\ UNCHANGED <<nd, rootp, rootlock, loc, abs, seen>>
Step(t) == Start(t) \/ G0(t) \/ FB(t) \/ GC1(t) \/ GC2(t) \/ GC3(t) \/ GC4(t) \/ LV1(t) \/ PermLd(t) \/ LV2(t) \/ GVal(t) \/ GFc(t)
           \/ RFc0(t) \/ Lock(t) \/ Chk(t) \/ PUndel(t) \/ PSlot(t) \/ PPub(t) \/ PSet(t) \/ PUnlock(t)
           \/ RClear(t) \/ RPub(t) \/ RUnlock(t) \/ RDel(t) \/ RPrev(t) \/ RNextFix(t) \/ RPLock(t) \/ RPChk(t) \/ RPNP(t) \/ RPUnl(t)
           \/ RLp(t) \/ RRl(t) \/ RRl2(t) \/ RClrP(t) \/ RClrN(t) \/ RRUnl(t) \/ RLpl(t) \/ RLpc(t) \/ RRoot0(t) \/ RSelfUnl(t)
           \/ IIns(t) \/ IDel(t) \/ INkSt(t) \/ IRl(t) \/ IRoot0(t) \/ ISibRoot(t) \/ IRootSt(t) \/ ISibPar(t) \/ IRUnl(t) \/ IPUnl(t)
AllDone == \A t \in Threads : pc[t] = "done"
Next == (\E t \in Threads : Step(t)) \/ (AllDone /\ UNCHANGED vars)
Spec == Init /\ [][Next]_vars
FairSpec == Spec /\ \A t \in Threads : WF_vars(Step(t))
\* ---------------------------------------------------------------- properties
ResOK(r) == IF r.op = "get" /\ r.st = "NOT_EXIST" THEN ABSENT \in r.sn
            ELSE IF r.op = "get" THEN r.w # 0 /\ r.w \in r.sn
            ELSE IF r.op = "rem" /\ r.st = "NOT_FOUND" THEN ABSENT \in r.sn
            ELSE TRUE
\* C01: every result is a binding the key had at some instant of the operation
LinOK == \A t \in Threads : \A i \in 1..Len(res[t]) : ResOK(res[t][i])
\* the interior root is only collapsed while it is the root (lock_parent of P found no parent and root = P)
CollapseOK == \A t \in Threads : pc[t] \in {"i_root0", "i_sibroot", "i_rootst"} => rootp = 3 /\ rootlock
\* at most one holder per lock: a step that unlocks is taken by the thread that locked (ghost-free formulation: a locked word
\* always has a thread inside the corresponding critical section)
BorderOwner(n, t) == \/ (loc[t].b = n /\ pc[t] \in {"chk", "p_undel", "p_slot", "p_pub", "p_set", "p_unlock", "r_clear", "r_pub", "r_unlock", "r_del", "r_prev",
                                                   "r_nextfix", "r_plock", "r_pchk", "r_pnp", "r_punl", "r_lp", "r_rl", "r_rl2", "r_clrp", "r_clrn", "r_runl", "r_lpl", "r_lpc", "r_root0", "r_selfunl"})
                     \/ (loc[t].prevn = n /\ pc[t] \in {"r_pchk", "r_pnp", "r_punl"})
LockOK == /\ \A n \in {1, 2} : nd[n].ver.lk => Cardinality({t \in Threads : BorderOwner(n, t)}) = 1
          /\ pnode.ver.lk => Cardinality({t \in Threads : pc[t] \in {"r_lpc", "r_root0", "r_selfunl", "i_ins", "i_del", "i_nkst", "i_rl", "i_root0", "i_sibroot", "i_rootst", "i_sibpar", "i_runl", "i_punl"}}) = 1
\* C08 at quiescence: nothing locked or dirty; the structure reachable from the root pointer is well formed and equals the abstract map
Sorted(b) == \A i \in 1..(Len(nd[b].perm) - 1) : nd[b].ks[nd[b].perm[i]] < nd[b].ks[nd[b].perm[i + 1]]
Holds(b, k) == Lookup(b, nd[b].perm, k) # NoSlot /\ nd[b].lv[Lookup(b, nd[b].perm, k)] = abs[k]
Quiescent == AllDone =>
   /\ ~rootlock /\ Stable(pnode.ver) /\ Stable(nd[1].ver) /\ Stable(nd[2].ver)
   /\ IF rootp = 3
      THEN /\ pnode.ver.root /\ ~pnode.ver.del /\ pnode.n = 1 /\ pnode.ch = <<1, 2>>
           /\ \A b \in {1, 2} : ~nd[b].ver.root /\ ~nd[b].ver.del /\ nd[b].parent = 3 /\ Sorted(b) /\ Len(nd[b].perm) >= 1
           /\ nd[1].next = 2 /\ nd[2].prev = 1 /\ nd[1].prev = NULL /\ nd[2].next = NULL
           /\ \A i \in 1..Len(nd[1].perm) : nd[1].ks[nd[1].perm[i]] < pnode.key
           /\ \A i \in 1..Len(nd[2].perm) : nd[2].ks[nd[2].perm[i]] >= pnode.key
           /\ \A k \in Keys : abs[k] # ABSENT <=> (Holds(1, k) \/ Holds(2, k))
      ELSE /\ rootp \in {1, 2} /\ ~pnode.ver.root /\ pnode.ver.del
           /\ LET b == rootp IN /\ nd[b].ver.root /\ nd[b].parent = NULL /\ nd[b].prev = NULL /\ nd[b].next = NULL /\ Sorted(b)
                                /\ (nd[b].ver.del <=> Len(nd[b].perm) = 0)
                                /\ nd[3 - b].ver.del /\ ~nd[3 - b].ver.root
                                /\ \A k \in Keys : abs[k] # ABSENT <=> Holds(b, k)
Termination == <>AllDone
====

---- MODULE YkEpoch ----
(* Sessions, epochs and deferred reclamation of yakushima (thread_info_table.h, manager_thread.h, garbage_collection.h),
   at the grain of the individual atomic accesses:
     worker  : enter = per slot (load running, CAS) ; load epoch ; store begin [; re-load epoch, repeat]      (E1..E5)
               obtain a pointer / unlink (retire with tag = the slot's begin epoch re-read at that moment)
               leave = store begin 0 ; store running false                                                    (L1, L2)
     epoch th: load epoch ; per slot load begin (mismatch -> retry) ; increment ; per slot load begin (min) ; store gc epoch
     gc th   : per slot: load gc epoch ; pop / free queue heads with tag < gc epoch
   BUGGY_ENTER = TRUE is the pinned tree's two-step enter without the re-check (defect F5). *)
EXTENDS Naturals, FiniteSets, Sequences, TLC
CONSTANTS W,            \* worker threads
          NSlots,       \* session capacity
          MaxEpoch,     \* bound on the epoch counter (state constraint of the model)
          NObj,         \* objects that can be obtained / unlinked
          BUGGY_ENTER
Slots == 1..NSlots
Objs == 1..NObj
VARIABLES epoch, gcEpoch, running, begin,        \* shared words
          wpc, wslot, we, wi, held, wres,        \* workers: pc, claimed slot, loaded epoch, probe index, held pointers, last enter result
          ost, otag, oact, q,                    \* objects: linked / retired / freed, tag, sessions active at unlink, queue per slot
          epc, ecur, ei, emin,                   \* epoch thread
          gpc, gg, gi,                           \* gc thread
          sawfull                                \* ghost: during the current enter call, slots observed occupied
vars == <<epoch, gcEpoch, running, begin, wpc, wslot, we, wi, held, wres, ost, otag, oact, q, epc, ecur, ei, emin, gpc, gg, gi, sawfull>>
Init == /\ epoch = 1 /\ gcEpoch = 0 /\ running = [s \in Slots |-> FALSE] /\ begin = [s \in Slots |-> 0]
        /\ wpc = [w \in W |-> "idle"] /\ wslot = [w \in W |-> 0] /\ we = [w \in W |-> 0] /\ wi = [w \in W |-> 1]
        /\ held = [w \in W |-> {}] /\ wres = [w \in W |-> "none"]
        /\ ost = [o \in Objs |-> "linked"] /\ otag = [o \in Objs |-> 0] /\ oact = [o \in Objs |-> {}] /\ q = [s \in Slots |-> <<>>]
        /\ epc = "verify" /\ ecur = 0 /\ ei = 1 /\ emin = 0
        /\ gpc = "load" /\ gg = 0 /\ gi = 1
        /\ sawfull = [w \in W |-> {}]
Active(w) == wpc[w] \in {"active", "leave2"} \/ FALSE
Open == {w \in W : wpc[w] = "active"}          \* sessions between "enter returned" and "leave called"
\* ---------------------------------------------------------------- worker
EnterStart(w) == /\ wpc[w] = "idle" /\ wpc' = [wpc EXCEPT ![w] = "probe"] /\ wi' = [wi EXCEPT ![w] = 1] /\ sawfull' = [sawfull EXCEPT ![w] = {}]
                 /\ wres' = [wres EXCEPT ![w] = "none"]
                 /\ UNCHANGED <<epoch, gcEpoch, running, begin, wslot, we, held, ost, otag, oact, q, epc, ecur, ei, emin, gpc, gg, gi>>
\* gain_the_right on slot wi: load running; occupied -> next slot; free -> CAS (may fail if somebody else was faster)
ProbeLoad(w) == /\ wpc[w] = "probe"
                /\ IF wi[w] > NSlots THEN /\ wpc' = [wpc EXCEPT ![w] = "idle"] /\ wres' = [wres EXCEPT ![w] = "WARN_MAX_SESSIONS"] /\ UNCHANGED <<wi, sawfull>>
                   ELSE IF running[wi[w]] THEN /\ wi' = [wi EXCEPT ![w] = @ + 1] /\ sawfull' = [sawfull EXCEPT ![w] = @ \cup {wi[w]}] /\ UNCHANGED <<wpc, wres>>
                   ELSE wpc' = [wpc EXCEPT ![w] = "cas"] /\ UNCHANGED <<wi, wres, sawfull>>
                /\ UNCHANGED <<epoch, gcEpoch, running, begin, wslot, we, held, ost, otag, oact, q, epc, ecur, ei, emin, gpc, gg, gi>>
ProbeCas(w) == /\ wpc[w] = "cas"
               /\ IF running[wi[w]] THEN /\ wi' = [wi EXCEPT ![w] = @ + 1] /\ sawfull' = [sawfull EXCEPT ![w] = @ \cup {wi[w]}] /\ wpc' = [wpc EXCEPT ![w] = "probe"] /\ UNCHANGED <<running, wslot>>
                  ELSE /\ running' = [running EXCEPT ![wi[w]] = TRUE] /\ wslot' = [wslot EXCEPT ![w] = wi[w]] /\ wpc' = [wpc EXCEPT ![w] = "ldep"] /\ UNCHANGED <<wi, sawfull>>
               /\ UNCHANGED <<epoch, gcEpoch, begin, we, held, wres, ost, otag, oact, q, epc, ecur, ei, emin, gpc, gg, gi>>
LdEp(w) == /\ wpc[w] = "ldep" /\ we' = [we EXCEPT ![w] = epoch] /\ wpc' = [wpc EXCEPT ![w] = "stbe"]
           /\ UNCHANGED <<epoch, gcEpoch, running, begin, wslot, wi, held, wres, ost, otag, oact, q, epc, ecur, ei, emin, gpc, gg, gi, sawfull>>
StBe(w) == /\ wpc[w] = "stbe" /\ begin' = [begin EXCEPT ![wslot[w]] = we[w]]
           /\ IF BUGGY_ENTER THEN wpc' = [wpc EXCEPT ![w] = "active"] /\ wres' = [wres EXCEPT ![w] = "OK"]
              ELSE wpc' = [wpc EXCEPT ![w] = "recheck"] /\ UNCHANGED wres
           /\ UNCHANGED <<epoch, gcEpoch, running, wslot, we, wi, held, ost, otag, oact, q, epc, ecur, ei, emin, gpc, gg, gi, sawfull>>
Recheck(w) == /\ wpc[w] = "recheck"
              /\ IF epoch = we[w] THEN wpc' = [wpc EXCEPT ![w] = "active"] /\ wres' = [wres EXCEPT ![w] = "OK"]
                 ELSE wpc' = [wpc EXCEPT ![w] = "ldep"] /\ UNCHANGED wres
              /\ UNCHANGED <<epoch, gcEpoch, running, begin, wslot, we, wi, held, ost, otag, oact, q, epc, ecur, ei, emin, gpc, gg, gi, sawfull>>
Obtain(w) == /\ wpc[w] = "active" /\ \E o \in Objs : ost[o] = "linked" /\ held' = [held EXCEPT ![w] = @ \cup {o}]
             /\ UNCHANGED <<epoch, gcEpoch, running, begin, wpc, wslot, we, wi, wres, ost, otag, oact, q, epc, ecur, ei, emin, gpc, gg, gi, sawfull>>
Unlink(w) == /\ wpc[w] = "active"
             /\ \E o \in Objs : /\ ost[o] = "linked" /\ ost' = [ost EXCEPT ![o] = "retired"]
                                /\ otag' = [otag EXCEPT ![o] = begin[wslot[w]]] /\ oact' = [oact EXCEPT ![o] = Open]
                                /\ q' = [q EXCEPT ![wslot[w]] = Append(@, o)]
             /\ UNCHANGED <<epoch, gcEpoch, running, begin, wpc, wslot, we, wi, held, wres, epc, ecur, ei, emin, gpc, gg, gi, sawfull>>
\* leave_thread_info: two stores, begin_epoch_ = 0 FIRST, then running_ = false (the slot may be claimed only after the second).
\* LEAVE_SWAPPED is a defect switch (a definition, so that no configuration has to name it; MC_Epoch_bug2.cfg overrides it with SwitchOn):
\* with the stores in the other order an enter that claims the slot between them has its published begin epoch overwritten by 0
\* (independent seeded change C07d).
LEAVE_SWAPPED == FALSE
SwitchOn == TRUE
Leave1(w) == /\ wpc[w] = "active" /\ held' = [held EXCEPT ![w] = {}] /\ wpc' = [wpc EXCEPT ![w] = "leave2"]
             /\ IF LEAVE_SWAPPED THEN running' = [running EXCEPT ![wslot[w]] = FALSE] /\ UNCHANGED begin
                ELSE begin' = [begin EXCEPT ![wslot[w]] = 0] /\ UNCHANGED running
             /\ oact' = [o \in Objs |-> oact[o] \ {w}]
             /\ UNCHANGED <<epoch, gcEpoch, wslot, we, wi, wres, ost, otag, q, epc, ecur, ei, emin, gpc, gg, gi, sawfull>>
Leave2(w) == /\ wpc[w] = "leave2" /\ wpc' = [wpc EXCEPT ![w] = "idle"] /\ wslot' = [wslot EXCEPT ![w] = 0]
             /\ IF LEAVE_SWAPPED THEN begin' = [begin EXCEPT ![wslot[w]] = 0] /\ UNCHANGED running
                ELSE running' = [running EXCEPT ![wslot[w]] = FALSE] /\ UNCHANGED begin
             /\ UNCHANGED <<epoch, gcEpoch, we, wi, held, wres, ost, otag, oact, q, epc, ecur, ei, emin, gpc, gg, gi, sawfull>>
\* ---------------------------------------------------------------- epoch thread
EVerifyStart == /\ epc = "verify" /\ epoch < MaxEpoch /\ ecur' = epoch /\ ei' = 1 /\ epc' = "vloop"
                /\ UNCHANGED <<epoch, gcEpoch, running, begin, wpc, wslot, we, wi, held, wres, ost, otag, oact, q, emin, gpc, gg, gi, sawfull>>
EVLoop == /\ epc = "vloop"
          /\ IF ei > NSlots THEN epc' = "inc" /\ ei' = ei
             ELSE IF begin[ei] # 0 /\ begin[ei] # ecur THEN epc' = "verify" /\ ei' = ei ELSE ei' = ei + 1 /\ epc' = epc
          /\ UNCHANGED <<epoch, gcEpoch, running, begin, wpc, wslot, we, wi, held, wres, ost, otag, oact, q, ecur, emin, gpc, gg, gi, sawfull>>
EInc == /\ epc = "inc" /\ epoch' = epoch + 1 /\ epc' = "mloop" /\ ei' = 1 /\ emin' = 0
        /\ UNCHANGED <<gcEpoch, running, begin, wpc, wslot, we, wi, held, wres, ost, otag, oact, q, ecur, gpc, gg, gi, sawfull>>
EMLoop == /\ epc = "mloop"
          /\ IF ei > NSlots THEN /\ gcEpoch' = (IF emin # 0 THEN emin - 1 ELSE epoch - 1) /\ epc' = "verify" /\ UNCHANGED <<ei, emin>>
             ELSE /\ emin' = (IF begin[ei] # 0 /\ (emin = 0 \/ begin[ei] < emin) THEN begin[ei] ELSE emin) /\ ei' = ei + 1 /\ UNCHANGED <<epc, gcEpoch>>
          /\ UNCHANGED <<epoch, running, begin, wpc, wslot, we, wi, held, wres, ost, otag, oact, q, ecur, gpc, gg, gi, sawfull>>
\* ---------------------------------------------------------------- gc thread (the one-element cache keeps the head in front: same order)
GLoad == /\ gpc = "load" /\ gg' = gcEpoch /\ gpc' = "pop"
         /\ UNCHANGED <<epoch, gcEpoch, running, begin, wpc, wslot, we, wi, held, wres, ost, otag, oact, q, epc, ecur, ei, emin, gi, sawfull>>
GPop == /\ gpc = "pop"
        /\ IF q[gi] # <<>> /\ otag[Head(q[gi])] < gg
           THEN /\ ost' = [ost EXCEPT ![Head(q[gi])] = "freed"] /\ q' = [q EXCEPT ![gi] = Tail(@)] /\ UNCHANGED <<gpc, gi>>
           ELSE /\ gi' = (IF gi = NSlots THEN 1 ELSE gi + 1) /\ gpc' = "load" /\ UNCHANGED <<ost, q>>
        /\ UNCHANGED <<epoch, gcEpoch, running, begin, wpc, wslot, we, wi, held, wres, otag, oact, epc, ecur, ei, emin, gg, sawfull>>
WStep(w) == EnterStart(w) \/ ProbeLoad(w) \/ ProbeCas(w) \/ LdEp(w) \/ StBe(w) \/ Recheck(w) \/ Obtain(w) \/ Unlink(w) \/ Leave1(w) \/ Leave2(w)
EStep == EVerifyStart \/ EVLoop \/ EInc \/ EMLoop
GStep == GLoad \/ GPop
Next == (\E w \in W : WStep(w)) \/ EStep \/ GStep
Spec == Init /\ [][Next]_vars
\* ---------------------------------------------------------------- properties
\* C07: a pointer obtained inside a session is never freed before that session leaves
Safe == \A w \in W : \A o \in held[w] : ost[o] # "freed"
\* C07, second form: an unlinked object is not released while a session that was open at the unlink is still open
SafeStrong == \A o \in Objs : ost[o] = "freed" => oact[o] = {}
\* C14: distinct tokens, hard capacity
TokenUnique == \A a, b \in W : (a # b /\ wslot[a] # 0 /\ wslot[b] # 0) => wslot[a] # wslot[b]
Capacity == Cardinality({w \in W : wslot[w] # 0}) <= NSlots
WarnMaxJustified == \A w \in W : wres[w] = "WARN_MAX_SESSIONS" => sawfull[w] = Slots
\* C14 last sentence / the lemma the reclamation argument rests on: an open session advertises an epoch that is at most one behind
EpochLag == \A w \in Open : begin[wslot[w]] # 0 /\ epoch <= begin[wslot[w]] + 1
\* the gc epoch never runs ahead of an open session
GcBehind == \A w \in Open : gcEpoch < begin[wslot[w]]
====

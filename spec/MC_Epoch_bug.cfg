SPECIFICATION Spec
CONSTANTS
  W = {w1, w2}
  NSlots = 2
  MaxEpoch = 5
  NObj = 2
  BUGGY_ENTER = TRUE
INVARIANTS Safe SafeStrong TokenUnique Capacity WarnMaxJustified
CHECK_DEADLOCK FALSE

---- MODULE TraceMap ----
(* Trace specification at API level (harness/mapdrv.cpp): any number of storages, arbitrary binary keys (up to 30 KiB),
   values of any length / alignment (identified by a fingerprint string "L<len>:<fnv>" computed by the driver over the
   bytes it put and over the bytes it read back), inline (pointer-typed) values "P:<word>".
   The state is the directory of YkMap; every call's status and results are recomputed and compared.
   ON selects the families of facts; LENIENT prints mismatches instead of blocking (see TraceTree). *)
EXTENDS YkMap, Json, IOUtils
CONSTANTS ON, LENIENT
Log == ndJsonDeserialize(IOEnv.TRACE)
VARIABLES dir, l
tvars == <<dir, l>>
E == Log[l]
Chk(c) == c \in ON
Ev(b) == b = TRUE
J(c, tag, cond, info) == Ev(IF ~Chk(c) THEN TRUE ELSE IF cond THEN TRUE
                            ELSE IF LENIENT THEN PrintT(<<"MISMATCH", c, tag, l, ToJson(info)>>) ELSE FALSE)
\* value record kept by the spec: what was put
Val(e) == [s |-> e.v, len |-> e.len, align |-> e.align, cp |-> e.cp]
KeysOf(pairs) == [i \in 1..Len(pairs) |-> pairs[i][1]]
StorageStatusOK == (E.st = "WARN_STORAGE_NOT_EXIST") = ~DHas(dir, E.n)
TCreate == /\ E.op = "create" /\ LET r == CreateR(dir, E.n) IN J("C13", "create-status", E.st = r.st, [exp |-> r.st]) /\ dir' = r.dir
TDelete == /\ E.op = "delete" /\ LET r == DeleteR(dir, E.n) IN J("C13", "delete-status", E.st = r.st, [exp |-> r.st]) /\ dir' = r.dir
TFind == /\ E.op = "find" /\ J("C13", "find-status", E.st = FindR(dir, E.n), [exp |-> FindR(dir, E.n)]) /\ dir' = dir
TList == /\ E.op = "list" /\ LET r == ListR(dir) IN J("C13", "list", E.st = r.st /\ E.names = r.names, [exp |-> r.names]) /\ dir' = dir
TPut == /\ E.op = "put"
        /\ LET r == PutR(dir, E.n, E.k, Val(E), E.uniq) IN
           /\ J("C13", "put-storage-status", StorageStatusOK, [exists |-> DHas(dir, E.n)])
           /\ J("C02", "put-status", E.st = r.st, [exp |-> r.st])
           \* created_value_ptr designates the stored copy: its bytes equal the value, and it is aligned as requested
           /\ J("C15", "put-created-ptr", r.st = "OK" /\ ~E.inl => (E.cpv = E.v /\ E.cpmod % E.align = 0), [x |-> 0])
           /\ dir' = r.dir
TRemove == /\ E.op = "remove"
           /\ LET r == RemoveR(dir, E.n, E.k) IN
              /\ J("C13", "remove-storage-status", StorageStatusOK, [exists |-> DHas(dir, E.n)])
              /\ J("C02", "remove-status", E.st = r.st, [exp |-> r.st])
              /\ dir' = r.dir
TGet == /\ E.op = "get"
        /\ LET r == GetR(dir, E.n, E.k) IN
           /\ J("C13", "get-storage-status", StorageStatusOK, [exists |-> DHas(dir, E.n)])
           /\ J("C02", "get-result", E.st = r.st /\ (r.st = "OK" => E.v = r.v.s), [exp |-> IF r.st = "OK" THEN <<r.st, r.v.s>> ELSE <<r.st>>])
           /\ J("C15", "get-value", (r.st = "OK" /\ E.st = "OK") =>
                    (E.v = r.v.s /\ E.len = r.v.len /\ (~E.inl => (E.ptr = r.v.cp /\ E.pmod % r.v.align = 0))), [exp |-> IF r.st = "OK" THEN r.v ELSE <<>>])
           /\ dir' = dir
TupleOK(t, p) == t[1] = p[1] /\ t[2] = p[2].s /\ t[3] = p[2].len /\ (t[4] # "" => t[4] = p[2].cp)
TScan == /\ E.op = "scan"
         /\ LET r == ScanR(dir, E.n, E.l, E.le, E.r, E.re, E.max, E.rtl) IN
            \* both rejection reasons at once: the property does not fix a precedence, either status is accepted
            /\ J("C03", "scan-status", IF r.st = "ERR_BAD_USAGE" /\ ~DHas(dir, E.n) THEN E.st \in {"ERR_BAD_USAGE", "WARN_STORAGE_NOT_EXIST"} ELSE E.st = r.st, [exp |-> r.st])
            /\ J("C13", "scan-storage-status", (E.st = "WARN_STORAGE_NOT_EXIST") => ~DHas(dir, E.n), [exp |-> r.st])
            /\ J("C03", "scan-result", Len(E.tl) = Len(r.tl) /\ \A i \in 1..Len(r.tl) : E.tl[i][1] = r.tl[i][1] /\ E.tl[i][2] = r.tl[i][2].s /\ E.tl[i][3] = r.tl[i][2].len,
                  [exp |-> KeysOf(r.tl), got |-> KeysOf(E.tl)])
            /\ J("C15", "scan-values", Len(E.tl) = Len(r.tl) => \A i \in 1..Len(r.tl) : TupleOK(E.tl[i], r.tl[i]), [x |-> 0])
            /\ dir' = dir
TIscan == /\ E.op = "iscan"
          /\ LET r == IscanR(dir, E.n, E.l, E.le, E.r, E.re, E.rtl)
                 want == IF E.limit < 0 \/ Len(r.seq) <= E.limit + 1 THEN r.seq ELSE SubSeq(r.seq, 1, E.limit + 1)
                 exhausted == E.limit < 0 \/ Len(r.seq) <= E.limit IN
             /\ J("C13", "iscan-storage-status", (E.st = "WARN_STORAGE_NOT_EXIST") => ~DHas(dir, E.n), [exp |-> r.st])
             /\ J("C10", "iscan-args", IF r.st = "ERR_BAD_USAGE" /\ ~DHas(dir, E.n) THEN E.st \in {"ERR_BAD_USAGE", "WARN_STORAGE_NOT_EXIST"}
                                        ELSE (E.st = "ERR_BAD_USAGE") = (r.st = "ERR_BAD_USAGE") /\ (E.st = "WARN_STORAGE_NOT_EXIST") = (r.st = "WARN_STORAGE_NOT_EXIST"), [exp |-> r.st])
             /\ J("C10", "iscan-result", r.st = "OK" =>
                      /\ Len(E.steps) = Len(want) /\ \A i \in 1..Len(want) : E.steps[i][1] = want[i][1] /\ E.steps[i][2] = want[i][2].s
                      /\ E.st = (IF Len(r.seq) = 0 THEN "OK_SCAN_END" ELSE "OK")
                      /\ E.end = (IF exhausted THEN "OK_SCAN_END" ELSE "OK"),
                   [exp |-> KeysOf(want), got |-> KeysOf(E.steps), rtl |-> E.rtl])
             /\ J("C15", "iscan-values", (r.st = "OK" /\ Len(E.steps) = Len(want)) => \A i \in 1..Len(want) : E.steps[i][3] = "" \/ E.steps[i][3] = want[i][2].cp, [x |-> 0])
             /\ dir' = dir
\* after init() / destroy() the system is empty
TReset == /\ E.op = "reset" /\ dir' = <<>>
TMeta == /\ E.op = "meta" /\ dir' = dir
TInit == dir = <<>> /\ l = 1
TNext == l <= Len(Log) /\ l' = l + 1 /\ (TCreate \/ TDelete \/ TFind \/ TList \/ TPut \/ TRemove \/ TGet \/ TScan \/ TIscan \/ TReset \/ TMeta)
TSpec == TInit /\ [][TNext]_tvars
TView == l
Accepted == TLCGet("stats").diameter - 1 = Len(Log)
====

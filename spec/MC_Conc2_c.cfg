SPECIFICATION FairSpec
CONSTANTS
  F = 3
  Readers = {1, 2}
  NewKey = 7
  GetKeys <- GK3
  NO_SPLIT_BIT = FALSE
  NO_FINAL_CHECK = FALSE
INVARIANTS LinOK Quiescent
PROPERTY Termination

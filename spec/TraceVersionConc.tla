---- MODULE TraceVersionConc ----
(* Concurrent executions of the real node_version64 (harness/verconc.cpp) under the deterministic scheduler: every logged load must
   read the word as the log says it is, every successful CAS must produce exactly Apply(operation, current word) - i.e. lock /
   unlock / flag setters / counter increment are atomic read-modify-writes of the CURRENT word (unlock clears lock and dirty
   bits, bumps the flagged counters and leaves every other field as it is at that instant), lock only succeeds on an unlocked
   word, unlock only by the holder, a stable version is never locked or dirty. *)
EXTENDS YkVersionOps, Json, IOUtils
Log == ndJsonDeserialize(IOEnv.TRACE)
M29 == 536870912
VARIABLES l, ver, cur, holder
vars == <<l, ver, cur, holder>>
E == Log[l]
W(j) == [locked |-> j.locked, ins |-> j.ins, spl |-> j.spl, deleted |-> j.deleted, root |-> j.root, border |-> j.border, vi |-> j.vi, vs |-> j.vs]
V0 == [locked |-> FALSE, ins |-> FALSE, spl |-> FALSE, deleted |-> FALSE, root |-> TRUE, border |-> TRUE, vi |-> 0, vs |-> 0]
Threads == 1..8
NoOp == <<"none">>
OpOf(e) == IF e.op = "set" THEN <<"set", e.flag, e.b>> ELSE <<e.op>>
Ev(b) == b = TRUE
TInit == l = 1 /\ ver = V0 /\ cur = [t \in Threads |-> NoOp] /\ holder = 0
TStep == /\ l <= Len(Log) /\ l' = l + 1
         /\ CASE E.e = "reset" -> ver' = V0 /\ cur' = [t \in Threads |-> NoOp] /\ holder' = 0
              [] E.e = "begin" -> cur' = [cur EXCEPT ![E.t] = OpOf(E)] /\ UNCHANGED <<ver, holder>>
              [] E.e = "load" -> Ev(W(E.w) = ver) /\ UNCHANGED <<ver, cur, holder>>
              [] E.e = "cas" -> /\ Ev(cur[E.t][1] \in {"lock", "unlock", "inc", "set"})
                                /\ Ev(W(E.w) = Apply(cur[E.t], ver, M29))
                                /\ Ev(cur[E.t][1] = "lock" => ~ver.locked /\ holder = 0)
                                /\ Ev(cur[E.t][1] = "unlock" => holder = E.t)
                                /\ ver' = W(E.w)
                                /\ holder' = IF cur[E.t][1] = "lock" THEN E.t ELSE IF cur[E.t][1] = "unlock" THEN 0 ELSE holder
                                /\ UNCHANGED cur
              [] E.e = "end" -> /\ Ev("ret" \in DOMAIN E => IsStable(W(E.ret)))
                                /\ cur' = [cur EXCEPT ![E.t] = NoOp] /\ UNCHANGED <<ver, holder>>
              [] E.e = "final" -> Ev(W(E.w) = ver /\ ~ver.locked /\ ~ver.ins /\ ~ver.spl /\ holder = 0) /\ UNCHANGED <<ver, cur, holder>>
TSpec == TInit /\ [][TStep]_vars
TView == l
Accepted == TLCGet("stats").diameter - 1 = Len(Log)
====

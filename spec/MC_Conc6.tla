---- MODULE MC_Conc6 ----
EXTENDS YkConc6
O(op, k, v) == [op |-> op, k |-> k, v |-> v]
\* F = 3: P over B1 = {2,4,6} (full), B2 = {10}, B3 = {20,22,24} (full), B4 = {30}
IB == <<{2, 4, 6}, {10}, {20, 22, 24}, {30}>>
\* a: one insert splits B1, P is split and a new root created; readers of a key whose border moves to P' and of the new key
PA == (0 :> O("put", 5, 1)) @@ (1 :> O("get", 22, 0)) @@ (2 :> O("get", 5, 0))
\* b: two inserts split B1 and B3 at the same time: the parent of B3 changes from P to P' while the second splitter waits for P's lock
PB == (0 :> O("put", 5, 1)) @@ (1 :> O("put", 23, 2)) @@ (2 :> O("get", 30, 0))
\* c: the second insert goes into a border that is not full and moves to P'
PC == (0 :> O("put", 5, 1)) @@ (1 :> O("put", 31, 2)) @@ (2 :> O("get", 31, 0))
\* d: the split border is the one in the right half (its new sibling is inserted into P')
PD == (0 :> O("put", 23, 1)) @@ (1 :> O("get", 24, 0)) @@ (2 :> O("get", 2, 0))
====

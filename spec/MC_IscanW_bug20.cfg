SPECIFICATION Spec
CONSTANTS
  F = 3
  BUGGY_F2 = FALSE
  BUGGY_F3 = FALSE
  BUGGY_F15 = FALSE
  BUGGY_F16 = FALSE
  BUGGY_F18 = FALSE
  BUGGY_F20 = TRUE
  BUGGY_F21 = FALSE
  BUGGY_F19 = FALSE
  KeySet <- K7x
  BuildKeys <- B7x
  MaxW = 2
  CurArgs <- Args7x
INVARIANTS CursorOK
PROPERTY EaAct
VIEW View
CHECK_DEADLOCK FALSE

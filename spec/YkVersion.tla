---- MODULE YkVersion ----
(* Concurrent protocol of the node version word: threads executing lock / unlock / flag CAS loops /
   get_stable_version at the grain of the individual atomic accesses of include/version.h.
   The sequential meaning of each operation is in YkVersionOps. *)
EXTENDS YkVersionOps
CONSTANTS CMOD,      \* modulus of the two counters in the model (2^29 in the code)
          Threads,
          Prog       \* [Threads -> Seq(micro-op)]
VARIABLES ver, pc, ip, exp, obs, holders, insDone, splDone
vars == <<ver, pc, ip, exp, obs, holders, insDone, splDone>>
V0 == [locked |-> FALSE, ins |-> FALSE, spl |-> FALSE, deleted |-> FALSE, root |-> TRUE, border |-> TRUE, vi |-> 0, vs |-> 0]
Init == /\ ver = V0 /\ pc = [t \in Threads |-> "idle"] /\ ip = [t \in Threads |-> 1]
        /\ exp = [t \in Threads |-> V0] /\ obs = [t \in Threads |-> <<>>]
        /\ holders = {} /\ insDone = 0 /\ splDone = 0
Cur(t) == Prog[t][ip[t]]
Finished(t) == ip[t] > Len(Prog[t])
\* get_stable_version: one load; returns only a clean word, otherwise the loop spins (no state change)
StableOk(t) == /\ ~Finished(t) /\ pc[t] = "idle" /\ Cur(t)[1] = "stable" /\ IsStable(ver)
               /\ obs' = [obs EXCEPT ![t] = Append(@, [v |-> ver, i |-> insDone, s |-> splDone])]
               /\ ip' = [ip EXCEPT ![t] = @ + 1] /\ UNCHANGED <<ver, pc, exp, holders, insDone, splDone>>
\* first load of a CAS loop (lock(): a locked word is re-read, i.e. the thread stays here)
Load(t) == /\ ~Finished(t) /\ pc[t] = "idle" /\ Cur(t)[1] # "stable"
           /\ (Cur(t)[1] = "lock" => ~ver.locked)
           /\ exp' = [exp EXCEPT ![t] = ver] /\ pc' = [pc EXCEPT ![t] = "loaded"]
           /\ UNCHANGED <<ver, ip, obs, holders, insDone, splDone>>
\* compare_exchange: success applies the operation; failure reloads `expected`
CasOk(t) == /\ pc[t] = "loaded" /\ ver = exp[t]
            /\ ver' = Apply(Cur(t), ver, CMOD)
            /\ holders' = IF Cur(t)[1] = "lock" THEN holders \cup {t} ELSE IF Cur(t)[1] = "unlock" THEN holders \ {t} ELSE holders
            /\ insDone' = IF Cur(t)[1] = "unlock" /\ ver.ins THEN insDone + 1 ELSE insDone
            /\ splDone' = IF Cur(t)[1] = "unlock" /\ ver.spl THEN splDone + 1 ELSE splDone
            /\ pc' = [pc EXCEPT ![t] = "idle"] /\ ip' = [ip EXCEPT ![t] = @ + 1] /\ UNCHANGED <<exp, obs>>
CasFail(t) == /\ pc[t] = "loaded" /\ ver # exp[t]
              /\ IF Cur(t)[1] = "lock" /\ ver.locked THEN pc' = [pc EXCEPT ![t] = "idle"] /\ UNCHANGED exp
                 ELSE exp' = [exp EXCEPT ![t] = ver] /\ UNCHANGED pc
              /\ UNCHANGED <<ver, ip, obs, holders, insDone, splDone>>
Step(t) == StableOk(t) \/ Load(t) \/ CasOk(t) \/ CasFail(t)
AllDone == \A t \in Threads : Finished(t)
Next == (\E t \in Threads : Step(t)) \/ (AllDone /\ UNCHANGED vars)
Spec == Init /\ [][Next]_vars
FairSpec == Spec /\ \A t \in Threads : WF_vars(Step(t))
\* ---------------------------------------------------------------- properties
MutualExclusion == Cardinality(holders) <= 1 /\ (holders # {} => ver.locked)
StableNeverDirty == \A t \in Threads : \A i \in 1..Len(obs[t]) : IsStable(obs[t][i].v)
\* two equal stable versions prove that no insert / split completed in between (fewer than CMOD completions)
EqualStableMeansNothingCompleted ==
   \A t \in Threads : \A i, j \in 1..Len(obs[t]) :
      (i < j /\ obs[t][i].v.vi = obs[t][j].v.vi /\ obs[t][i].v.vs = obs[t][j].v.vs
             /\ obs[t][j].i - obs[t][i].i < CMOD /\ obs[t][j].s - obs[t][i].s < CMOD)
         => (obs[t][i].i = obs[t][j].i /\ obs[t][i].s = obs[t][j].s)
CountersTrack == ver.vi = insDone % CMOD /\ ver.vs = splDone % CMOD
\* unlock leaves every other field alone, step by step
UnlockEffect == [][\A t \in Threads : (pc[t] = "loaded" /\ Cur(t)[1] = "unlock" /\ ver' # ver /\ pc'[t] = "idle")
                       => ver' = UnlockF(ver, CMOD)]_vars
NoLockLeft == AllDone => ~ver.locked /\ ~ver.ins /\ ~ver.spl /\ holders = {}
Termination == <>AllDone
====

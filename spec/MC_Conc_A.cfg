SPECIFICATION FairSpec
CONSTANTS
  Threads = {1, 2, 3}
  Keys = {1, 2, 3}
  F = 4
  InitKeys = {1, 2}
  BUGGY_F1 = FALSE
  Prog <- ProgA
INVARIANTS LinOK ScanOK Quiescent
PROPERTY Termination

SPECIFICATION FairSpec
CONSTANTS
  F = 3
  Readers = {1, 2}
  NewKey = 5
  GetKeys <- GK1
  NO_SPLIT_BIT = FALSE
  NO_FINAL_CHECK = TRUE
INVARIANTS LinOK Quiescent
PROPERTY Termination

---- MODULE YkLife ----
(* init() / fin() cycles of the library (interface_helper.h, manager_thread.h): two background threads per cycle, two
   process-wide stop flags.  BUGGY_F4 = TRUE: init() does not clear the flags (defect F4 of the pinned tree). *)
EXTENDS Naturals, TLC
CONSTANTS MaxCycles, BUGGY_F4
VARIABLES phase, flagE, flagG, eth, gth, incs, retired, freed, cycle
vars == <<phase, flagE, flagG, eth, gth, incs, retired, freed, cycle>>
Init == /\ phase = "down" /\ flagE = FALSE /\ flagG = FALSE /\ eth = "none" /\ gth = "none" /\ incs = 0 /\ retired = 0 /\ freed = 0 /\ cycle = 0
\* init(): reset the session table, [clear the stop flags], start both threads
DoInit == /\ phase = "down" /\ cycle < MaxCycles
          /\ flagE' = (IF BUGGY_F4 THEN flagE ELSE FALSE) /\ flagG' = (IF BUGGY_F4 THEN flagG ELSE FALSE)
          /\ eth' = "running" /\ gth' = "running" /\ phase' = "up" /\ incs' = 0 /\ retired' = 0 /\ freed' = 0 /\ cycle' = cycle + 1
\* one iteration of epoch_thread(): sleep, wait for the sessions, increment, publish the gc epoch, test the stop flag
EIter == /\ eth = "running" /\ incs' = (IF incs < 3 THEN incs + 1 ELSE incs) /\ eth' = (IF flagE THEN "exited" ELSE "running")
         /\ UNCHANGED <<phase, flagE, flagG, gth, retired, freed, cycle>>
\* one iteration of gc_thread(): sleep, reclaim what the gc epoch allows (needs the epoch to have advanced), test the stop flag
GIter == /\ gth = "running" /\ freed' = (IF incs >= 2 THEN retired ELSE freed) /\ gth' = (IF flagG THEN "exited" ELSE "running")
         /\ UNCHANGED <<phase, flagE, flagG, eth, incs, retired, cycle>>
Retire == /\ phase = "up" /\ retired < 2 /\ retired' = retired + 1 /\ UNCHANGED <<phase, flagE, flagG, eth, gth, incs, freed, cycle>>
\* fin(): destroy, raise both flags, join, drain the queues
FinBegin == /\ phase = "up" /\ flagE' = TRUE /\ flagG' = TRUE /\ phase' = "stopping" /\ UNCHANGED <<eth, gth, incs, retired, freed, cycle>>
FinJoin == /\ phase = "stopping" /\ eth = "exited" /\ gth = "exited" /\ freed' = retired /\ phase' = "down" /\ eth' = "none" /\ gth' = "none"
           /\ UNCHANGED <<flagE, flagG, incs, retired, cycle>>
Next == DoInit \/ EIter \/ GIter \/ Retire \/ FinBegin \/ FinJoin
Spec == Init /\ [][Next]_vars
FairSpec == Spec /\ WF_vars(EIter) /\ WF_vars(GIter) /\ WF_vars(FinJoin)
\* C16: in every cycle the background threads are alive from init to fin ...
ThreadsAliveWhileRunning == phase = "up" => eth = "running" /\ gth = "running"
\* ... the epoch keeps advancing and retired memory is reclaimed while the system stays up
EpochAdvances == (phase = "up") ~> (incs >= 3 \/ phase # "up")
ReclaimedWhileRunning == (phase = "up" /\ retired = 2) ~> (freed = 2 \/ phase # "up")
\* C11: fin() leaves nothing behind
NothingLeftAfterFin == phase = "down" => freed = retired
====

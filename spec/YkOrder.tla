---- MODULE YkOrder ----
(* C18: every site of the code that compares (8-byte slice, length) pairs, transliterated branch by branch, against the
   one intended order TupLess / bytewise lexicographic order of the keys the tuples stand for.
   A tuple [s, l] is VALID when the bytes of s beyond min(l, 8) are zero (the code zero-pads slices). *)
EXTENDS YkKeys
\* memcmp over the first n bytes of two slices
Mem(a, b, n) == CmpN(a, b, n)
\* 9-byte memcmp of key_tuple::operator< : the 9th byte is the length field that follows the slice in the object
Mem9(a, b, n) == IF n <= W THEN CmpN(a.s, b.s, n)
                 ELSE LET c == CmpN(a.s, b.s, W) IN IF c # 0 THEN c ELSE IF a.l < b.l THEN -1 ELSE IF a.l > b.l THEN 1 ELSE 0
\* base_node::key_tuple::operator<  (base_node.h)
KeyTupleLess(a, b) == IF b.l = 0 THEN FALSE ELSE IF a.l = 0 THEN TRUE
                      ELSE LET c == Mem9(a, b, Min2(a.l, b.l)) IN c < 0 \/ (c = 0 /\ a.l < b.l)
\* border_node::compute_rank_if_insert: "the new tuple goes before entry e" (tuples differ)
BorderBefore(t, e) == LET c == Mem(t.s, e.s, W) IN c < 0 \/ (c = 0 /\ t.l < e.l)
\* border_node::get_lv_of / get_lv_of_without_lock: hit test
BorderHit(t, e) == (t.l = 0 /\ e.l = 0) \/ (Mem(t.s, e.s, W) = 0 /\ ((t.l > W /\ e.l > W) \/ t.l = e.l))
\* interior_node::get_child_of: "route left of separator e"
InteriorRouteLess(t, e) == LET n == Min2(Min2(t.l, e.l), W) c == Mem(t.s, e.s, n) IN c < 0 \/ (c = 0 /\ t.l < e.l)
\* interior_node::insert / interior_split: position / side test
InteriorInsertLess(t, e) == LET n == IF t.l > W /\ e.l > W THEN W ELSE Min2(Min2(t.l, e.l), W) c == Mem(t.s, e.s, n) IN c < 0 \/ (c = 0 /\ t.l < e.l)
\* border_split: "the new tuple stays in the left node" given the first tuple f of the right node (rank fallback never needed for distinct tuples)
BorderSplitLeft(t, f) == LET n == Min2(Min2(t.l, f.l), W) c == Mem(t.s, f.s, n) IN t.l = 0 \/ c < 0 \/ (c = 0 /\ t.l < f.l)
\* ---- the domain: slices with bytes from Bytes at positions Pos (others zero), every length valid for the slice
CONSTANTS Bytes, Pos
Slices == {s \in [1..W -> Bytes \cup {0}] : \A i \in 1..W : i \notin Pos => s[i] = 0}
ValidTup(t) == t.l \in 0..LINK /\ \A i \in (Min2(t.l, W) + 1)..W : t.s[i] = 0
Tuples == {t \in [s : Slices, l : 0..LINK] : ValidTup(t)}
\* the key prefix a tuple stands for (link tuples: the 8 bytes, known to continue)
KeyOf(t) == SubSeq(t.s, 1, Min2(t.l, W))
\* intended order in terms of keys: bytes of the slice prefix lexicographically; a link sorts after the terminal with the same 8 bytes
Intended(a, b) == LexLess(KeyOf(a), KeyOf(b)) \/ (KeyOf(a) = KeyOf(b) /\ a.l < b.l)
\* ---- theorems, checked by TLC as invariants of a one-state specification
VARIABLE dummy
Init == dummy = 0
Next == UNCHANGED dummy
Spec == Init /\ [][Next]_dummy
TupLessIsIntended == \A a, b \in Tuples : TupLess(a, b) = Intended(a, b)
StrictTotal == /\ \A a \in Tuples : ~TupLess(a, a)
               /\ \A a, b \in Tuples : a # b => (TupLess(a, b) \/ TupLess(b, a)) /\ ~(TupLess(a, b) /\ TupLess(b, a))
SitesAgree == \A a, b \in Tuples :
                 /\ KeyTupleLess(a, b) = TupLess(a, b)
                 /\ (a # b => BorderBefore(a, b) = TupLess(a, b))
                 /\ BorderHit(a, b) = (a = b)
                 /\ InteriorRouteLess(a, b) = TupLess(a, b)
                 /\ (a # b => InteriorInsertLess(a, b) = TupLess(a, b))
                 /\ (a # b => BorderSplitLeft(a, b) = TupLess(a, b))
\* transitivity on a smaller domain (triples)
CONSTANT TPos
TSlices == {s \in [1..W -> Bytes \cup {0}] : \A i \in 1..W : i \notin TPos => s[i] = 0}
TTuples == {t \in [s : TSlices, l : 0..LINK] : ValidTup(t)}
Transitive == \A a, b, c \in TTuples : (TupLess(a, b) /\ TupLess(b, c)) => TupLess(a, c)
====

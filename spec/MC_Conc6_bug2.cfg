SPECIFICATION FairSpec
CONSTANTS
  F = 3
  Keys = {2, 4, 5, 6, 10, 20, 22, 23, 24, 30, 31}
  Threads = {0, 1, 2}
  Prog <- PA
  InitB <- IB
  NO_PARENT_RECHECK = FALSE
  NO_SPLIT_MARK = TRUE
INVARIANTS LinOK ParentOK Quiescent
PROPERTY Termination

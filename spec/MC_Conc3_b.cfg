SPECIFICATION FairSpec
CONSTANTS
  F = 3
  Keys = {1, 2, 4, 5, 10, 12}
  Threads = {0, 1, 2}
  Prog <- PB
  InitL = {2, 4}
  InitR = {10}
  NO_DEL_FLAG = FALSE
  NO_P_DEL = FALSE
  LEAK_PREV_LOCK = FALSE
  STALE_LINKS = FALSE
INVARIANTS LinOK CollapseOK LockOK Quiescent
PROPERTY Termination

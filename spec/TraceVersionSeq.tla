---- MODULE TraceVersionSeq ----
(* Replay log of the real node_version64 (harness/verdrv.cpp) judged by the sequential operators of YkVersion,
   with the code's modulus 2^29.  Every line: op, pre-word, post-word.  Coverage of all flag combinations x
   operations is part of acceptance. *)
EXTENDS YkVersionOps, Json, IOUtils
Log == ndJsonDeserialize(IOEnv.TRACE)
M29 == 536870912
VARIABLES l, seenCases
E == Log[l]
W(j) == [locked |-> j.locked, ins |-> j.ins, spl |-> j.spl, deleted |-> j.deleted, root |-> j.root, border |-> j.border, vi |-> j.vi, vs |-> j.vs]
VInit == [locked |-> FALSE, ins |-> FALSE, spl |-> FALSE, deleted |-> FALSE, root |-> FALSE, border |-> FALSE, vi |-> 0, vs |-> 0]
Expected(e) == CASE e.op = "lock" -> LockF(W(e.pre))
                 [] e.op = "unlock" -> UnlockF(W(e.pre), M29)
                 [] e.op = "inc" -> IncViF(W(e.pre), M29)
                 [] e.op = "set" -> SetF(W(e.pre), e.flag, e.b)
                 [] e.op = "set_body" -> W(e.pre)
                 [] e.op = "stable" -> W(e.pre)
                 [] e.op = "init" -> VInit
FlagsOf(v) == <<v.locked, v.ins, v.spl, v.deleted, v.root, v.border>>
TInit == l = 1 /\ seenCases = {}
TStep == /\ l <= Len(Log) /\ l' = l + 1
         /\ W(E.post) = Expected(E)
         /\ (E.op = "stable" => IsStable(W(E.post)))
         /\ seenCases' = seenCases \cup {<<E.op, E.flag, E.b, FlagsOf(W(E.pre))>>}
TSpec == TInit /\ [][TStep]_<<l, seenCases>>
AllFlagSets == [1..6 -> BOOLEAN]
Coverage == l = Len(Log) + 1 =>
              /\ \A fs \in AllFlagSets : <<"unlock", "", FALSE, <<fs[1], fs[2], fs[3], fs[4], fs[5], fs[6]>> >> \in seenCases
              /\ \A fs \in AllFlagSets : \A f \in {"ins", "spl", "deleted", "root", "border"} : \A b \in BOOLEAN :
                    <<"set", f, b, <<fs[1], fs[2], fs[3], fs[4], fs[5], fs[6]>> >> \in seenCases
              /\ \A fs \in AllFlagSets : ~fs[1] => <<"lock", "", FALSE, <<fs[1], fs[2], fs[3], fs[4], fs[5], fs[6]>> >> \in seenCases
Accepted == TLCGet("stats").diameter - 1 = Len(Log)
====

---- MODULE TraceTree ----
(* Trace specification for executions of the real code on ONE storage recorded by harness/treedrv.cpp (fan-out 15):
   every API call with its arguments and results, canonical structure dumps, node-version sets and phantom probes.
   The abstract map `abs` (sorted sequence of <<key, value id>>) carries the meaning of the API (C02, C03, C10);
   the node map follows the transliterated algorithms of YkTree (and must equal the dump when "S" \in ON).
   ON selects which families of conjuncts are enforced, so that a rejection is attributable to one property. *)
EXTENDS YkTree, YkIscanR, Json, IOUtils
CONSTANTS ON, LENIENT
Log == ndJsonDeserialize(IOEnv.TRACE)
VARIABLES node, root, nextId, abs, l, lastRead, lastMem, sizes, vsz
tvars == <<node, root, nextId, abs, l, lastRead, lastMem, sizes, vsz>>
E == Log[l]
Has(f) == f \in DOMAIN E
Chk(c) == c \in ON
\* TLC expands logical connectives of an action structurally even when they contain no primed variable, producing one
\* (identical) successor per satisfied disjunct / witness; comparing with TRUE forces plain evaluation.
Ev(b) == b = TRUE
\* Judgement of one property-level (or "S" = implementation-shaped) fact.  Strict mode: a failed fact blocks the trace
\* (rejection at this line).  Lenient mode: it is printed as a MISMATCH record and the trace goes on, so that every
\* mismatch of a run can be classified (known finding / violation / divergence) by the caller.
J(c, tag, cond, info) == Ev(IF ~Chk(c) THEN TRUE ELSE IF cond THEN TRUE
                            ELSE IF LENIENT THEN PrintT(<<"MISMATCH", c, tag, l, ToJson(info)>>) ELSE FALSE)
\* ---------------------------------------------------------------- dumps -> node maps
UsedSlot(j, s) == \E q \in 1..Len(j.slots) : j.slots[q].i = s
SlotRec(j, s) == j.slots[CHOOSE q \in 1..Len(j.slots) : j.slots[q].i = s]
DVer(j) == [vi |-> j.ver.vi, vs |-> j.ver.vs, del |-> j.ver.del, root |-> j.ver.root]
DNode(j) == IF j.t = "B" THEN
              [t |-> "B", perm |-> j.perm,
               k |-> Force([s \in Slots |-> IF UsedSlot(j, s) THEN [s |-> SlotRec(j, s).k.s, l |-> SlotRec(j, s).k.l] ELSE NoTup]),
               lv |-> Force([s \in Slots |-> IF UsedSlot(j, s) THEN SlotRec(j, s).lv ELSE <<"N">>]),
               parent |-> j.parent, prev |-> j.prev, next |-> j.next, ver |-> DVer(j)]
            ELSE
              [t |-> "I", n |-> j.n,
               k |-> Force([i \in Slots |-> IF i < j.n THEN [s |-> j.keys[i+1].s, l |-> j.keys[i+1].l] ELSE NoTup]),
               ch |-> Force([i \in 0..F |-> IF i <= j.n THEN j.ch[i+1] ELSE NULL]),
               parent |-> j.parent, ver |-> DVer(j)]
DNodes(d) == Force([i \in 1..Len(d.nodes) |-> DNode(d.nodes[i])])
NoDirty(d) == \A i \in 1..Len(d.nodes) : ~d.nodes[i].ver.dirty
\* ---------------------------------------------------------------- abstract map as a sorted sequence
AbsIdx(k) == IF \E i \in 1..Len(abs) : abs[i][1] = k THEN CHOOSE i \in 1..Len(abs) : abs[i][1] = k ELSE 0
Present(k) == AbsIdx(k) # 0
AbsPut(k, v) == LET i == AbsIdx(k) IN
                IF i # 0 THEN [abs EXCEPT ![i] = <<k, v>>]
                ELSE LET p == Cardinality({j \in 1..Len(abs) : LexLess(abs[j][1], k)}) IN SubSeq(abs, 1, p) \o << <<k, v>> >> \o SubSeq(abs, p + 1, Len(abs))
AbsRemove(k) == LET i == AbsIdx(k) IN SubSeq(abs, 1, i - 1) \o SubSeq(abs, i + 1, Len(abs))
AbsRange(lk, le, rk, re) == SelectSeq(abs, LAMBDA p : InRange(p[1], lk, le, rk, re))
Reverse(s) == [i \in 1..Len(s) |-> s[Len(s) + 1 - i]]
AbsScan(lk, le, rk, re, max, rtl) ==
   LET all == AbsRange(lk, le, rk, re) IN
   IF rtl THEN (IF Len(all) = 0 THEN <<>> ELSE <<all[Len(all)]>>)
   ELSE IF max = 0 \/ Len(all) <= max THEN all ELSE SubSeq(all, 1, max)
AllKeys == {Log[i].k : i \in {j \in 1..Len(Log) : "k" \in DOMAIN Log[j]}}
\* ---------------------------------------------------------------- structure bookkeeping
\* after a writer: the model's prediction (mn, mr, mid); with a dump the state becomes the dump ("S": and must equal the prediction)
Structure(mn, mr, mid) ==
   IF Has("dump") THEN
      /\ J("S", "structure", DNodes(E.dump) = mn /\ E.dump.root = mr, [x |-> 0])
      /\ node' = DNodes(E.dump) /\ root' = E.dump.root /\ nextId' = Len(E.dump.nodes) + 1
   ELSE node' = mn /\ root' = mr /\ nextId' = mid
\* C08 on a dump: structure well formed, nothing left locked / dirty, leaf chains list exactly the abstract map,
\* every key found by descent.  (State-level on purpose: takes the new abstract map as a value.)
DumpFacts(nabs) == LET dn == DNodes(E.dump) dr == E.dump.root IN
            [nodirty |-> NoDirty(E.dump), wellformed |-> WellFormed(dn, dr), chain |-> Listing(dn, dr) = nabs,
             descent |-> \A i \in 1..Len(nabs) : LET g == GetRec(dn, dr, nabs[i][1]) IN g.found /\ g.v = nabs[i][2]]
DumpOK(nabs) == IF Has("dump") /\ Chk("C08")
                THEN LET f == DumpFacts(nabs) IN J("C08", "dump", f.nodirty /\ f.wellformed /\ f.chain /\ f.descent, f)
                ELSE TRUE
\* ---------------------------------------------------------------- events
TMeta == /\ E.op = "meta" /\ sizes' = [b |-> E.szb, i |-> E.szi, lv |-> E.szlv, p |-> E.szp] /\ E.F = F
         /\ UNCHANGED <<node, root, nextId, abs, lastRead, lastMem, vsz>>
\* C12: reported nodes vs. borders whose version word changed (driver compares every border's word before / after)
ReportOK(isInsert, split) ==
   LET mod == E.rep[1] cre == E.rep[2] IN
   IF isInsert THEN
      /\ mod >= 1
      /\ {E.changed[i] : i \in 1..Len(E.changed)} = (IF E.modex THEN {mod} ELSE {})
      /\ (~E.legacy => /\ (cre # 0) = split
                       /\ (cre # 0 => cre >= 1 /\ ~E.crex /\ \E i \in 1..Len(E.newb) : E.newb[i] = cre)
                       /\ (cre # 0 /\ Has("dump") => E.dump.nodes[cre].t = "B" /\ E.dump.nodes[cre].prev = mod))
   ELSE Len(E.changed) = 0
\* C05: an insert into the interval covered by the previous read makes a recorded pair stale
ProbeOK(wasAbsent) ==
   (Has("probe") /\ lastRead.valid /\ wasAbsent /\ InRange(E.k, lastRead.l, lastRead.le, lastRead.r, lastRead.re))
      => (Len(E.probe) >= 1 /\ \E i \in 1..Len(E.probe) : E.probe[i])
TPut == /\ E.op = "put"
        /\ LET pres == Present(E.k)
               fails == E.uniq /\ pres
               r == PutRec(node, root, nextId, root, E.k, E.v)
               c == Canon(r[1], r[2])
               nabs == IF fails THEN abs ELSE AbsPut(E.k, E.v) IN
           /\ J("C02", "put-status", E.st = (IF fails THEN "WARN_UNIQUE_RESTRICTION" ELSE "OK") /\ E.cpok, [present |-> pres])
           /\ J("C12", "put-report", ReportOK(~pres, ~fails /\ r[6] # NULL), [insert |-> ~pres, split |-> ~fails /\ r[6] # NULL])
           /\ J("C05", "probe", ProbeOK(~pres), [read |-> lastRead])
           /\ DumpOK(nabs)
           /\ abs' = nabs
           /\ IF fails THEN Structure(node, root, nextId) ELSE Structure(c[1], c[2][r[2]], c[3])
           /\ vsz' = IF ~fails /\ Has("vsz") THEN (E.v :> E.vsz) @@ vsz ELSE vsz
        /\ lastRead' = [lastRead EXCEPT !.valid = FALSE] /\ UNCHANGED <<lastMem, sizes>>
TRem == /\ E.op = "rem"
        /\ LET pres == Present(E.k)
               r == RemoveRec(node, root, root, E.k)
               c == Canon(r[1], r[2])
               nabs == IF pres THEN AbsRemove(E.k) ELSE abs IN
           /\ J("C02", "remove-status", E.st = (IF pres THEN "OK" ELSE "OK_NOT_FOUND"), [present |-> pres])
           /\ J("S", "remove-model", r[3] = pres, [present |-> pres])
           /\ DumpOK(nabs)
           /\ abs' = nabs
           /\ IF pres THEN Structure(c[1], c[2][r[2]], c[3]) ELSE Structure(node, root, nextId)
        /\ lastRead' = [lastRead EXCEPT !.valid = FALSE] /\ UNCHANGED <<lastMem, sizes, vsz>>
NvOf(res) == [i \in 1..Len(res.nv) |-> <<res.nv[i][2], res.nv[i][1].vi, res.nv[i][1].vs>>]
LogNv == [i \in 1..Len(E.nv) |-> <<E.nv[i][1], E.nv[i][2], E.nv[i][3]>>]
\* model-based phantom check (C05): every absent key of the covered interval, inserted into the current tree, changes a recorded version
Undetected(lk, le, rk, re) ==
   {k \in AllKeys : ~Present(k) /\ InRange(k, lk, le, rk, re) /\
        LET p == PutRec(node, root, nextId, root, k, 0) IN
        ~\E i \in 1..Len(E.nv) : E.nv[i][1] >= 1 /\ (p[1][E.nv[i][1]].ver.vi # E.nv[i][2] \/ p[1][E.nv[i][1]].ver.vs # E.nv[i][3])}
TGet == /\ E.op = "get"
        /\ LET i == AbsIdx(E.k) g == GetRec(node, root, E.k) IN
           /\ J("C02", "get-result", IF i = 0 THEN E.st = "WARN_NOT_EXIST" ELSE E.st = "OK" /\ E.v = abs[i][2] /\ E.len = 8,
                 [exp |-> IF i = 0 THEN <<"WARN_NOT_EXIST">> ELSE <<"OK", abs[i][2]>>])
           /\ J("S", "get-nv", i = 0 => LogNv = << <<g.b, node[g.b].ver.vi, node[g.b].ver.vs>> >>, [b |-> g.b])
           /\ J("C05", "get-phantom-model", (i = 0 /\ Chk("M")) => Undetected(E.k, "INC", E.k, "INC") = {}, [k |-> E.k])
           /\ lastRead' = IF i = 0 THEN [valid |-> TRUE, l |-> E.k, le |-> "INC", r |-> E.k, re |-> "INC"] ELSE [lastRead EXCEPT !.valid = FALSE]
        /\ UNCHANGED <<node, root, nextId, abs, lastMem, sizes, vsz>>
KeysOf(pairs) == [i \in 1..Len(pairs) |-> pairs[i][1]]
TScan == /\ E.op = "scan"
         /\ LET okargs == ScanArgsOK(E.l, E.le, E.r, E.re, E.max, E.rtl)
                exp == AbsScan(E.l, E.le, E.r, E.re, E.max, E.rtl)
                got == [i \in 1..Len(E.tl) |-> <<E.tl[i][1], E.tl[i][2]>>]
                cut == E.max # 0 /\ Len(E.tl) >= E.max /\ ~E.rtl
                cl == IF E.rtl /\ Len(E.tl) >= 1 THEN E.tl[1][1] ELSE E.l
                cle == IF E.rtl /\ Len(E.tl) >= 1 THEN "INC" ELSE E.le
                cr == IF cut THEN E.tl[Len(E.tl)][1] ELSE E.r
                cre == IF cut THEN "INC" ELSE E.re IN
            /\ J("C03", "scan-status", E.st = (IF okargs THEN "OK" ELSE "ERR_BAD_USAGE") /\ (~okargs => Len(E.tl) = 0), [okargs |-> okargs])
            /\ J("C03", "scan-result", okargs => (got = exp /\ \A i \in 1..Len(E.tl) : E.tl[i][3] = 8), [exp |-> KeysOf(exp), got |-> KeysOf(got)])
            /\ J("S", "scan-model", okargs => LET res == ScanTop(node, root, E.l, E.le, E.r, E.re, E.max, E.rtl) IN res.tl = got /\ NvOf(res) = LogNv,
                  [nv |-> NvOf(ScanTop(node, root, E.l, E.le, E.r, E.re, E.max, E.rtl))])
            /\ J("C05", "scan-nv-nonempty", okargs /\ E.st = "OK" => Len(E.nv) >= 1, [x |-> 0])
            /\ J("C05", "scan-phantom-model", (okargs /\ Chk("M") /\ got = exp) => Undetected(cl, cle, cr, cre) = {},
                  [undetected |-> IF okargs /\ Chk("M") /\ got = exp THEN Undetected(cl, cle, cr, cre) ELSE {}])
            /\ lastRead' = IF okargs /\ E.st = "OK" /\ got = exp THEN [valid |-> TRUE, l |-> cl, le |-> cle, r |-> cr, re |-> cre] ELSE [lastRead EXCEPT !.valid = FALSE]
         /\ UNCHANGED <<node, root, nextId, abs, lastMem, sizes, vsz>>
\* cursor API: the consumed entries are a prefix of the interval in the requested direction
TIscan == /\ E.op = "iscan"
          /\ LET okargs == ValidRange(E.l, E.le, E.r, E.re)
                 asc == AbsRange(E.l, E.le, E.r, E.re)
                 full == IF E.rtl THEN Reverse(asc) ELSE asc
                 want == IF E.limit < 0 \/ Len(full) <= E.limit + 1 THEN full ELSE SubSeq(full, 1, E.limit + 1)
                 got == [i \in 1..Len(E.steps) |-> <<E.steps[i][1], E.steps[i][2]>>]
                 exhausted == E.limit < 0 \/ Len(full) <= E.limit
                 cl == IF E.le = "INF" THEN <<>> ELSE E.l
                 cle == IF E.le = "INF" THEN "INC" ELSE E.le
                 pl == IF ~exhausted /\ E.rtl THEN got[Len(got)][1] ELSE cl
                 ple == IF ~exhausted /\ E.rtl THEN "INC" ELSE cle
                 pr == IF ~exhausted /\ ~E.rtl THEN got[Len(got)][1] ELSE E.r
                 pre == IF ~exhausted /\ ~E.rtl THEN "INC" ELSE E.re IN
             /\ J("C10", "iscan-args", (~okargs) = (E.st = "ERR_BAD_USAGE") /\ (~okargs => Len(E.steps) = 0), [okargs |-> okargs])
             /\ J("C10", "iscan-result", okargs => /\ got = want
                                                  /\ E.st = (IF Len(full) = 0 THEN "OK_SCAN_END" ELSE "OK")
                                                  /\ E.end = (IF exhausted THEN "OK_SCAN_END" ELSE "OK"),
                   [exp |-> KeysOf(want), got |-> KeysOf(got), rtl |-> E.rtl, expend |-> IF exhausted THEN "OK_SCAN_END" ELSE "OK"])
             /\ J("S", "iscan-model", okargs => LET res == IscanRun(node, root, E.l, E.le, E.r, E.re, E.rtl, E.limit) IN res.tl = got /\ NvOf(res) = LogNv,
                   [nv |-> IF okargs THEN NvOf(IscanRun(node, root, E.l, E.le, E.r, E.re, E.rtl, E.limit)) ELSE <<>>])
             /\ J("C05", "iscan-nv-nonempty", (okargs /\ got = want) => Len(E.nv) >= 1, [x |-> 0])
             /\ J("C05", "iscan-phantom-model", (okargs /\ got = want /\ Chk("M")) => Undetected(pl, ple, pr, pre) = {},
                   [undetected |-> IF okargs /\ got = want /\ Chk("M") THEN Undetected(pl, ple, pr, pre) ELSE {}])
             /\ lastRead' = IF okargs /\ got = want /\ Len(E.nv) >= 1 THEN [valid |-> TRUE, l |-> pl, le |-> ple, r |-> pr, re |-> pre] ELSE [lastRead EXCEPT !.valid = FALSE]
          /\ UNCHANGED <<node, root, nextId, abs, lastMem, sizes, vsz>>
\* the caller pauses the cursor after some entries, writes into the tree (insert of a new key / remove of a present key), and resumes:
\* with early_abort a structural modification of the border under the cursor must be reported as WARN_CONCURRENT_OPERATIONS by the next
\* call; otherwise (and for other borders) the cursor continues with exactly the remaining entries of the updated map
IsPrefix(a, b) == Len(a) <= Len(b) /\ SubSeq(b, 1, Len(a)) = a
\* a sequence of writes (insert of a new key / overwrite / remove) applied to an abstract map and to the node map
AIdx(a, k) == IF \E i \in 1..Len(a) : a[i][1] = k THEN CHOOSE i \in 1..Len(a) : a[i][1] = k ELSE 0
APut(a, k, v) == LET i == AIdx(a, k) IN
                 IF i # 0 THEN [a EXCEPT ![i] = <<k, v>>]
                 ELSE LET p == Cardinality({j \in 1..Len(a) : LexLess(a[j][1], k)}) IN SubSeq(a, 1, p) \o << <<k, v>> >> \o SubSeq(a, p + 1, Len(a))
ARem(a, k) == LET i == AIdx(a, k) IN IF i = 0 THEN a ELSE SubSeq(a, 1, i - 1) \o SubSeq(a, i + 1, Len(a))
RECURSIVE ApplyWrites(_, _, _)
\* st = [abs, nd, rt, nid, structural (some write changed a border's entries), under (... of the border b1)]
ApplyWrites(ws, i, st) ==
   IF i > Len(ws) THEN st
   ELSE LET w == ws[i] pres == AIdx(st.abs, w.k) # 0 ok == w.st = "OK" IN
        IF ~ok THEN ApplyWrites(ws, i + 1, st)
        ELSE IF w.op = "put" THEN
           LET r == PutRec(st.nd, st.rt, st.nid, st.rt, w.k, w.v) c == Canon(r[1], r[2]) IN
           ApplyWrites(ws, i + 1, [abs |-> APut(st.abs, w.k, w.v), nd |-> c[1], rt |-> c[2][r[2]], nid |-> c[3],
                                   structural |-> st.structural \/ ~pres, hitb |-> st.hitb \cup (IF ~pres THEN {GetRec(st.nd, st.rt, w.k).b} ELSE {})])
        ELSE IF pres THEN
           LET r == RemoveRec(st.nd, st.rt, st.rt, w.k) c == Canon(r[1], r[2]) IN
           ApplyWrites(ws, i + 1, [abs |-> ARem(st.abs, w.k), nd |-> c[1], rt |-> c[2][r[2]], nid |-> c[3],
                                   structural |-> TRUE, hitb |-> st.hitb \cup {GetRec(st.nd, st.rt, w.k).b}])
        ELSE ApplyWrites(ws, i + 1, st)
\* the paused cursor in the model (YkIscanR): open, the calls of the first part, the writes applied WITHOUT renumbering (the context holds node ids,
\* dead nodes stay in the map), then next until the end or a warning
RECURSIVE ApplyRaw(_, _, _)
ApplyRaw(ws, i, st) ==
   IF i > Len(ws) THEN st
   ELSE LET w == ws[i] IN
        IF w.st # "OK" THEN ApplyRaw(ws, i + 1, st)
        ELSE IF w.op = "put" THEN LET r == PutRec(st.nd, st.rt, st.nid, st.rt, w.k, w.v) IN ApplyRaw(ws, i + 1, [nd |-> r[1], rt |-> r[2], nid |-> r[3]])
        ELSE LET r == RemoveRec(st.nd, st.rt, st.rt, w.k) IN ApplyRaw(ws, i + 1, [nd |-> r[1], rt |-> r[2], nid |-> st.nid])
RECURSIVE AdvR(_, _, _, _, _, _, _, _)
\* k more entries wanted (k = -1: until the call that does not return OK); returns [r (last call's result), tl]
AdvR(nd, rt, r, tl, k, C, ea, fuel) ==
   IF r.st # "OK" \/ fuel = 0 THEN [r |-> r, tl |-> tl]
   ELSE LET tl2 == Append(tl, <<FullKeyR(r.stack), r.out[1]>>) IN
        IF k = 1 THEN [r |-> r, tl |-> tl2] ELSE AdvR(nd, rt, NextR(nd, rt, r.stack, r.cbs, C, ea, 50), tl2, IF k < 0 THEN k ELSE k - 1, C, ea, fuel - 1)
ModelMod(e) ==
   LET C == CtxArgs(e.l, e.le, e.r, e.re, e.rtl)
       p1 == AdvR(node, root, OpenR(node, root, C, e.ea), <<>>, Len(e.steps1), C, e.ea, 500)
       raw == ApplyRaw(e.mids, 1, [nd |-> node, rt |-> root, nid |-> nextId])
       p2 == AdvR(raw.nd, raw.rt, NextR(raw.nd, raw.rt, p1.r.stack, p1.r.cbs, C, e.ea, 50), <<>>, -1, C, e.ea, 500) IN
   [tl1 |-> p1.tl, tl2 |-> p2.tl, end |-> IF p2.r.st = "END" THEN "OK_SCAN_END" ELSE IF p2.r.st = "WARN" THEN "WARN_CONCURRENT_OPERATIONS" ELSE p2.r.st]
TIscanMod ==
   /\ E.op = "iscanmod"
   /\ LET asc == AbsRange(E.l, E.le, E.r, E.re)
          full == IF E.rtl THEN Reverse(asc) ELSE asc
          got1 == [i \in 1..Len(E.steps1) |-> <<E.steps1[i][1], E.steps1[i][2]>>]
          got2 == [i \in 1..Len(E.steps2) |-> <<E.steps2[i][1], E.steps2[i][2]>>]
          nw == Len(E.mids)
          lastk == got1[Len(got1)][1]
          fin == ApplyWrites(E.mids, 1, [abs |-> abs, nd |-> node, rt |-> root, nid |-> nextId, structural |-> FALSE, hitb |-> {}])
          wkeys == {E.mids[i].k : i \in 1..nw}
          asc2 == SelectSeq(fin.abs, LAMBDA p : InRange(p[1], E.l, E.le, E.r, E.re) /\ (IF E.rtl THEN LexLess(p[1], lastk) ELSE LexLess(lastk, p[1])))
          rest == IF E.rtl THEN Reverse(asc2) ELSE asc2
          b1 == GetRec(node, root, lastk).b
          \* "the node under the cursor was modified": the border of the last returned key, in the tree the cursor saw, compared with itself
          \* after the writes applied without renumbering (version word or permutation changed; a dead node keeps its id)
          raw == ApplyRaw(E.mids, 1, [nd |-> node, rt |-> root, nid |-> nextId])
          under == nw >= 1 /\ (raw.nd[b1].ver # node[b1].ver \/ raw.nd[b1].perm # node[b1].perm) IN
      /\ J("C10", "iscan-result", nw >= 1 => (Len(got1) >= 1 /\ IsPrefix(got1, full)), [exp |-> KeysOf(full), got |-> KeysOf(got1), rtl |-> E.rtl])
      /\ J("C10", "iscan-early-abort-missed", (nw >= 1 /\ E.ea /\ under) => (E.end = "WARN_CONCURRENT_OPERATIONS" /\ Len(got2) = 0),
            [under |-> under, lastk |-> lastk])
      /\ J("C10", "iscan-resume-after-write", (nw >= 1 /\ ~(E.ea /\ under)) =>
               \* written keys may or may not be seen (they were not stable during the iteration); everything else must be exactly the rest
               LET f2 == SelectSeq(got2, LAMBDA p : p[1] \notin wkeys) fr == SelectSeq(rest, LAMBDA p : p[1] \notin wkeys)
                   mono == \A i \in 1..(Len(got2) - 1) : IF E.rtl THEN LexLess(got2[i + 1][1], got2[i][1]) ELSE LexLess(got2[i][1], got2[i + 1][1])
                   inr == \A i \in 1..Len(got2) : InRange(got2[i][1], E.l, E.le, E.r, E.re) IN
               /\ mono /\ inr
               /\ IF E.ea THEN IsPrefix(f2, fr) /\ (E.end = "OK_SCAN_END" => f2 = fr) /\ E.end \in {"OK_SCAN_END", "WARN_CONCURRENT_OPERATIONS"}
                  ELSE f2 = fr /\ E.end = "OK_SCAN_END",
            [exp |-> KeysOf(rest), got |-> KeysOf(got2), rtl |-> E.rtl, ea |-> E.ea, under |-> under])
      /\ J("S", "iscanmod-model", (nw >= 1 /\ E.st1 = "OK") => LET m == ModelMod(E) IN m.tl1 = got1 /\ m.tl2 = got2 /\ m.end = E.end,
            [model |-> IF nw >= 1 /\ E.st1 = "OK" THEN [k1 |-> KeysOf(ModelMod(E).tl1), k2 |-> KeysOf(ModelMod(E).tl2), end |-> ModelMod(E).end] ELSE [k1 |-> <<>>, k2 |-> <<>>, end |-> "-"]])
      /\ abs' = fin.abs
      /\ Structure(fin.nd, fin.rt, fin.nid)
   /\ lastRead' = [lastRead EXCEPT !.valid = FALSE] /\ UNCHANGED <<lastMem, sizes, vsz>>
\* mem_usage against an independent walk of the dumped structure (C20)
TMem == /\ E.op = "mem"
        /\ LET dn == DNodes(E.dump)
               mu == MemUsage(dn, E.dump.root, sizes, LAMBDA v : IF v \in DOMAIN vsz THEN vsz[v] ELSE 16)       \* allocated size logged at put: length + max(alignment, 8)
               same == lastMem.valid /\ Len(lastMem.mu) = Len(mu) /\ \A d0 \in 1..Len(mu) : lastMem.mu[d0].nodes = mu[d0].nodes IN
           /\ J("C20", "mem-shape", /\ Len(E.stack) = Len(mu)
                                    /\ \A d \in 1..Len(mu) : E.stack[d][1] = mu[d].nodes /\ E.stack[d][3] = mu[d].reserved /\ E.stack[d][2] <= E.stack[d][3],
                 [exp |-> [d \in 1..Len(mu) |-> <<mu[d].nodes, mu[d].reserved>>]])
           /\ J("C20", "mem-monotone", (same /\ Len(E.stack) = Len(mu)) => \A d2 \in 1..Len(mu) :
                          (mu[d2].occ >= lastMem.mu[d2].occ /\ mu[d2].vbytes >= lastMem.mu[d2].vbytes) => E.stack[d2][2] >= lastMem.used[d2],
                 [prev |-> lastMem.used])
           /\ J("S", "mem-used", Len(E.stack) = Len(mu) /\ \A d \in 1..Len(mu) : E.stack[d][2] = mu[d].used, [exp |-> [d \in 1..Len(mu) |-> mu[d].used]])
           /\ lastMem' = [valid |-> TRUE, mu |-> mu, used |-> [d \in 1..Len(E.stack) |-> E.stack[d][2]]]
           /\ DumpOK(abs) /\ Structure(node, root, nextId) /\ abs' = abs
        /\ UNCHANGED <<lastRead, sizes, vsz>>
TFinal == /\ E.op = "final" /\ DumpOK(abs) /\ Structure(node, root, nextId) /\ abs' = abs
          /\ UNCHANGED <<lastRead, lastMem, sizes, vsz>>
TInit == /\ node = (1 :> NewBorder(TRUE, NULL)) /\ root = 1 /\ nextId = 2 /\ abs = <<>> /\ l = 1
         /\ lastRead = [valid |-> FALSE, l |-> <<>>, le |-> "INF", r |-> <<>>, re |-> "INF"]
         /\ lastMem = [valid |-> FALSE, mu |-> <<>>, used |-> <<>>] /\ sizes = [b |-> 0, i |-> 0, lv |-> 0, p |-> 0] /\ vsz = <<>>
TNext == l <= Len(Log) /\ l' = l + 1 /\ (TMeta \/ TPut \/ TRem \/ TGet \/ TScan \/ TIscan \/ TIscanMod \/ TMem \/ TFinal)
TSpec == TInit /\ [][TNext]_tvars
TView == l
Accepted == TLCGet("stats").diameter - 1 = Len(Log)
====

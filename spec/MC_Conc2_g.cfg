SPECIFICATION FairSpec
CONSTANTS
  F = 5
  Readers = {1, 2}
  NewKey = 1
  GetKeys <- GK5
  NO_SPLIT_BIT = FALSE
  NO_FINAL_CHECK = FALSE
INVARIANTS LinOK Quiescent
PROPERTY Termination

SPECIFICATION FairSpec
CONSTANTS
  MaxCycles = 3
  BUGGY_F4 = TRUE
INVARIANTS ThreadsAliveWhileRunning NothingLeftAfterFin
PROPERTIES EpochAdvances ReclaimedWhileRunning
CHECK_DEADLOCK FALSE

---- MODULE TracePerm ----
(* Log of the real permutation object (harness/permdrv.cpp): every line is one operation with the decoded word
   before and after.  TLC recomputes the result with the sequence operators of YkPerm (F = 15). *)
EXTENDS YkPerm, Json, IOUtils
Log == ndJsonDeserialize(IOEnv.TRACE)
VARIABLES l, cov
E == Log[l]
TInit == l = 1 /\ cov = {}
TStep == /\ l <= Len(Log) /\ l' = l + 1
         /\ PermOK(E.pre) /\ PermOK(E.post) /\ E.n_pre = Len(E.pre) /\ E.n_post = Len(E.post)
         /\ CASE E.op = "insert" -> E.post = InsertRank(E.pre, E.rank, E.pos) /\ E.stores = 1
              [] E.op = "delete" -> E.post = DeleteRank(E.pre, E.rank) /\ E.stores = 1
              [] E.op = "empty" -> E.post = E.pre /\ E.pos = EmptySlot(E.pre) /\ E.pos \notin Used(E.pre) /\ E.stores = 0
              [] E.op = "split" -> E.post = SplitDest(E.rank) /\ E.stores = 1
              [] E.op = "index" -> E.post = E.pre /\ E.pos = IndexOfRank(E.pre, E.rank) /\ E.stores = 0
              [] E.op = "setbody" -> E.post = E.pre
         /\ cov' = cov \cup {<<E.op, Len(E.pre), E.rank>>}
         /\ UNCHANGED <<perm, lastOk>>
TSpec == TInit /\ perm = <<>> /\ lastOk = TRUE /\ [][TStep]_<<l, cov, perm, lastOk>>
Coverage == l = Len(Log) + 1 =>
              /\ \A n \in 0..(F-1) : \A r \in 0..n : <<"insert", n, r>> \in cov
              /\ \A n \in 1..F : \A r \in 0..(n-1) : <<"delete", n, r>> \in cov /\ <<"index", n, r>> \in cov
              /\ \A n \in 0..(F-1) : <<"empty", n, 0>> \in cov
              /\ \A n \in 1..F : \E m \in 0..F : <<"split", m, n>> \in cov
Accepted == TLCGet("stats").diameter - 1 = Len(Log)
====

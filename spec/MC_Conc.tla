---- MODULE MC_Conc ----
EXTENDS YkConc
O(op, k, v) == [op |-> op, k |-> k, v |-> v]
\* A: reader vs remover of the same key vs a thread that inserts another key and then unique-inserts the contended one
ProgA == (1 :> <<O("get", 2, 0)>>) @@ (2 :> <<O("rem", 2, 0)>>) @@ (3 :> <<O("put", 3, 1), O("uput", 2, 2)>>)
\* B: two removers and an updater of one key, then a reader
ProgB == (1 :> <<O("rem", 1, 0), O("get", 1, 0)>>) @@ (2 :> <<O("rem", 1, 0)>>) @@ (3 :> <<O("put", 1, 1)>>)
\* C: scanner vs insert / remove / update
ProgC == (1 :> <<O("scan", 1, 0)>>) @@ (2 :> <<O("rem", 2, 0), O("put", 3, 1)>>) @@ (3 :> <<O("put", 1, 2)>>)
\* D: emptying the node and refilling it (deleted root), reader and scanner
ProgD == (1 :> <<O("rem", 1, 0), O("put", 2, 1)>>) @@ (2 :> <<O("get", 1, 0), O("scan", 1, 0)>>) @@ (3 :> <<O("uput", 1, 2)>>)
====

SPECIFICATION FairSpec
CONSTANTS
  F = 3
  Keys = {1, 2, 4, 5, 10, 12}
  Threads = {0, 1, 2}
  Prog <- PC
  InitL = {2}
  InitR = {10}
  NO_DEL_FLAG = FALSE
  NO_P_DEL = FALSE
  LEAK_PREV_LOCK = TRUE
  STALE_LINKS = FALSE
INVARIANTS LinOK CollapseOK LockOK Quiescent
PROPERTY Termination

SPECIFICATION Spec
CONSTANTS
  F = 3
  BUGGY_F2 = FALSE
  BUGGY_F3 = FALSE
  BUGGY_F15 = FALSE
  BUGGY_F16 = FALSE
  BUGGY_F18 = FALSE
  BUGGY_F20 = FALSE
  BUGGY_F21 = FALSE
  BUGGY_F19 = TRUE
  KeySet <- K6s
  BuildKeys <- K6s
  MaxW = 2
  CurArgs <- ArgsS
INVARIANTS CursorOK
PROPERTY EaAct
VIEW View
CHECK_DEADLOCK FALSE

SPECIFICATION Spec
CONSTANTS
  F = 3
  NVals = 1
  BUGGY_F2 = FALSE
  BUGGY_F3 = FALSE
  KeySet <- Keys7
  ArgKeys <- Keys7
INVARIANTS WF AbsOK LastOK GetMissOK MemOK
VIEW View
CHECK_DEADLOCK FALSE

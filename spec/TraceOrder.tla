---- MODULE TraceOrder ----
(* Replay log of the real comparison sites (harness/orddrv.cpp) judged by the one intended order of YkKeys (TupLess). *)
EXTENDS YkKeys, Json, IOUtils
Log == ndJsonDeserialize(IOEnv.TRACE)
VARIABLES l, npairs
E == Log[l]
T(j) == [s |-> j.s, l |-> j.l]
Ev(b) == b = TRUE
TInit == l = 1 /\ npairs = 0
\* side decision of a border split whose pivot (first tuple of the new right node) is e: the new tuple t stays left iff t < e;
\* afterwards every key is found by get and the scan lists each exactly once
TSplit == /\ l <= Len(Log) /\ l' = l + 1 /\ npairs' = npairs + 1 /\ E.op = "split"
          /\ Ev(E.split /\ E.left = TupLess(T(E.t), T(E.e)) /\ E.getok /\ E.total = 16)
\* side decision of an interior split whose middle pivot e is pushed up: the child for pivot t goes to the left half iff t < e
TISplit == /\ l <= Len(Log) /\ l' = l + 1 /\ npairs' = npairs + 1 /\ E.op = "isplit"
           /\ Ev(E.ok /\ E.pivotok /\ E.left = TupLess(T(E.t), T(E.e)) /\ E.right = ~TupLess(T(E.t), T(E.e)))
TStep == /\ l <= Len(Log) /\ l' = l + 1 /\ npairs' = npairs + 1 /\ E.op = "pair"
         /\ LET t == T(E.t) e == T(E.e) less == TupLess(t, e) same == t = e IN
            Ev(/\ E.kt_less = less /\ E.kt_greater = TupLess(e, t) /\ E.kt_eq = same
               /\ E.hit = same /\ E.hit_nolock = same
               /\ (~same => E.rank = (IF less THEN 0 ELSE 1))
               /\ (e.l > 0 => E.route_left = less)
               /\ (e.l > 0 /\ t.l > 0 /\ ~same => E.ins_before = less /\ E.ins_shape)
               /\ (~same => E.sorted_n = 2 /\ E.sorted_first = (IF less THEN 0 ELSE 1)))
TSpec == TInit /\ [][TStep \/ TSplit \/ TISplit]_<<l, npairs>>
TView == l
Accepted == TLCGet("stats").diameter - 1 = Len(Log)
====

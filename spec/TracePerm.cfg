SPECIFICATION TSpec
CONSTANT F = 15
INVARIANT Coverage
POSTCONDITION Accepted
CHECK_DEADLOCK FALSE

SPECIFICATION Spec
CONSTANTS
  F = 3
  NVals = 1
  BUGGY_F2 = FALSE
  BUGGY_F3 = FALSE
  KeySet <- Keys12S
  ArgKeys <- Keys12S
INVARIANTS WF AbsOK LastOK GetMissOK MemOK
CHECK_DEADLOCK FALSE

---- MODULE YkConc4 ----
(* Concurrent grain of a BORDER SPLIT UNDER AN EXISTING INTERIOR PARENT (interior insert), of an INTERIOR DELETE that keeps the
   interior (shift of keys and children), and of their races with the collapse of the interior root and the creation of a new root
   (the root-lock hand-over of lock_parent), against optimistic readers.  The tree is an interior root P (node 4) over the borders
   B1 and B2; B3 (node 3) is the border a split allocates, P2 (node 5) the interior a root split allocates.
     readers / common : Start / G0 root pointer / FB stable(root) / GC1 n_keys + key search (exact while P's version equals the validated
                        one, ANY child index otherwise: torn reads of the key array are over-approximated) / GC2 child load / GC3 stable(child) /
                        GC4 stable(parent) again / LV1 PermLd LV2 get_lv_of / get: GVal GFc
     put              : Lock Chk (sets inserting) / not full: PUndel PSlot PPub PUnlock, update: PSet PUnlock /
                        full: S1 splitting / S3a B3 := copy of the version / S3 linked behind the border / S3b next.prev := B3 /
                        per moved entry SMove SPerm / S6 / S7a S7b (commit) /
                        lock_parent: LpLd / LpL lock parent / LpC re-check (changed -> unlock, again) / [no parent: SRl root lock, SRl2 root = this?]
                        no parent (root border):  N1a N1b (P2 built privately) N1c N2 N3 N4 root pointer := P2, N5, N6
                        interior parent        :  X1 X2 root flags off / X3 X4 unlock the borders / X5 B3.parent / X6 P.inserting /
                                                  XKey key array / XChS per-element shift of the child array / XCh new child / XN n_keys + 1 / X9 unlock P
     remove           : Lock Chk RClear RPub (commit) [RUnlock] / RDel / RPrev RPLock RPChk RPNP RPUnl RNextFix / RLp RLpl RLpc RRl RRl2 RClrP RClrN RRUnl /
                        RRoot0 RSelfUnl / IIns / one key left: IDel INkSt IRl IRoot0 ISibRoot IRootSt ISibPar IRUnl IPUnl (collapse) /
                        more keys: YShiftK, YShiftC (per element), YClrC YClrK YN YUnl
   Ghosts abs / seen / res as in YkConc.  Defect switches: UNLOCK_BEFORE_PARENT (the split unlocks its borders before it owns the
   parent lock), NO_INS_ON_INSERT (interior insert without the inserting mark), NO_INS_ON_DELETE (interior delete without it),
   SCAN_NO_FINAL (scan_border without the final version check of the border; NOT distinguishable by the invariants while every
   border holds entries, because the per-entry re-validation subsumes it), SCAN_NO_ENTRY_CHECK (no re-validation per entry; together
   with SCAN_NO_FINAL = a scan without any re-validation: ScanOK fails).
   SCAN_DUP (defect F17 of the pinned tree: a key whose border was emptied and unlinked and that is inserted again lands in the border
   the scan is standing on and is returned a second time).
   LATE_PARENT (seed C09d: border_split stores the new border's parent pointer after it has unlocked the parent: a remover that empties the
   new border in between reads "no parent", takes the root lock, finds another root and repeats that for ever: Termination fails).
   ISCAN_NO_REWIND (the cursor keeps its rank when the permutation of its border changed: entries shift under it).
   iscan (cursor: open(-inf, +inf), next until the end): IOLv1 IOP IOLv2 IOStack / INTop INNext INEnt / iscan_check_retry CK1..CK4 with the
   outcome CkDone per call site / INNb1..3 move to the neighbour / IRFb retry_after_fb / IRRoot IRArr retry_from_root / IRet
   SCAN_FRESH_VERSION (scan_border starts from a fresh version instead of the one of the validated descent: harmless for forward scans,
   which read the next pointer and the content after the version, but a right-to-left scan misses the keys a split has moved away).
   One other candidate switch turned out to be harmless and was dropped (TLC finds no violation): logging the next border's version after the final check (a
   forward scan reads the next pointer and the content after the version, so a later version only makes it see a later state).
   scan (full range, collecting (version, node) pairs): SEnter / SNext next pointer / SPermS permutation snapshot / per entry SVal, SChk /
   SRec / SNv version of the next border / SFin final check (retry from root, retry the border, hand over to the next border) / SRet *)
EXTENDS Naturals, Sequences, FiniteSets, TLC
CONSTANTS F, Keys, Threads,
          Prog,            \* [Threads -> [op : {"get", "put", "rem"}, k : Keys, v : value id]]
          Init1, Init2,    \* keys of B1 and B2 (every key of B1 below every key of B2; both non-empty)
          UNLOCK_BEFORE_PARENT, NO_INS_ON_INSERT, NO_INS_ON_DELETE,
          SCAN_NO_FINAL, SCAN_NO_ENTRY_CHECK, SCAN_DUP, ISCAN_NO_REWIND, SCAN_FRESH_VERSION, LATE_PARENT
ABSENT == 0
NULL == 0
NoSlot == 99
Slots == 0..(F-1)
Borders == {1, 2, 3}
Interiors == {4, 5}
VARIABLES bd, it, rootp, rootlock, pc, loc, abs, seen, res
vars == <<bd, it, rootp, rootlock, pc, loc, abs, seen, res>>
Force(f) == IF f = f THEN f ELSE f
V0 == [lk |-> FALSE, ins |-> FALSE, spl |-> FALSE, del |-> FALSE, root |-> FALSE, vi |-> 0, vs |-> 0]
Stable(v) == ~v.lk /\ ~v.ins /\ ~v.spl
Unl(v) == [v EXCEPT !.lk = FALSE, !.ins = FALSE, !.spl = FALSE, !.vi = IF v.ins THEN v.vi + 1 ELSE v.vi, !.vs = IF v.spl THEN v.vs + 1 ELSE v.vs]
SeqOf(S) == CHOOSE sq \in [1..Cardinality(S) -> S] : \A i, j \in 1..Cardinality(S) : i < j => sq[i] < sq[j]
MinOf(S) == CHOOSE x \in S : \A y \in S : x <= y
EmptyB == [ver |-> V0, perm |-> <<>>, ks |-> [s \in Slots |-> 0], lv |-> [s \in Slots |-> 0], prev |-> NULL, next |-> NULL, parent |-> NULL]
MkBorder(S, pv, nx) == LET n == Cardinality(S) sq == SeqOf(S) IN
    [EmptyB EXCEPT !.ver = [V0 EXCEPT !.vi = n], !.perm = [i \in 1..n |-> i - 1], !.ks = [s \in Slots |-> IF s < n THEN sq[s + 1] ELSE 0],
                   !.lv = [s \in Slots |-> IF s < n THEN 100 + sq[s + 1] ELSE 0], !.prev = pv, !.next = nx, !.parent = 4]
EmptyI == [ver |-> V0, n |-> 0, key |-> [i \in 0..(F-1) |-> 0], ch |-> [i \in 0..F |-> NULL], parent |-> NULL]
L0 == [root |-> 4, cur |-> 4, pv |-> V0, ci |-> 0, child |-> 1, cv |-> V0, b |-> 1, vfb |-> V0, v |-> V0, idx |-> NoSlot, w |-> 0,
       prevn |-> NULL, pn |-> NULL, i |-> 0, sib |-> NULL, mv |-> 1, nb |-> NULL, insd |-> FALSE,
       out |-> <<>>, nv |-> <<>>, snap |-> <<>>, si |-> 1, pushed |-> FALSE, iszo |-> 0, iszn |-> 0, nxt |-> NULL, nxv |-> V0,
       iph |-> "open", stb |-> 1, stlast |-> 0, strank |-> 1, stv |-> V0, stperm |-> <<>>, stroot |-> 4, perm |-> <<>>, ckv |-> V0, ckp |-> <<>>, kt |-> 0, cc |-> 1,
       tov |-> V0, top |-> <<>>]
Init == /\ bd = Force([n \in Borders |-> IF n = 1 THEN MkBorder(Init1, NULL, 2) ELSE IF n = 2 THEN MkBorder(Init2, 1, NULL) ELSE EmptyB])
        /\ it = Force([n \in Interiors |-> IF n = 4 THEN [EmptyI EXCEPT !.ver = [V0 EXCEPT !.root = TRUE, !.vi = 1], !.n = 1, !.key[0] = MinOf(Init2), !.ch[0] = 1, !.ch[1] = 2]
                                           ELSE EmptyI])
        /\ rootp = 4 /\ rootlock = FALSE
        /\ pc = [t \in Threads |-> "start"] /\ loc = [t \in Threads |-> L0]
        /\ abs = Force([k \in Keys |-> IF k \in Init1 \cup Init2 THEN 100 + k ELSE ABSENT])
        /\ seen = [t \in Threads |-> [k \in Keys |-> {}]] /\ res = [t \in Threads |-> <<>>]
Op(t) == Prog[t]
InFlight(t) == pc[t] \notin {"start", "done"}
Lookup(b, p, k) == IF \E i \in 1..Len(p) : bd[b].ks[p[i]] = k THEN p[CHOOSE i \in 1..Len(p) : bd[b].ks[p[i]] = k] ELSE NoSlot
RankOf(b, p, k) == Cardinality({i \in 1..Len(p) : bd[b].ks[p[i]] < k}) + 1
InsertAt(p, r, s) == SubSeq(p, 1, r-1) \o <<s>> \o SubSeq(p, r, Len(p))
RemoveSlot(p, s) == SelectSeq(p, LAMBDA x : x # s)
FreeSlot(p) == CHOOSE s \in Slots : (\A i \in 1..Len(p) : p[i] # s) /\ (\A s2 \in Slots : (\A i \in 1..Len(p) : p[i] # s2) => s <= s2)
Goto(t, l) == pc' = [pc EXCEPT ![t] = l]
Commit(k, b) == /\ abs' = [abs EXCEPT ![k] = b]
                /\ seen' = Force([t \in Threads |-> IF InFlight(t) /\ (Op(t).op \in {"scan", "iscan", "rscan"} \/ Op(t).k = k) THEN [seen[t] EXCEPT ![k] = @ \cup {b}] ELSE seen[t]])
Ret(t, r) == res' = [res EXCEPT ![t] = Append(@, [op |-> Op(t).op, k |-> Op(t).k, st |-> r[1], w |-> r[2], sn |-> seen[t], ins |-> loc[t].insd, nv |-> loc[t].nv])] /\ Goto(t, "done")
VerOf(n) == IF n \in Interiors THEN it[n].ver ELSE bd[n].ver
ParentOf(n) == IF n \in Interiors THEN it[n].parent ELSE bd[n].parent
SetBV(n, v) == bd' = [bd EXCEPT ![n].ver = v]
SetIV(n, v) == it' = [it EXCEPT ![n].ver = v]
Keep == F \div 2 + 1
\* index of the child for key k in interior p (interior_node::get_child_of without the version protocol)
ChildIdx(p, k) == IF \E i \in 0..(it[p].n - 1) : k < it[p].key[i] THEN CHOOSE i \in 0..(it[p].n - 1) : k < it[p].key[i] /\ \A j \in 0..(i - 1) : ~(k < it[p].key[j])
                  ELSE it[p].n
AfterFB(t) == IF Op(t).op \in {"scan", "rscan"} THEN "s_enter" ELSE IF Op(t).op = "iscan" THEN (IF loc[t].iph = "open" THEN "io_lv1" ELSE "ir_arr") ELSE "lv1"
\* the key find_border descends for: scans start at the leftmost border, a cursor that re-finds its position uses its last key
DescKey(t) == IF Op(t).op = "scan" THEN 0 ELSE IF Op(t).op = "rscan" THEN 999 ELSE IF Op(t).op = "iscan" THEN loc[t].stlast ELSE Op(t).k
IsScanOp(t) == Op(t).op \in {"scan", "iscan"}
SameButLock(a, b) == [a EXCEPT !.lk = FALSE] = [b EXCEPT !.lk = FALSE]
\* ---------------------------------------------------------------- common: invocation, root load, find_border, get_lv_of
Start(t) == /\ pc[t] = "start" /\ seen' = [seen EXCEPT ![t] = [k \in Keys |-> IF Op(t).op \in {"scan", "iscan", "rscan"} \/ k = Op(t).k THEN {abs[k]} ELSE {}]] /\ loc' = [loc EXCEPT ![t] = L0] /\ Goto(t, "g0")
            /\ UNCHANGED <<bd, it, rootp, rootlock, abs, res>>
G0(t) == /\ pc[t] = "g0" /\ loc' = [loc EXCEPT ![t].root = rootp] /\ Goto(t, "fb")
         /\ UNCHANGED <<bd, it, rootp, rootlock, abs, seen, res>>
FB(t) == /\ pc[t] = "fb" /\ Stable(VerOf(loc[t].root))
         /\ LET r == loc[t].root v == VerOf(r) IN
            IF ~v.root THEN Goto(t, IF Op(t).op = "iscan" /\ loc[t].iph = "retry" THEN "ir_root" ELSE "g0") /\ UNCHANGED loc
            ELSE IF r \in Interiors THEN loc' = [loc EXCEPT ![t].cur = r, ![t].pv = v] /\ Goto(t, "gc1")
            ELSE loc' = [loc EXCEPT ![t].b = r, ![t].vfb = v, ![t].iszo = 0, ![t].iszn = 0] /\ Goto(t, AfterFB(t))
         /\ UNCHANGED <<bd, it, rootp, rootlock, abs, seen, res>>
GC1(t) == /\ pc[t] = "gc1"
          /\ LET p == loc[t].cur IN
             IF SameButLock(it[p].ver, loc[t].pv) THEN loc' = [loc EXCEPT ![t].ci = ChildIdx(p, DescKey(t))]
             ELSE \E c \in 0..F : loc' = [loc EXCEPT ![t].ci = c]
          /\ Goto(t, "gc2") /\ UNCHANGED <<bd, it, rootp, rootlock, abs, seen, res>>
GC2(t) == /\ pc[t] = "gc2" /\ LET c == it[loc[t].cur].ch[loc[t].ci] IN
             IF c = NULL THEN Goto(t, "fb") /\ UNCHANGED loc ELSE loc' = [loc EXCEPT ![t].child = c] /\ Goto(t, "gc3")
          /\ UNCHANGED <<bd, it, rootp, rootlock, abs, seen, res>>
GC3(t) == /\ pc[t] = "gc3" /\ Stable(VerOf(loc[t].child)) /\ loc' = [loc EXCEPT ![t].cv = VerOf(loc[t].child)] /\ Goto(t, "gc4")
          /\ UNCHANGED <<bd, it, rootp, rootlock, abs, seen, res>>
GC4(t) == /\ pc[t] = "gc4" /\ Stable(it[loc[t].cur].ver)
          /\ LET l == loc[t] pv == it[l.cur].ver IN
             IF pv = l.pv /\ ~l.cv.del THEN loc' = [loc EXCEPT ![t].b = l.child, ![t].vfb = l.cv, ![t].iszo = 0, ![t].iszn = 0] /\ Goto(t, AfterFB(t))
             ELSE IF pv.vs # l.pv.vs \/ pv.del THEN Goto(t, "fb") /\ UNCHANGED loc
             ELSE loc' = [loc EXCEPT ![t].pv = pv] /\ Goto(t, "gc1")
          /\ UNCHANGED <<bd, it, rootp, rootlock, abs, seen, res>>
LV1(t) == /\ pc[t] = "lv1" /\ Stable(bd[loc[t].b].ver) /\ loc' = [loc EXCEPT ![t].v = bd[loc[t].b].ver] /\ Goto(t, "permld")
          /\ UNCHANGED <<bd, it, rootp, rootlock, abs, seen, res>>
PermLd(t) == /\ pc[t] = "permld" /\ loc' = [loc EXCEPT ![t].idx = Lookup(loc[t].b, bd[loc[t].b].perm, Op(t).k)] /\ Goto(t, "lv2")
             /\ UNCHANGED <<bd, it, rootp, rootlock, abs, seen, res>>
LV2(t) == /\ pc[t] = "lv2" /\ Stable(bd[loc[t].b].ver)
          /\ LET l == loc[t] v == bd[l.b].ver o == Op(t) IN
             IF v # l.v THEN loc' = [loc EXCEPT ![t].v = v] /\ Goto(t, "permld") /\ UNCHANGED res
             ELSE IF l.v.vs # l.vfb.vs \/ (l.v.del /\ ~l.v.root) THEN Goto(t, "g0") /\ UNCHANGED <<loc, res>>
             ELSE IF o.op = "get" THEN (IF l.idx = NoSlot THEN Ret(t, <<"NOT_EXIST", 0>>) /\ UNCHANGED loc ELSE Goto(t, "g_val") /\ UNCHANGED <<loc, res>>)
             ELSE IF o.op = "rem" THEN Goto(t, IF l.idx = NoSlot THEN "r_fc0" ELSE "lock") /\ UNCHANGED <<loc, res>>
             ELSE Goto(t, "lock") /\ UNCHANGED <<loc, res>>
          /\ UNCHANGED <<bd, it, rootp, rootlock, abs, seen>>
GVal(t) == /\ pc[t] = "g_val" /\ loc' = [loc EXCEPT ![t].w = bd[loc[t].b].lv[loc[t].idx]] /\ Goto(t, "g_fc")
           /\ UNCHANGED <<bd, it, rootp, rootlock, abs, seen, res>>
GFc(t) == /\ pc[t] = "g_fc" /\ Stable(bd[loc[t].b].ver)
          /\ LET l == loc[t] v == bd[l.b].ver IN
             IF v.vs # l.vfb.vs \/ (v.del /\ ~v.root) THEN Goto(t, "g0") /\ UNCHANGED res
             ELSE IF v.vi # l.v.vi THEN Goto(t, "lv1") /\ UNCHANGED res
             ELSE IF l.w = 0 THEN Goto(t, "lv1") /\ UNCHANGED res
             ELSE Ret(t, <<"OK", l.w>>)
          /\ UNCHANGED <<bd, it, rootp, rootlock, loc, abs, seen>>
RFc0(t) == /\ pc[t] = "r_fc0" /\ Stable(bd[loc[t].b].ver)
           /\ IF bd[loc[t].b].ver.vi # loc[t].v.vi THEN Goto(t, "lv1") /\ UNCHANGED res ELSE Ret(t, <<"NOT_FOUND", 0>>)
           /\ UNCHANGED <<bd, it, rootp, rootlock, loc, abs, seen>>
Lock(t) == /\ pc[t] = "lock" /\ ~bd[loc[t].b].ver.lk /\ SetBV(loc[t].b, [bd[loc[t].b].ver EXCEPT !.lk = TRUE]) /\ Goto(t, "chk")
           /\ UNCHANGED <<it, rootp, rootlock, loc, abs, seen, res>>
\* MIDDLE_INSERT_NO_MARK is a defect switch (a definition, overridden by MC_Conc4_bug10.cfg with SwitchOn; independent seeded change C06d):
\* insert_lv marks the version as inserting only when the new key becomes the lowest / highest of the node or the node splits - an
\* insert strictly between two keys of a non-full border then unlocks with an unchanged version and no reader notices it.
MIDDLE_INSERT_NO_MARK == FALSE
SwitchOn == TRUE
MiddleInsert(b, k) == Len(bd[b].perm) < F /\ RankOf(b, bd[b].perm, k) > 1 /\ RankOf(b, bd[b].perm, k) <= Len(bd[b].perm)
Chk(t) == /\ pc[t] = "chk"
          /\ LET l == loc[t] b == l.b ver == bd[b].ver o == Op(t) idx2 == Lookup(b, bd[b].perm, o.k) IN
             IF (ver.del /\ ~ver.root) \/ ver.vs # l.vfb.vs THEN SetBV(b, Unl(ver)) /\ Goto(t, "g0") /\ UNCHANGED <<loc, res>>
             ELSE IF ver.vi # l.v.vi THEN SetBV(b, Unl(ver)) /\ Goto(t, "lv1") /\ UNCHANGED <<loc, res>>
             ELSE IF o.op = "rem" THEN
                    (IF idx2 = NoSlot THEN SetBV(b, Unl(ver)) /\ Ret(t, <<"NOT_FOUND", 0>>) /\ UNCHANGED loc
                     ELSE loc' = [loc EXCEPT ![t].idx = idx2] /\ Goto(t, "r_clear") /\ UNCHANGED <<bd, res>>)
             ELSE IF l.idx = NoSlot THEN SetBV(b, [ver EXCEPT !.ins = ~(MIDDLE_INSERT_NO_MARK /\ MiddleInsert(b, o.k))])
                                         /\ Goto(t, IF Len(bd[b].perm) = 0 THEN "p_undel" ELSE IF Len(bd[b].perm) = F THEN "s1" ELSE "p_slot") /\ UNCHANGED <<loc, res>>
             ELSE IF idx2 = NoSlot THEN SetBV(b, Unl(ver)) /\ Goto(t, "lv1") /\ UNCHANGED <<loc, res>>
             ELSE loc' = [loc EXCEPT ![t].idx = idx2] /\ Goto(t, "p_set") /\ UNCHANGED <<bd, res>>
          /\ UNCHANGED <<it, rootp, rootlock, abs, seen>>
\* ---------------------------------------------------------------- put without split
PUndel(t) == /\ pc[t] = "p_undel" /\ SetBV(loc[t].b, [bd[loc[t].b].ver EXCEPT !.del = FALSE]) /\ Goto(t, "p_slot")
             /\ UNCHANGED <<it, rootp, rootlock, loc, abs, seen, res>>
PSlotAt(t, s) == /\ pc[t] = "p_slot" /\ Len(bd[loc[t].b].perm) < F /\ s \in Slots /\ \A i \in 1..Len(bd[loc[t].b].perm) : bd[loc[t].b].perm[i] # s
                 /\ LET b == loc[t].b IN bd' = [bd EXCEPT ![b].ks[s] = Op(t).k, ![b].lv[s] = Op(t).v] /\ loc' = [loc EXCEPT ![t].idx = s]
                 /\ Goto(t, "p_pub") /\ UNCHANGED <<it, rootp, rootlock, abs, seen, res>>
PSlot(t) == pc[t] = "p_slot" /\ PSlotAt(t, FreeSlot(bd[loc[t].b].perm))
PPub(t) == /\ pc[t] = "p_pub" /\ LET b == loc[t].b IN bd' = [bd EXCEPT ![b].perm = InsertAt(@, RankOf(b, @, Op(t).k), loc[t].idx)]
           /\ loc' = [loc EXCEPT ![t].insd = TRUE]
           /\ Commit(Op(t).k, Op(t).v) /\ Goto(t, "p_unlock") /\ UNCHANGED <<it, rootp, rootlock, res>>
PSet(t) == /\ pc[t] = "p_set" /\ bd' = [bd EXCEPT ![loc[t].b].lv[loc[t].idx] = Op(t).v] /\ Commit(Op(t).k, Op(t).v)
           /\ Goto(t, "p_unlock") /\ UNCHANGED <<it, rootp, rootlock, loc, res>>
PUnlock(t) == /\ pc[t] = "p_unlock" /\ SetBV(loc[t].b, Unl(bd[loc[t].b].ver)) /\ Ret(t, <<"OK", 0>>)
              /\ UNCHANGED <<it, rootp, rootlock, loc, abs, seen>>
\* ---------------------------------------------------------------- put into a full border: border_split
S1(t) == /\ pc[t] = "s1" /\ SetBV(loc[t].b, [bd[loc[t].b].ver EXCEPT !.spl = TRUE]) /\ Goto(t, "s3")
         /\ UNCHANGED <<it, rootp, rootlock, loc, abs, seen, res>>
\* B3 is allocated (invisible) with prev / next and a copy of the border's locked + dirty version (S3a), then linked behind the border (S3)
S3a(t) == /\ pc[t] = "s3" /\ LET b == loc[t].b IN bd' = [bd EXCEPT ![3] = [EmptyB EXCEPT !.ver = bd[b].ver, !.prev = b, !.next = bd[b].next]]
          /\ loc' = [loc EXCEPT ![t].mv = 1, ![t].nb = 3] /\ Goto(t, "s3l") /\ UNCHANGED <<it, rootp, rootlock, abs, seen, res>>
S3(t) == /\ pc[t] = "s3l" /\ LET b == loc[t].b IN
            /\ bd' = [bd EXCEPT ![b].next = 3]
            /\ Goto(t, IF bd[b].next # NULL THEN "s3b" ELSE "smove")
         /\ UNCHANGED <<it, rootp, rootlock, loc, abs, seen, res>>
S3b(t) == /\ pc[t] = "s3b" /\ bd' = [bd EXCEPT ![bd[3].next].prev = 3] /\ Goto(t, "smove")
          /\ UNCHANGED <<it, rootp, rootlock, loc, abs, seen, res>>
SMove(t) == /\ pc[t] = "smove" /\ LET b == loc[t].b src == bd[b].perm[Keep + 1] dst == loc[t].mv - 1 IN
               bd' = [bd EXCEPT ![3].ks[dst] = bd[b].ks[src], ![3].lv[dst] = bd[b].lv[src], ![b].ks[src] = 0, ![b].lv[src] = 0]
            /\ Goto(t, "sperm") /\ UNCHANGED <<it, rootp, rootlock, loc, abs, seen, res>>
SPerm(t) == /\ pc[t] = "sperm" /\ bd' = [bd EXCEPT ![loc[t].b].perm = SubSeq(@, 1, Keep) \o SubSeq(@, Keep + 2, Len(@))]
            /\ IF loc[t].mv = F - Keep THEN Goto(t, "s6") /\ UNCHANGED loc ELSE loc' = [loc EXCEPT ![t].mv = @ + 1] /\ Goto(t, "smove")
            /\ UNCHANGED <<it, rootp, rootlock, abs, seen, res>>
S6(t) == /\ pc[t] = "s6" /\ bd' = [bd EXCEPT ![3].perm = [i \in 1..(F - Keep) |-> i - 1]] /\ Goto(t, "s7a")
         /\ UNCHANGED <<it, rootp, rootlock, loc, abs, seen, res>>
\* the free slot comes from the permutation word's free list: any free slot; the model check uses the lowest
S7aAt(t, s) == /\ pc[t] = "s7a"
               /\ LET side == IF Op(t).k < bd[3].ks[0] THEN loc[t].b ELSE 3 IN
                  /\ s \in Slots /\ \A i \in 1..Len(bd[side].perm) : bd[side].perm[i] # s
                  /\ bd' = [bd EXCEPT ![side].ks[s] = Op(t).k, ![side].lv[s] = Op(t).v] /\ loc' = [loc EXCEPT ![t].sib = side, ![t].idx = s]
               /\ Goto(t, "s7b") /\ UNCHANGED <<it, rootp, rootlock, abs, seen, res>>
S7a(t) == pc[t] = "s7a" /\ S7aAt(t, FreeSlot(bd[IF Op(t).k < bd[3].ks[0] THEN loc[t].b ELSE 3].perm))
S7b(t) == /\ pc[t] = "s7b"
          /\ LET side == loc[t].sib IN bd' = [bd EXCEPT ![side].perm = InsertAt(@, RankOf(side, @, Op(t).k), loc[t].idx)]
          /\ loc' = [loc EXCEPT ![t].insd = TRUE]
          /\ Commit(Op(t).k, Op(t).v) /\ Goto(t, IF UNLOCK_BEFORE_PARENT THEN "u1" ELSE "lp_ld") /\ UNCHANGED <<it, rootp, rootlock, res>>
\* defect switch: the borders are unlocked before the parent is owned
U1(t) == /\ pc[t] = "u1" /\ SetBV(loc[t].b, Unl(bd[loc[t].b].ver)) /\ Goto(t, "u2") /\ UNCHANGED <<it, rootp, rootlock, loc, abs, seen, res>>
U2(t) == /\ pc[t] = "u2" /\ SetBV(3, Unl(bd[3].ver)) /\ Goto(t, "lp_ld") /\ UNCHANGED <<it, rootp, rootlock, loc, abs, seen, res>>
\* lock_parent of the split border
LpLd(t) == /\ pc[t] = "lp_ld" /\ loc' = [loc EXCEPT ![t].pn = bd[loc[t].b].parent] /\ Goto(t, IF bd[loc[t].b].parent = NULL THEN "s_rl" ELSE "lp_l")
           /\ UNCHANGED <<bd, it, rootp, rootlock, abs, seen, res>>
SRl(t) == /\ pc[t] = "s_rl" /\ ~rootlock /\ rootlock' = TRUE /\ Goto(t, "s_rl2")
          /\ UNCHANGED <<bd, it, rootp, loc, abs, seen, res>>
SRl2(t) == /\ pc[t] = "s_rl2"
           /\ IF rootp = loc[t].b THEN Goto(t, "n1a") /\ UNCHANGED rootlock ELSE rootlock' = FALSE /\ Goto(t, "s_rl")
           /\ UNCHANGED <<bd, it, rootp, loc, abs, seen, res>>
LpL(t) == /\ pc[t] = "lp_l" /\ ~it[loc[t].pn].ver.lk /\ SetIV(loc[t].pn, [it[loc[t].pn].ver EXCEPT !.lk = TRUE]) /\ Goto(t, "lp_c")
          /\ UNCHANGED <<bd, rootp, rootlock, loc, abs, seen, res>>
LpC(t) == /\ pc[t] = "lp_c" /\ LET chk == bd[loc[t].b].parent IN
             IF chk = loc[t].pn THEN Goto(t, "x1") /\ UNCHANGED <<it, loc>>
             ELSE SetIV(loc[t].pn, Unl(it[loc[t].pn].ver)) /\ loc' = [loc EXCEPT ![t].pn = chk] /\ Goto(t, IF chk = NULL THEN "s_rl" ELSE "lp_l")
          /\ UNCHANGED <<bd, rootp, rootlock, abs, seen, res>>
\* no parent: create_interior_parent_of_border, new root P2 (node 5)
N1a(t) == /\ pc[t] = "n1a" /\ SetBV(loc[t].b, [bd[loc[t].b].ver EXCEPT !.root = FALSE]) /\ Goto(t, "n1b")
          /\ UNCHANGED <<it, rootp, rootlock, loc, abs, seen, res>>
N1b(t) == /\ pc[t] = "n1b" /\ SetBV(3, [bd[3].ver EXCEPT !.root = FALSE])
          /\ it' = [it EXCEPT ![5] = [EmptyI EXCEPT !.ver = [V0 EXCEPT !.root = TRUE, !.ins = TRUE, !.lk = TRUE], !.n = 1, !.key[0] = bd[3].ks[0], !.ch[0] = loc[t].b, !.ch[1] = 3]]
          /\ Goto(t, "n1c") /\ UNCHANGED <<rootp, rootlock, loc, abs, seen, res>>
N1c(t) == /\ pc[t] = "n1c" /\ bd' = [bd EXCEPT ![loc[t].b].parent = 5, ![3].parent = 5] /\ Goto(t, "n2")
          /\ UNCHANGED <<it, rootp, rootlock, loc, abs, seen, res>>
N2(t) == /\ pc[t] = "n2" /\ (IF UNLOCK_BEFORE_PARENT THEN UNCHANGED bd ELSE SetBV(loc[t].b, Unl(bd[loc[t].b].ver))) /\ Goto(t, "n3")
         /\ UNCHANGED <<it, rootp, rootlock, loc, abs, seen, res>>
N3(t) == /\ pc[t] = "n3" /\ (IF UNLOCK_BEFORE_PARENT THEN UNCHANGED bd ELSE SetBV(3, Unl(bd[3].ver))) /\ Goto(t, "n4")
         /\ UNCHANGED <<it, rootp, rootlock, loc, abs, seen, res>>
N4(t) == /\ pc[t] = "n4" /\ rootp' = 5 /\ Goto(t, "n5")
         /\ UNCHANGED <<bd, it, rootlock, loc, abs, seen, res>>
N5(t) == /\ pc[t] = "n5" /\ SetIV(5, Unl(it[5].ver)) /\ Goto(t, "n6")
         /\ UNCHANGED <<bd, rootp, rootlock, loc, abs, seen, res>>
N6(t) == /\ pc[t] = "n6" /\ rootlock' = FALSE /\ Ret(t, <<"OK", 0>>)
         /\ UNCHANGED <<bd, it, rootp, loc, abs, seen>>
\* interior parent (not full): the new border is inserted into it
X1(t) == /\ pc[t] = "x1" /\ SetBV(loc[t].b, [bd[loc[t].b].ver EXCEPT !.root = FALSE]) /\ Goto(t, "x2")
         /\ UNCHANGED <<it, rootp, rootlock, loc, abs, seen, res>>
X2(t) == /\ pc[t] = "x2" /\ SetBV(3, [bd[3].ver EXCEPT !.root = FALSE]) /\ Goto(t, "x3")
         /\ UNCHANGED <<it, rootp, rootlock, loc, abs, seen, res>>
X3(t) == /\ pc[t] = "x3" /\ (IF UNLOCK_BEFORE_PARENT THEN UNCHANGED bd ELSE SetBV(loc[t].b, Unl(bd[loc[t].b].ver))) /\ Goto(t, "x4")
         /\ UNCHANGED <<it, rootp, rootlock, loc, abs, seen, res>>
X4(t) == /\ pc[t] = "x4" /\ (IF UNLOCK_BEFORE_PARENT THEN UNCHANGED bd ELSE SetBV(3, Unl(bd[3].ver))) /\ Goto(t, "x5")
         /\ UNCHANGED <<it, rootp, rootlock, loc, abs, seen, res>>
X5(t) == /\ pc[t] = "x5" /\ it[loc[t].pn].n < F /\ (IF LATE_PARENT THEN UNCHANGED bd ELSE bd' = [bd EXCEPT ![3].parent = loc[t].pn]) /\ Goto(t, "x6")
         /\ UNCHANGED <<it, rootp, rootlock, loc, abs, seen, res>>
X6(t) == /\ pc[t] = "x6" /\ LET p == loc[t].pn IN
            /\ SetIV(p, [it[p].ver EXCEPT !.ins = ~NO_INS_ON_INSERT])
            /\ loc' = [loc EXCEPT ![t].i = ChildIdx(p, bd[3].ks[0])]
         /\ Goto(t, "xkey") /\ UNCHANGED <<bd, rootp, rootlock, abs, seen, res>>
XKey(t) == /\ pc[t] = "xkey" /\ LET p == loc[t].pn i == loc[t].i IN
              /\ it' = [it EXCEPT ![p].key = [j \in 0..(F-1) |-> IF j < i THEN it[p].key[j] ELSE IF j = i THEN bd[3].ks[0] ELSE it[p].key[j - 1]]]
              /\ IF it[p].n + 1 > i + 1 THEN loc' = [loc EXCEPT ![t].mv = it[p].n + 1] /\ Goto(t, "xchs") ELSE Goto(t, "xch") /\ UNCHANGED loc
           /\ UNCHANGED <<bd, rootp, rootlock, abs, seen, res>>
\* shift_right_children: one child pointer per step, from the right end down to the insert position
XChS(t) == /\ pc[t] = "xchs" /\ LET p == loc[t].pn j == loc[t].mv IN
              /\ it' = [it EXCEPT ![p].ch[j] = it[p].ch[j - 1]]
              /\ IF j - 1 = loc[t].i + 1 THEN Goto(t, "xch") /\ UNCHANGED loc ELSE loc' = [loc EXCEPT ![t].mv = j - 1] /\ UNCHANGED pc
           /\ UNCHANGED <<bd, rootp, rootlock, abs, seen, res>>
XCh(t) == /\ pc[t] = "xch" /\ it' = [it EXCEPT ![loc[t].pn].ch[loc[t].i + 1] = 3]
          /\ Goto(t, "xn") /\ UNCHANGED <<bd, rootp, rootlock, loc, abs, seen, res>>
XN(t) == /\ pc[t] = "xn" /\ it' = [it EXCEPT ![loc[t].pn].n = @ + 1] /\ Goto(t, "x9")
         /\ UNCHANGED <<bd, rootp, rootlock, loc, abs, seen, res>>
X9(t) == /\ pc[t] = "x9" /\ SetIV(loc[t].pn, Unl(it[loc[t].pn].ver)) /\ (IF LATE_PARENT THEN Goto(t, "x10") /\ UNCHANGED res ELSE Ret(t, <<"OK", 0>>))
         /\ UNCHANGED <<bd, rootp, rootlock, loc, abs, seen>>
\* defect switch LATE_PARENT (seed C09d): the new border gets its parent pointer only after the parent has been unlocked
X10(t) == /\ pc[t] = "x10" /\ bd' = [bd EXCEPT ![3].parent = loc[t].pn] /\ Ret(t, <<"OK", 0>>)
          /\ UNCHANGED <<it, rootp, rootlock, loc, abs, seen>>
\* ---------------------------------------------------------------- remove: entry, then border deletion
RClear(t) == /\ pc[t] = "r_clear" /\ bd' = [bd EXCEPT ![loc[t].b].lv[loc[t].idx] = 0] /\ Goto(t, "r_pub")
             /\ UNCHANGED <<it, rootp, rootlock, loc, abs, seen, res>>
RPub(t) == /\ pc[t] = "r_pub" /\ LET b == loc[t].b IN
              /\ bd' = [bd EXCEPT ![b].perm = RemoveSlot(@, loc[t].idx)]
              /\ Goto(t, IF Len(bd[b].perm) = 1 THEN "r_del" ELSE "r_unlock")
           /\ Commit(Op(t).k, ABSENT) /\ UNCHANGED <<it, rootp, rootlock, loc, res>>
RUnlock(t) == /\ pc[t] = "r_unlock" /\ SetBV(loc[t].b, Unl(bd[loc[t].b].ver)) /\ Ret(t, <<"OK", 0>>)
              /\ UNCHANGED <<it, rootp, rootlock, loc, abs, seen>>
RDel(t) == /\ pc[t] = "r_del" /\ SetBV(loc[t].b, [bd[loc[t].b].ver EXCEPT !.del = TRUE]) /\ Goto(t, "r_prev")
           /\ UNCHANGED <<it, rootp, rootlock, loc, abs, seen, res>>
RPrev(t) == /\ pc[t] = "r_prev" /\ LET b == loc[t].b p == bd[b].prev IN
               /\ loc' = [loc EXCEPT ![t].prevn = p]
               /\ Goto(t, IF p # NULL THEN "r_plock" ELSE IF bd[b].next # NULL THEN "r_nextfix" ELSE "r_lp")
            /\ UNCHANGED <<bd, it, rootp, rootlock, abs, seen, res>>
RNextFix(t) == /\ pc[t] = "r_nextfix" /\ bd' = [bd EXCEPT ![bd[loc[t].b].next].prev = NULL] /\ Goto(t, "r_lp")
               /\ UNCHANGED <<it, rootp, rootlock, loc, abs, seen, res>>
RPLock(t) == /\ pc[t] = "r_plock" /\ ~bd[loc[t].prevn].ver.lk /\ SetBV(loc[t].prevn, [bd[loc[t].prevn].ver EXCEPT !.lk = TRUE]) /\ Goto(t, "r_pchk")
             /\ UNCHANGED <<it, rootp, rootlock, loc, abs, seen, res>>
RPChk(t) == /\ pc[t] = "r_pchk" /\ LET b == loc[t].b p == loc[t].prevn IN
               IF bd[p].ver.del \/ bd[b].prev # p
               THEN SetBV(p, Unl(bd[p].ver)) /\ Goto(t, "r_prev")
               ELSE bd' = [bd EXCEPT ![p].next = bd[b].next] /\ Goto(t, IF bd[b].next # NULL THEN "r_pnp" ELSE "r_punl")
            /\ UNCHANGED <<it, rootp, rootlock, loc, abs, seen, res>>
RPNP(t) == /\ pc[t] = "r_pnp" /\ bd' = [bd EXCEPT ![bd[loc[t].b].next].prev = loc[t].prevn] /\ Goto(t, "r_punl")
           /\ UNCHANGED <<it, rootp, rootlock, loc, abs, seen, res>>
RPUnl(t) == /\ pc[t] = "r_punl" /\ SetBV(loc[t].prevn, Unl(bd[loc[t].prevn].ver)) /\ Goto(t, "r_lp")
            /\ UNCHANGED <<it, rootp, rootlock, loc, abs, seen, res>>
RLp(t) == /\ pc[t] = "r_lp" /\ loc' = [loc EXCEPT ![t].pn = bd[loc[t].b].parent] /\ Goto(t, IF bd[loc[t].b].parent = NULL THEN "r_rl" ELSE "r_lpl")
          /\ UNCHANGED <<bd, it, rootp, rootlock, abs, seen, res>>
RRl(t) == /\ pc[t] = "r_rl" /\ ~rootlock /\ rootlock' = TRUE /\ Goto(t, "r_rl2")
          /\ UNCHANGED <<bd, it, rootp, loc, abs, seen, res>>
RRl2(t) == /\ pc[t] = "r_rl2"
           /\ IF rootp = loc[t].b THEN Goto(t, "r_clrp") /\ UNCHANGED rootlock ELSE rootlock' = FALSE /\ Goto(t, "r_rl")
           /\ UNCHANGED <<bd, it, rootp, loc, abs, seen, res>>
RClrP(t) == /\ pc[t] = "r_clrp" /\ bd' = [bd EXCEPT ![loc[t].b].prev = NULL] /\ Goto(t, "r_clrn")
            /\ UNCHANGED <<it, rootp, rootlock, loc, abs, seen, res>>
RClrN(t) == /\ pc[t] = "r_clrn" /\ bd' = [bd EXCEPT ![loc[t].b].next = NULL] /\ Goto(t, "r_runl")
            /\ UNCHANGED <<it, rootp, rootlock, loc, abs, seen, res>>
RRUnl(t) == /\ pc[t] = "r_runl" /\ rootlock' = FALSE /\ Goto(t, "r_unlock")
            /\ UNCHANGED <<bd, it, rootp, loc, abs, seen, res>>
RLpl(t) == /\ pc[t] = "r_lpl" /\ ~it[loc[t].pn].ver.lk /\ SetIV(loc[t].pn, [it[loc[t].pn].ver EXCEPT !.lk = TRUE]) /\ Goto(t, "r_lpc")
           /\ UNCHANGED <<bd, rootp, rootlock, loc, abs, seen, res>>
RLpc(t) == /\ pc[t] = "r_lpc" /\ LET chk == bd[loc[t].b].parent IN
              IF chk = loc[t].pn THEN Goto(t, "r_root0") /\ UNCHANGED <<it, loc>>
              ELSE SetIV(loc[t].pn, Unl(it[loc[t].pn].ver)) /\ loc' = [loc EXCEPT ![t].pn = chk] /\ Goto(t, IF chk = NULL THEN "r_rl" ELSE "r_lpl")
           /\ UNCHANGED <<bd, rootp, rootlock, abs, seen, res>>
RRoot0(t) == /\ pc[t] = "r_root0" /\ SetBV(loc[t].b, [bd[loc[t].b].ver EXCEPT !.root = FALSE]) /\ Goto(t, "r_selfunl")
             /\ UNCHANGED <<it, rootp, rootlock, loc, abs, seen, res>>
RSelfUnl(t) == /\ pc[t] = "r_selfunl" /\ SetBV(loc[t].b, Unl(bd[loc[t].b].ver)) /\ Goto(t, "i_ins")
               /\ UNCHANGED <<it, rootp, rootlock, loc, abs, seen, res>>
\* interior_node::delete_of(parent, the border)
IIns(t) == /\ pc[t] = "i_ins" /\ LET p == loc[t].pn i == CHOOSE j \in 0..it[p].n : it[p].ch[j] = loc[t].b IN
              /\ SetIV(p, [it[p].ver EXCEPT !.ins = ~NO_INS_ON_DELETE])
              /\ loc' = [loc EXCEPT ![t].i = i, ![t].sib = IF it[p].n = 1 THEN it[p].ch[1 - i] ELSE NULL]
              /\ Goto(t, IF it[p].n = 1 THEN "i_del" ELSE IF i = it[p].n THEN "y_clrc" ELSE "y_shiftk")
           /\ UNCHANGED <<bd, rootp, rootlock, abs, seen, res>>
\* more than one key: the interior stays; keys and children are shifted over the removed position
YShiftK(t) == /\ pc[t] = "y_shiftk" /\ LET p == loc[t].pn i == loc[t].i s == IF i = 0 THEN 0 ELSE i - 1 IN
                 it' = [it EXCEPT ![p].key = [j \in 0..(F-1) |-> IF j < s THEN it[p].key[j] ELSE IF j + 1 <= F - 1 THEN it[p].key[j + 1] ELSE it[p].key[j]]]
              /\ loc' = [loc EXCEPT ![t].mv = IF loc[t].i = 0 THEN 1 ELSE loc[t].i + 1]
              /\ Goto(t, "y_shiftc") /\ UNCHANGED <<bd, rootp, rootlock, abs, seen, res>>
\* shift_left_children: one child pointer per step, up to the end of the array
YShiftC(t) == /\ pc[t] = "y_shiftc" /\ LET p == loc[t].pn j == loc[t].mv IN
                 /\ it' = [it EXCEPT ![p].ch[j - 1] = it[p].ch[j]]
                 /\ IF j = F THEN Goto(t, "y_clrc") /\ UNCHANGED loc ELSE loc' = [loc EXCEPT ![t].mv = j + 1] /\ UNCHANGED pc
              /\ UNCHANGED <<bd, rootp, rootlock, abs, seen, res>>
YClrC(t) == /\ pc[t] = "y_clrc" /\ it' = [it EXCEPT ![loc[t].pn].ch[it[loc[t].pn].n] = NULL] /\ Goto(t, "y_clrk")
            /\ UNCHANGED <<bd, rootp, rootlock, loc, abs, seen, res>>
YClrK(t) == /\ pc[t] = "y_clrk" /\ it' = [it EXCEPT ![loc[t].pn].key[it[loc[t].pn].n - 1] = 0] /\ Goto(t, "y_n")
            /\ UNCHANGED <<bd, rootp, rootlock, loc, abs, seen, res>>
YN(t) == /\ pc[t] = "y_n" /\ it' = [it EXCEPT ![loc[t].pn].n = @ - 1] /\ Goto(t, "y_unl")
         /\ UNCHANGED <<bd, rootp, rootlock, loc, abs, seen, res>>
YUnl(t) == /\ pc[t] = "y_unl" /\ SetIV(loc[t].pn, Unl(it[loc[t].pn].ver)) /\ Ret(t, <<"OK", 0>>)
           /\ UNCHANGED <<bd, rootp, rootlock, loc, abs, seen>>
\* one key left: the interior is removed, the sibling becomes the root (the interior is always the tree root in this model)
IDel(t) == /\ pc[t] = "i_del" /\ SetIV(loc[t].pn, [it[loc[t].pn].ver EXCEPT !.del = TRUE]) /\ Goto(t, "i_nkst")
           /\ UNCHANGED <<bd, rootp, rootlock, loc, abs, seen, res>>
INkSt(t) == /\ pc[t] = "i_nkst" /\ it' = [it EXCEPT ![loc[t].pn].n = 0] /\ Goto(t, "i_rl")
            /\ UNCHANGED <<bd, rootp, rootlock, loc, abs, seen, res>>
IRl(t) == /\ pc[t] = "i_rl" /\ ~rootlock /\ rootlock' = TRUE /\ Goto(t, "i_root0")
          /\ UNCHANGED <<bd, it, rootp, loc, abs, seen, res>>
IRoot0(t) == /\ pc[t] = "i_root0" /\ SetIV(loc[t].pn, [it[loc[t].pn].ver EXCEPT !.root = FALSE]) /\ Goto(t, "i_sibroot")
             /\ UNCHANGED <<bd, rootp, rootlock, loc, abs, seen, res>>
ISibRoot(t) == /\ pc[t] = "i_sibroot" /\ SetBV(loc[t].sib, [bd[loc[t].sib].ver EXCEPT !.root = TRUE]) /\ Goto(t, "i_rootst")
               /\ UNCHANGED <<it, rootp, rootlock, loc, abs, seen, res>>
IRootSt(t) == /\ pc[t] = "i_rootst" /\ rootp' = loc[t].sib /\ Goto(t, "i_sibpar")
              /\ UNCHANGED <<bd, it, rootlock, loc, abs, seen, res>>
ISibPar(t) == /\ pc[t] = "i_sibpar" /\ bd' = [bd EXCEPT ![loc[t].sib].parent = NULL] /\ Goto(t, "i_runl")
              /\ UNCHANGED <<it, rootp, rootlock, loc, abs, seen, res>>
IRUnl(t) == /\ pc[t] = "i_runl" /\ rootlock' = FALSE /\ Goto(t, "i_punl")
            /\ UNCHANGED <<bd, it, rootp, loc, abs, seen, res>>
IPUnl(t) == /\ pc[t] = "i_punl" /\ SetIV(loc[t].pn, Unl(it[loc[t].pn].ver)) /\ Ret(t, <<"OK", 0>>)
            /\ UNCHANGED <<bd, rootp, rootlock, loc, abs, seen>>
\* ---------------------------------------------------------------- scan of the whole key range collecting (version, node) pairs
\* (interface_scan.h scan loop, scan_helper.h scan_border / scan_check_retry; forward, INF endpoints, no size limit)
Cut(sq, n) == SubSeq(sq, 1, n)
\* loop head of interface_scan: an empty tree (deleted root border) is reported with the root's pair only
SEnter(t) == /\ pc[t] = "s_enter" /\ LET l == loc[t] IN
                IF l.vfb.del /\ l.vfb.root THEN loc' = [loc EXCEPT ![t].nv = <<<<l.vfb, l.b>>>>] /\ Goto(t, "s_ret")
                ELSE loc' = [loc EXCEPT ![t].iszo = Len(l.out), ![t].iszn = Len(l.nv),
                                        ![t].vfb = IF SCAN_FRESH_VERSION /\ Stable(bd[l.b].ver) THEN bd[l.b].ver ELSE l.vfb] /\ Goto(t, "s_next")
             /\ UNCHANGED <<bd, it, rootp, rootlock, abs, seen, res>>
SRet(t) == /\ pc[t] = "s_ret" /\ Ret(t, <<"OK", loc[t].out>>) /\ UNCHANGED <<bd, it, rootp, rootlock, loc, abs, seen>>
\* retry: label of scan_border: the next pointer is logged first, then the permutation snapshot
SNext(t) == /\ pc[t] = "s_next" /\ loc' = [loc EXCEPT ![t].nxt = bd[loc[t].b].next, ![t].pushed = FALSE] /\ Goto(t, "s_perm")
            /\ UNCHANGED <<bd, it, rootp, rootlock, abs, seen, res>>
\* right-to-left (max_size = 1, unbounded): the entries are visited from the last rank down and the first one that is pushed ends the scan
SPermS(t) == /\ pc[t] = "s_perm" /\ loc' = [loc EXCEPT ![t].snap = bd[loc[t].b].perm, ![t].si = IF Op(t).op = "rscan" THEN Len(bd[loc[t].b].perm) ELSE 1]
             /\ Goto(t, IF Len(bd[loc[t].b].perm) = 0 THEN "s_rec" ELSE "s_val") /\ UNCHANGED <<bd, it, rootp, rootlock, abs, seen, res>>
SVal(t) == /\ pc[t] = "s_val" /\ loc' = [loc EXCEPT ![t].w = bd[loc[t].b].lv[loc[t].snap[loc[t].si]], ![t].idx = loc[t].snap[loc[t].si]] /\ Goto(t, "s_chk")
           /\ UNCHANGED <<bd, it, rootp, rootlock, abs, seen, res>>
SChk(t) == /\ pc[t] = "s_chk" /\ Stable(bd[loc[t].b].ver)
           /\ LET l == loc[t] ver == bd[l.b].ver IN
              IF ver # l.vfb /\ ~SCAN_NO_ENTRY_CHECK THEN
                 IF ver.vs # l.vfb.vs \/ ver.del THEN loc' = [loc EXCEPT ![t].out = <<>>, ![t].nv = <<>>] /\ Goto(t, "g0")
                 ELSE loc' = [loc EXCEPT ![t].vfb = ver, ![t].out = Cut(l.out, l.iszo), ![t].nv = Cut(l.nv, l.iszn)] /\ Goto(t, "s_next")
              ELSE IF l.w = 0 THEN loc' = [loc EXCEPT ![t].out = Cut(l.out, l.iszo), ![t].nv = Cut(l.nv, l.iszn)] /\ Goto(t, "s_next")
              ELSE IF ~SCAN_DUP /\ l.iszo # 0 /\ ~(l.out[l.iszo][1] < bd[l.b].ks[l.idx])
                   THEN \* already produced from a border further left (that border was unlinked, the key inserted again): skipped (repair of F17)
                        loc' = [loc EXCEPT ![t].si = l.si + 1] /\ Goto(t, IF l.si = Len(l.snap) THEN "s_rec" ELSE "s_val")
              ELSE /\ loc' = [loc EXCEPT ![t].out = Append(l.out, <<bd[l.b].ks[l.idx], l.w>>), ![t].si = l.si + 1, ![t].pushed = TRUE,
                                         ![t].nv = IF l.pushed THEN l.nv ELSE Append(l.nv, <<l.vfb, l.b>>)]
                   /\ Goto(t, IF Op(t).op = "rscan" THEN "s_ret" ELSE IF l.si = Len(l.snap) THEN "s_rec" ELSE "s_val")
           /\ UNCHANGED <<bd, it, rootp, rootlock, abs, seen, res>>
\* a border that contributed nothing is recorded as well
SRec(t) == /\ pc[t] = "s_rec" /\ loc' = [loc EXCEPT ![t].nv = IF loc[t].pushed THEN loc[t].nv ELSE Append(loc[t].nv, <<loc[t].vfb, loc[t].b>>), ![t].pushed = TRUE]
           /\ Goto(t, IF loc[t].nxt = NULL THEN "s_fin" ELSE "s_nv") /\ UNCHANGED <<bd, it, rootp, rootlock, abs, seen, res>>
\* the version of the next border is logged BEFORE the final check of this one
SNv(t) == /\ pc[t] = "s_nv" /\ Stable(bd[loc[t].nxt].ver) /\ loc' = [loc EXCEPT ![t].nxv = bd[loc[t].nxt].ver] /\ Goto(t, "s_fin")
          /\ UNCHANGED <<bd, it, rootp, rootlock, abs, seen, res>>
SFin(t) == /\ pc[t] = "s_fin" /\ Stable(bd[loc[t].b].ver)
           /\ LET l == loc[t] ver == bd[l.b].ver IN
              IF ver # l.vfb /\ ~SCAN_NO_FINAL THEN
                 IF ver.vs # l.vfb.vs \/ ver.del THEN loc' = [loc EXCEPT ![t].out = <<>>, ![t].nv = <<>>] /\ Goto(t, "g0")
                 ELSE loc' = [loc EXCEPT ![t].vfb = ver, ![t].out = Cut(l.out, l.iszo), ![t].nv = Cut(l.nv, l.iszn)] /\ Goto(t, "s_next")
              ELSE IF l.nxt = NULL THEN Goto(t, "s_ret") /\ UNCHANGED loc
              ELSE loc' = [loc EXCEPT ![t].b = l.nxt, ![t].vfb = l.nxv] /\ Goto(t, "s_enter")
           /\ UNCHANGED <<bd, it, rootp, rootlock, abs, seen, res>>
\* ---------------------------------------------------------------- cursor: iscan_open(-inf, +inf) + iscan_next until the end (interface_iscan.h,
\* forward, layer 0, every entry consumed).  The context keeps (border, last key, rank, version, permutation, layer root) between the calls.
U9 == <<bd, it, rootp, rootlock, abs, seen, res>>
\* iscan_findfirst, start key "" (absent): get_lv_of on the leftmost border, then the stack element
IOLv1(t) == /\ pc[t] = "io_lv1" /\ LET l == loc[t] IN
               IF l.vfb.del /\ l.vfb.root THEN loc' = [loc EXCEPT ![t].nv = <<<<l.vfb, l.b>>>>] /\ Goto(t, "i_ret")           \* empty tree: the root border is reported
               ELSE Stable(bd[l.b].ver) /\ loc' = [loc EXCEPT ![t].v = bd[l.b].ver] /\ Goto(t, "io_p")
            /\ UNCHANGED U9
IOP(t) == /\ pc[t] = "io_p" /\ Goto(t, "io_lv2") /\ UNCHANGED <<loc, bd, it, rootp, rootlock, abs, seen, res>>
IOLv2(t) == /\ pc[t] = "io_lv2" /\ Stable(bd[loc[t].b].ver)
            /\ LET l == loc[t] v == bd[l.b].ver IN
               IF v # l.v THEN loc' = [loc EXCEPT ![t].v = v] /\ Goto(t, "io_p")
               ELSE IF v.vs # l.vfb.vs \/ (v.del /\ ~v.root) THEN Goto(t, "g0") /\ UNCHANGED loc
               ELSE Goto(t, "io_stack") /\ UNCHANGED loc
            /\ UNCHANGED U9
IOStack(t) == /\ pc[t] = "io_stack"
              /\ loc' = [loc EXCEPT ![t].stb = loc[t].b, ![t].stlast = 0, ![t].strank = 1, ![t].stv = loc[t].vfb, ![t].stperm = bd[loc[t].b].perm, ![t].stroot = loc[t].root, ![t].iph = "retry"]
              /\ Goto(t, "in_top") /\ UNCHANGED U9
\* iscan_findnext entry: the locals are reloaded from the context
INTop(t) == /\ pc[t] = "in_top" /\ loc' = [loc EXCEPT ![t].b = loc[t].stb, ![t].vfb = loc[t].stv, ![t].perm = loc[t].stperm] /\ Goto(t, "in_next") /\ UNCHANGED U9
INNext(t) == /\ pc[t] = "in_next" /\ loc' = [loc EXCEPT ![t].nxt = bd[loc[t].b].next] /\ Goto(t, "in_ent") /\ UNCHANGED U9
INEnt(t) == /\ pc[t] = "in_ent" /\ LET l == loc[t] IN
               IF l.strank > Len(l.perm) THEN Goto(t, "in_nb1") /\ UNCHANGED loc
               ELSE loc' = [loc EXCEPT ![t].idx = l.perm[l.strank], ![t].kt = bd[l.b].ks[l.perm[l.strank]], ![t].w = bd[l.b].lv[l.perm[l.strank]], ![t].cc = 1] /\ Goto(t, "ck1")
            /\ UNCHANGED U9
\* iscan_check_retry: stable version, permutation, stable version again (once: a changed version is adopted with a fresh permutation)
CK1(t) == /\ pc[t] = "ck1" /\ Stable(bd[loc[t].b].ver) /\ loc' = [loc EXCEPT ![t].ckv = bd[loc[t].b].ver] /\ Goto(t, "ck2") /\ UNCHANGED U9
CK2(t) == /\ pc[t] = "ck2" /\ loc' = [loc EXCEPT ![t].ckp = bd[loc[t].b].perm] /\ Goto(t, "ck3") /\ UNCHANGED U9
\* outcome of the check, by the site it was called from (cc): 1 entry loaded, 2 before the entry is returned, 3 before the move to the
\* neighbour, 4 inside retry_after_fb
CkDone(t, l) ==
   IF l.ckv # l.vfb \/ l.ckp # l.perm THEN
      (IF l.ckv.vs # l.vfb.vs \/ l.ckv.del \/ l.cc = 4 THEN loc' = [loc EXCEPT ![t] = l] /\ Goto(t, "ir_root")
       ELSE loc' = [loc EXCEPT ![t] = [l EXCEPT !.vfb = l.ckv, !.perm = l.ckp]] /\ Goto(t, "ir_fb"))
   ELSE IF l.cc = 1 THEN (IF l.stlast < l.kt THEN loc' = [loc EXCEPT ![t] = [l EXCEPT !.cc = 2]] /\ Goto(t, "ck1")
                          ELSE loc' = [loc EXCEPT ![t] = [l EXCEPT !.strank = l.strank + 1]] /\ Goto(t, "in_ent"))
   ELSE IF l.cc = 2 THEN loc' = [loc EXCEPT ![t] = [l EXCEPT !.nv = Append(l.nv, <<l.vfb, l.b>>), !.out = Append(l.out, <<l.kt, l.w>>), !.stb = l.b, !.stlast = l.kt, !.strank = l.strank + 1]]
                         /\ Goto(t, "in_top")
   ELSE IF l.cc = 3 THEN
        (loc' = [loc EXCEPT ![t] = [l EXCEPT !.nv = Append(l.nv, <<l.vfb, l.b>>)]] /\ Goto(t, IF l.nxt = NULL THEN "i_ret" ELSE "in_nb4"))
   ELSE loc' = [loc EXCEPT ![t] = [l EXCEPT !.strank = IF ISCAN_NO_REWIND THEN l.strank ELSE 1, !.stperm = l.perm]] /\ Goto(t, "in_next")
CK3(t) == /\ pc[t] = "ck3" /\ Stable(bd[loc[t].b].ver)
          /\ IF bd[loc[t].b].ver # loc[t].ckv THEN loc' = [loc EXCEPT ![t].ckv = bd[loc[t].b].ver] /\ Goto(t, "ck4")
             ELSE CkDone(t, loc[t])
          /\ UNCHANGED U9
CK4(t) == /\ pc[t] = "ck4" /\ CkDone(t, [loc[t] EXCEPT !.ckp = bd[loc[t].b].perm]) /\ UNCHANGED U9
\* end of the border: move to the neighbour (its version and permutation are logged before the final check of this border)
INNb1(t) == /\ pc[t] = "in_nb1" /\ LET l == loc[t] IN
               IF bd[l.b].next # l.nxt THEN Goto(t, "ir_root") /\ UNCHANGED loc
               ELSE IF l.nxt = NULL THEN loc' = [loc EXCEPT ![t].cc = 3] /\ Goto(t, "ck1")
               ELSE Goto(t, "in_nb2") /\ UNCHANGED loc
            /\ UNCHANGED U9
INNb2(t) == /\ pc[t] = "in_nb2" /\ Stable(bd[loc[t].nxt].ver)
            /\ IF bd[loc[t].nxt].ver.del THEN Goto(t, "ir_root") /\ UNCHANGED loc
               ELSE loc' = [loc EXCEPT ![t].tov = bd[loc[t].nxt].ver] /\ Goto(t, "in_nb3")
            /\ UNCHANGED U9
INNb3(t) == /\ pc[t] = "in_nb3" /\ loc' = [loc EXCEPT ![t].top = bd[loc[t].nxt].perm, ![t].cc = 3] /\ Goto(t, "ck1") /\ UNCHANGED U9
\* the neighbour must still point back (prev of the next border), then the cursor adopts it
INNb4(t) == /\ pc[t] = "in_nb4" /\ LET l == loc[t] IN
               IF bd[l.nxt].prev # l.b THEN Goto(t, "ir_root") /\ UNCHANGED loc
               ELSE loc' = [loc EXCEPT ![t].b = l.nxt, ![t].vfb = l.tov, ![t].perm = l.top, ![t].stb = l.nxt, ![t].strank = 1, ![t].stv = l.tov, ![t].stperm = l.top] /\ Goto(t, "in_next")
            /\ UNCHANGED U9
\* retry_after_fb: the border changed without a split: start it again from rank 0 unless its smallest key is already behind the cursor
IRFb(t) == /\ pc[t] = "ir_fb" /\ LET l == loc[t] IN
              IF Len(l.perm) = 0 THEN Goto(t, "ir_root") /\ UNCHANGED loc
              ELSE IF bd[l.b].ks[l.perm[1]] > l.stlast THEN Goto(t, "ir_root") /\ UNCHANGED loc
              ELSE loc' = [loc EXCEPT ![t].cc = 4] /\ Goto(t, "ck1")
           /\ UNCHANGED U9
\* retry_from_root: find the border of the last key again from the saved layer root (layer 0: the tree root is reloaded when the saved one
\* is deleted or no longer root; a deleted tree root that is still the root ends the scan)
IRRoot(t) == /\ pc[t] = "ir_root" /\ Stable(VerOf(loc[t].stroot))
             /\ LET l == loc[t] r == l.stroot rv == VerOf(r) IN
                IF rv.del THEN Goto(t, "ir_rld") /\ UNCHANGED loc
                ELSE IF ~rv.root THEN Goto(t, "ir_rl") /\ UNCHANGED loc
                ELSE loc' = [loc EXCEPT ![t].root = r] /\ Goto(t, "fb")          \* find_border(root, last key) takes its own stable version of the root
             /\ UNCHANGED U9
\* the tree root pointer is loaded again: saved root no longer root -> adopt the new one; saved root deleted -> adopt a different one, or end
IRRl(t) == /\ pc[t] = "ir_rl" /\ loc' = [loc EXCEPT ![t].stroot = rootp] /\ Goto(t, "ir_root") /\ UNCHANGED U9
IRRld(t) == /\ pc[t] = "ir_rld"
            /\ IF loc[t].stroot # rootp THEN loc' = [loc EXCEPT ![t].stroot = rootp] /\ Goto(t, "ir_root") ELSE Goto(t, "i_ret") /\ UNCHANGED loc
            /\ UNCHANGED U9
IRArr(t) == /\ pc[t] = "ir_arr"
            /\ loc' = [loc EXCEPT ![t].stb = loc[t].b, ![t].strank = 1, ![t].stperm = bd[loc[t].b].perm, ![t].stv = loc[t].vfb, ![t].perm = bd[loc[t].b].perm]
            /\ Goto(t, "in_next") /\ UNCHANGED U9
IRet(t) == /\ pc[t] = "i_ret" /\ Ret(t, <<"OK", loc[t].out>>) /\ UNCHANGED <<bd, it, rootp, rootlock, loc, abs, seen>>
IStep(t) == IOLv1(t) \/ IOP(t) \/ IOLv2(t) \/ IOStack(t) \/ INTop(t) \/ INNext(t) \/ INEnt(t) \/ CK1(t) \/ CK2(t) \/ CK3(t) \/ CK4(t)
            \/ INNb1(t) \/ INNb2(t) \/ INNb3(t) \/ INNb4(t) \/ IRFb(t) \/ IRRoot(t) \/ IRRl(t) \/ IRRld(t) \/ IRArr(t) \/ IRet(t)
Step(t) == IStep(t) \/ SEnter(t) \/ SRet(t) \/ SNext(t) \/ SPermS(t) \/ SVal(t) \/ SChk(t) \/ SRec(t) \/ SNv(t) \/ SFin(t) \/ Start(t) \/ G0(t) \/ FB(t) \/ GC1(t) \/ GC2(t) \/ GC3(t) \/ GC4(t) \/ LV1(t) \/ PermLd(t) \/ LV2(t) \/ GVal(t) \/ GFc(t)
           \/ RFc0(t) \/ Lock(t) \/ Chk(t) \/ PUndel(t) \/ PSlot(t) \/ PPub(t) \/ PSet(t) \/ PUnlock(t)
           \/ S1(t) \/ S3a(t) \/ S3(t) \/ S3b(t) \/ SMove(t) \/ SPerm(t) \/ S6(t) \/ S7a(t) \/ S7b(t) \/ U1(t) \/ U2(t)
           \/ LpLd(t) \/ SRl(t) \/ SRl2(t) \/ LpL(t) \/ LpC(t) \/ N1a(t) \/ N1b(t) \/ N1c(t) \/ N2(t) \/ N3(t) \/ N4(t) \/ N5(t) \/ N6(t)
           \/ X1(t) \/ X2(t) \/ X3(t) \/ X4(t) \/ X5(t) \/ X6(t) \/ XKey(t) \/ XChS(t) \/ XCh(t) \/ XN(t) \/ X9(t) \/ X10(t)
           \/ RClear(t) \/ RPub(t) \/ RUnlock(t) \/ RDel(t) \/ RPrev(t) \/ RNextFix(t) \/ RPLock(t) \/ RPChk(t) \/ RPNP(t) \/ RPUnl(t)
           \/ RLp(t) \/ RRl(t) \/ RRl2(t) \/ RClrP(t) \/ RClrN(t) \/ RRUnl(t) \/ RLpl(t) \/ RLpc(t) \/ RRoot0(t) \/ RSelfUnl(t)
           \/ IIns(t) \/ YShiftK(t) \/ YShiftC(t) \/ YClrC(t) \/ YClrK(t) \/ YN(t) \/ YUnl(t)
           \/ IDel(t) \/ INkSt(t) \/ IRl(t) \/ IRoot0(t) \/ ISibRoot(t) \/ IRootSt(t) \/ ISibPar(t) \/ IRUnl(t) \/ IPUnl(t)
AllDone == \A t \in Threads : pc[t] = "done"
Next == (\E t \in Threads : Step(t)) \/ (AllDone /\ UNCHANGED vars)
Spec == Init /\ [][Next]_vars
FairSpec == Spec /\ \A t \in Threads : WF_vars(Step(t))
\* ---------------------------------------------------------------- properties
ResOK(r) == IF r.op = "get" /\ r.st = "NOT_EXIST" THEN ABSENT \in r.sn[r.k]
            ELSE IF r.op = "get" THEN r.w # 0 /\ r.w \in r.sn[r.k]
            ELSE IF r.op = "rem" /\ r.st = "NOT_FOUND" THEN ABSENT \in r.sn[r.k]
            ELSE TRUE
LinOK == \A t \in Threads : \A i \in 1..Len(res[t]) : ResOK(res[t][i])
\* C04: a scan is strictly ascending, every returned pair was current at some instant of the scan with a non-null value, every
\* key it did not return was absent at some instant of the scan
OutKeys(out) == {out[i][1] : i \in 1..Len(out)}
ScanResOK(r) == LET out == r.w IN
                /\ \A i \in 1..(Len(out) - 1) : out[i][1] < out[i + 1][1]
                /\ \A i \in 1..Len(out) : out[i][2] # 0 /\ out[i][2] \in r.sn[out[i][1]]
                /\ \A k \in Keys : k \notin OutKeys(out) => ABSENT \in r.sn[k]
\* right-to-left, one entry: the returned pair was current at some instant and every greater key was absent at some instant of the scan
RScanResOK(r) == LET out == r.w IN
                 /\ Len(out) <= 1
                 /\ (Len(out) = 1 => out[1][2] # 0 /\ out[1][2] \in r.sn[out[1][1]] /\ \A k \in Keys : k > out[1][1] => ABSENT \in r.sn[k])
                 /\ (Len(out) = 0 => \A k \in Keys : ABSENT \in r.sn[k])
ScanOK == /\ \A t \in Threads : \A i \in 1..Len(res[t]) : res[t][i].op \in {"scan", "iscan"} => ScanResOK(res[t][i])
          /\ \A t \in Threads : \A i \in 1..Len(res[t]) : res[t][i].op = "rscan" => RScanResOK(res[t][i])
\* C05 / C06: the collected set is never empty, and once everything has completed every insert of a new key is either in the
\* scan's result or has left a collected (version, node) pair stale
NvOK == AllDone => \A t \in Threads : \A i \in 1..Len(res[t]) : res[t][i].op \in {"scan", "iscan"} =>
           LET r == res[t][i] IN
           /\ Len(r.nv) >= 1
           /\ \A t2 \in Threads : \A j \in 1..Len(res[t2]) : (res[t2][j].op = "put" /\ res[t2][j].ins) =>
                  \/ res[t2][j].k \in OutKeys(r.w)
                  \/ \E q \in 1..Len(r.nv) : VerOf(r.nv[q][2]) # r.nv[q][1]
\* the collapse and the creation of a new root happen under the root lock, on the node that is the root
RootOpsOK == /\ \A t \in Threads : pc[t] \in {"i_root0", "i_sibroot", "i_rootst"} => rootp = loc[t].pn /\ rootlock
             /\ \A t \in Threads : pc[t] \in {"n1a", "n1b", "n1c", "n2", "n3", "n4"} => rootp = loc[t].b /\ rootlock
\* C08 at quiescence
InOrd(n) == IF n \in Borders THEN <<n>>
            ELSE LET RECURSIVE cat(_) cat(i) == IF i > it[n].n THEN <<>> ELSE <<it[n].ch[i]>> \o cat(i + 1) IN cat(0)
Sorted(b) == \A i \in 1..(Len(bd[b].perm) - 1) : bd[b].ks[bd[b].perm[i]] < bd[b].ks[bd[b].perm[i + 1]]
KeysOf(b) == {bd[b].ks[bd[b].perm[i]] : i \in 1..Len(bd[b].perm)}
Holds(b, k) == Lookup(b, bd[b].perm, k) # NoSlot /\ bd[b].lv[Lookup(b, bd[b].perm, k)] = abs[k]
Quiescent == AllDone =>
   /\ ~rootlock /\ (\A n \in Borders : Stable(bd[n].ver)) /\ (\A m \in Interiors : Stable(it[m].ver))
   /\ VerOf(rootp).root /\ ParentOf(rootp) = NULL
   /\ LET ch == InOrd(rootp) IN
      /\ \A j \in 1..Len(ch) : ch[j] \in Borders
      /\ \A j \in 1..Len(ch) : LET b == ch[j] IN
            /\ Sorted(b) /\ (bd[b].ver.del <=> (Len(bd[b].perm) = 0)) /\ (Len(bd[b].perm) = 0 => b = rootp)
            /\ bd[b].next = (IF j < Len(ch) THEN ch[j + 1] ELSE NULL) /\ bd[b].prev = (IF j > 1 THEN ch[j - 1] ELSE NULL)
            /\ (rootp \in Interiors => bd[b].parent = rootp /\ ~bd[b].ver.root)
            /\ \A j2 \in 1..Len(ch) : j < j2 => \A k1 \in KeysOf(b), k2 \in KeysOf(ch[j2]) : k1 < k2
      /\ rootp \in Interiors =>
            /\ ~it[rootp].ver.del /\ it[rootp].n >= 1 /\ Len(ch) = it[rootp].n + 1
            /\ \A i \in 0..(it[rootp].n - 1) : (\A k \in KeysOf(it[rootp].ch[i]) : k < it[rootp].key[i]) /\ (\A k \in KeysOf(it[rootp].ch[i + 1]) : k >= it[rootp].key[i])
      /\ \A k \in Keys : abs[k] # ABSENT <=> \E j \in 1..Len(ch) : Holds(ch[j], k)
Termination == <>AllDone
====

---- MODULE YkMap ----
(* The abstract meaning of the yakushima API: a map from storage names (byte strings) to ordered maps from keys
   (byte strings) to values.  An ordered map is a sequence of <<key, value>> pairs sorted by LexLess.
   `dir` (the directory) is itself a sorted sequence of <<name, store>> pairs. *)
EXTENDS YkKeys
\* ---- one ordered map
MIdx(m, k) == IF \E i \in 1..Len(m) : m[i][1] = k THEN CHOOSE i \in 1..Len(m) : m[i][1] = k ELSE 0
MHas(m, k) == MIdx(m, k) # 0
MGet(m, k) == m[MIdx(m, k)][2]
MPut(m, k, v) == LET i == MIdx(m, k) IN
                 IF i # 0 THEN [m EXCEPT ![i] = <<k, v>>]
                 ELSE LET p == Cardinality({j \in 1..Len(m) : LexLess(m[j][1], k)}) IN SubSeq(m, 1, p) \o << <<k, v>> >> \o SubSeq(m, p + 1, Len(m))
MDel(m, k) == LET i == MIdx(m, k) IN IF i = 0 THEN m ELSE SubSeq(m, 1, i - 1) \o SubSeq(m, i + 1, Len(m))
MRange(m, lk, le, rk, re) == SelectSeq(m, LAMBDA p : InRange(p[1], lk, le, rk, re))
MSorted(m) == \A i \in 1..(Len(m) - 1) : LexLess(m[i][1], m[i + 1][1])
Rev(s) == [i \in 1..Len(s) |-> s[Len(s) + 1 - i]]
\* scan result (list of pairs) for valid arguments
MScan(m, lk, le, rk, re, max, rtl) ==
   LET all == MRange(m, lk, le, rk, re) IN
   IF rtl THEN (IF Len(all) = 0 THEN <<>> ELSE <<all[Len(all)]>>)
   ELSE IF max = 0 \/ Len(all) <= max THEN all ELSE SubSeq(all, 1, max)
\* ---- the directory of storages
DHas(dir, n) == MHas(dir, n)
DStore(dir, n) == MGet(dir, n)
CreateR(dir, n) == IF DHas(dir, n) THEN [st |-> "WARN_UNIQUE_RESTRICTION", dir |-> dir] ELSE [st |-> "OK", dir |-> MPut(dir, n, <<>>)]
DeleteR(dir, n) == IF DHas(dir, n) THEN [st |-> "OK", dir |-> MDel(dir, n)] ELSE [st |-> "WARN_NOT_EXIST", dir |-> dir]
FindR(dir, n) == IF DHas(dir, n) THEN "OK" ELSE "WARN_NOT_EXIST"
ListR(dir) == [st |-> IF Len(dir) = 0 THEN "WARN_NOT_EXIST" ELSE "OK", names |-> [i \in 1..Len(dir) |-> dir[i][1]]]
\* ---- data operations on a named storage: [st, dir, ...]
PutR(dir, n, k, v, uniq) ==
   IF ~DHas(dir, n) THEN [st |-> "WARN_STORAGE_NOT_EXIST", dir |-> dir]
   ELSE IF uniq /\ MHas(DStore(dir, n), k) THEN [st |-> "WARN_UNIQUE_RESTRICTION", dir |-> dir]
   ELSE [st |-> "OK", dir |-> MPut(dir, n, MPut(DStore(dir, n), k, v))]
RemoveR(dir, n, k) ==
   IF ~DHas(dir, n) THEN [st |-> "WARN_STORAGE_NOT_EXIST", dir |-> dir]
   ELSE IF ~MHas(DStore(dir, n), k) THEN [st |-> "OK_NOT_FOUND", dir |-> dir]
   ELSE [st |-> "OK", dir |-> MPut(dir, n, MDel(DStore(dir, n), k))]
GetR(dir, n, k) ==
   IF ~DHas(dir, n) THEN [st |-> "WARN_STORAGE_NOT_EXIST"]
   ELSE IF ~MHas(DStore(dir, n), k) THEN [st |-> "WARN_NOT_EXIST"]
   ELSE [st |-> "OK", v |-> MGet(DStore(dir, n), k)]
ScanR(dir, n, lk, le, rk, re, max, rtl) ==
   IF ~ScanArgsOK(lk, le, rk, re, max, rtl) THEN [st |-> "ERR_BAD_USAGE", tl |-> <<>>]
   ELSE IF ~DHas(dir, n) THEN [st |-> "WARN_STORAGE_NOT_EXIST", tl |-> <<>>]
   ELSE [st |-> "OK", tl |-> MScan(DStore(dir, n), lk, le, rk, re, max, rtl)]
\* cursor: full enumeration in the requested direction (argument check as scan's range table; no max / rtl restriction)
IscanR(dir, n, lk, le, rk, re, rtl) ==
   IF ~ValidRange(lk, le, rk, re) THEN [st |-> "ERR_BAD_USAGE", seq |-> <<>>]
   ELSE IF ~DHas(dir, n) THEN [st |-> "WARN_STORAGE_NOT_EXIST", seq |-> <<>>]
   ELSE LET asc == MRange(DStore(dir, n), lk, le, rk, re) IN [st |-> "OK", seq |-> IF rtl THEN Rev(asc) ELSE asc]
====

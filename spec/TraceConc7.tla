---- MODULE TraceConc7 ----
(* Step-level conformance of the real code to YkConc7 (harness/stepdrv7.cpp): two interior levels on the real tree (fan-out 15): root
   interior N (5) over the interior X (4) = [S (1), E (2)]; node 6 is the border behind E in the leaf chain (in the real tree it hangs
   below the right interior, which no program of the driver touches; in the model it is N's second child), node 3 the border a split of S
   allocates.  Every logged access of the version words, permutation and slot words, prev / next / parent / child pointers, n_keys, the
   root pointer and the root lock must be the enabled step of the model for that thread, with the same value; conventions as in TraceConc4. *)
EXTENDS YkConc7, Json, IOUtils
Log == ndJsonDeserialize(IOEnv.TRACE)
Meta == Log[1]
ProgT == [t \in 0..(Len(Meta.prog) - 1) |-> [op |-> Meta.prog[t + 1].op, k |-> Meta.prog[t + 1].k, v |-> Meta.prog[t + 1].v]]
VARIABLE l
tvars == <<vars, l>>
E == Log[l]
LV(v) == [lk |-> v.lk, ins |-> v.ins, spl |-> v.spl, del |-> v.del, root |-> v.root, vi |-> v.vi, vs |-> v.vs]
LVer(e) == LV(e.ver)
Consume == l <= Len(Log) /\ l' = l + 1
Stutter == UNCHANGED vars
Ev(b) == b = TRUE
Reading(t) == pc[t] \in {"start", "g0", "fb", "gc1", "gc2", "gc3", "gc4", "lv1", "permld", "lv2", "g_val", "g_fc", "r_fc0", "lock", "done"}
Owner(t) == ~Reading(t)
\* objects nobody else can see yet: B3 until it is linked behind the split border, P2 until the root pointer is stored
Private(n) == (n = 3 /\ \E t \in Threads : pc[t] \in {"s3", "s3l"}) \/ (n = 7 /\ \E t \in Threads : pc[t] \in {"n1c", "n2", "n3", "n4"})
IsB(n) == n \in Borders
SetOfSeq(sq) == {sq[i] : i \in 1..Len(sq)}
TInit == Init /\ l = 2 /\ TLCSet(1, 2)
MkB(j, pv, nx, par) == [ver |-> LV(j.ver), perm |-> j.perm, ks |-> [s \in Slots |-> j.ks[s + 1]], lv |-> [s \in Slots |-> j.lv[s + 1]], prev |-> pv, next |-> nx, parent |-> par]
BIdx(n) == IF n = 1 THEN 1 ELSE IF n = 2 THEN 2 ELSE 3
TReset == /\ Consume /\ E.e = "reset"
          /\ bd' = Force([n \in Borders |-> IF n = 1 THEN MkB(E.b[1], NULL, 2, 4) ELSE IF n = 2 THEN MkB(E.b[2], 1, 6, 4) ELSE IF n = 6 THEN MkB(E.b[3], 2, NULL, 5) ELSE EmptyB])
          /\ it' = Force([n \in Interiors |-> IF n = 4 THEN [EmptyI EXCEPT !.ver = LV(E.x.ver), !.n = 1, !.key[0] = E.x.key0, !.ch[0] = 1, !.ch[1] = 2, !.parent = 5]
                                              ELSE IF n = 5 THEN [EmptyI EXCEPT !.ver = LV(E.nn.ver), !.n = 1, !.key[0] = E.nn.key0, !.ch[0] = 4, !.ch[1] = 6]
                                              ELSE EmptyI])
          /\ rootp' = 5 /\ rootlock' = FALSE
          /\ pc' = [t \in Threads |-> "start"] /\ loc' = [t \in Threads |-> L0]
          /\ abs' = Force([k \in Keys |-> IF \E n \in {1, 2, 3} : \E i \in 1..Len(E.b[n].perm) : E.b[n].ks[E.b[n].perm[i] + 1] = k
                                          THEN LET n == CHOOSE m \in {1, 2, 3} : \E i \in 1..Len(E.b[m].perm) : E.b[m].ks[E.b[m].perm[i] + 1] = k
                                                   i == CHOOSE j \in 1..Len(E.b[n].perm) : E.b[n].ks[E.b[n].perm[j] + 1] = k IN E.b[n].lv[E.b[n].perm[i] + 1]
                                          ELSE ABSENT])
          /\ seen' = [t \in Threads |-> [k \in Keys |-> {}]] /\ res' = [t \in Threads |-> <<>>]
TInv == Consume /\ E.e = "inv" /\ Start(E.t)
\* put loads the root pointer twice at its start (null test, then retry_from_root): the second value is the one it uses
G0Again(t) == loc' = [loc EXCEPT ![t].root = rootp] /\ UNCHANGED <<bd, it, rootp, rootlock, pc, abs, seen, res>>
TRootLoad == /\ Consume /\ E.e = "root_load" /\ Ev(rootp = E.n)
             /\ LET t == E.t IN
                IF pc[t] = "g0" THEN G0(t)
                ELSE IF pc[t] = "r_rl2" /\ E.n = loc[t].b THEN RRl2(t)
                ELSE IF pc[t] = "s_rl2" /\ E.n = loc[t].b THEN SRl2(t)
                ELSE IF pc[t] = "fb" /\ Op(t).op = "put" THEN G0Again(t)
                ELSE IF pc[t] = "i_rl2" /\ E.n = loc[t].pn THEN IRl2(t)
                ELSE Ev(Owner(t)) /\ Stutter
TVerLoad == /\ Consume /\ E.e = "ver_load"
            /\ LET t == E.t IN
               IF Private(E.n) THEN Stutter
               ELSE /\ Ev(VerOf(E.n) = LVer(E))
                    /\ IF Owner(t) \/ pc[t] = "lock" \/ ~Stable(LVer(E)) THEN Stutter
                       ELSE \/ (FB(t) /\ Ev(loc[t].root = E.n)) \/ (GC3(t) /\ Ev(loc[t].child = E.n)) \/ (GC4(t) /\ Ev(loc[t].cur = E.n))
                            \/ ((LV1(t) \/ LV2(t) \/ GFc(t) \/ RFc0(t)) /\ Ev(loc[t].b = E.n))
\* the key search follows the n_keys load without a hook: the child index is known from the child load that comes next
TNkeysLoad == /\ Consume /\ E.e = "nkeys_load"
              /\ IF Owner(E.t) THEN Stutter ELSE Ev(loc[E.t].cur = E.n) /\ GC1(E.t)
TChildLoad == /\ Consume /\ E.e = "child_load" /\ Ev(it[E.n].ch[E.i] = E.c)
              /\ IF Owner(E.t) THEN Stutter ELSE GC2(E.t) /\ Ev(loc[E.t].ci = E.i /\ loc[E.t].cur = E.n)
TPermLoad == /\ Consume /\ E.e = "perm_load"
             /\ IF Private(E.n) THEN Stutter
                ELSE /\ Ev(bd[E.n].perm = E.perm)
                     /\ IF Owner(E.t) THEN Stutter
                        ELSE PermLd(E.t) /\ Ev(loc[E.t].b = E.n)
TLvLoad == /\ Consume /\ E.e = "lv_load"
           /\ IF Owner(E.t) THEN Stutter
              ELSE Ev(bd[E.n].lv[E.slot] = E.w /\ loc[E.t].b = E.n) /\ GVal(E.t) /\ Ev(loc[E.t].idx = E.slot)
TPrevLoad == /\ Consume /\ E.e = "prev_load" /\ Ev(bd[E.n].prev = E.x)
             /\ IF pc[E.t] = "r_prev" THEN RPrev(E.t) /\ Ev(loc[E.t].b = E.n)
                ELSE Ev(Owner(E.t)) /\ Stutter
TNextLoad == /\ Consume /\ E.e = "next_load" /\ Ev(Owner(E.t)) /\ Stutter
TParentLoad == /\ Consume /\ E.e = "parent_load" /\ Ev(ParentOf(E.n) = E.p)
               /\ LET t == E.t IN
                  IF pc[t] = "r_lp" /\ E.n = loc[t].b THEN RLp(t)
                  ELSE IF pc[t] = "r_lpc" /\ E.n = loc[t].b /\ E.p = loc[t].pn THEN RLpc(t)
                  ELSE IF pc[t] = "lp_ld" /\ E.n = loc[t].b THEN LpLd(t)
                  ELSE IF pc[t] = "lp_c" /\ E.n = loc[t].b /\ E.p = loc[t].pn THEN LpC(t)
                  ELSE IF pc[t] = "i_lpld" /\ E.n = loc[t].pn THEN ILpLd(t)
                  ELSE IF pc[t] = "i_lpc" /\ E.n = loc[t].pn /\ E.p = loc[t].pn2 THEN ILpC(t)
                  ELSE Ev(Owner(t)) /\ Stutter
TLock == /\ Consume /\ E.e = "lock"
         /\ LET t == E.t IN
            IF Private(E.n) THEN Stutter
            ELSE IF E.n \in Interiors THEN (((RLpl(t) \/ LpL(t)) /\ Ev(loc[t].pn = E.n)) \/ (ILpL(t) /\ Ev(loc[t].pn2 = E.n))) /\ it'[E.n].ver = LVer(E)
            ELSE ((Lock(t) /\ Ev(loc[t].b = E.n)) \/ (RPLock(t) /\ Ev(loc[t].prevn = E.n))) /\ bd'[E.n].ver = LVer(E)
TFlag == /\ Consume /\ E.e = "flag"
         /\ LET t == E.t IN
            IF Private(E.n) THEN Stutter
            ELSE IF E.n \in Interiors THEN (((IIns(t) \/ IDel(t) \/ IRoot0(t) \/ IRoot0P(t) \/ X6(t)) /\ Ev(loc[t].pn = E.n)) \/ (ISibRoot(t) /\ Ev(loc[t].sib = E.n))) /\ it'[E.n].ver = LVer(E)
            ELSE /\ \/ (pc[t] = "chk" /\ Chk(t) /\ pc'[t] \in {"p_slot", "p_undel", "s1"} /\ Ev(loc[t].b = E.n))
                    \/ ((PUndel(t) \/ RDel(t) \/ RRoot0(t) \/ S1(t) \/ N1a(t) \/ X1(t)) /\ Ev(loc[t].b = E.n))
                    \/ ((N1b(t) \/ X2(t)) /\ Ev(E.n = 3))
                    \/ (ISibRoot(t) /\ Ev(loc[t].sib = E.n))
                 /\ bd'[E.n].ver = LVer(E)
\* B3: init_border stores a clean word (stutter), then set_version stores the copy of the split border's word (S3a)
TVerStore == /\ Consume /\ E.e = "ver_store" /\ Ev(Private(E.n))
             /\ IF E.n = 3 /\ E.ver.lk THEN S3a(E.t) /\ bd'[3].ver = LVer(E) ELSE Stutter
TUnlock == /\ Consume /\ E.e = "unlock"
           /\ LET t == E.t IN
              IF E.n \in Interiors
              THEN (\/ (pc[t] = "r_lpc" /\ RLpc(t) /\ pc'[t] # "r_root0" /\ Ev(loc[t].pn = E.n))
                    \/ (pc[t] = "lp_c" /\ LpC(t) /\ pc'[t] # "x1" /\ Ev(loc[t].pn = E.n))
                    \/ ((IPUnl(t) \/ YUnl(t) \/ X9(t)) /\ Ev(loc[t].pn = E.n))
                    \/ (pc[t] = "i_lpc" /\ ILpC(t) /\ pc'[t] # "i_root0p" /\ Ev(loc[t].pn2 = E.n))
                    \/ (INUnl(t) /\ Ev(loc[t].pn2 = E.n))
                    \/ (N5(t) /\ Ev(E.n = 7))) /\ it'[E.n].ver = LVer(E)
              ELSE /\ \/ ((Chk(t) \/ PUnlock(t) \/ RUnlock(t) \/ RSelfUnl(t) \/ N2(t) \/ X3(t)) /\ Ev(loc[t].b = E.n))
                      \/ ((N3(t) \/ X4(t)) /\ Ev(E.n = 3))
                      \/ (((pc[t] = "r_pchk" /\ RPChk(t) /\ pc'[t] = "r_prev") \/ RPUnl(t)) /\ Ev(loc[t].prevn = E.n))
                   /\ bd'[E.n].ver = LVer(E)
TLvStore == /\ Consume /\ E.e = "lv_store"
            /\ LET t == E.t IN
               IF pc[t] = "smove"
               THEN LET b == loc[t].b src == bd[b].perm[Keep + 1] dst == loc[t].mv - 1 IN
                    IF E.n = 3 THEN Ev(E.slot = dst /\ E.w = bd[b].lv[src]) /\ Stutter
                    ELSE Ev(E.n = b /\ E.slot = src /\ E.w = 0) /\ SMove(t)
               ELSE IF pc[t] = "s7a" THEN S7aAt(t, E.slot) /\ Ev(E.w = Op(t).v) /\ Ev(loc'[t].sib = E.n)
               ELSE /\ Ev(loc[t].b = E.n)
                    /\ \/ (RClear(t) /\ Ev(loc[t].idx = E.slot /\ E.w = 0))
                       \/ (PSlotAt(t, E.slot) /\ Ev(E.w = Op(t).v))
                       \/ (PSet(t) /\ Ev(loc[t].idx = E.slot /\ E.w = Op(t).v))
TPermStore == /\ Consume /\ E.e = "perm_store"
              /\ LET t == E.t IN
                 /\ \/ ((RPub(t) \/ PPub(t) \/ SPerm(t)) /\ Ev(loc[t].b = E.n)) \/ (S6(t) /\ Ev(E.n = 3)) \/ (S7b(t) /\ Ev(loc[t].sib = E.n))
                 /\ bd'[E.n].perm = E.perm
TPrevStore == /\ Consume /\ E.e = "prev_store"
              /\ LET t == E.t IN
                 IF Private(E.n) THEN Stutter
                 ELSE /\ \/ (RNextFix(t) /\ Ev(bd[loc[t].b].next = E.n)) \/ (RPNP(t) /\ Ev(bd[loc[t].b].next = E.n)) \/ (RClrP(t) /\ Ev(loc[t].b = E.n))
                         \/ (S3b(t) /\ Ev(bd[3].next = E.n))
                      /\ bd'[E.n].prev = E.x
TNextStore == /\ Consume /\ E.e = "next_store"
              /\ LET t == E.t IN
                 IF Private(E.n) THEN Stutter
                 ELSE /\ \/ (pc[t] = "r_pchk" /\ RPChk(t) /\ pc'[t] # "r_prev" /\ Ev(loc[t].prevn = E.n)) \/ (RClrN(t) /\ Ev(loc[t].b = E.n))
                         \/ (S3(t) /\ Ev(loc[t].b = E.n))
                      /\ bd'[E.n].next = E.x
TNkeysStore == /\ Consume /\ E.e = "nkeys_store"
               /\ IF Private(E.n) THEN Stutter
                  ELSE (INkSt(E.t) \/ XN(E.t) \/ YN(E.t)) /\ Ev(loc[E.t].pn = E.n) /\ it'[E.n].n = E.v
TChildStore == /\ Consume /\ E.e = "child_store"
               /\ IF Private(E.n) THEN Stutter
                  ELSE (((XChS(E.t) \/ XCh(E.t) \/ YShiftC(E.t) \/ YClrC(E.t)) /\ Ev(loc[E.t].pn = E.n)) \/ (ISwap(E.t) /\ Ev(loc[E.t].pn2 = E.n))) /\ it'[E.n].ch[E.i] = E.c
\* key array of an interior: bulk shift, then the two stores of set_key (one model step for the array, the rest stutters)
TPOther == /\ Consume /\ E.e = "p_other_store"
           /\ LET t == E.t IN
              IF Private(E.n) THEN Stutter
              ELSE IF pc[t] \in {"xkey", "y_shiftk", "y_clrk"} THEN (XKey(t) \/ YShiftK(t) \/ YClrK(t)) /\ Ev(loc[t].pn = E.n)
              ELSE Ev(pc[t] \in {"xch", "xchs", "y_n", "y_shiftc", "y_clrc"}) /\ Stutter
TRootLock == Consume /\ E.e = "root_lock" /\ (RRl(E.t) \/ IRl(E.t) \/ SRl(E.t))
TRootUnlock == /\ Consume /\ E.e = "root_unlock"
               /\ \/ (pc[E.t] = "r_rl2" /\ RRl2(E.t) /\ pc'[E.t] = "r_rl") \/ (pc[E.t] = "s_rl2" /\ SRl2(E.t) /\ pc'[E.t] = "s_rl") \/ (pc[E.t] = "i_rl2" /\ IRl2(E.t) /\ pc'[E.t] = "i_rl")
                  \/ RRUnl(E.t) \/ IRUnl(E.t) \/ N6(E.t)
TRootStore == Consume /\ E.e = "root_store" /\ ((IRootSt(E.t) /\ Ev(E.n = loc[E.t].sib)) \/ (N4(E.t) /\ Ev(E.n = 7)))
TParentStore == /\ Consume /\ E.e = "parent_store"
                /\ LET t == E.t IN
                   IF Private(E.n) THEN Stutter
                   ELSE IF pc[t] = "n1c" THEN (IF E.n = 3 THEN N1c(t) /\ Ev(E.p = 7) ELSE Ev(E.n = loc[t].b /\ E.p = 7) /\ Stutter)
                   ELSE (ISibPar(t) /\ Ev(E.n = loc[t].sib /\ E.p = 0)) \/ (ISibPar2(t) /\ Ev(E.n = loc[t].sib /\ E.p = loc[t].pn2)) \/ (X5(t) /\ Ev(E.n = 3 /\ E.p = loc[t].pn))
\* key bytes of moved / inserted border entries
TOther == Consume /\ E.e = "other_store" /\ Ev(pc[E.t] \in {"p_slot", "smove", "sperm", "s7a", "s3", "s3l"}) /\ Stutter
TRet == /\ Consume /\ E.e = "ret" /\ Stutter
        /\ Ev(pc[E.t] = "done" /\ Len(res[E.t]) = 1)
        /\ LET r == res[E.t][1] IN Ev(r.st = E.st /\ (r.op = "get" => r.w = E.w))
TEnd == Consume /\ E.e = "end" /\ Stutter /\ Ev(AllDone)
\* silent: re-validation under the lock that goes on without a shared write
TSilent == /\ l <= Len(Log) /\ UNCHANGED l
           /\ \E t \in Threads : pc[t] = "chk" /\ Chk(t) /\ pc'[t] \in {"r_clear", "p_set"}
TNext == TReset \/ TInv \/ TRootLoad \/ TVerLoad \/ TNkeysLoad \/ TChildLoad \/ TPermLoad \/ TLvLoad \/ TPrevLoad \/ TNextLoad \/ TParentLoad
         \/ TLock \/ TFlag \/ TVerStore \/ TUnlock \/ TLvStore \/ TPermStore \/ TPrevStore \/ TNextStore \/ TNkeysStore \/ TChildStore \/ TPOther
         \/ TRootLock \/ TRootUnlock \/ TRootStore \/ TParentStore \/ TOther \/ TRet \/ TEnd \/ TSilent
TSpec == TInit /\ [][TNext]_tvars
Record == TLCSet(1, IF l > TLCGet(1) THEN l ELSE TLCGet(1))
Accepted == IF TLCGet(1) = Len(Log) + 1 THEN TRUE ELSE PrintT(<<"STUCK", TLCGet(1), 0>>) /\ FALSE
====

---- MODULE YkIscanR ----
(* The cursor WITH ITS RE-VALIDATION AND RETRY PATHS at call grain: every iscan_open / iscan_next call runs to completion on the current node
   map (nothing changes during a call), but the tree may change BETWEEN two calls (the caller pauses the cursor, somebody writes, the caller
   resumes).  The context is the stack of layer elements [key, root, bn, cmp, v (saved version), perm (saved permutation), rank]; a call
   re-validates against the saved version and permutation (iscan_check_retry) and follows the code's paths:
     retry_after_fb  : the border changed without a split: rewind in it unless it is empty or its first key is already behind the cursor
     retry_from_root : the saved layer root: deleted -> layer 0: reload the tree root (same root: the scan ends); below: leave the layer;
                       not root -> layer 0: reload the tree root; below: fetch the link again through the border of the upper layer (a link:
                       new layer root, again; none: leave the layer); else find the border of the last key again
     neighbour move, layer push / pop as in YkIscan; early_abort turns every failed re-validation into WARN_CONCURRENT_OPERATIONS.
   Dead nodes stay in the node map (YkTree keeps them with their deleted flag), so a saved pointer can always be inspected. *)
EXTENDS YkIscan
CONSTANTS BUGGY_F18,   \* TRUE: a deleted saved layer root below layer 0 always means "the layer is gone" (the pinned tree: the rest of a layer whose interior root collapsed is skipped)
          BUGGY_F20,   \* TRUE: the new root of a layer is fetched through the border SAVED for the upper layer (the pinned tree: if that border was split and the link moved, the layer is taken for removed)
          BUGGY_F21,   \* TRUE: a deleted saved layer root that is a BORDER always means "the layer is gone" (the pinned tree; wrong for a root border that was split and then emptied)
          BUGGY_F19    \* TRUE: a deleted neighbour at the end of a border sends an early_abort cursor to retry_from_root instead of returning the warning
ElemR(key, root, bn, cmp, v, perm, rank) == [key |-> key, root |-> root, bn |-> bn, cmp |-> cmp, v |-> v, perm |-> perm, rank |-> rank]
Res(st, stack, out, cbs) == [st |-> st, stack |-> stack, out |-> out, cbs |-> cbs]
CheckRetry(nd, b, v, perm) == LET cur == nd[b].ver p == nd[b].perm IN
                              IF cur = v /\ p = perm THEN [st |-> "OK", v |-> v, perm |-> perm]
                              ELSE IF cur.vs # v.vs \/ cur.del THEN [st |-> "ROOT", v |-> v, perm |-> perm]
                              ELSE [st |-> "FB", v |-> cur, perm |-> p]
\* ---------------------------------------------------------------- iscan_findfirst (never retries when nothing changes during the call)
RECURSIVE FFLayerR(_, _, _, _, _, _, _)
FFLayerR(nd, root, tkey, cmp, stack, cbs, C) ==
   LET ktup == IF C.rtl /\ C.sep = "INF" THEN MaxTup ELSE TupOf(tkey)
       b == FindBorderRaw(nd, root, ktup.s, ktup.l)
       bn == nd[b]
       sl == FindSlot(bn, ktup)
       layer == Len(stack)
       el(pos) == ElemR(pos, root, b, cmp, bn.ver, bn.perm, 0) IN
   IF bn.ver.del /\ bn.ver.root THEN Res("END", stack, <<>>, Append(cbs, <<bn.ver, b>>))
   ELSE IF sl # -1 /\ bn.k[sl].l > W THEN
        FFLayerR(nd, bn.lv[sl][2], DropN(tkey, W), IF cmp = 0 /\ ktup # EndTuple(C, layer) THEN -1 ELSE cmp, Append(stack, el(ktup)), cbs, C)
   ELSE IF sl # -1 THEN
        (IF C.sep = "INC" THEN Res("OK", Append(stack, el(ktup)), <<bn.lv[sl][2]>>, cbs) ELSE Res("CONT", Append(stack, el(ktup)), <<>>, cbs))
   ELSE LET needcb == OnePoint(C) \/ (cmp = 0 /\ C.eep = "INC" /\ ktup.l > W /\ ktup = EndTuple(C, layer))
            pos == IF C.rtl /\ C.sep = "INF" THEN Sent10 ELSE ktup IN
        Res("CONT", Append(stack, el(pos)), <<>>, IF needcb THEN Append(cbs, <<bn.ver, b>>) ELSE cbs)
\* the current root of the top layer: walk down from the tree root along the link tuples saved in the stack (iscan_resolve_top_layer_root);
\* the pinned tree looked into the border saved for the upper layer only
RECURSIVE ResolveFrom(_, _, _, _)
ResolveFrom(nd, r, stack, level) ==
   IF r = NULL \/ level >= Len(stack) THEN r
   ELSE IF ~nd[r].ver.root THEN NULL        \* cannot happen at rest: the walk starts at the tree root and follows links to layer roots
   ELSE LET e == stack[level]
            b == IF nd[r].ver.del THEN r ELSE FindBorderRaw(nd, r, e.key.s, e.key.l)
            s == IF nd[b].t = "B" THEN FindSlot(nd[b], e.key) ELSE -1 IN
        ResolveFrom(nd, IF s # -1 /\ nd[b].lv[s][1] = "L" THEN nd[b].lv[s][2] ELSE NULL, stack, level + 1)
ResolveTop(nd, rt, stack) ==
   IF BUGGY_F20 THEN LET up == stack[Len(stack) - 1] ub == nd[up.bn] s == FindSlot(ub, up.key) IN IF s # -1 /\ ub.lv[s][1] = "L" THEN ub.lv[s][2] ELSE NULL
   ELSE ResolveFrom(nd, rt, stack, 1)
\* ---------------------------------------------------------------- iscan_findnext with its goto structure: mode = label
\* L = locals [b, v, perm, i, lastk, cmp]
SetTopR(stack, e) == [stack EXCEPT ![Len(stack)] = e]
TopR(stack) == stack[Len(stack)]
RECURSIVE RunR(_, _, _, _, _, _, _, _, _)
RunR(mode, nd, rt, stack, cbs, L, C, ea, fuel) ==
   IF fuel = 0 THEN Res("FUEL", stack, <<>>, cbs)
   ELSE IF mode = "NL" THEN
      LET e == TopR(stack) IN RunR("LOOP", nd, rt, stack, cbs, [b |-> e.bn, v |-> e.v, perm |-> e.perm, i |-> e.rank, lastk |-> e.key, cmp |-> e.cmp], C, ea, fuel - 1)
   ELSE IF mode = "RR" THEN
      LET e == TopR(stack) root == e.root rv == nd[root].ver depth == Len(stack) IN
      IF rv.del THEN
         (IF depth = 1 THEN (IF root # rt THEN RunR("RR", nd, rt, SetTopR(stack, [e EXCEPT !.root = rt]), cbs, L, C, ea, fuel - 1) ELSE Res("END", stack, <<>>, cbs))
          ELSE IF ~BUGGY_F18 /\ (nd[root].t = "I" \/ ~BUGGY_F21) THEN
               \* only the root of the layer was replaced (an interior root collapsed; or a root border was split and later emptied): the new root is
               \* looked up through the links; a deleted root BORDER that is still linked means the layer is being removed
               LET nr == ResolveTop(nd, rt, stack) IN
               IF nr # NULL /\ (nr # root \/ nd[root].t = "I") THEN RunR("RR", nd, rt, SetTopR(stack, [e EXCEPT !.root = nr]), cbs, L, C, ea, fuel - 1)
               ELSE RunR("NL", nd, rt, SubSeq(stack, 1, depth - 1), cbs, L, C, ea, fuel - 1)
          ELSE RunR("NL", nd, rt, SubSeq(stack, 1, depth - 1), cbs, L, C, ea, fuel - 1))
      ELSE IF ~rv.root THEN
         (IF depth = 1 THEN RunR("RR", nd, rt, SetTopR(stack, [e EXCEPT !.root = rt]), cbs, L, C, ea, fuel - 1)
          ELSE LET nr == ResolveTop(nd, rt, stack) IN
               IF nr # NULL THEN RunR("RR", nd, rt, SetTopR(stack, [e EXCEPT !.root = nr]), cbs, L, C, ea, fuel - 1)
               ELSE RunR("NL", nd, rt, SubSeq(stack, 1, depth - 1), cbs, L, C, ea, fuel - 1))
      ELSE LET b == FindBorderRaw(nd, root, L.lastk.s, L.lastk.l)
               e2 == [e EXCEPT !.bn = b, !.rank = 0, !.perm = nd[b].perm, !.v = nd[b].ver] IN
           RunR("LOOP", nd, rt, SetTopR(stack, e2), cbs, [L EXCEPT !.b = b, !.v = nd[b].ver, !.perm = nd[b].perm, !.i = 0], C, ea, fuel - 1)
   ELSE IF mode = "RFB" THEN
      LET bn == nd[L.b] n == Len(L.perm) IN
      IF n = 0 THEN RunR("RR", nd, rt, stack, cbs, L, C, ea, fuel - 1)
      ELSE IF ~C.rtl /\ TupLess(L.lastk, bn.k[L.perm[1]]) THEN RunR("RR", nd, rt, stack, cbs, L, C, ea, fuel - 1)
      ELSE IF C.rtl /\ TupLess(bn.k[L.perm[n]], L.lastk) THEN RunR("RR", nd, rt, stack, cbs, L, C, ea, fuel - 1)
      ELSE IF CheckRetry(nd, L.b, L.v, L.perm).st # "OK" THEN RunR("RR", nd, rt, stack, cbs, L, C, ea, fuel - 1)
      ELSE RunR("LOOP", nd, rt, SetTopR(stack, [TopR(stack) EXCEPT !.rank = 0, !.perm = L.perm]), cbs, [L EXCEPT !.i = 0], C, ea, fuel - 1)
   ELSE \* "LOOP": from_neighbor / the iteration over the permutation snapshot
      LET bn == nd[L.b] n == Len(L.perm) layer == Len(stack) - 1
          to == IF C.rtl THEN bn.prev ELSE bn.next
          ekt == IF L.cmp = 0 THEN EndTuple(C, layer) ELSE (IF C.rtl THEN MinTup ELSE MaxTup)
          chk == CheckRetry(nd, L.b, L.v, L.perm)
          fail == IF ea THEN Res("WARN", stack, <<>>, cbs)
                  ELSE IF chk.st = "ROOT" THEN RunR("RR", nd, rt, stack, cbs, L, C, ea, fuel - 1)
                  ELSE RunR("RFB", nd, rt, stack, cbs, [L EXCEPT !.v = chk.v, !.perm = chk.perm], C, ea, fuel - 1) IN
      IF L.i < n THEN
         (IF chk.st # "OK" THEN fail
          ELSE LET sl == L.perm[IF C.rtl THEN n - L.i ELSE L.i + 1]
                   kt == bn.k[sl]
                   behind == IF C.rtl THEN TupLess(kt, L.lastk) ELSE TupLess(L.lastk, kt) IN
               IF ~behind THEN RunR("LOOP", nd, rt, stack, cbs, [L EXCEPT !.i = @ + 1], C, ea, fuel - 1)
               ELSE LET inend == IF L.cmp # 0 THEN TRUE
                                 ELSE IF ~C.rtl THEN (IF C.eep = "INC" THEN ~TupLess(ekt, kt) ELSE TupLess(kt, ekt) \/ (kt = ekt /\ kt.l > W))
                                 ELSE (IF C.eep = "INC" THEN ~TupLess(kt, ekt) ELSE TupLess(ekt, kt) \/ (kt = ekt /\ kt.l > W)) IN
                    IF ~inend THEN Res("END", stack, <<>>, IF C.eep = "INC" /\ L.lastk = ekt THEN cbs ELSE Append(cbs, <<L.v, L.b>>))
                    ELSE IF kt.l > W THEN
                         LET child == IF bn.lv[sl][1] = "L" THEN bn.lv[sl][2] ELSE NULL IN
                         IF child = NULL THEN (IF ea THEN Res("WARN", stack, <<>>, cbs) ELSE RunR("RR", nd, rt, stack, cbs, L, C, ea, fuel - 1))
                         ELSE LET cbs2 == Append(cbs, <<L.v, L.b>>)
                                  ckt == IF C.rtl THEN Sent10 ELSE MinTup IN
                              IF ~nd[child].ver.root THEN (IF ea THEN Res("WARN", stack, <<>>, cbs2) ELSE RunR("RR", nd, rt, stack, cbs2, L, C, ea, fuel - 1))
                              ELSE LET tb == IF nd[child].ver.del THEN child ELSE FindBorderRaw(nd, child, ckt.s, ckt.l)
                                       st2 == Append(SetTopR(stack, [TopR(stack) EXCEPT !.bn = L.b, !.key = kt, !.rank = L.i + 1]),
                                                     ElemR(ckt, child, tb, IF L.cmp = 0 /\ kt # ekt THEN -1 ELSE L.cmp, nd[tb].ver, nd[tb].perm, 0)) IN
                                   RunR("NL", nd, rt, st2, cbs2, L, C, ea, fuel - 1)
                    ELSE Res("OK", SetTopR(stack, [TopR(stack) EXCEPT !.bn = L.b, !.key = kt, !.rank = L.i + 1]), <<bn.lv[sl][2]>>, Append(cbs, <<L.v, L.b>>)))
      ELSE \* permutation done: neighbour
         IF to # NULL /\ nd[to].ver.del THEN (IF ea /\ ~BUGGY_F19 THEN Res("WARN", stack, <<>>, cbs) ELSE RunR("RR", nd, rt, stack, cbs, L, C, ea, fuel - 1))
         ELSE IF chk.st # "OK" THEN fail
         ELSE LET cbs2 == IF L.cmp = 0 /\ C.eep = "INC" /\ L.lastk = ekt THEN cbs ELSE Append(cbs, <<L.v, L.b>>) IN
              IF to = NULL THEN Res(IF L.cmp = 0 THEN "END" ELSE "CONT", stack, <<>>, cbs2)
              ELSE IF (IF C.rtl THEN nd[to].next ELSE nd[to].prev) # L.b THEN RunR("RR", nd, rt, stack, cbs2, L, C, ea, fuel - 1)
              ELSE RunR("LOOP", nd, rt, SetTopR(stack, [TopR(stack) EXCEPT !.bn = to, !.rank = 0, !.v = nd[to].ver, !.perm = nd[to].perm]), cbs2,
                        [L EXCEPT !.b = to, !.v = nd[to].ver, !.perm = nd[to].perm, !.i = 0], C, ea, fuel - 1)
L00 == [b |-> NULL, v |-> V0, perm |-> <<>>, i |-> 0, lastk |-> MinTup, cmp |-> 0]
\* iscan_next: findnext until a value, the end, or a warning; a finished layer is popped
RECURSIVE NextR(_, _, _, _, _, _, _)
NextR(nd, rt, stack, cbs, C, ea, fuel) ==
   IF fuel = 0 THEN Res("FUEL", stack, <<>>, cbs)
   ELSE LET r == RunR("NL", nd, rt, stack, cbs, L00, C, ea, 300) IN
        IF r.st = "CONT" THEN (IF Len(r.stack) = 1 THEN Res("END", <<>>, <<>>, r.cbs) ELSE NextR(nd, rt, SubSeq(r.stack, 1, Len(r.stack) - 1), r.cbs, C, ea, fuel - 1))
        ELSE IF r.st = "END" THEN Res("END", <<>>, <<>>, r.cbs)
        ELSE r
\* the cursor's normalised arguments
CtxArgs(lkey, le, rkey, re, rtl) ==
   LET l2 == IF le = "INF" THEN <<>> ELSE lkey
       le2 == IF le = "INF" THEN "INC" ELSE le IN
   [ekey |-> IF rtl THEN l2 ELSE rkey, eep |-> IF rtl THEN le2 ELSE re, rtl |-> rtl, skey |-> IF rtl THEN rkey ELSE l2, sep |-> IF rtl THEN re ELSE le2]
OpenR(nd, rt, C, ea) ==
   LET f == FFLayerR(nd, rt, C.skey, IF ~C.rtl /\ C.sep = "INF" THEN -1 ELSE 0, <<>>, <<>>, C) IN
   IF f.st = "CONT" THEN NextR(nd, rt, f.stack, f.cbs, C, ea, 50) ELSE f
FullKeyR(stack) == LET RECURSIVE cat(_) cat(i) == IF i > Len(stack) THEN <<>> ELSE TupKeyBytes(stack[i].key) \o cat(i + 1) IN cat(1)
\* a whole run on an unchanging tree: must equal YkIscan's IscanRun
RECURSIVE RunLoopR(_, _, _, _, _, _, _, _)
RunLoopR(nd, rt, r, tl, C, ea, limit, fuel) ==
   IF r.st # "OK" \/ fuel = 0 THEN [tl |-> tl, nv |-> r.cbs, ended |-> r.st = "END", st |-> r.st]
   ELSE LET tl2 == Append(tl, <<FullKeyR(r.stack), r.out[1]>>) IN
        IF limit >= 0 /\ Len(tl2) > limit THEN [tl |-> tl2, nv |-> r.cbs, ended |-> FALSE, st |-> "OK"]
        ELSE RunLoopR(nd, rt, NextR(nd, rt, r.stack, r.cbs, C, ea, 50), tl2, C, ea, limit, fuel - 1)
IscanRunR(nd, rt, lkey, le, rkey, re, rtl, ea, limit) ==
   LET C == CtxArgs(lkey, le, rkey, re, rtl) IN RunLoopR(nd, rt, OpenR(nd, rt, C, ea), <<>>, C, ea, limit, 200)
====

---- MODULE MC_Version ----
EXTENDS YkVersion
\* two writers (insert / split+delete flag), one foreign root-flag setter, one reader taking three stable versions
W1 == << <<"lock">>, <<"set", "ins", TRUE>>, <<"unlock">>, <<"lock">>, <<"set", "ins", TRUE>>, <<"unlock">> >>
W2 == << <<"lock">>, <<"set", "spl", TRUE>>, <<"set", "deleted", TRUE>>, <<"unlock">> >>
W3 == << <<"set", "root", FALSE>>, <<"inc">> >>
R1 == << <<"stable">>, <<"stable">>, <<"stable">> >>
ProgA == (1 :> W1) @@ (2 :> W2) @@ (3 :> W3) @@ (4 :> R1)
ProgB == (1 :> W1) @@ (2 :> W1) @@ (3 :> R1)
ProgC == (1 :> W1) @@ (2 :> W2) @@ (3 :> W3) @@ (4 :> R1) @@ (5 :> << <<"lock">>, <<"set", "ins", TRUE>>, <<"set", "spl", TRUE>>, <<"unlock">> >>)
\* an insert that splits the node (both dirty bits in one critical section) next to a plain insert and a reader
ProgE == (1 :> << <<"lock">>, <<"set", "ins", TRUE>>, <<"set", "spl", TRUE>>, <<"unlock">> >>) @@ (2 :> << <<"lock">>, <<"set", "ins", TRUE>>, <<"unlock">> >>) @@ (3 :> R1)
====

---- MODULE MC_Iscan ----
(* The sequential cursor (YkIscan) evaluated in every reachable state of the exhaustive sequential tree model (MC_Tree):
   result = abstract interval in cursor order, and the callback set covers every gap of the consumed part (C05 / C10 first sentence). *)
EXTENDS MC_Tree, YkIscan
IscanArgs == {a \in [l : ArgKeys, le : EPs, r : ArgKeys, re : EPs, rtl : BOOLEAN] : ValidRange(a.l, a.le, a.r, a.re)}
AbsAll(a) == LET ks == SortedSeq({k \in KeySet : abs[k] # ABSENT /\ InRange(k, a.l, a.le, a.r, a.re)})
                 all == [i \in 1..Len(ks) |-> <<ks[i], abs[ks[i]]>>] IN
             IF a.rtl THEN [i \in 1..Len(all) |-> all[Len(all) + 1 - i]] ELSE all
IscanOK == \A a \in IscanArgs : LET r == IscanRun(node, root, a.l, a.le, a.r, a.re, a.rtl, -1) IN r.ended /\ r.tl = AbsAll(a)
Limits == {-1, 0, 1}
ICovered(a, res, k) == /\ InRange(k, a.l, a.le, a.r, a.re)
                       /\ (~res.ended => IF a.rtl THEN LexLE(res.tl[Len(res.tl)][1], k) ELSE LexLE(k, res.tl[Len(res.tl)][1]))
\* the recorded known finding (C05): only the inclusive start key itself was produced -> no callback yet
NL(a) == IF a.le = "INF" THEN <<>> ELSE a.l
NLe(a) == IF a.le = "INF" THEN "INC" ELSE a.le
StartOnly(a, res) == /\ Len(res.tl) = 1 /\ res.tl[1][1] = (IF a.rtl THEN a.r ELSE NL(a)) /\ (IF a.rtl THEN a.re ELSE NLe(a)) = "INC"
                     /\ (~res.ended \/ (NL(a) = a.r /\ NLe(a) = "INC" /\ a.re = "INC"))
IscanPrefixOK == \A a \in IscanArgs : \A lim \in Limits :
                   LET res == IscanRun(node, root, a.l, a.le, a.r, a.re, a.rtl, lim) full == AbsAll(a) IN
                   /\ Len(res.tl) <= Len(full) /\ res.tl = SubSeq(full, 1, Len(res.tl))
                   /\ (lim >= 0 /\ Len(full) > lim => ~res.ended /\ Len(res.tl) = lim + 1)
IscanPhantomOK == \A a \in IscanArgs : \A lim \in Limits :
                   LET res == IscanRun(node, root, a.l, a.le, a.r, a.re, a.rtl, lim) IN
                   /\ (Len(res.nv) >= 1 \/ StartOnly(a, res))
                   /\ \A k \in KeySet : (abs[k] = ABSENT /\ ICovered(a, res, k)) =>
                         LET p == PutRec(node, root, nextId, root, k, 1) IN
                         \E i \in 1..Len(res.nv) : p[1][res.nv[i][2]].ver # res.nv[i][1]
F8 == <<255,255,255,255,255,255,255,255>>
Keys5F == { <<1>>, F8, F8 \o <<0>>, F8 \o F8, F8 \o F8 \o <<1>> }
Args5F == Keys5F \cup { <<>>, F8 \o <<255>> }
A8 == <<1,1,1,1,1,1,1,1>>
Keys5G == { <<>>, A8 \o <<0>>, A8 \o F8, A8 \o F8 \o <<1>>, <<2>> }
Args5G == Keys5G \cup { A8 \o F8 \o <<0>> }
PhBad == {x \in IscanArgs \X Limits :
            LET a == x[1] lim == x[2] res == IscanRun(node, root, a.l, a.le, a.r, a.re, a.rtl, lim) IN
            ~(/\ (Len(res.nv) >= 1 \/ StartOnly(a, res))
              /\ \A k \in KeySet : (abs[k] = ABSENT /\ ICovered(a, res, k)) =>
                         LET p == PutRec(node, root, nextId, root, k, 1) IN
                         \E i \in 1..Len(res.nv) : p[1][res.nv[i][2]].ver # res.nv[i][1])}
DbgPh == PhBad = {} \/ (PrintT(<<"PHBAD", PhBad>>) /\ FALSE)
OkBad == {a \in IscanArgs : LET r == IscanRun(node, root, a.l, a.le, a.r, a.re, a.rtl, -1) IN ~(r.ended /\ r.tl = AbsAll(a))}
DbgOk == OkBad = {} \/ (PrintT(<<"OKBAD", OkBad>>) /\ FALSE)
====

#!/usr/bin/env python3
"""usage: seedmeta.py <id> <Cnn> <summary> <needs> <caught_by> [missed_before]   writes seeded/<id>/meta.json"""
import json, os, sys
HERE = os.path.dirname(os.path.dirname(os.path.abspath(__file__)))
sid, prop, summary, needs, caught = sys.argv[1:6]
missed = sys.argv[6] if len(sys.argv) > 6 else None
m = dict(property=prop, summary=summary, needs=needs, caught_by=[caught], missed_before=missed,
         confirmed={'demo_unmodified': 'PASS (exit 0)', 'demo_with_patch': 'FAIL (exit 1)',
                    'how': 'tools/seedcheck.sh %s <scratch worktree>; check run with tools/mutcheck.py --patch seeded/%s/patch.diff %s' % (sid, sid, prop),
                    'pinned_tests': 'subset built and run by the authoring sub-agent in its worktree (listed in notes.md), all passed with the patch'})
json.dump(m, open(os.path.join(HERE, 'seeded', sid, 'meta.json'), 'w'), indent=1)

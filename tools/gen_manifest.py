#!/usr/bin/env python3
"""Writes /verif/MANIFEST.json from the table below (single source of truth for claimed checks)."""
import json, os, subprocess, sys
HERE = os.path.dirname(os.path.dirname(os.path.abspath(__file__)))
ALL = ["C%02d" % i for i in range(1, 21)]

CLAIMED = {
    "C17": dict(cat="model_checking", ref="DESIGN.md 3.3, 6 (C17)",
                text="TLC exhaustively checks the concurrent lock/unlock/flag/stable protocol (YkVersion) and TLC judges a replay of "
                     "every public operation of the real node_version64 on all 64 flag sets x counter boundary values (TraceVersionSeq).",
                note="SC atomics; model counters mod 4, code modulus checked by replay at 0,1,2,2^28,2^29-2,2^29-1.",
                tech="TLA+ model checking (TLC) + TLC trace validation of replayed implementation transitions"),
}
NA_REASON = "check not built yet in this revision of the framework (planned: see DESIGN.md section 6)"


def hook_commits():
    try:
        out = subprocess.run(["git", "-C", "/repo", "log", "--format=%H %s"], stdout=subprocess.PIPE, text=True).stdout
        return [l.split()[0] for l in out.splitlines() if " verif:" in l or l.split(" ", 1)[1].startswith("verif:")]
    except Exception:
        return []


def main():
    checks = []
    for p in ALL:
        if p not in CLAIMED:
            continue
        c = CLAIMED[p]
        checks.append({
            "property_id": p,
            "quick_cmd": "./check %s quick" % p,
            "thorough_cmd": "./check %s thorough" % p,
            "evidence_file": "/verif/evidence/%s.json" % p,
            "replay_cmd_template": "./check --replay {path}",
            "engine": "tlc",
            "level_claimed": {"category": c["cat"], "text": c["text"], "design_ref": c["ref"]},
            "level_note": c["note"],
            "technique": c["tech"],
        })
    m = {
        "version": 1,
        "setup_cmd": "./setup.sh",
        "hooks": {
            "guard": "PROJECT_TSURUGI_YAKUSHIMA_VERIF",
            "enable": "header-only library: every harness TU is compiled by the check itself from /repo/include with "
                      "-DPROJECT_TSURUGI_YAKUSHIMA_VERIF (tools/common.py build()); a harness installs yakushima::verif::g_hook at run time",
            "baseline_off_cmd": "cmake --build /repo/_build && ctest --test-dir /repo/_build -j8 --timeout 900",
            "source_commits": hook_commits(),
            "add_only": True,
        },
        "engines": [{"name": "tlc", "path": "/verif/check", "serves_properties": sorted(CLAIMED.keys()),
                     "kind_free_text": "explicit TLA+ specifications under /verif/spec checked by TLC; conformance by trace validation "
                                       "(implementation -> spec) and replay (spec -> implementation) through C++ harnesses under /verif/harness"}],
        "checks": checks,
        "not_applicable": [{"property_id": p, "reason": NA_REASON} for p in ALL if p not in CLAIMED],
        "notes": "See DESIGN.md. Exit codes of every check: 0 = property held on everything explored, 1 = VIOLATION line printed, "
                 "2 = undecided (tool/model error, never a claim about the code).",
    }
    with open(os.path.join(HERE, "MANIFEST.json"), "w") as f:
        json.dump(m, f, indent=1)
    print("MANIFEST.json: %d checks, %d not_applicable" % (len(checks), len(m["not_applicable"])))


if __name__ == "__main__":
    main()

#!/usr/bin/env python3
"""Writes /verif/MANIFEST.json from the table below (single source of truth for claimed checks)."""
import json, os, subprocess, sys
HERE = os.path.dirname(os.path.dirname(os.path.abspath(__file__)))
ALL = ["C%02d" % i for i in range(1, 21)]

SEQ_NOTE = ("single session; model checking at fan-out 3 / 5-9 keys, conformance at the code's fan-out 15; trusted: canonical dump "
            "through node accessors, driver-side value ids; a model failure or tool error is reported as undecided (exit 2), never as a violation")
SEQ_TECH = "TLA+ model checking (TLC) of YkTree + TLC trace validation of real API executions (TraceTree)"
CONC_NOTE = ("sequentially consistent executions only (one controlled thread at a time, preemption at every hooked atomic access); bounded exploration: seeded random / "
             "PCT schedules and every single preemption of 2-thread programs over 7-10 tree-shape families, 1-2 operations per thread; exhaustive only for the fixed "
             "3-thread programs of the models YkConc .. YkConc6 at fan-out 3 / 5; a deadlock/livelock or tool error is 'undecided' (exit 2) except in C09")
CONC_TECH = ("TLA+ model checking (TLC) of the hook-grain concurrent models YkConc .. YkConc6 (all interleavings of fixed programs) + "
             "TLC step-level trace validation of the real code against them (TraceConc*) + deterministic-scheduler exploration of the real code judged by a TLC "
             "linearization search (TraceLin)")
CLAIMED = {
    "C01": dict(cat="model_checking", ref="DESIGN.md 3.6, 3.8, 6 (C01)",
                text="M: TLC explores all interleavings of get / put / unique put / remove at the grain of the hooked atomic accesses on one root border (YkConc), "
                     "across a root border split (YkConc2), across border deletion + collapse of the interior root (YkConc3) and across a split under an existing "
                     "parent / interior insert / interior shift-delete / collapse racing with a new root (YkConc4), across next layers (YkConc5) and across an interior split with "
                     "parent change under lock_parent (YkConc6) and across two interior levels (YkConc7: collapse of an inner interior through swap_child, of the root interior, of both, vs split of the "
                     "survivor and descents): every result is a binding the key had during the call (LinOK). "
                     "S: the same programs on the real tree (fan-out 15): every logged access must be the enabled model action with the same value. "
                     "T: Real get/put/unique-put/remove calls of 2-3 threads are executed under a deterministic scheduler that preempts at every hooked atomic access "
                     "(version, permutation, slot, link, root words) on seven tree shapes (single border, full border about to split, interior levels, next layers, "
                     "nodes that become empty); for every run TLC searches, key by key, a linearization of the recorded call/return history that ends in the quiescent "
                     "content; null or torn values are unplaceable. Thousands of distinct schedules per run of the check incl. every single preemption.",
                note=CONC_NOTE, tech=CONC_TECH),
    "C04": dict(cat="model_checking", ref="DESIGN.md 3.6, 6 (C04)",
                text="M: YkConc programs C, D (scan of one border vs put / remove: ScanOK) and YkConc4 programs g-j (full scan over 2-3 borders vs split, interior insert, "
                     "collapse, insert, remove: ScanOK) and YkConc8 (full scan through a next-layer link: nested scan, clean-up and re-read of the border when the nested scan fails, "
                     "vs layer removal / creation / slot reuse). T: As C01 with scans (forward, size-limited, right-to-left) in the thread programs: every key of the interval a scan covered contributes one read "
                     "(returned value or ABSENT) that TLC must place in the per-key linearization (returned pairs were current, stable keys are never lost, absent keys "
                     "were absent), plus shape facts (strictly ascending, inside the interval, valid non-null values, limit respected).", note=CONC_NOTE, tech=CONC_TECH),
    "C06": dict(cat="model_checking", ref="DESIGN.md 3.6, 6 (C06)",
                text="M: YkConc4 programs g-j with the collected (version, node) pairs as part of the scan's result: NvOK (set never empty; every completed insert of a new key is in "
                     "the result or has left a collected pair stale) in all interleavings; the same for scans through a next-layer link (YkConc8). T: As C04 with the scan's node_version_vec: after every run the recorded (version, node) pairs are probed at quiescence; TLC requires that a key the scan "
                     "covered and reported absent, absent initially, never removed and put by a call that had not returned when the scan started, leaves a stale pair.",
                note=CONC_NOTE, tech=CONC_TECH),
    "C07": dict(cat="model_checking", ref="DESIGN.md 3.7, 6 (C07)",
                text="TLC checks Safe / SafeStrong / EpochLag / GcBehind of YkEpoch (workers entering and leaving at any point, epoch thread and gc thread one atomic access "
                     "per step) and judges scheduler-driven executions of the real code in which the library's own epoch_thread() and gc_thread() loops are controlled "
                     "threads: no reclaim of an object while a session that obtained it, or was open when it was unlinked, is still open; every pointer is re-read before "
                     "leave. Schedules: random, PCT and a grid of 'stall inside enter' plans.", note="SC only (the relaxed begin-epoch store is treated as immediately visible); "
                     "model bounds 2 workers / 2 slots / epoch<=3 (quick) .. 5 (thorough)", tech="TLA+ model checking (TLC) of YkEpoch + scheduler-driven executions judged by TLC (TraceEpoch)"),
    "C11": dict(cat="model_checking", ref="DESIGN.md 6 (C11)",
                text="Real init()/fin() cycles with operation histories (overwrites, removes that empty nodes, failed unique inserts and failed create_storage, storages "
                     "created and deleted, cursors closed early, sessions left open at fin, a free-running phase of racing overwrites vs neighbour inserts / removes) with every form of global operator new/delete interposed: TLC requires that "
                     "live bytes and blocks after each fin() do not exceed the baseline after an empty cycle; the retire/reclaim ledger of scheduler-driven runs must "
                     "release each retired object exactly once and nothing else (TraceEpoch ON={C11}).",
                note="operator new/delete accounting only (tbb queues / glog use malloc directly)",
                tech="TLC trace validation of real lifecycle executions (TraceLife) and of the retire/reclaim ledger (TraceEpoch)"),
    "C14": dict(cat="model_checking", ref="DESIGN.md 3.7, 6 (C14)",
                text="TLC checks TokenUnique / Capacity / WarnMaxJustified / EpochLag of YkEpoch for capacity 1 and 2; the harness is compiled with "
                     "YAKUSHIMA_MAX_PARALLEL_SESSIONS = 1, 2, 3 and three threads enter/leave under random and PCT schedules; TLC judges from the slot-word events that an OK "
                     "enter returns a slot no open session holds, that at most capacity sessions are open, that WARN_MAX_SESSIONS was justified by the slots observed "
                     "during the call (a lost CAS counts only if somebody took the slot meanwhile), and that the begin epoch is published when enter returns.",
                note="SC only; 3 threads, capacities 1..3", tech="TLA+ model checking (TLC) of YkEpoch + scheduler-driven executions judged by TLC (TraceEpoch)"),
    "C16": dict(cat="model_checking", ref="DESIGN.md 3.7, 6 (C16)",
                text="TLC checks YkLife (init/fin cycles, stop flags, background loops): threads alive while up, epoch advances and retired memory is reclaimed in every "
                     "cycle under weak fairness; real init()/fin() cycles (with destroy() and sessions left open) are judged by TLC: fresh empty system after each init, all "
                     "slots free, background threads alive until fin, >= 3 epoch increments and reclaim of the retired objects inside every cycle, fin joins the threads.",
                note="real-time dependent (epoch period 2 ms, 4 s bound per cycle); 5-9 cycles per run", tech="TLA+ model checking (TLC) of YkLife + TLC trace validation of real lifecycle executions (TraceLife)"),
    "C09": dict(cat="model_checking", ref="DESIGN.md 3.6, 6 (C09)",
                text="M: termination of every thread under weak fairness (TLC liveness) and LockOK / 'nothing locked at quiescence' in all interleavings of the programs of "
                     "YkConc, YkConc2, YkConc3 (prev-lock retry loop, lock_parent, root lock), YkConc4 (root-lock hand-over of lock_parent when the root collapses while a "
                     "split waits for its parent), YkConc5 (next layers) and YkConc6 (interior split: the parent of a border changes while its splitter waits for the old parent's lock). T: Every scheduler-driven run of the concurrent drivers (point operations, scans and cursors) must complete under a fair continuation: the scheduler parks threads that spin on a word until "
                     "somebody writes and reports 'every unfinished thread parked' (deadlock) or an exhausted step budget (livelock); at quiescence TLC checks on the dump "
                     "that no node is locked or dirty and the structure is well formed. The version-word protocol itself (mutual exclusion, termination under weak "
                     "fairness) is model checked in C17.", note=CONC_NOTE, tech=CONC_TECH),
    "C02": dict(cat="model_checking", ref="DESIGN.md 3.4-3.5, 6 (C02)",
                text="TLC checks refinement of the tree algorithms (YkTree: splits, layers, node removal, collapse, root replacement) to an ordered map for "
                     "every Put/Remove order over small key universes; every status/value of seeded put/unique-put/get/remove histories on the real code "
                     "is judged by TLC against the abstract map (TraceTree ON={C02}).", note=SEQ_NOTE, tech=SEQ_TECH),
    "C03": dict(cat="model_checking", ref="DESIGN.md 3.5, 6 (C03)",
                text="TLC checks ScanTop (transliteration of scan/scan_border) = abstract interval for all endpoint/limit/direction arguments in every reachable "
                     "state of small models; every real scan (status, keys, values, lengths, invalid-argument table) is judged by TLC against the abstract map.",
                note=SEQ_NOTE, tech=SEQ_TECH),
    "C05": dict(cat="model_checking", ref="DESIGN.md 3.5, 6 (C05)",
                text="TLC checks PhantomOK/GetMissOK (every absent key of the covered interval, inserted, changes a recorded version) in all states of small models; on "
                     "real executions TLC judges (a) real probe inserts after scan / get-miss / iscan against the recorded pairs, (b) the model-based insertion of "
                     "every absent candidate key into the conforming tree, (c) non-emptiness of the collected set. The cursor's callback set is also decided exhaustively: "
                     "YkIscan (iscan_findfirst / iscan_findnext transliterated) in every reachable state of MC_Tree for all endpoint / direction / stop-after-n arguments "
                     "(IscanPhantomOK), bound to the code by TraceTree's iscan-model conjunct (result and callback sequence of every real cursor = the model's).", note=SEQ_NOTE, tech=SEQ_TECH),
    "C08": dict(cat="model_checking", ref="DESIGN.md 3.5, 6 (C08)",
                text="TLC checks WellFormed + Abs = map as invariants of all sequential histories of small models, and on canonical dumps of the real tree every few "
                     "operations: sorted unique entries, separators bound subtrees, parent/child and prev/next consistency, leaf chain = in-order borders, no dirty or "
                     "locked node, chain listing = descent lookups = abstract map. Concurrent histories: the Quiescent invariant of YkConc .. YkConc4 in all interleavings "
                     "(found F14: stale sibling links in a surviving empty root), step-level conformance of the real code to them, and the quiescent dump of every "
                     "scheduler-driven run (families incl. pair, chain and collapse2 = two interior levels, collapse of an inner interior vs split vs descent) judged by WellFormed + three-view equality (TraceLin QUIES).", note=SEQ_NOTE + "; concurrent part: " + CONC_NOTE,
                tech=SEQ_TECH + "; " + CONC_TECH),
    "C10": dict(cat="model_checking", ref="DESIGN.md 6 (C10)",
                text="M (first sentence): YkIscan = iscan_findfirst / iscan_findnext transliterated; IscanOK / IscanPrefixOK (result = abstract interval in cursor order, every "
                     "stop point a prefix) in every reachable state of the small tree models for all arguments, bound by TraceTree iscan-model. M (second sentence): the cursor at hook grain in YkConc4 (iscan_open, iscan_next with iscan_check_retry, neighbour move, retry_after_fb, "
                     "retry_from_root) over 2-3 borders vs split, interior insert, collapse / new root, insert, remove, unlink + re-insert: ScanOK, NvOK in all "
                     "interleavings of 5 programs, and step-level conformance of the real cursor to it; the cursor ACROSS a next-layer link (stack of two layers, retry_after_fb / retry_from_root per layer) "
                     "in YkConc9, 6 programs, bound by TraceConc9; the PAUSED cursor with its re-validation / retry paths at call grain (YkIscanR) over every placement of 1-2 writes between its calls in "
                     "every reachable small tree (MC_IscanW: monotone, current values, no untouched key skipped, early_abort warning; found F18 and F19), bound by TraceTree iscanmod-model. First sentence (sequential cursor): every real iscan_open/next sequence (both directions, all endpoint kinds, early stop) is judged by TLC "
                     "against the ordered abstract map incl. full_key and argument rejection. Second sentence: cursor steps of one thread interleaved with writers "
                     "of another under the deterministic scheduler (trees with next layers included): monotone in-interval keys, values placed in the per-key "
                     "linearization, stable keys not skipped, the callback's version set judged as in C06, faults reported; paused cursors (a write between two iscan_next calls, incl. "
                     "removal of the whole layer under the cursor) incl. early_abort.", note=SEQ_NOTE + "; concurrent part: " + CONC_NOTE,
                tech="TLC trace validation of real cursor executions (TraceTree ON={C10}); " + CONC_TECH),
    "C12": dict(cat="model_checking", ref="DESIGN.md 6 (C12)",
                text="TLC checks the report rule on every inserting/updating Put of small models (LastOK) and judges every real put (inserted_node_info and legacy "
                     "overload) against the set of border version words that actually changed (driver snapshots all borders before/after) and the split sibling. "
                     "Racing puts (same key, same border, a border that splits, a layer root) under the deterministic scheduler: the border version words a call's own "
                     "unlocks advanced (from the scheduler's access log) must be exactly the nodes it reported, judged by TLC (TraceLin put-report-concurrent).",
                note=SEQ_NOTE + "; concurrent part: " + CONC_NOTE, tech=SEQ_TECH + "; " + CONC_TECH),
    "C13": dict(cat="model_checking", ref="DESIGN.md 3.4, 6 (C13)",
                text="TLC checks isolation (an operation addressed to one storage changes no other) and DDL statuses as action properties of the YkMap state machine; "
                     "every create/delete/find/list and every data call by name (existing and unknown names: empty, binary, long, prefix-sharing) on the real code is "
                     "judged by TLC against the directory of ordered maps (TraceMap ON={C13}). Concurrent create / delete / find of the same names (2-3 threads under the deterministic scheduler, every single "
                     "preemption + random + PCT) must linearize as unique-insert / remove on the directory: exactly one winner.", note=SEQ_NOTE, tech="TLA+ model checking (TLC) of YkMap + TLC trace validation of real API executions (TraceMap)"),
    "C15": dict(cat="model_checking", ref="DESIGN.md 3.4, 6 (C15)",
                text="Every value returned by get / scan / iscan on the real code is compared by TLC with what was put: byte fingerprint, length, address aligned "
                     "to the requested alignment (1..4096), created_value_ptr = the stored copy (same address, same bytes), inline words by value; lengths 0..3 MiB+5. "
                     "Atomic overwrite: concurrent put/get histories under the scheduler with values of different lengths carrying their id in every word must linearize "
                     "(a torn or mixed value is unplaceable).",
                note=SEQ_NOTE + "; bytes compared through 64-bit FNV-1a + length", tech="TLC trace validation of real API executions (TraceMap ON={C15})"),
    "C17": dict(cat="model_checking", ref="DESIGN.md 3.3, 6 (C17)",
                text="TLC exhaustively checks the concurrent lock/unlock/flag/stable protocol (YkVersion) and TLC judges a replay of "
                     "every public operation of the real node_version64 on all 64 flag sets x counter boundary values (TraceVersionSeq); 3-thread programs of lock / "
                     "unlock / flag operations on the real word under the scheduler (preemption before every load and every CAS attempt) must be behaviours of YkVersion "
                     "(TraceVersionConc).",
                note="SC atomics; model counters mod 4, code modulus checked by replay at 0,1,2,2^28,2^29-2,2^29-1.",
                tech="TLA+ model checking (TLC) + TLC trace validation of replayed implementation transitions"),
    "C18": dict(cat="model_checking", ref="DESIGN.md 3.1, 6 (C18)",
                text="TLC proves on a boundary tuple domain (bytes 00/01/FF at slice positions 1,2,8; all lengths and the link marker) that TupLess is a strict total "
                     "order equal to the lexicographic order of the keys and that every transliterated comparison site (key_tuple::operator<, leaf lookup and rank, "
                     "interior routing and insert position, both split sides) agrees with it; the real sites are replayed on hand-built nodes for all 12.5k pairs and "
                     "judged by TLC (TraceOrder); API traces over boundary keys exercise split sides, routing and cursor order end to end.",
                note="domain is finite (boundary bytes / positions); zero padding of slices is an invariant checked in the structural traces",
                tech="TLA+ model checking (TLC) + TLC trace validation of replayed comparison sites and API traces"),
    "C19": dict(cat="model_checking", ref="DESIGN.md 3.2, 6 (C19)",
                text="TLC explores all reachable orderings of YkPerm for F=6 (8 in thorough), Apalache shows the same invariant inductive at F=15 (YkPermA), and TLC judges a replay of the real 64-bit permutation word (every count, rank, "
                     "free slot on an ordering family + random walks) against the sequence operators; exactly one word store per update. Reader side of the last "
                     "sentence: lookups of a leaf's keys (incl. the greatest, last rank) racing with removes / inserts in the same leaf under the scheduler, every single "
                     "preemption, judged by the linearization search (TraceLin); heap values and inline (std::uintptr_t) values.",
                note="single atomic word assumed (std::atomic<uint64_t>); F=15 orderings sampled, not enumerated.",
                tech="TLA+ model checking (TLC) + TLC trace validation of replayed implementation transitions"),
    "C20": dict(cat="model_checking", ref="DESIGN.md 6 (C20)",
                text="TLC recomputes mem_usage from the canonical dump of the real tree (node count per depth, reserved bytes exact, used <= reserved, used monotone "
                     "in occupied slots) for seeded multi-level / multi-layer contents with heap values of mixed lengths / alignments and inline values; MemOK invariant in small models.",
                note=SEQ_NOTE + "; sizeof constants are logged by the driver and trusted", tech=SEQ_TECH),
}
NA_REASON = "check not built yet in this revision of the framework (planned: see DESIGN.md section 6)"


def hook_commits():
    try:
        out = subprocess.run(["git", "-C", "/repo", "log", "--format=%H %s"], stdout=subprocess.PIPE, text=True).stdout
        return [l.split()[0] for l in out.splitlines() if " verif:" in l or l.split(" ", 1)[1].startswith("verif:")]
    except Exception:
        return []


def main():
    checks = []
    for p in ALL:
        if p not in CLAIMED:
            continue
        c = CLAIMED[p]
        checks.append({
            "property_id": p,
            "quick_cmd": "./check %s quick" % p,
            "thorough_cmd": "./check %s thorough" % p,
            "evidence_file": "/verif/evidence/%s.json" % p,
            "replay_cmd_template": "./check --replay {path}",
            "engine": "tlc",
            "level_claimed": {"category": c["cat"], "text": c["text"], "design_ref": c["ref"]},
            "level_note": c["note"],
            "technique": c["tech"],
        })
    m = {
        "version": 1,
        "setup_cmd": "./setup.sh",
        "hooks": {
            "guard": "PROJECT_TSURUGI_YAKUSHIMA_VERIF",
            "enable": "header-only library: every harness TU is compiled by the check itself from /repo/include with "
                      "-DPROJECT_TSURUGI_YAKUSHIMA_VERIF (tools/common.py build()); a harness installs yakushima::verif::g_hook at run time",
            "baseline_off_cmd": "/verif/tools/baseline_off.sh",
            "source_commits": hook_commits(),
            "add_only": True,
        },
        "engines": [{"name": "tlc", "path": "/verif/check", "serves_properties": sorted(CLAIMED.keys()),
                     "kind_free_text": "explicit TLA+ specifications under /verif/spec checked by TLC; conformance by trace validation "
                                       "(implementation -> spec) and replay (spec -> implementation) through C++ harnesses under /verif/harness"}],
        "checks": checks,
        "not_applicable": [{"property_id": p, "reason": NA_REASON} for p in ALL if p not in CLAIMED],
        "notes": "See DESIGN.md. Exit codes of every check: 0 = property held on everything explored, 1 = VIOLATION line printed, "
                 "2 = undecided (tool/model error, never a claim about the code).",
    }
    with open(os.path.join(HERE, "MANIFEST.json"), "w") as f:
        json.dump(m, f, indent=1)
    print("MANIFEST.json: %d checks, %d not_applicable" % (len(checks), len(m["not_applicable"])))


if __name__ == "__main__":
    main()

"""Trace validation helper: run a trace spec on an ndjson file; locate the first rejected line."""
import os
from common import tlc, tlc_tail, log


def validate(chk, module, cfg, trace_path, what, timeout=600, env=None, deque=False, xmx="4g", ntraces=1):
    """Returns dict(accepted, line, text, res). Rejection = postcondition failed / invariant violated at some line."""
    e = {"TRACE": trace_path}
    if env:
        e.update(env)
    res = tlc(module, cfg, env=e, workers=1, timeout=timeout, deque=deque, xmx=xmx)
    chk.add_tlc(res, what)
    n = sum(1 for _ in open(trace_path))
    if res.ok:
        chk.traces += ntraces
        return {"accepted": True, "line": n, "text": "", "res": res, "undecided": False}
    if res.error or res.rc == 124:
        # tool failure: undecided
        return {"accepted": False, "line": 0, "text": tlc_tail(res, 25), "res": res, "undecided": True}
    line = res.depth if res.depth else 0
    text = ""
    if 0 < line <= n:
        with open(trace_path) as f:
            for i, l in enumerate(f, 1):
                if i == line:
                    text = l.strip()
                    break
    return {"accepted": False, "line": line, "text": text, "res": res, "undecided": False,
            "violated": res.violated}


def write_cfg(path, spec="TSpec", constants=None, invariants=(), view=None, postcondition="Accepted", constraint=None):
    lines = ["SPECIFICATION " + spec]
    if constants:
        lines.append("CONSTANTS")
        for k, v in constants.items():
            lines.append("  %s = %s" % (k, v) if not str(v).startswith("<-") else "  %s %s" % (k, v))
    for i in invariants:
        lines.append("INVARIANT " + i)
    if view:
        lines.append("VIEW " + view)
    if constraint:
        lines.append("CONSTRAINT " + constraint)
    if postcondition:
        lines.append("POSTCONDITION " + postcondition)
    lines.append("CHECK_DEADLOCK FALSE")
    os.makedirs(os.path.dirname(path), exist_ok=True)
    with open(path, "w") as f:
        f.write("\n".join(lines) + "\n")
    return path


def on_set(items):
    return "{" + ", ".join('"%s"' % i for i in sorted(items)) + "}"

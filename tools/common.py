"""Shared helpers for the yakushima verification checks (TLC runner, harness builder, evidence)."""
import glob
import hashlib
import json
import os
import re
import shutil
import subprocess
import sys
import time

VERIF = os.path.dirname(os.path.dirname(os.path.abspath(__file__)))
REPO = os.environ.get("VERIF_REPO", "/repo")
INCLUDE = os.path.join(REPO, "include")
BUILD = os.path.join(VERIF, "build")
SPEC = os.path.join(VERIF, "spec")
HARNESS = os.path.join(VERIF, "harness")
EVID = os.path.join(VERIF, "evidence")
REPLAYS = os.path.join(VERIF, "replays")
TLA_CP = "/opt/veriftools/tla/tla2tools.jar:/opt/veriftools/tla/CommunityModules-deps.jar"
GUARD = "PROJECT_TSURUGI_YAKUSHIMA_VERIF"
NCPU = os.cpu_count() or 4


def log(*a):
    print(*a, flush=True)


def seed():
    try:
        return int(os.environ.get("VERIF_SEED", "1"))
    except ValueError:
        return 1


# ---------------------------------------------------------------- harness build
def include_hash():
    h = hashlib.sha1()
    for f in sorted(glob.glob(os.path.join(INCLUDE, "*.h"))):
        h.update(os.path.basename(f).encode())
        with open(f, "rb") as fh:
            h.update(fh.read())
    return h.hexdigest()[:12]


def _src_hash(paths, flags):
    h = hashlib.sha1()
    for p in paths:
        with open(p, "rb") as fh:
            h.update(fh.read())
    for f in sorted(glob.glob(os.path.join(HARNESS, "*.h"))):
        with open(f, "rb") as fh:
            h.update(fh.read())
    h.update(" ".join(flags).encode())
    return h.hexdigest()[:8]


def build(name, srcs, defs=(), asan=False, sessions=16, epoch_time=0, extra=(), guard=True):
    """Compile a harness translation unit against /repo/include (current working tree).
    Binaries are cached under build/bin keyed by the hash of the headers + sources + flags."""
    os.makedirs(os.path.join(BUILD, "bin"), exist_ok=True)
    srcs = [s if os.path.isabs(s) else os.path.join(HARNESS, s) for s in srcs]
    flags = ["-O1", "-g", "-std=c++17", "-DYAKUSHIMA_LINUX", "-fno-access-control", "-w",
             "-DYAKUSHIMA_EPOCH_TIME=%d" % epoch_time,
             "-DYAKUSHIMA_MAX_PARALLEL_SESSIONS=%d" % sessions]
    if guard:
        flags.append("-D" + GUARD)
    flags += ["-D" + d for d in defs]
    if asan:
        flags += ["-fsanitize=address", "-fno-omit-frame-pointer"]
    flags += list(extra)
    key = include_hash() + "-" + _src_hash(srcs, flags)
    out = os.path.join(BUILD, "bin", "%s-%s" % (name, key))
    if os.path.exists(out):
        return out
    for old in glob.glob(os.path.join(BUILD, "bin", name + "-*")):
        try:
            os.remove(old)
        except OSError:
            pass
    cmd = ["g++"] + flags + ["-I" + INCLUDE, "-I" + HARNESS] + srcs + ["-o", out + ".tmp", "-lglog", "-ltbb", "-lpthread"]
    t0 = time.time()
    r = subprocess.run(cmd, stdout=subprocess.PIPE, stderr=subprocess.STDOUT, text=True)
    if r.returncode != 0:
        log("ERROR: harness build failed: " + " ".join(cmd))
        log(r.stdout[-4000:])
        raise BuildError(name)
    os.replace(out + ".tmp", out)
    log("[build] %s in %.1fs" % (os.path.basename(out), time.time() - t0))
    return out


class BuildError(Exception):
    pass


class ToolError(Exception):
    pass


# ---------------------------------------------------------------- TLC
_tlc_counter = [0]


class TlcResult:
    def __init__(self, out, rc, wall):
        self.out = out
        self.rc = rc
        self.wall = wall
        self.ok = "Model checking completed. No error has been found." in out or \
                  ("No error has been found" in out and rc == 0)
        m = re.findall(r"(\d+) states generated, (\d+) distinct states found", out)
        self.generated = int(m[-1][0]) if m else 0
        self.distinct = int(m[-1][1]) if m else 0
        ms = re.findall(r"Progress: .*?(\d+) states checked", out)  # simulation mode
        self.sim_states = int(ms[-1]) if ms else 0
        m2 = re.search(r"Invariant (\S+) is violated", out)
        self.violated = m2.group(1) if m2 else None
        if self.violated is None:
            m3 = re.search(r"Action property (\S+) is violated", out) or re.search(r"Temporal property (\S+) was violated", out) or re.search(r"Temporal properties were violated", out)
            if m3:
                self.violated = m3.group(1) if m3.lastindex else "TemporalProperty"
        self.postcondition_failed = "postcondition" in out.lower() and ("violated" in out.lower() or "false" in out.lower())
        self.deadlock = "Deadlock reached" in out
        self.error = (not self.ok) and self.violated is None and not self.postcondition_failed and not self.deadlock
        md = re.search(r"The depth of the complete state graph search is (\d+)", out)
        self.depth = int(md.group(1)) if md else 0

    def prints(self, tag):
        """Lines emitted with PrintT(<<tag, ...>>) are returned as raw strings."""
        return [l for l in self.out.splitlines() if l.startswith("<<\"" + tag + "\"")]


def tlc(module, cfg, env=None, workers=1, timeout=600, simulate=None, depth=None, extra=(), xmx="4g", deque=False,
        coverage=False, cwd=None):
    """Run TLC on spec/<module>.tla with spec/<cfg>; returns TlcResult. Never raises on property violations."""
    _tlc_counter[0] += 1
    meta = os.path.join(BUILD, "tlc", "m%d_%d_%d" % (os.getpid(), _tlc_counter[0], int(time.time() * 1000) % 100000))
    os.makedirs(meta, exist_ok=True)
    cmd = ["java", "-XX:+UseParallelGC", "-Xmx" + xmx, "-Xss64m"]
    if deque:
        cmd.append("-Dtlc2.tool.queue.IStateQueue=StateDeque")
    cmd += ["-cp", TLA_CP, "tlc2.TLC", "-noGenerateSpecTE", "-workers", str(workers), "-metadir", meta, "-config", cfg]
    if simulate:
        cmd += ["-simulate", "num=%d" % simulate]
        if depth:
            cmd += ["-depth", str(depth)]
    if coverage:
        cmd += ["-coverage", "1"]
    cmd += list(extra)
    cmd.append(module if module.endswith(".tla") else module + ".tla")
    e = dict(os.environ)
    if env:
        e.update({k: str(v) for k, v in env.items()})
    t0 = time.time()
    try:
        r = subprocess.run(cmd, cwd=cwd or SPEC, env=e, stdout=subprocess.PIPE, stderr=subprocess.STDOUT, text=True,
                           timeout=timeout)
        out, rc = r.stdout, r.returncode
    except subprocess.TimeoutExpired as ex:
        out = (ex.stdout.decode() if isinstance(ex.stdout, bytes) else (ex.stdout or "")) + "\nTIMEOUT"
        rc = 124
    finally:
        shutil.rmtree(meta, ignore_errors=True)
    return TlcResult(out, rc, time.time() - t0)


def tlc_tail(res, n=40):
    return "\n".join(res.out.splitlines()[-n:])


# ---------------------------------------------------------------- known findings
def known_findings():
    """Returns (known, fixed): lists of dicts {property, key, text}. File is never written at run time."""
    known, fixed = [], []
    p = os.path.join(VERIF, "known_findings.txt")
    if not os.path.exists(p):
        return known, fixed
    for line in open(p):
        line = line.strip()
        if not line or line.startswith("#"):
            continue
        m = re.match(r"known:\s+property=(\S+)\s+key=(\S+)\s+(.*)", line)
        if m:
            known.append({"property": m.group(1), "key": m.group(2), "text": m.group(3)})
            continue
        m = re.match(r"fixed:\s+property=(\S+)\s+(\S+)\s+(.*)", line)
        if m:
            fixed.append({"property": m.group(1), "commit": m.group(2), "text": m.group(3)})
    return known, fixed


# ---------------------------------------------------------------- evidence / verdict
# Component audit: what the evidence of a run must list (substring of a tlc_runs "what", minimum count).  A check whose run did not
# execute one of its components is an ERROR (exit 2), never a silent pass: in the second seeded round a pasted block had made the
# sequential replay of C17 unreachable and nothing reported it.
_CONC_MODELS = [("YkConc program", 2), ("YkConc2 config", 3), ("YkConc3 config", 4), ("YkConc4 config", 3), ("YkConc5 config", 3), ("YkConc6 config", 2), ("YkConc7 config", 3),
                ("step-level conformance of next layers", 4), ("step-level conformance of the interior split", 3), ("step-level conformance of two interior levels", 4),
                ("step-level conformance of the root border split", 3), ("step-level conformance of border deletion", 3),
                ("step-level conformance of split under a parent", 3), ("step-level conformance program", 2)]
REQUIRED = {
    "C01": _CONC_MODELS + [("linearization search", 20), ("_pair_", 2), ("_collapse2_", 3), ("_splitdrain_", 2)],
    "C02": [("exhaustive sequential model", 1), ("random walks of the sequential model", 1), ("trace seed=", 8), ("longsplit=1", 1), ("splitsweep=1", 1), ("isplitlen=1", 1)],
    "C03": [("exhaustive sequential model", 1), ("trace seed=", 6), ("mode=deep", 1)],
    "C04": [("YkConc program", 2), ("YkConc4 config", 2), ("step-level conformance program", 2), ("step-level conformance of split under a parent", 2), ("YkConc8 config", 2), ("step-level conformance of scans through a next-layer link", 3), ("linearization search", 25), ("_links_", 2), ("_layerfull_pre1", 2), ("_pair_", 3)],
    "C05": [("exhaustive sequential model", 1), ("exhaustive sequential cursor model", 1), ("mode=linksonly", 2), ("pdrain=", 1), ("ppair=", 1), ("mode=deep", 1)],
    "C06": [("YkConc program C", 1), ("YkConc4 config", 2), ("YkConc8 config", 2), ("step-level conformance program C", 1), ("step-level conformance of split under a parent", 2), ("step-level conformance of scans through a next-layer link", 3), ("linearization search", 25), ("_links_", 2)],
    "C07": [("YkEpoch", 1), ("epoch trace", 3), ("_stall", 1)],
    "C08": _CONC_MODELS + [("exhaustive sequential model", 1), ("trace seed=", 6), ("splitsweep=1", 1), ("linearization search", 20), ("_pair_", 2), ("_chain_", 2), ("_collapse2_", 3), ("_splitdrain_", 2)],
    "C09": _CONC_MODELS + [("linearization search", 25), ("_pair_", 2), ("_chain_", 2), ("_collapse2_", 3), ("_splitdrain_", 2)],
    "C10": [("trace seed=", 6), ("exhaustive sequential cursor model", 1), ("exhaustive paused-cursor model", 2), ("cursorsweep=1", 1), ("YkConc9 config", 2), ("step-level conformance of the cursor across a next-layer link", 3), ("linearization search", 14), ("pmod=", 2), ("YkConc4 config", 2), ("step-level conformance of split under a parent", 2)],
    "C11": [("YkLife", 1), ("lifecycle trace", 2), ("epoch trace", 2)],
    "C12": [("exhaustive sequential model", 1), ("trace seed=", 4), ("mode=deep", 1), ("linearization search C12c", 10)],
    "C13": [("YkMap state machine", 1), ("trace seed=", 2), ("_ddl_", 3)],
    "C14": [("YkEpoch", 1), ("epoch trace", 4)],
    "C15": [("trace seed=", 2), ("linearization search", 6)],
    "C16": [("YkLife", 1), ("lifecycle trace", 2)],
    "C17": [("model MC_Version", 2), ("replay of", 1), ("concurrent version-word executions", 3)],
    "C18": [("YkOrder theorems", 1), ("replay of", 1), ("mode=boundary", 1)],
    "C19": [("YkPerm exhaustive", 1), ("replay of", 1), ("linearization search", 12)],
    "C20": [("exhaustive sequential model", 1), ("trace seed=", 6), ("valmix=1", 2), ("ascend=", 1), ("inlpct=", 1)],
}


class Check:
    """One run of one property's check: collects TLC statistics, samples, verdicts; writes evidence."""

    def __init__(self, prop, tier, level="model_checking"):
        self.prop = prop
        self.tier = tier
        self.level = level
        self.t0 = time.time()
        self.states = 0
        self.transitions = 0
        self.traces = 0
        self.samples = []
        self.cov = {}
        self.assumptions = []
        self.violations = []      # (key, text, replay)
        self.known_hits = []
        self.errors = []
        self.notes = []
        os.makedirs(EVID, exist_ok=True)
        os.makedirs(REPLAYS, exist_ok=True)
        for old in glob.glob(os.path.join(REPLAYS, "%s_%s_*" % (prop, tier))):
            try:
                os.remove(old)
            except OSError:
                pass

    def add_tlc(self, res, what=None):
        self.states += max(res.distinct, res.sim_states)
        self.transitions += max(res.generated, res.sim_states)
        if what:
            self.cov.setdefault("tlc_runs", []).append(
                {"what": what, "distinct": res.distinct, "generated": res.generated, "sim_states": res.sim_states,
                 "wall_s": round(res.wall, 1), "ok": res.ok})

    def sample(self, s, limit=6):
        if len(self.samples) < limit:
            self.samples.append(s)

    def error(self, text):
        self.errors.append(text)
        log("ERROR: " + text)

    def violation(self, key, text, replay=None):
        """Report a property violation identified by a stable key; known findings are downgraded."""
        known, _ = known_findings()
        for k in known:
            if k["property"] == self.prop and k["key"] == key:
                if key not in [h[0] for h in self.known_hits]:
                    self.known_hits.append((key, text))
                    log("KNOWN-FINDING: property=%s %s [%s]" % (self.prop, k["text"], key))
                return False
        self.violations.append((key, text, replay))
        return True

    def save_replay(self, name, content):
        p = os.path.join(REPLAYS, "%s_%s_%s" % (self.prop, self.tier, name))
        with open(p, "w") as f:
            f.write(content if isinstance(content, str) else json.dumps(content, indent=1))
        return p

    def audit(self):
        """every component the check is built from must appear in this run's evidence"""
        whats = [r["what"] for r in self.cov.get("tlc_runs", [])]
        for sub, n in REQUIRED.get(self.prop, []):
            have = sum(1 for w in whats if sub in w)
            if have < n and not self.violations:
                self.error("component audit: %d run(s) matching '%s' in the evidence, at least %d expected (a part of the check did not run)" % (have, sub, n))

    def finish(self):
        self.audit()
        wall = time.time() - self.t0
        cov = dict(self.cov)
        cov.update({"states": max(self.states, 1 if self.states else 0), "transitions": self.transitions,
                    "traces_validated_against_impl": self.traces, "samples": self.samples or ["(none)"]})
        if cov["states"] < 1:
            cov["states"] = 0
        cov["known_findings_hit"] = [k for k, _ in self.known_hits]
        cov["notes"] = self.notes
        ev = {"property_id": self.prop, "tier": self.tier, "seed": seed(), "level": self.level, "coverage": cov,
              "assumptions": self.assumptions, "wall_s": round(wall, 2), "violations": len(self.violations)}
        if self.errors:
            ev["coverage"]["errors"] = self.errors
        with open(os.path.join(EVID, self.prop + ".json"), "w") as f:
            json.dump(ev, f, indent=1)
        if self.violations:
            shown = {}
            for key, text, replay in self.violations:
                if not replay:
                    replay = self.save_replay("violation.txt", text)
                shown[key] = shown.get(key, 0) + 1
                if shown[key] > 3:
                    continue
                log("VIOLATION property=%s replay=%s" % (self.prop, replay))
                log("  key=%s %s" % (key, text[:1500]))
            for key, n in shown.items():
                if n > 3:
                    log("  (... %d more violations with key=%s)" % (n - 3, key))
            return 1
        if self.errors:
            return 2
        log("OK property=%s tier=%s states=%d traces=%d wall=%.1fs" % (self.prop, self.tier, self.states, self.traces, wall))
        return 0


def run(cmd, timeout=600, env=None, cwd=None, stdin=None):
    e = dict(os.environ)
    if env:
        e.update({k: str(v) for k, v in env.items()})
    try:
        # the library logs binary key bytes (glog) on its error paths: never let an undecodable byte crash the check
        r = subprocess.run(cmd, stdout=subprocess.PIPE, stderr=subprocess.PIPE, text=True, errors="replace", timeout=timeout, env=e, cwd=cwd,
                           input=stdin)
        return r.returncode, r.stdout, r.stderr
    except subprocess.TimeoutExpired as ex:
        so = ex.stdout.decode(errors="replace") if isinstance(ex.stdout, bytes) else (ex.stdout or "")
        return 124, so, "TIMEOUT"

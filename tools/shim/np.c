#define _GNU_SOURCE
#include <unistd.h>
#include <dlfcn.h>
int get_nprocs(void) { return 8; }
int get_nprocs_conf(void) { return 8; }
long sysconf(int name) { static long (*real)(int) = 0; if (!real) real = (long (*)(int))dlsym(RTLD_NEXT, "sysconf"); if (name == _SC_NPROCESSORS_ONLN || name == _SC_NPROCESSORS_CONF) return 8; return real(name); }

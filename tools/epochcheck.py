"""Sessions / epochs / reclamation: epochdrv runs (scheduler-driven, library epoch + gc threads controlled) judged by TraceEpoch."""
import json
import os

from common import BUILD, build, run, tlc, tlc_tail, log
from tracecheck import write_cfg, on_set
from seqtrace import parse_mismatches


def epochdrv(cap, asan=False):
    return build("epochdrv%d%s" % (cap, "a" if asan else ""), ["epochdrv.cpp"], sessions=cap, asan=asan)


def drive(chk, cap, args, tag, timeout=600):
    exe = epochdrv(cap)
    rc, out, err = run([exe] + args, timeout=timeout)
    runs, aborts, fault = [], [], None
    for line in out.splitlines():
        if line.startswith('{"e":"run"'):
            runs.append(line)
        elif line.startswith('{"e":"abort"'):
            aborts.append(line)
        elif line.startswith('{"e":"faultrun"'):
            fault = line[:3000]
        elif '"op":"fault"' in line:
            fault = (fault or "") + " " + line
    if rc != 0 and not fault and not aborts:
        chk.error("epochdrv exit %d (%s): %s" % (rc, " ".join(args), err[-300:]))
    tdir = os.path.join(BUILD, "traces")
    os.makedirs(tdir, exist_ok=True)
    tr = os.path.join(tdir, "ep_%s.ndjson" % tag)
    index = []   # line number -> run index
    with open(tr, "w") as f:
        for ri, r in enumerate(runs):
            d = json.loads(r)
            f.write(json.dumps({"e": "reset", "cap": d["cap"], "id": d["id"]}) + "\n")
            index.append(ri)
            for e in d["events"]:
                f.write(json.dumps(e) + "\n")
                index.append(ri)
    return tr, runs, aborts, fault, index


def judge(chk, tr, runs, index, on, tag, timeout=900):
    failures = []
    if not runs:
        return failures
    cfg = write_cfg(os.path.join(BUILD, "cfg", "ep_%s.cfg" % tag), constants={"LENIENT": "TRUE", "ON": on_set(on)}, view="TView")
    res = tlc("TraceEpoch", cfg, env={"TRACE": tr}, workers=1, timeout=timeout, xmx="4g")
    chk.add_tlc(res, "epoch trace %s (%d runs, %d events)" % (tag, len(runs), len(index)))
    if not res.ok:
        chk.error("TraceEpoch undecided (%s): %s" % (tag, tlc_tail(res, 15)))
        return failures
    chk.traces += len(runs)
    for mm in parse_mismatches(res.out):
        ri = index[mm["line"] - 1] if 0 < mm["line"] <= len(index) else -1
        failures.append({"kind": mm["tag"], "c": mm["c"], "line": mm["line"], "run": runs[ri] if ri >= 0 else "", "info": mm["info"]})
    return failures

#!/bin/bash
# runs the thorough tier of every check, one after the other; one summary line per property (used to size timeouts)
cd "$(dirname "$0")/.."
for p in C16 C17 C18 C19 C20 C11 C12 C13 C14 C15 C02 C03 C05 C07 C06 C04 C10 C08 C09 C01; do
  s=$(date +%s); ./check $p thorough > /tmp/thorough_$p.log 2>&1; rc=$?; e=$(date +%s)
  echo "$p rc=$rc $((e-s))s $(grep -E '^(OK|VIOLATION|KNOWN|ERROR)' /tmp/thorough_$p.log | head -3 | cut -c1-160 | tr '\n' '|')"
done

"""Pre-build the harness binaries (cache keyed by header hash) so that quick checks start fast."""
import sys, os
sys.path.insert(0, os.path.dirname(os.path.abspath(__file__)))
import common
TARGETS = [("verdrv", ["verdrv.cpp"], {})]
try:
    import targets
    TARGETS = targets.TARGETS
except ImportError:
    pass
ok = True
for name, srcs, kw in TARGETS:
    try:
        common.build(name, srcs, **kw)
    except common.BuildError:
        ok = False
sys.exit(0 if ok else 1)

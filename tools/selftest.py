#!/usr/bin/env python3
"""Shows that the machinery binds: (1) every seeded change under /verif/seeded/<id>/ must make the check of its property report a
VIOLATION (run against a scratch copy of include/, /repo is not touched); (2) every BUGGY_* switch of the specification must make
TLC report a violation of the corresponding invariant (the model can express the defect); (3) a benign refactor must NOT raise an alarm.
usage: tools/selftest.py [ids...]      exit 0 = all as expected"""
import glob, json, os, subprocess, sys
HERE = os.path.dirname(os.path.dirname(os.path.abspath(__file__)))
sys.path.insert(0, os.path.join(HERE, "tools"))
from common import tlc  # noqa

MODEL_SWITCHES = [
    ("MC_Conc", "MC_Conc_Abug.cfg", "LinOK", "F1: get returns a cleared slot"),
    ("MC_Conc", "MC_Conc_Cbug.cfg", "ScanOK", "F1: scan returns a cleared slot"),
    ("MC_Conc2", "MC_Conc2_bug1.cfg", "LinOK", "split without the splitting bit"),
    ("MC_Conc2", "MC_Conc2_bug2.cfg", "LinOK", "get without the final version check"),
    ("MC_Conc3", "MC_Conc3_bug1.cfg", "Quiescent", "emptied border not marked deleted"),
    ("MC_Conc3", "MC_Conc3_bug2.cfg", "Quiescent", "collapsed interior root not marked deleted"),
    ("MC_Conc3", "MC_Conc3_bug3.cfg", "LockOK", "retry edge of the prev-lock loop keeps prev locked"),
    ("MC_Conc3", "MC_Conc3_bug4.cfg", "Quiescent", "F14: surviving empty root keeps links to its deleted sibling"),
    ("MC_Conc4", "MC_Conc4_bug1.cfg", "LinOK", "split unlocks its borders before it owns the parent lock"),
    ("MC_Conc4", "MC_Conc4_bug2.cfg", "LinOK", "interior insert without the inserting mark"),
    ("MC_Conc4", "MC_Conc4_bug3.cfg", "LinOK", "interior delete (shift) without the inserting mark"),
    ("MC_Conc4", "MC_Conc4_bug5.cfg", "ScanOK", "multi-border scan without any re-validation"),
    ("MC_Conc5", "MC_Conc5_bug1.cfg", "Quiescent", "removed layer root keeps its root flag"),
    ("MC_Conc5", "MC_Conc5_bug2.cfg", "DescentOK", "child pointer used without re-validating the upper border"),
    ("MC_Conc4", "MC_Conc4_bug6.cfg", "ScanOK", "F17: scan returns a key twice after unlink + re-insert"),
    ("MC_Conc4", "MC_Conc4_bug7.cfg", "ScanOK", "cursor keeps its rank when the permutation of its border changed"),
    ("MC_Conc4", "MC_Conc4_bug8.cfg", "ScanOK", "right-to-left scan starting from a fresh version instead of the one of the validated descent (seeds C04b / C04c)"),
    ("MC_Conc4", "MC_Conc4_bug9.cfg", "Termination", "seed C09d: the new border's parent pointer is stored after the parent was unlocked (lock_parent of its remover spins on the root lock)"),
    ("MC_Conc4", "MC_Conc4_bug10.cfg", "NvOK", "seed C06d: an insert strictly between two keys of a non-full border does not mark the version (MIDDLE_INSERT_NO_MARK)"),
    ("MC_Conc8", "MC_Conc8_bug1.cfg", "ScanOK", "seed C04d: scan_border keeps what it pushed when the nested scan of a next layer failed and it reads the border again"),
    ("MC_Conc9", "MC_Conc9_bug1.cfg", "ScanOK", "cursor across a link keeps its rank when retry_after_fb adopted a changed permutation"),
    ("MC_Conc6", "MC_Conc6_bug1.cfg", "ParentOK", "lock_parent without the re-check of the parent after locking"),
    ("MC_Conc6", "MC_Conc6_bug2.cfg", "LinOK", "interior split without the splitting mark"),
    ("MC_Conc7", "MC_Conc7_bug1.cfg", "LinOK", "get_child_of accepts a deleted child: descent through a collapsed interior (seed C08d)"),
    ("MC_Conc7", "MC_Conc7_bug2.cfg", "SwapOK", "lock_parent of a collapsing interior without the re-check of its parent"),
    ("MC_Version", "MC_Version_bug1.cfg", "CountersTrack", "seed C17d: unlock advances the split counter OR ELSE the insert counter (UNLOCK_ELSE_IF)"),
    ("YkEpoch", "MC_Epoch_bug.cfg", "SafeStrong", "F5: two-step enter"),
    ("YkEpoch", "MC_Epoch_bug2.cfg", "SafeStrong", "seed C07d: leave releases the slot before it clears the begin epoch (LEAVE_SWAPPED)"),
    ("YkLife", "MC_Life_bug.cfg", "ThreadsAliveWhileRunning", "F4: stop flags not cleared"),
    ("MC_Iscan", "MC_Iscan_bug15.cfg", "IscanPhantomOK", "F15: cursor opened in the gap between two entries of one absent slice reports no border"),
    ("MC_Iscan", "MC_Iscan_bug16.cfg", "IscanPhantomOK", "F16: end-of-border callback skipped when the cursor position equals the max sentinel"),
    ("MC_IscanW", "MC_IscanW_bug18.cfg", "CursorOK", "F18: a deleted saved layer root below layer 0 always means 'the layer is gone' (rest of a layer with a collapsed interior root skipped)"),
    ("MC_IscanW", "MC_IscanW_bug19.cfg", "EaAct", "F19: early_abort cursor goes on when its border and the neighbour were emptied"),
    ("MC_IscanW", "MC_IscanW_bug20.cfg", "CursorOK", "F20: the new root of a layer is looked up in the border saved for the upper layer although that border was split and the link moved"),
    ("MC_IscanW", "MC_IscanW_bug21.cfg", "CursorOK", "F21: a deleted saved layer root that is a border always means 'the layer is gone' (wrong for a root border that was split and then emptied)"),
    ("MC_Tree", "MC_Tree_scan5_f2.cfg", "ScanOK", "F2: scan uses l_key with INF"),
    ("MC_Tree", "MC_Tree_scan5_f3.cfg", "PhantomOK", "F3: links-only border not recorded"),
]
BENIGN = [("border_helper.h", "    std::size_t remaining_size = key_slice_length / 2 + 1;", "    std::size_t remaining_size = key_slice_length / 2;", "C08", "different split point")]


def main():
    want = set(sys.argv[1:])
    bad = 0
    for mod, cfg, inv, what in MODEL_SWITCHES:
        if want and "models" not in want:
            break
        r = tlc(mod, cfg, workers=8, timeout=600)
        ok = (r.violated == inv)
        print("%s model switch %-28s -> %s (%s)" % ("ok  " if ok else "FAIL", cfg, r.violated, what))
        bad += not ok
    for d in sorted(glob.glob(os.path.join(HERE, "seeded", "*"))):
        sid = os.path.basename(d)
        if want and sid not in want:
            continue
        if not os.path.exists(os.path.join(d, "meta.json")):
            continue
        meta = json.load(open(os.path.join(d, "meta.json")))
        for prop in meta.get("checks", [meta["property"]]):
            r = subprocess.run([os.path.join(HERE, "tools", "mutcheck.py"), "--patch", os.path.join(d, "patch.diff"), prop, "quick"], stdout=subprocess.PIPE, stderr=subprocess.STDOUT, text=True)
            ok = r.returncode == 1 and "VIOLATION property=" + prop in r.stdout
            print("%s seeded %-6s vs ./check %s -> exit %d" % ("ok  " if ok else "FAIL", sid, prop, r.returncode))
            bad += not ok
    for f, old, new, prop, what in BENIGN:
        if want and "benign" not in want:
            break
        r = subprocess.run([os.path.join(HERE, "tools", "mutcheck.py"), f, old, new, prop, "quick"], stdout=subprocess.PIPE, stderr=subprocess.STDOUT, text=True)
        ok = r.returncode == 0
        print("%s benign refactor (%s) vs ./check %s -> exit %d (divergences: %d)" % ("ok  " if ok else "FAIL", what, prop, r.returncode, r.stdout.count("DIVERGENCE")))
        bad += not ok
    return 1 if bad else 0


if __name__ == "__main__":
    sys.exit(main())

"""Concurrent conformance at property level: concdrv histories judged by TraceLin (TLC linearization search + run facts)."""
import json
import os
import re
from concurrent.futures import ThreadPoolExecutor

from common import BUILD, build, run, tlc, tlc_tail, log, seed
from tracecheck import write_cfg, on_set
from seqtrace import parse_mismatches

STUCK = re.compile(r'<<"STUCK", (\d+), (\d+)>>')


def concdrv():
    return build("concdrv", ["concdrv.cpp"], sessions=16)


def drive(chk, args, tag, timeout=600):
    """runs concdrv; returns (trace path, run lines, abort records, fault line or None)"""
    exe = concdrv()
    rc, out, err = run([exe] + args, timeout=timeout)
    runs, aborts, fault = [], [], None
    for line in out.splitlines():
        if line.startswith('{"e":"run"'):
            runs.append(line)
        elif line.startswith('{"e":"abort"'):
            aborts.append(line)
        elif line.startswith('{"e":"faultrun"'):
            fault = line
        elif '"op":"fault"' in line:
            fault = (fault or "") + " " + line
    if rc != 0 and not fault and not aborts:
        chk.error("concdrv exit %d (%s): %s" % (rc, " ".join(args), err[-300:]))
    tdir = os.path.join(BUILD, "traces")
    os.makedirs(tdir, exist_ok=True)
    tr = os.path.join(tdir, "lin_%s.ndjson" % tag)
    with open(tr, "w") as f:
        f.write("\n".join(runs) + ("\n" if runs else ""))
    return tr, runs, aborts, fault


def judge(chk, tr, runs, on, tag, timeout=900, max_failures=12):
    """TLC judgement of one trace file. Returns list of failures: dicts(kind, run, info)."""
    failures = []
    if not runs:
        return failures
    cfg = write_cfg(os.path.join(BUILD, "cfg", "lin_%s.cfg" % tag), spec="ISpec",
                    constants={"F": 15, "BUGGY_F2": "FALSE", "BUGGY_F3": "FALSE", "LENIENT": "TRUE", "ON": on_set(on)},
                    constraint="Record", postcondition="Accepted")
    skip = []
    skipf = tr + ".skip"
    ids = [json.loads(r)["id"] for r in runs]
    for it in range(max_failures + 1):
        with open(skipf, "w") as f:
            f.write(json.dumps({"skip": skip}) + "\n")
        res = tlc("TraceLin", cfg, env={"TRACE": tr, "SKIP": skipf}, workers=1, timeout=timeout, xmx="4g")
        chk.add_tlc(res, "linearization search %s (%d runs, pass %d)" % (tag, len(runs), it + 1))
        for mm in parse_mismatches(res.out):
            h = mm["line"]
            if any(f["kind"] == mm["tag"] and f["h"] == h for f in failures):
                continue
            failures.append({"kind": mm["tag"], "c": mm["c"], "h": h, "run": runs[h - 1] if 0 < h <= len(runs) else "", "info": mm["info"]})
        if res.ok:
            break
        m = STUCK.search(res.out)
        if not m:
            chk.error("TraceLin undecided (%s): %s" % (tag, tlc_tail(res, 15)))
            break
        h, ki = int(m.group(1)), int(m.group(2))
        if h > len(runs):
            break
        r = json.loads(runs[h - 1])
        key = r["final"][ki - 1][0] if 0 < ki <= len(r["final"]) else None
        failures.append({"kind": "not-linearizable", "c": "LIN", "h": h, "run": runs[h - 1], "info": {"key": key}})
        skip.append(ids[h - 1])
        if it == max_failures:
            log("  (more than %d stuck runs in %s; stopping the search for further ones)" % (max_failures, tag))
    chk.traces += len(runs)
    return failures


def _tuple_at(key, d):
    rest = key[d:]
    return (tuple((rest + [0] * 8)[:8]), min(len(rest), 9))


def _start_position_insert(o, k):
    """k has, at some depth, the same (slice, length) tuple as the cursor's inclusive start key (and the same prefix above it):
    the entry the cursor was positioned 'at' when it was opened."""
    if o.get("op") != "iscan":
        return False
    if o["rtl"]:
        s, inc = o["r"], o["re"] == "INC"
    else:
        s, inc = ([] if o["le"] == "INF" else o["l"]), o["le"] in ("INC", "INF")
    d = 0
    while d <= len(s) and d <= len(k):
        if s[:d] != k[:d]:
            return False
        ts, tk = _tuple_at(s, d), _tuple_at(k, d)
        if ts != tk:
            return False
        if ts[1] == 9 and len(s) > d + 8:
            # a link tuple on the way to the start key: the cursor is positioned AT it whatever the kind of the start endpoint
            # (this layer is not the last one of the start key), findnext skips an entry with that tuple
            return True
        if ts[1] != 9:
            return inc          # the start key's own tuple: the inclusive start key itself
        d += 8
    return False


def _layer_root_split(r, o):
    """the run contains a successful put of a new key into a next layer whose root border is full (15 keys with that 8-byte
    prefix initially), overlapping the cursor o in time"""
    init = [x[0] for x in r["init"]]
    for p in r["ops"]:
        if p.get("op") in ("put", "uput") and p["st"] == "OK" and len(p["k"]) > 8 and p["k"] not in init:
            pre = p["k"][:8]
            n = sum(1 for k in init if len(k) > 8 and k[:8] == pre)
            if n == 15 and p["ret"] > o["inv"] and p["inv"] < o["ret"]:
                return True
    return False


def classify(f):
    """stable key of a failure, for known-finding matching"""
    try:
        r = json.loads(f["run"])
        if f["kind"] == "not-linearizable":
            key = f["info"].get("key")
            for o in r["ops"]:
                if o.get("op") == "iscan" and _layer_root_split(r, o) and len(key or []) > 8:
                    return "iscan-loses-position-when-layer-root-splits"
            return classify_stuck(f)
        o = r["ops"][f["info"]["op"] - 1] if isinstance(f["info"], dict) and "op" in f["info"] else None
        if o and o.get("op") == "iscan":
            if f["kind"] == "scan-shape" and _layer_root_split(r, o):
                return "iscan-loses-position-when-layer-root-splits"
            if f["kind"] == "scan-nv-misses-insert":
                got = [t[0] for t in o["tl"]]
                init = [x[0] for x in r["init"]]
                # only keys of the interval the cursor covered can be "missed" (the TLA judgement, NvOK of TraceLin, looks at covered keys only)
                def in_iv(k):
                    lo_ok = o["le"] == "INF" or (k >= o["l"] if o["le"] == "INC" else k > o["l"])
                    hi_ok = o["re"] == "INF" or (k <= o["r"] if o["re"] == "INC" else k < o["r"])
                    return lo_ok and hi_ok
                missed = [p["k"] for p in r["ops"] if p.get("op") in ("put", "uput") and p["st"] == "OK" and p["ret"] > o["inv"] and p["k"] not in got and p["k"] not in init and in_iv(p["k"])]
                if missed and all(_start_position_insert(o, k) for k in missed):
                    return "iscan-misses-entry-inserted-at-its-start-position-after-open"
        return f["kind"]
    except Exception:
        return f["kind"]


def classify_stuck(f):
    """stable key for a non-linearizable run: which kind of operation on the key cannot be placed"""
    try:
        r = json.loads(f["run"])
        key = f["info"].get("key")
        ops = [o for o in r["ops"] if o.get("k") == key]
        kinds = sorted(set(o["op"] for o in ops))
        nullget = any(o["op"] == "get" and o["st"] == "OK" and o["rv"] == -1 for o in ops)
        torn = any(o["op"] == "get" and o["st"] == "OK" and o["rv"] == -2 for o in ops)
        nullscan = any(o["op"] in ("scan", "iscan") and any(t[1] == -1 for t in o["tl"]) for o in r["ops"])
        if nullget:
            return "get-OK-with-null-value"
        if torn:
            return "get-torn-value"
        if nullscan:
            return "scan-null-value"
        return "not-linearizable:" + "+".join(kinds)
    except Exception:
        return "not-linearizable"

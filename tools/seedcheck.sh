#!/bin/bash
# usage: seedcheck.sh <id> <worktree> : confirm a sub-agent's seeded change (demo passes without / fails with the patch)
id=$1; wt=$2; dst=/verif/seeded/$id
mkdir -p $dst && cp $wt/seed/patch.diff $wt/seed/demo.cpp $wt/seed/notes.md $dst/ 2>/dev/null; cp $wt/seed/run.sh $dst/ 2>/dev/null
cd $wt && git checkout -q -- include && git status --short | grep -v seed
build() { g++ -O1 -g -std=c++17 -DYAKUSHIMA_LINUX -DYAKUSHIMA_MAX_PARALLEL_SESSIONS=16 $3 -I$wt/include $dst/demo.cpp -o /tmp/demo_${id}_$1 -lglog -ltbb -lpthread 2>&1 | grep -v conda | head -5; }
build clean "" "$DEMO_FLAGS"
echo "--- unmodified:"; (cd /tmp && timeout ${DEMO_TIMEOUT:-120} /tmp/demo_${id}_clean $DEMO_ARGS 2>&1 | tail -3; echo "exit=${PIPESTATUS[0]}")
git apply $dst/patch.diff || { echo "PATCH DOES NOT APPLY"; exit 1; }
build mut "" "$DEMO_FLAGS"
echo "--- with patch:"; (cd /tmp && timeout ${DEMO_TIMEOUT:-120} /tmp/demo_${id}_mut $DEMO_ARGS 2>&1 | tail -3; echo "exit=${PIPESTATUS[0]}")
git checkout -q -- include
rm -f /tmp/demo_${id}_clean /tmp/demo_${id}_mut

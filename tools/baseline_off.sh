#!/bin/sh
# Runs the repository's pinned test suite with the verification guard OFF (the pinned _build never defines it).
# The pinned build was configured with YAKUSHIMA_MAX_PARALLEL_SESSIONS=8 and several tests start
# std::thread::hardware_concurrency() threads that each hold a session (some behind a barrier): on a machine that shows more
# than 8 CPUs those tests fail or dead-lock on the UNMODIFIED tree as well (verified: multi_thread_put_100k_key_test,
# multi_thread_delete_one_border_test, ..._200_key_test, ..._1m_key_test).  The baseline was recorded with 8 CPUs visible, so
# the suite is run with get_nprocs()/sysconf() reporting 8 (tiny LD_PRELOAD shim) and pinned to 8 CPUs.
set -e
cd "$(dirname "$0")"
mkdir -p ../build/shim
gcc -shared -fPIC -O2 shim/np.c -o ../build/shim/np.so -ldl
cmake --build /repo/_build -- -k 0 || true    # iscan_concurrent_modify_test does not compile on the pinned tree either (-Werror in the test)
exec env LD_PRELOAD="$(pwd)/../build/shim/np.so" taskset -c 0-7 ctest --test-dir /repo/_build -j8 --timeout 900 "$@"

#!/usr/bin/env python3
"""Run checks against a mutated scratch copy of /repo/include (never touches /repo).
usage: mutcheck.py <file> '<old text>' '<new text>' <Cnn> [tier]      (exact single replacement)
       mutcheck.py --patch <diff file> <Cnn> [tier]
Evidence files and replays written by the mutated run are discarded afterwards."""
import os, shutil, subprocess, sys, tempfile
HERE = os.path.dirname(os.path.dirname(os.path.abspath(__file__)))


def main():
    a = sys.argv[1:]
    tmp = tempfile.mkdtemp(prefix="ykmut_")
    try:
        shutil.copytree("/repo/include", os.path.join(tmp, "include"))
        if a[0] == "--patch":
            r = subprocess.run(["patch", "-p1", "-d", tmp, "-i", os.path.abspath(a[1])], stdout=subprocess.PIPE, text=True)
            if r.returncode != 0:
                print(r.stdout); return 2
            rest = a[2:]
        else:
            p = os.path.join(tmp, "include", a[0]); s = open(p).read()
            if s.count(a[1]) != 1:
                print("pattern occurs %d times" % s.count(a[1])); return 2
            open(p, "w").write(s.replace(a[1], a[2])); rest = a[3:]
        prop = rest[0]; tier = rest[1] if len(rest) > 1 else "quick"
        ev = os.path.join(HERE, "evidence", prop + ".json")
        bak = open(ev).read() if os.path.exists(ev) else None
        env = dict(os.environ, VERIF_REPO=tmp)
        r = subprocess.run([os.path.join(HERE, "check"), prop, tier], env=env, cwd=HERE)
        if bak is not None:
            open(ev, "w").write(bak)
        print("mutcheck: exit", r.returncode)
        return r.returncode
    finally:
        shutil.rmtree(tmp, ignore_errors=True)


if __name__ == "__main__":
    sys.exit(main())

"""Sequential conformance: drive the real code with treedrv profiles, judge every trace with TraceTree (TLC, lenient mode),
classify the printed MISMATCH records into violations / known findings / divergences."""
import json
import os
import re
from concurrent.futures import ThreadPoolExecutor

from common import BUILD, build, run, tlc, tlc_tail, log, seed
from tracecheck import write_cfg, on_set

MM = re.compile(r'^<<"MISMATCH", "(\w+)", "([\w-]+)", (\d+), "(.*)">>$')


def parse_mismatches(out):
    res, seen = [], set()
    for line in out.splitlines():
        m = MM.match(line.strip())
        if not m:
            continue
        c, tag, ln, js = m.group(1), m.group(2), int(m.group(3)), m.group(4)
        if (c, tag, ln) in seen:
            continue
        seen.add((c, tag, ln))
        try:
            info = json.loads(js.encode().decode("unicode_escape")) if "\\" in js else json.loads(js)
        except Exception:
            try:
                info = json.loads(js.replace('\\"', '"'))
            except Exception:
                info = {"raw": js[:500]}
        res.append({"c": c, "tag": tag, "line": ln, "info": info})
    return res


def treedrv():
    return build("treedrv", ["treedrv.cpp"], sessions=16, epoch_time=5)


def ffx8_link_deeper(key):
    """key has a slice FFx8 that starts at depth >= 1 (offset 8, 16, ...) and is followed by more bytes"""
    for off in range(8, len(key) - 8, 8):
        if key[off:off + 8] == [255] * 8 and len(key) > off + 8:
            return True
    return False


def classify(mm, event):
    """stable key of a mismatch, used for known-finding matching"""
    tag, info = mm["tag"], mm["info"]
    if tag == "iscan-result" and isinstance(info, dict) and info.get("rtl") and "exp" in info and "got" in info:
        exp, got = info["exp"], info["got"]
        missing = [k for k in exp if k not in got]
        rest = [k for k in exp if k in got]
        if missing and rest == got[:len(rest)] and all(ffx8_link_deeper(k) for k in missing):
            return "iscan-rtl-skips-FFx8-link-slice-below-layer0"
    if tag == "iscan-nv-nonempty" and event:
        try:
            e = json.loads(event)
            steps = e.get("steps", [])
            # start side of the cursor: l (INF = empty key, inclusive) for left-to-right, r for right-to-left
            if e["rtl"]:
                skey, sinc = e["r"], e["re"] == "INC"
            else:
                skey, sinc = ([] if e["le"] == "INF" else e["l"]), e["le"] in ("INC", "INF")
            # the named API treats an INF left endpoint as ("", INCLUSIVE), also when it is the END of a right-to-left cursor
            lkey, linc = ([], True) if e["le"] == "INF" else (e["l"], e["le"] == "INC")
            if not e["rtl"]:
                one_point = e["re"] == "INC" and e["r"] == skey
            else:
                one_point = linc and lkey == skey
            if len(steps) == 1 and sinc and steps[0][0] == skey and (e["end"] == "OK" or one_point):
                return "iscan-nv-empty-when-only-the-inclusive-start-key-was-produced"
        except Exception:
            pass
    return tag


def structure_stats(lines, cov):
    """what the dumps of a trace show about structural change (coverage only, never a verdict)"""
    prev = None
    sc = cov.setdefault("structure", {"dumps": 0, "max_borders": 0, "max_interiors": 0, "max_layer_roots": 0, "border_count_drops": 0,
                                      "interior_count_drops": 0, "interior_count_rises": 0, "layer_count_drops": 0, "root_kind_changes": 0,
                                      "empty_root_seen": 0})
    for l in lines:
        if '"dump"' not in l:
            continue
        try:
            d = json.loads(l)["dump"]["nodes"]
        except Exception:
            continue
        nb = sum(1 for n in d if n["t"] == "B")
        ni = len(d) - nb
        nl = sum(1 for n in d if n["parent"] > 0 and d[n["parent"] - 1]["t"] == "B")
        cur = (nb, ni, nl, d[0]["t"] if d else "?")
        sc["dumps"] += 1
        sc["max_borders"] = max(sc["max_borders"], nb)
        sc["max_interiors"] = max(sc["max_interiors"], ni)
        sc["max_layer_roots"] = max(sc["max_layer_roots"], nl)
        if d and d[0]["t"] == "B" and not d[0]["perm"]:
            sc["empty_root_seen"] += 1
        if prev:
            sc["border_count_drops"] += cur[0] < prev[0]
            sc["interior_count_drops"] += cur[1] < prev[1]
            sc["interior_count_rises"] += cur[1] > prev[1]
            sc["layer_count_drops"] += cur[2] < prev[2]
            sc["root_kind_changes"] += cur[3] != prev[3]
        prev = cur


def mapdrv():
    return build("mapdrv", ["mapdrv.cpp"], sessions=16, epoch_time=5)


def run_map_profiles(chk, prop, profiles, on, timeout=900, tag="m"):
    """API-level traces (several storages, long keys, all value shapes) judged by TraceMap."""
    return run_profiles(chk, prop, profiles, on, strict_too=False, timeout=timeout, tag=tag, kind="map")


def run_profiles(chk, prop, profiles, on, strict_too=True, timeout=900, tag="", kind="tree"):
    """profiles: list of argument lists for treedrv.  Judges with ON = on (+ "S" collected separately as divergences)."""
    exe = treedrv() if kind == "tree" else mapdrv()
    module = "TraceTree" if kind == "tree" else "TraceMap"
    tdir = os.path.join(BUILD, "traces")
    os.makedirs(tdir, exist_ok=True)
    on_all = sorted(set(on) | ({"S"} if strict_too else set()))
    consts = {"LENIENT": "TRUE", "ON": on_set(on_all)}
    if kind == "tree":
        consts.update({"F": 15, "BUGGY_F2": "FALSE", "BUGGY_F3": "FALSE", "BUGGY_F15": "FALSE", "BUGGY_F16": "FALSE", "BUGGY_F18": "FALSE", "BUGGY_F19": "FALSE", "BUGGY_F20": "FALSE", "BUGGY_F21": "FALSE"})
    cfg = write_cfg(os.path.join(BUILD, "cfg", "tt_%s%s.cfg" % (prop, tag)), constants=consts, view="TView")
    jobs = []
    for i, args in enumerate(profiles):
        tr = os.path.join(tdir, "%s%s_%d.ndjson" % (prop, tag, i))
        rc, out, err = run([exe] + args, timeout=300)
        if rc != 0:
            chk.error("treedrv exit %d (%s): %s" % (rc, " ".join(args), err[-300:]))
            continue
        open(tr, "w").write(out)
        jobs.append((i, args, tr, out.splitlines()))

    def validate(job):
        i, args, tr, lines = job
        return job, tlc(module, cfg, env={"TRACE": tr}, workers=1, timeout=timeout, xmx="3g" if kind == "tree" else "6g")

    nviol = 0
    with ThreadPoolExecutor(max_workers=8) as ex:
        for job, res in ex.map(validate, jobs):
            i, args, tr, lines = job
            chk.add_tlc(res, "trace %s (%d events)" % (" ".join(args), len(lines)))
            chk.cov["events"] = chk.cov.get("events", 0) + len(lines)
            structure_stats(lines, chk.cov)
            for l in lines:
                try:
                    op = json.loads(l).get("op")
                except Exception:
                    op = "?"
                chk.cov.setdefault("ops", {})
                chk.cov["ops"][op] = chk.cov["ops"].get(op, 0) + 1
            if lines:
                chk.sample(json.loads(lines[min(len(lines) - 1, 2)]) if len(lines[min(len(lines) - 1, 2)]) < 1500 else {"op": "(long)"})
            if res.error or res.rc == 124 or (not res.ok and not parse_mismatches(res.out)):
                # not a lenient acceptance: either the trace ends with a Fault line / malformed, or a tool problem
                last = lines[-1] if lines else ""
                if '"op":"fault"' in last and res.depth >= len(lines):
                    rp = chk.save_replay("fault_%d.ndjson" % i, "\n".join(lines[-5:]))
                    if chk.violation("fault", "implementation faulted during trace %s: %s" % (" ".join(args), last), rp):
                        nviol += 1
                else:
                    chk.error("trace validation undecided (%s): %s" % (" ".join(args), tlc_tail(res, 15)))
                continue
            chk.traces += 1
            for mm in parse_mismatches(res.out):
                ev = lines[mm["line"] - 1] if 0 < mm["line"] <= len(lines) else ""
                if mm["c"] == "S":
                    chk.cov["divergences"] = chk.cov.get("divergences", 0) + 1
                    chk.cov.setdefault("divergence_samples", [])
                    if len(chk.cov["divergence_samples"]) < 5:
                        chk.cov["divergence_samples"].append({"tag": mm["tag"], "line": mm["line"], "event": ev[:300]})
                    log("DIVERGENCE property=%s at=%s line %d (implementation differs from the transliterated model; not a violation)" % (prop, mm["tag"], mm["line"]))
                    continue
                if mm["c"] not in on:
                    continue
                key = classify(mm, ev)
                rp = chk.save_replay("%s_%d_line%d.json" % (mm["tag"], i, mm["line"]),
                                     json.dumps({"driver_args": args, "line": mm["line"], "event": ev[:20000], "mismatch": mm}, indent=1))
                if chk.violation(key, "%s at line %d of trace '%s': event=%s expected/info=%s" % (
                        mm["tag"], mm["line"], " ".join(args), ev[:600], json.dumps(mm["info"])[:600]), rp):
                    nviol += 1
    return nviol


def model_check(chk, cfgname, what, workers=12, timeout=900, module="MC_Tree", simulate=None, depth=None):
    res = tlc(module, cfgname, workers=workers, timeout=timeout, xmx="8g", simulate=simulate, depth=depth)
    if simulate and res.rc == 0 and "violated" not in res.out and "Error" not in res.out:
        res.ok = True
    chk.add_tlc(res, what)
    if not res.ok:
        chk.error("model check %s did not pass (says nothing about the code): %s" % (cfgname, tlc_tail(res, 12)))
    return res

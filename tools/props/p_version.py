"""C17 - node version word protocol.  M: YkVersion (concurrent CAS-loop protocol);  R/T: every operation of the real
node_version64 on every flag combination x counter boundary values judged by YkVersionOps (TraceVersionSeq)."""
import json
import os
from common import Check, build, run, tlc, tlc_tail, BUILD
from tracecheck import validate


def run_model(chk, cfg, workers=8, timeout=600):
    res = tlc("MC_Version", cfg, workers=workers, timeout=timeout)
    chk.add_tlc(res, "model " + cfg)
    if not res.ok:
        # a failure of the model itself says nothing about the code: undecided
        chk.error("model check %s did not pass: %s" % (cfg, tlc_tail(res, 12)))
    return res


def main(prop, tier):
    chk = Check(prop, tier)
    chk.assumptions += ["sequential consistency of the atomic word (std::atomic seq/acq-rel operations are single steps)",
                        "model counters modulo 4; the code's modulus 2^29 is exercised by the replay on boundary values",
                        "compare_exchange_weak spurious failures are modelled as 'expected reloaded, retry'"]
    for cfg in (["MC_Version_A.cfg", "MC_Version_B.cfg", "MC_Version_E.cfg"] if tier == "quick" else ["MC_Version_A.cfg", "MC_Version_B.cfg", "MC_Version_E.cfg", "MC_Version_C.cfg"]):
        run_model(chk, cfg)
    exe = build("verdrv", ["verdrv.cpp"])
    os.makedirs(os.path.join(BUILD, "traces"), exist_ok=True)
    tr = os.path.join(BUILD, "traces", "c17_seq.ndjson")
    rc, out, err = run([exe], timeout=120)
    if rc != 0:
        chk.error("verdrv exit %d: %s" % (rc, err[-500:]))
        return chk.finish()
    open(tr, "w").write(out)
    lines = out.splitlines()
    for s in lines[:: max(1, len(lines) // 4)][:4]:
        chk.sample(json.loads(s))
    v = validate(chk, "TraceVersionSeq", "TraceVersionSeq.cfg", tr, "replay of %d real version-word transitions" % len(lines))
    chk.cov["replayed_transitions"] = len(lines)
    if v["undecided"]:
        chk.error("trace validation undecided: " + v["text"])
    elif not v["accepted"]:
        if v.get("violated") == "Coverage":
            chk.error("replay log does not cover all flag sets x operations")
        else:
            e = json.loads(v["text"]) if v["text"] else {}
            key = "seq-op=%s%s" % (e.get("op", "?"), ("-" + e.get("flag")) if e.get("flag") else "")
            rp = chk.save_replay("line%d.json" % v["line"], v["text"])
            chk.violation(key, "real node_version64 transition differs from YkVersionOps at log line %d: %s" % (v["line"], v["text"]), rp)
    # concurrent executions of the real word under the deterministic scheduler (preemption before every load and CAS attempt)
    cexe = build("verconc", ["verconc.cpp"], sessions=16)
    for pg in "ABC":
        tr2 = os.path.join(BUILD, "traces", "c17_conc_%s.ndjson" % pg)
        rc, out, err = run([cexe, "prog=" + pg, "runs=%d" % (120 if tier == "quick" else 1500), "seed=%d" % __import__("common").seed()], timeout=300)
        lines2 = out.splitlines()
        if rc != 0 or (lines2 and '"e":"abort"' in lines2[-1]):
            chk.violation("concurrent-run-did-not-complete", "verconc program %s: %s" % (pg, (lines2[-1] if lines2 else err)[:300]))
            continue
        open(tr2, "w").write(out)
        v2 = validate(chk, "TraceVersionConc", "TraceVersionConc.cfg", tr2, "concurrent version-word executions, program %s (%d events)" % (pg, len(lines2)), timeout=600)
        chk.cov["concurrent_events"] = chk.cov.get("concurrent_events", 0) + len(lines2)
        if v2["undecided"]:
            chk.error("concurrent trace validation undecided: " + v2["text"])
        elif not v2["accepted"]:
            rp = chk.save_replay("conc_%s_line%d.ndjson" % (pg, v2["line"]), "\n".join(lines2[max(0, v2["line"] - 25):v2["line"]]))
            e = json.loads(v2["text"]) if v2["text"].startswith("{") else {}
            chk.violation("conc-%s" % e.get("e", "?"), "concurrent execution of program %s is not a behaviour of the version-word protocol at event %d: %s" % (pg, v2["line"], v2["text"]), rp)
    return chk.finish()

"""C17 - node version word protocol.  M: YkVersion (concurrent CAS-loop protocol);  R/T: every operation of the real
node_version64 on every flag combination x counter boundary values judged by YkVersionOps (TraceVersionSeq)."""
import json
import os
from common import Check, build, run, tlc, tlc_tail, BUILD
from tracecheck import validate


def run_model(chk, cfg, workers=8, timeout=600):
    res = tlc("MC_Version", cfg, workers=workers, timeout=timeout)
    chk.add_tlc(res, "model " + cfg)
    if not res.ok:
        # a failure of the model itself says nothing about the code: undecided
        chk.error("model check %s did not pass: %s" % (cfg, tlc_tail(res, 12)))
    return res


def main(prop, tier):
    chk = Check(prop, tier)
    chk.assumptions += ["sequential consistency of the atomic word (std::atomic seq/acq-rel operations are single steps)",
                        "model counters modulo 4; the code's modulus 2^29 is exercised by the replay on boundary values",
                        "compare_exchange_weak spurious failures are modelled as 'expected reloaded, retry'"]
    for cfg in (["MC_Version_A.cfg", "MC_Version_B.cfg"] if tier == "quick" else ["MC_Version_A.cfg", "MC_Version_B.cfg", "MC_Version_C.cfg"]):
        run_model(chk, cfg)
    exe = build("verdrv", ["verdrv.cpp"])
    os.makedirs(os.path.join(BUILD, "traces"), exist_ok=True)
    tr = os.path.join(BUILD, "traces", "c17_seq.ndjson")
    rc, out, err = run([exe], timeout=120)
    if rc != 0:
        chk.error("verdrv exit %d: %s" % (rc, err[-500:]))
        return chk.finish()
    open(tr, "w").write(out)
    lines = out.splitlines()
    for s in lines[:: max(1, len(lines) // 4)][:4]:
        chk.sample(json.loads(s))
    v = validate(chk, "TraceVersionSeq", "TraceVersionSeq.cfg", tr, "replay of %d real version-word transitions" % len(lines))
    chk.cov["replayed_transitions"] = len(lines)
    if v["undecided"]:
        chk.error("trace validation undecided: " + v["text"])
    elif not v["accepted"]:
        if v.get("violated") == "Coverage":
            chk.error("replay log does not cover all flag sets x operations")
        else:
            e = json.loads(v["text"]) if v["text"] else {}
            key = "seq-op=%s%s" % (e.get("op", "?"), ("-" + e.get("flag")) if e.get("flag") else "")
            rp = chk.save_replay("line%d.json" % v["line"], v["text"])
            chk.violation(key, "real node_version64 transition differs from YkVersionOps at log line %d: %s" % (v["line"], v["text"]), rp)
    return chk.finish()

"""Concurrent properties decided at property level from real executions under the deterministic scheduler (concdrv) judged by
TraceLin (TLC): C01 linearizable point operations, C04 scans, C06 insert vs node-version set, C08 (quiescent coherence after
concurrent histories), C09 termination / no lock left.  M: the concurrent models MC_Conc_* (YkConc) where available."""
import json
from common import Check, seed, log
import lincheck

FAMS = ["border", "full", "two", "empty", "layer", "layerfull", "three"]


def plan(prop, tier):
    q = tier == "quick"
    s = seed()
    J = []   # (family, sched, extra args)
    if prop in ("C01", "C08c", "C09"):
        for i, fam in enumerate(FAMS):
            big = fam == "three"
            J.append((fam, "random", ["scenarios=%d" % ((25 if q else 120) // (3 if big else 1)), "runs=%d" % (12 if q else 30), "threads=2", "opsper=2"]))
            J.append((fam, "pre1", ["scenarios=%d" % ((8 if q else 40) // (2 if big else 1)), "threads=2", "opsper=%d" % (1 if big else 2)]))
            if not big:
                J.append((fam, "pct", ["scenarios=%d" % (12 if q else 60), "runs=%d" % (10 if q else 30), "threads=3", "opsper=2"]))
    elif prop in ("C04", "C06"):
        for fam in FAMS:
            big = fam == "three"
            sc = ["scans=35"] if prop == "C04" else ["scans=45"]
            J.append((fam, "random", ["scenarios=%d" % ((25 if q else 120) // (3 if big else 1)), "runs=%d" % (12 if q else 30), "threads=2", "opsper=2"] + sc))
            J.append((fam, "pre1", ["scenarios=%d" % ((8 if q else 40) // (2 if big else 1)), "threads=2", "opsper=%d" % (1 if big else 2)] + sc))
            if not big:
                J.append((fam, "pct", ["scenarios=%d" % (12 if q else 60), "runs=%d" % (10 if q else 30), "threads=3", "opsper=2"] + sc))
    elif prop == "C13c":
        J.append(("ddl", "random", ["scenarios=%d" % (60 if q else 300), "runs=%d" % (20 if q else 40), "threads=2", "opsper=2"]))
        J.append(("ddl", "pre1", ["scenarios=%d" % (20 if q else 100), "threads=2", "opsper=2"]))
        J.append(("ddl", "pct", ["scenarios=%d" % (30 if q else 150), "runs=%d" % (15 if q else 30), "threads=3", "opsper=2"]))
    elif prop == "C15c":
        for fam in ["border", "full", "two", "layer"]:
            J.append((fam, "random", ["scenarios=%d" % (25 if q else 120), "runs=%d" % (12 if q else 30), "threads=2", "opsper=2"]))
            J.append((fam, "pre1", ["scenarios=%d" % (8 if q else 40), "threads=2", "opsper=2"]))
    elif prop == "C10":
        for fam in FAMS:
            big = fam == "three"
            J.append((fam, "random", ["scenarios=%d" % ((25 if q else 120) // (3 if big else 1)), "runs=%d" % (12 if q else 30), "threads=2", "opsper=2", "iscans=45"]))
            J.append((fam, "pre1", ["scenarios=%d" % ((8 if q else 40) // (2 if big else 1)), "threads=2", "opsper=%d" % (1 if big else 2), "iscans=50"]))
    return ["seed=%d" % s], J


ON = {"C13c": ["LIN", "QUIES"], "C15c": ["LIN"], "C01": ["LIN"], "C04": ["LIN", "SCAN"], "C06": ["LIN", "SCAN", "NV"], "C08c": ["LIN", "QUIES"], "C09": ["QUIES"], "C10": ["LIN", "SCAN", "NV"]}
# which failure kinds count for which property (others are somebody else's property and are only noted)
MINE = {"C13c": {"not-linearizable", "quiescent-structure"}, "C15c": {"not-linearizable"}, "C01": {"not-linearizable"}, "C04": {"not-linearizable", "scan-shape"}, "C06": {"scan-nv-misses-insert", "scan-nv-empty"},
        "C08c": {"quiescent-structure", "not-linearizable"}, "C09": {"quiescent-structure"}, "C10": {"not-linearizable", "scan-shape", "scan-nv-misses-insert"}}


def run_conc(chk, prop, tier, pkey=None):
    """pkey: the planning key (C08c for the concurrent part of C08)"""
    pk = pkey or prop
    base, jobs = plan(pk, tier)
    nviol = 0
    for fam, sched, extra in jobs:
        tag = "%s_%s_%s" % (pk, fam, sched)
        tr, runs, aborts, fault = lincheck.drive(chk, base + ["family=" + fam, "sched=" + sched] + extra, tag)
        chk.cov["runs"] = chk.cov.get("runs", 0) + len(runs)
        chk.cov.setdefault("runs_by", {})["%s/%s" % (fam, sched)] = len(runs)
        if runs:
            r0 = json.loads(runs[len(runs) // 2])
            chk.sample({"family": fam, "sched": sched, "prog": r0["prog"], "ops": [{k: o[k] for k in ("t", "op", "st", "inv", "ret") if k in o} for o in r0["ops"]], "steps": r0.get("steps")})
        for a in aborts:
            rp = chk.save_replay("abort_%s.json" % tag, a)
            if prop == "C09":
                kind = "deadlock" if "deadlock" in a else "livelock"
                if chk.violation(kind, "scheduler-driven run did not complete (%s): %s" % (kind, a[:1500]), rp):
                    nviol += 1
            else:
                chk.error("a run did not complete (deadlock/livelock; property C09 decides this): " + a[:400])
        if fault:
            rp = chk.save_replay("fault_%s.json" % tag, fault)
            if chk.violation("fault", "implementation faulted in %s/%s: %s" % (fam, sched, fault), rp):
                nviol += 1
        fails = lincheck.judge(chk, tr, runs, ON[pk], tag)
        for f in fails:
            if f["kind"] not in MINE[pk]:
                chk.notes.append("other-property failure seen: %s in run %s" % (f["kind"], f["h"]))
                continue
            key = lincheck.classify(f)
            rp = chk.save_replay("%s_%s_run%d.json" % (f["kind"], tag, f["h"]), json.dumps({"driver_args": base + ["family=" + fam, "sched=" + sched] + extra, "failure": f["kind"], "info": f["info"], "run": json.loads(f["run"]) if f["run"] else None}, indent=1))
            if chk.violation(key, "%s in %s/%s run %d: %s ... %s" % (f["kind"], fam, sched, f["h"], f["run"][:700], json.dumps(f["info"])[:300]), rp):
                nviol += 1
    return nviol


def main(prop, tier):
    chk = Check(prop, tier)
    chk.assumptions += ["sequentially consistent executions only: one controlled thread runs at a time, preemption at the verification hooks (every atomic load/store/CAS of version, permutation, slot, link and root words)",
                        "exploration is bounded: seeded random / PCT schedules and every single preemption of 2-thread programs over 7 tree-shape families; 1-2 operations per thread",
                        "values carry their id in every word, so a torn or null value is recognisable"]
    run_conc(chk, prop, tier)
    return chk.finish()

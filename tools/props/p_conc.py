"""Concurrent properties decided at property level from real executions under the deterministic scheduler (concdrv) judged by
TraceLin (TLC): C01 linearizable point operations, C04 scans, C06 insert vs node-version set, C08 (quiescent coherence after
concurrent histories), C09 termination / no lock left.  M: the concurrent models MC_Conc_* (YkConc) where available."""
import json
from common import Check, seed, log
import lincheck

FAMS = ["border", "full", "two", "empty", "layer", "layerfull", "three"]
# extra families per property: chain = three consecutive borders, the middle one is emptied while its full predecessor splits; pair = interior root over two nearly empty borders (both emptied concurrently, root collapse);
# links = layer-0 border that holds only next-layer links (inserts of short keys land in a border that gave the scan no value)
EXTRA = {"C01": ["pair"], "C08c": ["pair", "chain"], "C09": ["pair", "chain"], "C04": ["links", "pair"], "C06": ["links"], "C10": ["links", "pair"]}


def plan(prop, tier):
    q = tier == "quick"
    s = seed()
    J = []   # (family, sched, extra args)
    if prop in ("C01", "C08c", "C09"):
        for i, fam in enumerate(FAMS + EXTRA.get(prop, [])):
            big = fam == "three"
            J.append((fam, "random", ["scenarios=%d" % ((25 if q else 120) // (3 if big else 1)), "runs=%d" % (12 if q else 30), "threads=2", "opsper=2"]))
            J.append((fam, "pre1", ["scenarios=%d" % ((8 if q else 40) // (2 if big else 1)), "threads=2", "opsper=%d" % (1 if big else 2)]))
            if not big:
                J.append((fam, "pct", ["scenarios=%d" % (12 if q else 60), "runs=%d" % (10 if q else 30), "threads=3", "opsper=2"]))
        # both borders under the interior root emptied at the same time (collapse while the sibling that becomes root is being deleted itself)
        J.append(("pair", "pre1", ["scenarios=%d" % (6 if q else 30), "threads=2", "opsper=2", "directed=4"]))
        J.append(("pair", "pct", ["scenarios=%d" % (6 if q else 30), "runs=%d" % (15 if q else 40), "threads=3", "opsper=2", "directed=4"]))
        # two interior levels: an interior with two children collapses (its survivor is swapped into the grandparent, whose version does
        # not change) while the survivor splits and a third thread descends through the collapsing interior
        J.append(("collapse2", "random", ["scenarios=%d" % (4 if q else 12), "runs=%d" % (60 if q else 300), "threads=3", "opsper=1"]))
        J.append(("collapse2", "pct", ["scenarios=%d" % (4 if q else 12), "runs=%d" % (60 if q else 300), "threads=3", "opsper=1"]))
        # directed: W stops just before it locks the survivor, D stops while it holds the collapsing interior, then W, P, D, P, W, P
        J.append(("collapse2", "pre2", ["scenarios=%d" % (3 if q else 10), "threads=3", "opsper=1"]))
        # a border that has just been created by a split is emptied (and deleted) by another thread: every single preemption of the splitter
        J.append(("splitdrain", "pre1", ["scenarios=%d" % (2 if q else 6), "threads=2", "opsper=1", "premax=%d" % (260 if q else 400)]))
        J.append(("splitdrain", "pct", ["scenarios=%d" % (3 if q else 10), "runs=%d" % (20 if q else 60), "threads=3", "opsper=1"]))
        if prop == "C01":   # inline values: a slot word that holds the value itself
            for fam in ["border", "two", "layer"]:
                J.append((fam, "random", ["scenarios=%d" % (15 if q else 80), "runs=%d" % (12 if q else 30), "threads=2", "opsper=2", "inl=1"]))
                J.append((fam, "pre1", ["scenarios=%d" % (6 if q else 30), "threads=2", "opsper=2", "inl=1"]))
        if prop == "C01":   # lookup of a leaf's greatest key vs removes / re-inserts of other keys of that leaf
            for fam in ["border", "full", "two"]:
                J.append((fam, "pre1", ["scenarios=%d" % (6 if q else 30), "threads=2", "opsper=2", "directed=2"]))
        if prop == "C09":   # scans and cursors must terminate too, whatever splits / layer-root replacements happen under them
            for fam in ["layerfull", "layer", "full", "two"]:
                J.append((fam, "random", ["scenarios=%d" % (15 if q else 60), "runs=%d" % (10 if q else 30), "threads=2", "opsper=2", "scans=25", "iscans=35"]))
                J.append((fam, "pre1", ["scenarios=%d" % (6 if q else 30), "threads=2", "opsper=2", "scans=20", "iscans=40"]))
        if not q:   # free-running real threads on the same scenarios (hardware interleavings)
            for fam in FAMS[:6] + ["pair"]:
                J.append((fam, "free", ["scenarios=300", "runs=40", "threads=3", "opsper=2"]))
    elif prop in ("C04", "C06"):
        for fam in FAMS + EXTRA.get(prop, []):
            big = fam == "three"
            sc = ["scans=35"] if prop == "C04" else ["scans=45"]
            J.append((fam, "random", ["scenarios=%d" % ((25 if q else 120) // (3 if big else 1)), "runs=%d" % (12 if q else 30), "threads=2", "opsper=2"] + sc))
            J.append((fam, "pre1", ["scenarios=%d" % ((8 if q else 40) // (2 if big else 1)), "threads=2", "opsper=%d" % (1 if big else 2)] + sc))
            if not big:
                J.append((fam, "pct", ["scenarios=%d" % (12 if q else 60), "runs=%d" % (10 if q else 30), "threads=3", "opsper=2"] + sc))
        # directed scenarios: reader = scan that ends inside a node (limited / bounded / right-to-left), writer = remove + insert that reuses
        # the freed slot, remove + re-insert, insert + remove; every single preemption
        # scans of one leaf (whole leaf / greatest-key query) vs removes of other keys of the same leaf (reader side of the permutation word)
        for fam in ["border", "full"]:
            J.append((fam, "pre1", ["scenarios=%d" % (6 if q else 30), "threads=2", "opsper=2", "scans=100", "directed=2"]))
        # a full scan while the border it has just read is emptied and unlinked and one of its keys is inserted again (F17)
        J.append(("pair", "pre1", ["scenarios=%d" % (8 if q else 30), "threads=2", "opsper=2", "scans=100", "directed=3"]))
        J.append(("pair", "pct", ["scenarios=%d" % (8 if q else 30), "runs=%d" % (15 if q else 40), "threads=3", "opsper=2", "scans=100", "directed=3"]))
        for fam in ["border", "full", "two", "layer", "layerfull"]:
            J.append((fam, "pre1", ["scenarios=%d" % (10 if q else 40), "threads=2", "opsper=2", "scans=100", "directed=1"]))
            J.append((fam, "pct", ["scenarios=%d" % (10 if q else 40), "runs=%d" % (15 if q else 40), "threads=2", "opsper=2", "scans=100", "directed=1"]))
    elif prop == "C13c":
        J.append(("ddl", "random", ["scenarios=%d" % (60 if q else 300), "runs=%d" % (20 if q else 40), "threads=2", "opsper=2"]))
        J.append(("ddl", "pre1", ["scenarios=%d" % (20 if q else 100), "threads=2", "opsper=2"]))
        J.append(("ddl", "pct", ["scenarios=%d" % (30 if q else 150), "runs=%d" % (15 if q else 30), "threads=3", "opsper=2"]))
    elif prop == "C19c":   # a reader of a leaf decides from ONE load of the permutation word: lookups racing with removes / inserts in the same leaf
        for fam in ["border", "full", "two"]:
            J.append((fam, "random", ["scenarios=%d" % (25 if q else 120), "runs=%d" % (12 if q else 30), "threads=2", "opsper=2"]))
            J.append((fam, "pre1", ["scenarios=%d" % (10 if q else 40), "threads=2", "opsper=2"]))
            # directed: lookup of the leaf's greatest key (last rank) vs removes / re-inserts of other keys of the leaf
            J.append((fam, "pre1", ["scenarios=%d" % (8 if q else 30), "threads=2", "opsper=2", "directed=2"]))
            J.append((fam, "pct", ["scenarios=%d" % (8 if q else 30), "runs=%d" % (10 if q else 30), "threads=3", "opsper=2", "directed=2"]))
            # the same with scans as readers (whole leaf, and greatest-key query right-to-left)
            J.append((fam, "pre1", ["scenarios=%d" % (8 if q else 30), "threads=2", "opsper=2", "scans=100", "directed=2"]))
        # inline values (std::uintptr_t stored in the slot word itself): the slot is never wiped by a remove, readers rely on that
        for fam in ["border", "full"]:
            J.append((fam, "random", ["scenarios=%d" % (20 if q else 100), "runs=%d" % (12 if q else 30), "threads=2", "opsper=2", "inl=1"]))
            J.append((fam, "pre1", ["scenarios=%d" % (8 if q else 30), "threads=2", "opsper=2", "inl=1"]))
            J.append((fam, "pre1", ["scenarios=%d" % (6 if q else 30), "threads=2", "opsper=2", "scans=60", "inl=1", "directed=2"]))
    elif prop == "C15c":
        for fam in ["border", "full", "two", "layer"]:
            J.append((fam, "random", ["scenarios=%d" % (25 if q else 120), "runs=%d" % (12 if q else 30), "threads=2", "opsper=2"]))
            J.append((fam, "pre1", ["scenarios=%d" % (8 if q else 40), "threads=2", "opsper=2"]))
    elif prop == "C12c":   # put report under concurrency: puts racing on the same border / on a border that splits / on a layer root
        for fam in ["border", "full", "two", "layer", "layerfull"]:
            J.append((fam, "random", ["scenarios=%d" % (20 if q else 100), "runs=%d" % (12 if q else 30), "threads=3", "opsper=2", "rep=1", "pputs=80"]))
            J.append((fam, "pre1", ["scenarios=%d" % (6 if q else 30), "threads=2", "opsper=2", "rep=1", "pputs=85"]))
            J.append((fam, "pct", ["scenarios=%d" % (10 if q else 50), "runs=%d" % (12 if q else 30), "threads=3", "opsper=2", "rep=1", "pputs=70"]))
    elif prop == "C10":
        for fam in FAMS + EXTRA.get(prop, []):
            big = fam == "three"
            J.append((fam, "random", ["scenarios=%d" % ((25 if q else 120) // (3 if big else 1)), "runs=%d" % (12 if q else 30), "threads=2", "opsper=2", "iscans=45"]))
            J.append((fam, "pre1", ["scenarios=%d" % ((8 if q else 40) // (2 if big else 1)), "threads=2", "opsper=%d" % (1 if big else 2), "iscans=50"]))
    return ["seed=%d" % s], J


ON = {"C12c": ["REP"], "C13c": ["LIN", "QUIES"], "C15c": ["LIN"], "C19c": ["LIN", "SCAN"], "C01": ["LIN"], "C04": ["LIN", "SCAN"], "C06": ["LIN", "SCAN", "NV"], "C08c": ["LIN", "QUIES"], "C09": ["QUIES"], "C10": ["LIN", "SCAN", "NV"]}
# which failure kinds count for which property (others are somebody else's property and are only noted)
MINE = {"C12c": {"put-report-concurrent"}, "C13c": {"not-linearizable", "quiescent-structure"}, "C15c": {"not-linearizable"}, "C19c": {"not-linearizable", "scan-shape"}, "C01": {"not-linearizable"}, "C04": {"not-linearizable", "scan-shape"}, "C06": {"scan-nv-misses-insert", "scan-nv-empty"},
        "C08c": {"quiescent-structure", "not-linearizable"}, "C09": {"quiescent-structure"}, "C10": {"not-linearizable", "scan-shape", "scan-nv-misses-insert"}}


def run_conc(chk, prop, tier, pkey=None):
    """pkey: the planning key (C08c for the concurrent part of C08)"""
    pk = pkey or prop
    base, jobs = plan(pk, tier)
    nviol = 0
    for ji, (fam, sched, extra) in enumerate(jobs):
        tag = "%s_%s_%s_%d" % (pk, fam, sched, ji)
        tr, runs, aborts, fault = lincheck.drive(chk, base + ["family=" + fam, "sched=" + sched] + extra, tag)
        chk.cov["runs"] = chk.cov.get("runs", 0) + len(runs)
        chk.cov.setdefault("runs_by", {})["%s/%s" % (fam, sched)] = len(runs)
        if runs:
            r0 = json.loads(runs[len(runs) // 2])
            chk.sample({"family": fam, "sched": sched, "prog": r0["prog"], "ops": [{k: o[k] for k in ("t", "op", "st", "inv", "ret") if k in o} for o in r0["ops"]], "steps": r0.get("steps")})
        for a in aborts:
            rp = chk.save_replay("abort_%s.json" % tag, a)
            if prop == "C09":
                kind = "deadlock" if "deadlock" in a else "livelock"
                if chk.violation(kind, "scheduler-driven run did not complete (%s): %s" % (kind, a[:1500]), rp):
                    nviol += 1
            else:
                chk.error("a run did not complete (deadlock/livelock; property C09 decides this): " + a[:400])
        if fault:
            rp = chk.save_replay("fault_%s.json" % tag, fault)
            if chk.violation("fault", "implementation faulted in %s/%s: %s" % (fam, sched, fault), rp):
                nviol += 1
        fails = lincheck.judge(chk, tr, runs, ON[pk], tag)
        for f in fails:
            if f["kind"] not in MINE[pk]:
                chk.notes.append("other-property failure seen: %s in run %s" % (f["kind"], f["h"]))
                continue
            key = lincheck.classify(f)
            rp = chk.save_replay("%s_%s_run%d.json" % (f["kind"], tag, f["h"]), json.dumps({"driver_args": base + ["family=" + fam, "sched=" + sched] + extra, "failure": f["kind"], "info": f["info"], "run": json.loads(f["run"]) if f["run"] else None}, indent=1))
            if chk.violation(key, "%s in %s/%s run %d: %s ... %s" % (f["kind"], fam, sched, f["h"], f["run"][:700], json.dumps(f["info"])[:300]), rp):
                nviol += 1
    return nviol


MODEL_CFGS = {"C01": ["A", "B", "D"], "C04": ["C", "D"], "C06": ["C"], "C09": ["A", "B", "C", "D"], "C08c": ["B", "D"]}


def run_model_and_steps(chk, prop, tier, pkey=None):
    """M: exhaustive interleavings of YkConc (one root border; get / put / unique put / remove / scan at hook grain) for the fixed
    programs of MC_Conc; S: the same programs on the real code under random schedules, every logged access must be the enabled
    model step with the same value (TraceConc).  A step-level rejection is a divergence, not a violation."""
    import os, re
    from common import tlc, tlc_tail, build, run, BUILD
    from tracecheck import write_cfg
    pk = pkey or prop
    progs = MODEL_CFGS.get(pk, [])
    for pg in progs:
        res = tlc("MC_Conc", "MC_Conc_%s.cfg" % pg, workers=8, timeout=900)
        chk.add_tlc(res, "YkConc program %s: all interleavings (LinOK, ScanOK, Quiescent, Termination under WF)" % pg)
        if not res.ok:
            chk.error("YkConc model check %s did not pass (says nothing about the code): %s" % (pg, tlc_tail(res, 12)))
    # root-border split racing with readers (YkConc2): all interleavings, fan-out 3 and 5
    if pk in ("C01", "C09", "C08c"):
        for cfg in (["a", "b", "e"] if tier == "quick" else ["a", "b", "c", "d", "e", "f", "g"]):
            res = tlc("MC_Conc2", "MC_Conc2_%s.cfg" % cfg, workers=8, timeout=900)
            chk.add_tlc(res, "YkConc2 config %s: root border split + new interior root vs 2 readers (LinOK, Quiescent, Termination under WF)" % cfg)
            if not res.ok:
                chk.error("YkConc2 model check %s did not pass (says nothing about the code): %s" % (cfg, tlc_tail(res, 12)))
        # border deletion + collapse of the interior root racing with readers, an insert, another remover (YkConc3): all interleavings
        for cfg in (["a", "c", "d", "e"] if tier == "quick" else ["a", "b", "c", "d", "e", "f", "g"]):
            res = tlc("MC_Conc3", "MC_Conc3_%s.cfg" % cfg, workers=8, timeout=900)
            chk.add_tlc(res, "YkConc3 config %s: border deletion, prev/next unlink, interior root collapse vs 2 other threads (LinOK, CollapseOK, LockOK, Quiescent, Termination under WF)" % cfg)
            if not res.ok:
                chk.error("YkConc3 model check %s did not pass (says nothing about the code): %s" % (cfg, tlc_tail(res, 12)))
        # border split under an existing interior parent (interior insert), interior delete with shift, and their races with the
        # collapse of the root / creation of a new root (root-lock hand-over of lock_parent) vs readers (YkConc4): all interleavings
        for cfg in (["a", "b", "d"] if tier == "quick" else ["a", "b", "c", "d", "e", "f"]):
            res = tlc("MC_Conc4", "MC_Conc4_%s.cfg" % cfg, workers=8, timeout=900)
            chk.add_tlc(res, "YkConc4 config %s: split under a parent / interior insert / interior shift-delete / collapse + new root vs readers (LinOK, RootOpsOK, Quiescent, Termination under WF)" % cfg)
            if not res.ok:
                chk.error("YkConc4 model check %s did not pass (says nothing about the code): %s" % (cfg, tlc_tail(res, 12)))
        # next layers (YkConc5): descent through a link, creation of a layer, removal of a layer whose root became empty, slot reuse
        for cfg in (["a", "b", "c"] if tier == "quick" else ["a", "b", "c", "d", "e"]):
            res = tlc("MC_Conc5", "MC_Conc5_%s.cfg" % cfg, workers=8, timeout=900)
            chk.add_tlc(res, "YkConc5 config %s: next layers at hook grain vs 2 other threads (LinOK, DescentOK, Quiescent, Termination under WF)" % cfg)
            if not res.ok:
                chk.error("YkConc5 model check %s did not pass (says nothing about the code): %s" % (cfg, tlc_tail(res, 12)))
        # interior split (YkConc6): a full interior root is split by a border split below it, a second border split sees its parent change
        # from P to P' while it waits for P's lock; new root; readers
        for cfg in (["a", "b"] if tier == "quick" else ["a", "b", "c", "d"]):
            res = tlc("MC_Conc6", "MC_Conc6_%s.cfg" % cfg, workers=8, timeout=1500)
            chk.add_tlc(res, "YkConc6 config %s: interior split + new root, parent change under lock_parent, vs readers (LinOK, ParentOK, Quiescent, Termination under WF)" % cfg)
            if not res.ok:
                chk.error("YkConc6 model check %s did not pass (says nothing about the code): %s" % (cfg, tlc_tail(res, 12)))
        # two interior levels (YkConc7): collapse of a non-root interior (swap_child, the grandparent's version does not change) vs split of the
        # survivor vs descents; collapse of the root interior; both collapses at once
        for cfg in (["a", "c", "e"] if tier == "quick" else ["a", "b", "c", "d", "e", "f", "g"]):
            res = tlc("MC_Conc7", "MC_Conc7_%s.cfg" % cfg, workers=8, timeout=1500)
            chk.add_tlc(res, "YkConc7 config %s: two interior levels, collapse of an inner interior / of the root / of both vs split vs descents (LinOK, SwapOK, RootOpsOK, Quiescent, Termination under WF)" % cfg)
            if not res.ok:
                chk.error("YkConc7 model check %s did not pass (says nothing about the code): %s" % (cfg, tlc_tail(res, 12)))
        run_steps2(chk, prop, tier, pk)
        run_steps3(chk, prop, tier, pk)
        run_steps4(chk, prop, tier, pk)
        run_steps5(chk, prop, tier, pk)
        run_steps6(chk, prop, tier, pk)
        run_steps7(chk, prop, tier, pk)
    if pk == "C10":
        # cursor (iscan_open + iscan_next until the end, with its node-version callback) over 2-3 borders vs split, interior insert, collapse,
        # insert, remove, unlink + re-insert (YkConc4 programs k-n, p)
        for cfg in (["k", "m"] if tier == "quick" else ["k", "l", "m", "n", "p"]):
            res = tlc("MC_Conc4", "MC_Conc4_%s.cfg" % cfg, workers=12, timeout=2400)
            chk.add_tlc(res, "YkConc4 config %s: cursor with node-version callback over 2-3 borders vs split / collapse / insert / remove (ScanOK, NvOK, LinOK, Quiescent, Termination under WF)" % cfg)
            if not res.ok:
                chk.error("YkConc4 model check %s did not pass (says nothing about the code): %s" % (cfg, tlc_tail(res, 12)))
        run_steps4(chk, prop, tier, pk, progs=STEP4_ISCAN[:2] if tier == "quick" else STEP4_ISCAN)
        # the cursor ACROSS A NEXT-LAYER LINK (YkConc9): stack of two layers, the layer vanishes / is re-created / its link slot is reused under it
        for cfg in (["a", "b"] if tier == "quick" else ["a", "b", "c", "d", "e", "f"]):
            res = tlc("MC_Conc9", "MC_Conc9_%s.cfg" % cfg, workers=12, timeout=1500)
            chk.add_tlc(res, "YkConc9 config %s: cursor across a next-layer link vs layer removal / creation / slot reuse (ScanOK, NvOK, LinOK, DescentOK, Quiescent, Termination under WF)" % cfg)
            if not res.ok:
                chk.error("YkConc9 model check %s did not pass (says nothing about the code): %s" % (cfg, tlc_tail(res, 12)))
        run_steps8(chk, prop, tier, pk, cursor=True)
        return
    if pk in ("C04", "C06"):
        # scans over several borders collecting (version, node) pairs vs splits, interior insert, collapse, removes (YkConc4 programs g-j)
        for cfg in ((["g", "i", "o", "q"] if pk == "C04" else ["g", "h", "t"]) if tier == "quick" else ["g", "h", "i", "j", "o", "q", "r", "s", "t"]):
            res = tlc("MC_Conc4", "MC_Conc4_%s.cfg" % cfg, workers=12, timeout=1500)
            chk.add_tlc(res, "YkConc4 config %s: full scan with node-version collection over 2-3 borders vs split / collapse / insert / remove (ScanOK, NvOK, LinOK, Quiescent, Termination under WF)" % cfg)
            if not res.ok:
                chk.error("YkConc4 model check %s did not pass (says nothing about the code): %s" % (cfg, tlc_tail(res, 12)))
        run_steps4(chk, prop, tier, pk, progs=STEP4_SCAN[:2] if tier == "quick" else STEP4_SCAN)
        # scans THROUGH A NEXT-LAYER LINK (YkConc8 = YkConc5 + scan / scan_border with the link branch): the layer vanishes, is created, its root
        # is replaced under the scanner; every failure of the nested scan sends layer 0 back to its border with what it pushed cleaned up
        for cfg in (["a", "d"] if tier == "quick" else ["a", "b", "c", "d", "e", "f"]):
            res = tlc("MC_Conc8", "MC_Conc8_%s.cfg" % cfg, workers=12, timeout=1500)
            chk.add_tlc(res, "YkConc8 config %s: full scan through a next-layer link vs layer removal / creation / slot reuse (ScanOK, NvOK, LinOK, DescentOK, Quiescent, Termination under WF)" % cfg)
            if not res.ok:
                chk.error("YkConc8 model check %s did not pass (says nothing about the code): %s" % (cfg, tlc_tail(res, 12)))
        run_steps8(chk, prop, tier, pk)
    exe = build("stepdrv", ["stepdrv.cpp"], sessions=16)
    init = {"A": "{1, 2}", "B": "{1, 2}", "C": "{1, 2}", "D": "{1}"}
    nruns = 40 if tier == "quick" else 400
    for pg in progs:
        rc, out, err = run([exe, "prog=" + pg, "runs=%d" % nruns, "seed=%d" % seed()], timeout=300)
        lines = out.splitlines()
        if rc != 0 or any('"e":"abort"' in l for l in lines[-2:]):
            chk.notes.append("stepdrv %s did not complete: %s" % (pg, (lines[-1] if lines else err)[:200]))
            continue
        if lines and '"op":"fault"' in lines[-1]:
            chk.violation("fault", "implementation faulted in step-level run of program %s: %s" % (pg, lines[-1]), chk.save_replay("fault_step_%s.ndjson" % pg, "\n".join(lines[-30:])))
            continue
        tr = os.path.join(BUILD, "traces", "step_%s_%s.ndjson" % (pk, pg))
        open(tr, "w").write(out)
        cfg = write_cfg(os.path.join(BUILD, "cfg", "tc_%s_%s.cfg" % (pk, pg)), constants={"Threads": "{1, 2, 3}", "Keys": "{1, 2, 3}", "F": 15, "InitKeys": init[pg],
                        "BUGGY_F1": "FALSE", "Prog": "<- Prog" + pg}, invariants=["LinOK", "ScanOK"], constraint="Record")
        res = tlc("TraceConc", cfg, env={"TRACE": tr}, workers=1, timeout=600, deque=True)
        chk.add_tlc(res, "step-level conformance program %s (%d runs, %d events)" % (pg, nruns, len(lines)))
        if res.ok:
            chk.traces += nruns
            chk.cov["step_events_conforming"] = chk.cov.get("step_events_conforming", 0) + len(lines)
        elif res.violated in ("LinOK", "ScanOK"):
            # the model's own property fails on a state reached by following the real execution step by step
            rp = chk.save_replay("step_%s_%s.txt" % (pg, res.violated), tlc_tail(res, 60))
            chk.violation("step-trace-" + res.violated, "%s violated on a real execution of program %s followed step by step in YkConc" % (res.violated, pg), rp)
        else:
            m = re.search(r'<<"STUCK", (\d+)', res.out)
            at = int(m.group(1)) if m else 0
            chk.cov["divergences"] = chk.cov.get("divergences", 0) + 1
            log("DIVERGENCE property=%s at=step-level program %s event %d: %s (the code's access sequence differs from YkConc; not a violation)" % (
                prop, pg, at, lines[at - 1][:200] if 0 < at <= len(lines) else ""))


STEP2 = [(15, 30, 2), (15, 15, 16), (31, 31, 30), (1, 2, 18), (17, 16, 17), (19, 18, 20)]


def run_steps2(chk, prop, tier, pk):
    """S: the root-border split of YkConc2 on the real code (fan-out 15) under random and PCT schedules; every logged access of
    L, R, P, the root pointer and the root lock must be the enabled model step with the same value (TraceConc2); LinOK and
    Quiescent are evaluated on every state of the accepted executions."""
    import os, re
    from common import tlc, tlc_tail, build, run, BUILD
    from tracecheck import write_cfg
    exe = build("stepdrv2", ["stepdrv2.cpp"], sessions=16)
    nruns = 15 if tier == "quick" else 150
    for (nk, g1, g2) in (STEP2[:4] if tier == "quick" else STEP2):
        out = ""
        bad = False
        for sched in ("random", "pct"):
            rc, o, err = run([exe, "new=%d" % nk, "get=%d,%d" % (g1, g2), "runs=%d" % nruns, "seed=%d" % seed(), "sched=" + sched], timeout=300)
            lines = o.splitlines()
            if lines and '"op":"fault"' in lines[-1]:
                chk.violation("fault", "implementation faulted in step-level split run new=%d: %s" % (nk, lines[-1]), chk.save_replay("fault_step2_%d.ndjson" % nk, "\n".join(lines[-30:])))
                bad = True
                break
            if rc != 0 or any('"e":"abort"' in l for l in lines[-2:]):
                chk.notes.append("stepdrv2 new=%d did not complete: %s" % (nk, (lines[-1] if lines else err)[:200]))
                bad = True
                break
            out += o
        if bad:
            continue
        lines = out.splitlines()
        tr = os.path.join(BUILD, "traces", "step2_%s_%d_%d_%d.ndjson" % (pk, nk, g1, g2))
        open(tr, "w").write(out)
        cfg = write_cfg(os.path.join(BUILD, "cfg", "tc2_%s_%d.cfg" % (pk, nk)), constants={"F": 15, "Readers": "{1, 2}", "NewKey": nk, "GetKeys": "<- GKEnv",
                        "NO_SPLIT_BIT": "FALSE", "NO_FINAL_CHECK": "FALSE"}, invariants=["LinOK", "Quiescent"], constraint="Record")
        res = tlc("TraceConc2", cfg, env={"TRACE": tr, "GK1": str(g1), "GK2": str(g2)}, workers=1, timeout=600, deque=True)
        chk.add_tlc(res, "step-level conformance of the root border split, insert %d vs get %d, get %d (%d runs, %d events)" % (nk, g1, g2, 2 * nruns, len(lines)))
        if res.ok:
            chk.traces += 2 * nruns
            chk.cov["step_events_conforming"] = chk.cov.get("step_events_conforming", 0) + len(lines)
        elif res.violated in ("LinOK", "Quiescent"):
            rp = chk.save_replay("step2_%d_%s.txt" % (nk, res.violated), tlc_tail(res, 60))
            chk.violation("step-trace-" + res.violated, "%s violated on a real execution of the root border split (insert %d) followed step by step in YkConc2" % (res.violated, nk), rp)
        else:
            m = re.search(r'<<"STUCK", (\d+)', res.out)
            at = int(m.group(1)) if m else 0
            chk.cov["divergences"] = chk.cov.get("divergences", 0) + 1
            log("DIVERGENCE property=%s at=step-level split insert %d event %d: %s (the code's access sequence differs from YkConc2; not a violation)" % (
                prop, nk, at, lines[at - 1][:200] if 0 < at <= len(lines) else ""))


STEP3 = [("rem:18,get:18,get:2", "2,4", "18"), ("rem:18,rem:2,get:2", "2", "18"), ("rem:2,get:18,put:1", "2", "18,20"), ("rem:18,put:20,get:20", "2,4", "18"),
         ("rem:18,rem:2,put:5", "2", "18"), ("rem:18,put:4,rem:2", "2,4", "18"), ("rem:18,rem:18,put:18", "2,4", "18")]


def run_steps3(chk, prop, tier, pk):
    """S: border deletion + interior root collapse of YkConc3 on the real code (fan-out 15) under random and PCT schedules; every logged
    access must be the enabled model step with the same value (TraceConc3); LinOK, CollapseOK, LockOK and Quiescent are evaluated on
    every state of the accepted executions."""
    import os, re
    from common import tlc, tlc_tail, build, run, BUILD
    from tracecheck import write_cfg
    exe = build("stepdrv3", ["stepdrv3.cpp"], sessions=16)
    nruns = 15 if tier == "quick" else 150
    for pi, (prog, il, ir) in enumerate(STEP3[:4] if tier == "quick" else STEP3):
        out = ""
        bad = False
        for sched in ("random", "pct"):
            rc, o, err = run([exe, "prog=" + prog, "initL=" + il, "initR=" + ir, "runs=%d" % nruns, "seed=%d" % seed(), "sched=" + sched], timeout=300)
            lines = o.splitlines()
            if lines and '"op":"fault"' in lines[-1]:
                chk.violation("fault", "implementation faulted in step-level collapse run %s: %s" % (prog, lines[-1]), chk.save_replay("fault_step3_%d.ndjson" % pi, "\n".join(lines[-30:])))
                bad = True
                break
            if rc != 0 or any('"e":"abort"' in x for x in lines[-2:]):
                if prop == "C09" and any('"e":"abort"' in x for x in lines[-2:]):
                    chk.violation("deadlock", "step-level collapse run %s did not complete: %s" % (prog, lines[-1][:300]), chk.save_replay("abort_step3_%d.ndjson" % pi, "\n".join(lines[-200:])))
                else:
                    chk.notes.append("stepdrv3 %s did not complete: %s" % (prog, (lines[-1] if lines else err)[:200]))
                bad = True
                break
            out += o if not out else "\n".join(lines[1:]) + "\n"     # one meta line per file
        if bad:
            continue
        lines = out.splitlines()
        tr = os.path.join(BUILD, "traces", "step3_%s_%d.ndjson" % (pk, pi))
        open(tr, "w").write(out)
        cfg = write_cfg(os.path.join(BUILD, "cfg", "tc3_%s_%d.cfg" % (pk, pi)), constants={"F": 15, "Keys": "{1, 2, 4, 5, 18, 20}", "Threads": "{0, 1, 2}", "Prog": "<- ProgT",
                        "InitL": "<- InitLT", "InitR": "<- InitRT", "NO_DEL_FLAG": "FALSE", "NO_P_DEL": "FALSE", "LEAK_PREV_LOCK": "FALSE", "STALE_LINKS": "FALSE"},
                        invariants=["LinOK", "CollapseOK", "LockOK", "Quiescent"], constraint="Record")
        res = tlc("TraceConc3", cfg, env={"TRACE": tr}, workers=1, timeout=600, deque=True)
        chk.add_tlc(res, "step-level conformance of border deletion / root collapse, programs %s on L={%s} R={%s} (%d runs, %d events)" % (prog, il, ir, 2 * nruns, len(lines)))
        if res.ok:
            chk.traces += 2 * nruns
            chk.cov["step_events_conforming"] = chk.cov.get("step_events_conforming", 0) + len(lines)
        elif res.violated in ("LinOK", "CollapseOK", "LockOK", "Quiescent"):
            rp = chk.save_replay("step3_%d_%s.txt" % (pi, res.violated), tlc_tail(res, 60))
            chk.violation("step-trace-" + res.violated, "%s violated on a real execution of border deletion / root collapse (%s) followed step by step in YkConc3" % (res.violated, prog), rp)
        else:
            m = re.search(r'<<"STUCK", (\d+)', res.out)
            at = int(m.group(1)) if m else 0
            chk.cov["divergences"] = chk.cov.get("divergences", 0) + 1
            log("DIVERGENCE property=%s at=step-level collapse %s event %d: %s (the code's access sequence differs from YkConc3; not a violation)" % (
                prop, prog, at, lines[at - 1][:200] if 0 < at <= len(lines) else ""))


STEP4 = [("put:21,get:32,get:21", 2), ("put:21,rem:2,get:32", 2), ("put:5,rem:18,get:16", 1), ("put:34,rem:2,get:34", 2), ("put:21,rem:2,get:18", 2), ("put:1,get:2,get:17", 1)]
STEP4_ISCAN = [("put:21,iscan:0,rem:2", 2), ("put:5,iscan:0,rem:18", 1), ("put:34,iscan:0,get:34", 2), ("put:21,iscan:0,iscan:0", 2)]
STEP4_SCAN = [("put:21,scan:0,rem:2", 2), ("put:34,rscan:0,rem:2", 2), ("put:5,scan:0,rem:18", 1), ("put:34,scan:0,get:34", 2), ("put:21,scan:0,scan:0", 2), ("put:21,rscan:0,rem:33", 2)]


def run_steps4(chk, prop, tier, pk, progs=None):
    """S: border split under an existing parent / interior insert / interior shift-delete / collapse vs new root of YkConc4 on the real
    code (fan-out 15) under random and PCT schedules; every logged access must be the enabled model step with the same value
    (TraceConc4); LinOK, RootOpsOK and Quiescent are evaluated on every state of the accepted executions."""
    import os, re
    from common import tlc, tlc_tail, build, run, BUILD
    from tracecheck import write_cfg
    exe = build("stepdrv4", ["stepdrv4.cpp"], sessions=16)
    nruns = 12 if tier == "quick" else 120
    keys = "{" + ", ".join(str(i) for i in range(1, 36)) + "}"
    for pi, (prog, full) in enumerate(progs or (STEP4[:3] if tier == "quick" else STEP4)):
        out = ""
        bad = False
        for sched in ("random", "pct"):
            rc, o, err = run([exe, "prog=" + prog, "full=%d" % full, "runs=%d" % nruns, "seed=%d" % seed(), "sched=" + sched], timeout=300)
            lines = o.splitlines()
            if lines and '"op":"fault"' in lines[-1]:
                chk.violation("fault", "implementation faulted in step-level split/collapse run %s: %s" % (prog, lines[-1]), chk.save_replay("fault_step4_%d.ndjson" % pi, "\n".join(lines[-30:])))
                bad = True
                break
            if rc != 0 or any('"e":"abort"' in x for x in lines[-2:]):
                if prop == "C09" and any('"e":"abort"' in x for x in lines[-2:]):
                    chk.violation("deadlock", "step-level split/collapse run %s did not complete: %s" % (prog, lines[-1][:300]), chk.save_replay("abort_step4_%d.ndjson" % pi, "\n".join(lines[-200:])))
                else:
                    chk.notes.append("stepdrv4 %s did not complete: %s" % (prog, (lines[-1] if lines else err)[:200]))
                bad = True
                break
            out += o if not out else "\n".join(lines[1:]) + "\n"
        if bad:
            continue
        lines = out.splitlines()
        tr = os.path.join(BUILD, "traces", "step4_%s_%d.ndjson" % (pk, pi))
        open(tr, "w").write(out)
        cfg = write_cfg(os.path.join(BUILD, "cfg", "tc4_%s_%d.cfg" % (pk, pi)), constants={"F": 15, "Keys": keys, "Threads": "{0, 1, 2}", "Prog": "<- ProgT",
                        "Init1": "{2}", "Init2": "{18}", "UNLOCK_BEFORE_PARENT": "FALSE", "NO_INS_ON_INSERT": "FALSE", "NO_INS_ON_DELETE": "FALSE",
                        "SCAN_NO_FINAL": "FALSE", "SCAN_NO_ENTRY_CHECK": "FALSE", "SCAN_DUP": "FALSE", "ISCAN_NO_REWIND": "FALSE", "SCAN_FRESH_VERSION": "FALSE", "LATE_PARENT": "FALSE"},
                        invariants=["LinOK", "ScanOK", "NvOK", "RootOpsOK", "Quiescent"], constraint="Record")
        res = tlc("TraceConc4", cfg, env={"TRACE": tr}, workers=1, timeout=600, deque=True)
        chk.add_tlc(res, "step-level conformance of split under a parent / interior insert, shift-delete / collapse vs new root, programs %s, border %d full (%d runs, %d events)" % (prog, full, 2 * nruns, len(lines)))
        if res.ok:
            chk.traces += 2 * nruns
            chk.cov["step_events_conforming"] = chk.cov.get("step_events_conforming", 0) + len(lines)
        elif res.violated in ("LinOK", "ScanOK", "NvOK", "RootOpsOK", "Quiescent"):
            rp = chk.save_replay("step4_%d_%s.txt" % (pi, res.violated), tlc_tail(res, 60))
            chk.violation("step-trace-" + res.violated, "%s violated on a real execution (%s) followed step by step in YkConc4" % (res.violated, prog), rp)
        else:
            m = re.search(r'<<"STUCK", (\d+)', res.out)
            at = int(m.group(1)) if m else 0
            chk.cov["divergences"] = chk.cov.get("divergences", 0) + 1
            log("DIVERGENCE property=%s at=step-level split/collapse %s event %d: %s (the code's access sequence differs from YkConc4; not a violation)" % (
                prop, prog, at, lines[at - 1][:200] if 0 < at <= len(lines) else ""))


STEP5 = [("rem:101,get:101,put:102", "1,100", "101"), ("put:101,put:102,get:101", "1", ""), ("rem:101,put:2,get:101", "1", "101"),
         ("rem:101,rem:102,put:100", "1,100", "101,102"), ("rem:101,put:101,get:101", "1", "101"), ("put:102,rem:101,get:102", "1,2", "101")]


def run_steps5(chk, prop, tier, pk):
    """S: next layers of YkConc5 on the real code (fan-out 15): descent through a link, layer creation, removal of a layer whose root
    became empty, reuse of the link's slot, under random and PCT schedules; every logged access must be the enabled model step with the
    same value (TraceConc5); LinOK, DescentOK and Quiescent are evaluated on every state of the accepted executions."""
    import os, re
    from common import tlc, tlc_tail, build, run, BUILD
    from tracecheck import write_cfg
    exe = build("stepdrv5", ["stepdrv5.cpp"], sessions=16)
    nruns = 15 if tier == "quick" else 150
    for pi, (prog, i0, i1) in enumerate(STEP5[:4] if tier == "quick" else STEP5):
        out = ""
        bad = False
        for sched in ("random", "pct"):
            rc, o, err = run([exe, "prog=" + prog, "init0=" + i0, "init1=" + i1, "runs=%d" % nruns, "seed=%d" % seed(), "sched=" + sched], timeout=300)
            lines = o.splitlines()
            if lines and '"op":"fault"' in lines[-1]:
                chk.violation("fault", "implementation faulted in step-level layer run %s: %s" % (prog, lines[-1]), chk.save_replay("fault_step5_%d.ndjson" % pi, "\n".join(lines[-30:])))
                bad = True
                break
            if rc != 0 or any('"e":"abort"' in x for x in lines[-2:]):
                if prop == "C09" and any('"e":"abort"' in x for x in lines[-2:]):
                    chk.violation("deadlock", "step-level layer run %s did not complete: %s" % (prog, lines[-1][:300]), chk.save_replay("abort_step5_%d.ndjson" % pi, "\n".join(lines[-200:])))
                else:
                    chk.notes.append("stepdrv5 %s did not complete: %s" % (prog, (lines[-1] if lines else err)[:200]))
                bad = True
                break
            out += o if not out else "\n".join(lines[1:]) + "\n"
        if bad:
            continue
        lines = out.splitlines()
        tr = os.path.join(BUILD, "traces", "step5_%s_%d.ndjson" % (pk, pi))
        open(tr, "w").write(out)
        cfg = write_cfg(os.path.join(BUILD, "cfg", "tc5_%s_%d.cfg" % (pk, pi)), constants={"F": 15, "Keys": "{1, 2, 100, 101, 102}", "Threads": "{0, 1, 2}", "Prog": "<- ProgT",
                        "Init0": "{1}", "Init1": "{}", "NO_CHILD_ROOT_CLEAR": "FALSE", "NO_DESCENT_RECHECK": "FALSE"},
                        invariants=["LinOK", "DescentOK", "B0NonEmpty", "Quiescent"], constraint="Record")
        res = tlc("TraceConc5", cfg, env={"TRACE": tr}, workers=1, timeout=600, deque=True)
        chk.add_tlc(res, "step-level conformance of next layers (descent, layer creation / removal, slot reuse), programs %s on B0={%s} layer={%s} (%d runs, %d events)" % (prog, i0, i1, 2 * nruns, len(lines)))
        if res.ok:
            chk.traces += 2 * nruns
            chk.cov["step_events_conforming"] = chk.cov.get("step_events_conforming", 0) + len(lines)
        elif res.violated in ("LinOK", "DescentOK", "Quiescent"):
            rp = chk.save_replay("step5_%d_%s.txt" % (pi, res.violated), tlc_tail(res, 60))
            chk.violation("step-trace-" + res.violated, "%s violated on a real execution (%s) followed step by step in YkConc5" % (res.violated, prog), rp)
        else:
            m = re.search(r'<<"STUCK", (\d+)', res.out)
            at = int(m.group(1)) if m else 0
            chk.cov["divergences"] = chk.cov.get("divergences", 0) + 1
            log("DIVERGENCE property=%s at=step-level layers %s event %d: %s (the code's access sequence differs from YkConc5; not a violation)" % (
                prop, prog, at, lines[at - 1][:200] if 0 < at <= len(lines) else ""))


STEP8 = [("scan:0,rem:101,put:102", "1,100", "101"), ("scan:0,rem:101,put:101", "1,100", "101"), ("scan:0,put:102,rem:1", "1,100", "101"), ("scan:0,rem:101,put:2", "1,100", "101"),
         ("scan:0,scan:0,put:102", "1,100", ""), ("scan:0,put:2,put:100", "1,100", "101")]


STEP9 = [("iscan:0,rem:101,put:102", "1,100", "101"), ("iscan:0,put:102,rem:1", "1,100", "101"), ("iscan:0,rem:101,put:101", "1,100", "101"), ("iscan:0,rem:101,put:2", "1,100", "101"),
         ("iscan:0,iscan:0,put:102", "1,100", ""), ("iscan:0,put:2,put:100", "1,100", "101"), ("iscan:0,scan:0,rem:101", "1,100", "101,102")]


def run_steps8(chk, prop, tier, pk, cursor=False):
    """S: full scans through a next-layer link (YkConc8) / the cursor across the link (YkConc9, cursor=True) on the real code (fan-out 15)
    under random and PCT schedules; every logged access must be the enabled model step with the same value (TraceConc8 / TraceConc9);
    ScanOK, NvOK, LinOK, DescentOK and Quiescent are evaluated on every state of the accepted executions."""
    import os, re
    from common import tlc, tlc_tail, build, run, BUILD
    from tracecheck import write_cfg
    exe = build("stepdrv5", ["stepdrv5.cpp"], sessions=16)
    nruns = 20 if tier == "quick" else 150
    PROGS, module, what = (STEP9, "TraceConc9", "the cursor across a next-layer link") if cursor else (STEP8, "TraceConc8", "scans through a next-layer link")
    for pi, (prog, i0, i1) in enumerate(PROGS[:3] if tier == "quick" else PROGS):
        out = ""
        bad = False
        for sched in ("random", "pct"):
            rc, o, err = run([exe, "prog=" + prog, "init0=" + i0, "init1=" + i1, "runs=%d" % nruns, "seed=%d" % seed(), "sched=" + sched], timeout=300)
            lines = o.splitlines()
            if lines and '"op":"fault"' in lines[-1]:
                chk.violation("fault", "implementation faulted in step-level layer-scan run %s: %s" % (prog, lines[-1]), chk.save_replay("fault_step8_%d.ndjson" % pi, "\n".join(lines[-30:])))
                bad = True
                break
            if rc != 0 or any('"e":"abort"' in x for x in lines[-2:]):
                chk.error("stepdrv5 (scan) %s did not complete: %s" % (prog, (lines[-1] if lines else err)[:200]))
                bad = True
                break
            out += o if not out else "\n".join(lines[1:]) + "\n"
        if bad:
            continue
        lines = out.splitlines()
        tr = os.path.join(BUILD, "traces", "step%s_%s_%d.ndjson" % ("9" if cursor else "8", pk, pi))
        open(tr, "w").write(out)
        consts = {"F": 15, "Keys": "{1, 2, 100, 101, 102}", "Threads": "{0, 1, 2}", "Prog": "<- ProgT",
                  "Init0": "{1}", "Init1": "{}", "NO_CHILD_ROOT_CLEAR": "FALSE", "NO_DESCENT_RECHECK": "FALSE", "SCAN_NO_CLEANUP": "FALSE"}
        if cursor:
            consts["ISCAN_NO_REWIND"] = "FALSE"
        cfg = write_cfg(os.path.join(BUILD, "cfg", "tc%s_%s_%d.cfg" % ("9" if cursor else "8", pk, pi)), constants=consts,
                        invariants=["LinOK", "ScanOK", "NvOK", "DescentOK", "B0NonEmpty", "Quiescent"], constraint="Record")
        res = tlc(module, cfg, env={"TRACE": tr}, workers=1, timeout=600, deque=True)
        chk.add_tlc(res, "step-level conformance of %s, programs %s on B0={%s} layer={%s} (%d runs, %d events)" % (what, prog, i0, i1, 2 * nruns, len(lines)))
        if res.ok:
            chk.traces += 2 * nruns
            chk.cov["step_events_conforming"] = chk.cov.get("step_events_conforming", 0) + len(lines)
        elif res.violated in ("LinOK", "ScanOK", "NvOK", "DescentOK", "Quiescent"):
            rp = chk.save_replay("step8_%d_%s.txt" % (pi, res.violated), tlc_tail(res, 60))
            chk.violation("step-trace-" + res.violated, "%s violated on a real execution (%s) followed step by step in YkConc8" % (res.violated, prog), rp)
        else:
            m = re.search(r'<<"STUCK", (\d+)', res.out)
            at = int(m.group(1)) if m else 0
            chk.cov["divergences"] = chk.cov.get("divergences", 0) + 1
            log("DIVERGENCE property=%s at=step-level layer scan %s event %d: %s (the code's access sequence differs from YkConc8; not a violation)" % (
                prop, prog, at, lines[at - 1][:200] if 0 < at <= len(lines) else ""))


STEP6 = [("put:1.5,put:12.85,get:16.10", "1,12"), ("put:1.5,get:12.40,get:1.5", "1"), ("put:12.85,get:12.80,get:2.10", "12"), ("put:1.5,put:16.90,get:16.90", "1"),
         ("put:9.5,put:9.85,get:9.40", "9"), ("put:8.85,put:9.5,get:1.10", "8,9")]


def run_steps6(chk, prop, tier, pk):
    """S: interior split of YkConc6 on the real code (fan-out 15, full interior root over 16 borders) under random and PCT schedules; every
    logged access must be the enabled model step with the same value (TraceConc6); LinOK, ParentOK and Quiescent are evaluated on every
    state of the accepted executions."""
    import os, re
    from common import tlc, tlc_tail, build, run, BUILD
    from tracecheck import write_cfg
    exe = build("stepdrv6", ["stepdrv6.cpp"], sessions=16)
    nruns = 8 if tier == "quick" else 80
    for pi, (prog, fill) in enumerate(STEP6[:3] if tier == "quick" else STEP6):
        out = ""
        bad = False
        for sched in ("random", "pct"):
            rc, o, err = run([exe, "prog=" + prog, "fill=" + fill, "runs=%d" % nruns, "seed=%d" % seed(), "sched=" + sched], timeout=300)
            lines = o.splitlines()
            if lines and '"op":"fault"' in lines[-1]:
                chk.violation("fault", "implementation faulted in step-level interior-split run %s: %s" % (prog, lines[-1]), chk.save_replay("fault_step6_%d.ndjson" % pi, "\n".join(lines[-30:])))
                bad = True
                break
            if rc != 0 or any('"e":"abort"' in x for x in lines[-2:]):
                if prop == "C09" and any('"e":"abort"' in x for x in lines[-2:]):
                    chk.violation("deadlock", "step-level interior-split run %s did not complete: %s" % (prog, lines[-1][:300]), chk.save_replay("abort_step6_%d.ndjson" % pi, "\n".join(lines[-200:])))
                else:
                    chk.notes.append("stepdrv6 %s did not complete: %s" % (prog, (lines[-1] if lines else err)[:200]))
                bad = True
                break
            out += o if not out else "\n".join(lines[1:]) + "\n"
        if bad:
            continue
        lines = out.splitlines()
        tr = os.path.join(BUILD, "traces", "step6_%s_%d.ndjson" % (pk, pi))
        open(tr, "w").write(out)
        cfg = write_cfg(os.path.join(BUILD, "cfg", "tc6_%s_%d.cfg" % (pk, pi)), constants={"F": 15, "Keys": "<- KeysT", "Threads": "{0, 1, 2}", "Prog": "<- ProgT", "InitB": "<- InitBT",
                        "NO_PARENT_RECHECK": "FALSE", "NO_SPLIT_MARK": "FALSE"}, invariants=["LinOK", "ParentOK", "Quiescent"], constraint="Record")
        res = tlc("TraceConc6", cfg, env={"TRACE": tr}, workers=1, timeout=900, deque=True)
        chk.add_tlc(res, "step-level conformance of the interior split (full interior root, 16 borders), programs %s, full borders %s (%d runs, %d events)" % (prog, fill, 2 * nruns, len(lines)))
        if res.ok:
            chk.traces += 2 * nruns
            chk.cov["step_events_conforming"] = chk.cov.get("step_events_conforming", 0) + len(lines)
        elif res.violated in ("LinOK", "ParentOK", "Quiescent"):
            rp = chk.save_replay("step6_%d_%s.txt" % (pi, res.violated), tlc_tail(res, 60))
            chk.violation("step-trace-" + res.violated, "%s violated on a real execution (%s) followed step by step in YkConc6" % (res.violated, prog), rp)
        else:
            m = re.search(r'<<"STUCK", (\d+)', res.out)
            at = int(m.group(1)) if m else 0
            chk.cov["divergences"] = chk.cov.get("divergences", 0) + 1
            log("DIVERGENCE property=%s at=step-level interior split %s event %d: %s (the code's access sequence differs from YkConc6; not a violation)" % (
                prop, prog, at, lines[at - 1][:200] if 0 < at <= len(lines) else ""))

STEP7 = [("rem:31,put:8,get:20", 1, "pre2"), ("rem:31,put:8,rem:20", 1, "pre2"), ("rem:31,put:8,get:20", 1, "random"), ("rem:31,put:8,get:20", 0, "random"),
         ("rem:31,put:31,get:31", 0, "random"), ("rem:31,put:9,put:8", 1, "random"), ("rem:31,put:8,get:20", 1, "pct"), ("rem:31,put:8,put:21", 1, "pre2")]


def run_steps7(chk, prop, tier, pk):
    """S: two interior levels of YkConc7 on the real code (fan-out 15: root interior over an interior with two borders): collapse of the
    inner interior (swap_child) vs split of its survivor vs descents, under random / PCT schedules and the directed schedule pre2; every
    logged access must be the enabled model step with the same value (TraceConc7); LinOK, SwapOK, RootOpsOK and Quiescent are evaluated on
    every state of the accepted executions."""
    import os, re
    from common import tlc, tlc_tail, build, run, BUILD
    from tracecheck import write_cfg
    exe = build("stepdrv7", ["stepdrv7.cpp"], sessions=16)
    nruns = 24 if tier == "quick" else 200
    keys = "{" + ", ".join(str(i) for i in range(1, 100)) + "}"
    for pi, (prog, full, sched) in enumerate(STEP7[:4] if tier == "quick" else STEP7):
        rc, o, err = run([exe, "prog=" + prog, "full=%d" % full, "runs=%d" % nruns, "seed=%d" % seed(), "sched=" + sched], timeout=300)
        lines = o.splitlines()
        if lines and '"op":"fault"' in lines[-1]:
            chk.violation("fault", "implementation faulted in step-level two-level run %s: %s" % (prog, lines[-1]), chk.save_replay("fault_step7_%d.ndjson" % pi, "\n".join(lines[-30:])))
            continue
        if rc != 0 or any('"e":"abort"' in x for x in lines[-2:]):
            if prop == "C09" and any('"e":"abort"' in x for x in lines[-2:]):
                chk.violation("deadlock", "step-level two-level run %s did not complete: %s" % (prog, lines[-1][:300]), chk.save_replay("abort_step7_%d.ndjson" % pi, "\n".join(lines[-200:])))
            else:
                chk.error("stepdrv7 %s did not complete: %s" % (prog, (lines[-1] if lines else err)[:200]))
            continue
        tr = os.path.join(BUILD, "traces", "step7_%s_%d.ndjson" % (pk, pi))
        open(tr, "w").write(o)
        cfg = write_cfg(os.path.join(BUILD, "cfg", "tc7_%s_%d.cfg" % (pk, pi)), constants={"F": 15, "Keys": keys, "Threads": "{0, 1, 2}", "Prog": "<- ProgT",
                        "InitS": "{2}", "InitE": "{18}", "InitR": "{80}", "UNLOCK_BEFORE_PARENT": "FALSE", "NO_INS_ON_INSERT": "FALSE", "NO_INS_ON_DELETE": "FALSE",
                        "NO_CHILD_DEL_CHECK": "FALSE", "NO_PARENT_RECHECK_I": "FALSE"}, invariants=["LinOK", "RootOpsOK", "SwapOK", "Quiescent"], constraint="Record")
        res = tlc("TraceConc7", cfg, env={"TRACE": tr}, workers=1, timeout=900, deque=True)
        nr = sum(1 for x in lines if x.startswith('{"e":"reset"'))
        chk.add_tlc(res, "step-level conformance of two interior levels (inner collapse / swap_child vs split vs descent), programs %s, S %s, schedule %s (%d runs, %d events)" % (prog, "full" if full else "half", sched, nr, len(lines)))
        if res.ok:
            chk.traces += nr
            chk.cov["step_events_conforming"] = chk.cov.get("step_events_conforming", 0) + len(lines)
        elif res.violated in ("LinOK", "RootOpsOK", "SwapOK", "Quiescent"):
            rp = chk.save_replay("step7_%d_%s.txt" % (pi, res.violated), tlc_tail(res, 60))
            chk.violation("step-trace-" + res.violated, "%s violated on a real execution (%s) followed step by step in YkConc7" % (res.violated, prog), rp)
        else:
            m = re.search(r'<<"STUCK", (\d+)', res.out)
            at = int(m.group(1)) if m else 0
            chk.cov["divergences"] = chk.cov.get("divergences", 0) + 1
            log("DIVERGENCE property=%s at=step-level two interior levels %s event %d: %s (the code's access sequence differs from YkConc7; not a violation)" % (
                prop, prog, at, lines[at - 1][:200] if 0 < at <= len(lines) else ""))


def main(prop, tier):
    chk = Check(prop, tier)
    chk.assumptions += ["sequentially consistent executions only: one controlled thread runs at a time, preemption at the verification hooks (every atomic load/store/CAS of version, permutation, slot, link and root words)",
                        "exploration is bounded: seeded random / PCT schedules and every single preemption of 2-thread programs over 7-9 tree-shape families; 1-2 operations per thread",
                        "values carry their id in every word, so a torn or null value is recognisable"]
    run_model_and_steps(chk, prop, tier)
    run_conc(chk, prop, tier)
    return chk.finish()

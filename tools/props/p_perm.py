"""C19 - leaf permutation word.  M: YkPerm state machine exhaustive for F=6 (all reachable orderings);  R: the real
permutation object (64-bit nibble arithmetic) on every (count, rank, free slot) of an ordering family + random walks,
decoded words judged by the sequence operators of YkPerm at F=15 (TracePerm); one word store per update."""
import json
import os
from common import Check, build, run, tlc, tlc_tail, BUILD, seed
from tracecheck import validate


def main(prop, tier):
    chk = Check(prop, tier)
    chk.assumptions += ["the permutation word is read/written with single atomic loads/stores (std::atomic<uint64_t>)",
                        "exhaustive model at F=6; F=15 covered by replay of a seeded ordering family and random walks"]
    res = tlc("YkPerm", "MC_Perm.cfg", workers=8, timeout=300)
    chk.add_tlc(res, "YkPerm exhaustive F=6")
    if not res.ok:
        chk.error("YkPerm model check failed: " + tlc_tail(res, 12))
    if tier == "thorough":
        res = tlc("YkPerm", "MC_Perm8.cfg", workers=12, timeout=900)
        chk.add_tlc(res, "YkPerm exhaustive F=8")
        if not res.ok:
            chk.error("YkPerm F=8 model check failed: " + tlc_tail(res, 12))
    exe = build("permdrv", ["permdrv.cpp"])
    os.makedirs(os.path.join(BUILD, "traces"), exist_ok=True)
    walks, fam = (40, 3) if tier == "quick" else (400, 12)
    tr = os.path.join(BUILD, "traces", "c19.ndjson")
    rc, out, err = run([exe, str(seed()), str(walks), str(fam)], timeout=300)
    if rc != 0:
        chk.error("permdrv exit %d: %s" % (rc, err[-500:]))
        return chk.finish()
    open(tr, "w").write(out)
    lines = out.splitlines()
    for s in lines[:: max(1, len(lines) // 5)][:5]:
        chk.sample(json.loads(s))
    chk.cov["replayed_operations"] = len(lines)
    v = validate(chk, "TracePerm", "TracePerm.cfg", tr, "replay of %d real permutation operations" % len(lines), timeout=900)
    if v["undecided"]:
        chk.error("trace validation undecided: " + v["text"])
    elif not v["accepted"]:
        if v.get("violated") == "Coverage":
            chk.error("replay log does not cover all (op, count, rank) combinations")
        else:
            e = json.loads(v["text"]) if v["text"] else {}
            rp = chk.save_replay("line%d.json" % v["line"], v["text"])
            chk.violation("perm-op=%s" % e.get("op", "?"),
                          "real permutation result differs from YkPerm at log line %d: %s" % (v["line"], v["text"]), rp)
    # last sentence, reader side: lookups in a leaf racing with removes / inserts of other keys in the same leaf (the version word does
    # not count removes, so only "one load of the permutation word per decision" keeps the reader consistent); scheduler-driven
    # real executions, every single preemption, judged by TraceLin
    from props import p_conc
    chk.assumptions.append("reader side of the last sentence: scheduler-driven executions (random + every single preemption of 2-thread programs) on one-border / full-border / two-border trees, judged per key by TraceLin")
    p_conc.run_conc(chk, prop, tier, pkey="C19c")
    return chk.finish()

"""C19 - leaf permutation word.  M: YkPerm state machine exhaustive for F=6 (all reachable orderings);  R: the real
permutation object (64-bit nibble arithmetic) on every (count, rank, free slot) of an ordering family + random walks,
decoded words judged by the sequence operators of YkPerm at F=15 (TracePerm); one word store per update."""
import json
import os
from common import Check, build, run, tlc, tlc_tail, BUILD, seed
from tracecheck import validate


def apalache_inductive(chk):
    import shutil, subprocess, tempfile, time
    here = os.path.dirname(os.path.dirname(os.path.dirname(os.path.abspath(__file__))))
    exe = shutil.which("apalache-mc")
    if not exe:
        chk.notes.append("apalache-mc not found: inductive check of YkPermA (F=15) skipped")
        return
    out = tempfile.mkdtemp(prefix="apa_")
    try:
        for what, args in (("base case", ["--init=Init", "--inv=Valid", "--length=0"]), ("inductive step from any valid permutation", ["--init=IndInit", "--inv=Valid", "--length=1"])):
            t0 = time.time()
            try:
                r = subprocess.run([exe, "check", "--cinit=CInit", "--out-dir=" + out] + args + [os.path.join(here, "spec", "apalache", "YkPermA.tla")], stdout=subprocess.PIPE, stderr=subprocess.STDOUT,
                                   text=True, errors="replace", timeout=600, cwd=out)
            except subprocess.TimeoutExpired:
                chk.notes.append("apalache %s of YkPermA timed out (undecided, supplementary)" % what)
                continue
            ok = "The outcome is: NoError" in r.stdout
            chk.cov.setdefault("apalache", []).append({"what": "YkPermA F=15 " + what, "ok": ok, "wall_s": round(time.time() - t0, 1)})
            if "The outcome is: Error" in r.stdout:
                chk.error("Apalache: Valid is not inductive for YkPermA (%s): %s" % (what, r.stdout[-600:]))
            elif not ok:
                chk.notes.append("apalache %s of YkPermA undecided (tool problem): %s" % (what, r.stdout[-200:].replace("\n", " ")))
    finally:
        shutil.rmtree(out, ignore_errors=True)


def main(prop, tier):
    chk = Check(prop, tier)
    chk.assumptions += ["the permutation word is read/written with single atomic loads/stores (std::atomic<uint64_t>)",
                        "exhaustive TLC model at F=6 (8 in thorough); at F=15 the invariant is shown INDUCTIVE symbolically (Apalache, YkPermA) and the code is replayed on a seeded ordering family and random walks"]
    res = tlc("YkPerm", "MC_Perm.cfg", workers=8, timeout=300)
    chk.add_tlc(res, "YkPerm exhaustive F=6")
    if not res.ok:
        chk.error("YkPerm model check failed: " + tlc_tail(res, 12))
    if tier == "thorough":
        res = tlc("YkPerm", "MC_Perm8.cfg", workers=12, timeout=900)
        chk.add_tlc(res, "YkPerm exhaustive F=8")
        if not res.ok:
            chk.error("YkPerm F=8 model check failed: " + tlc_tail(res, 12))
    # the same invariant as an INDUCTIVE invariant at the code's fan-out 15 (Apalache, symbolic): base case + step from ANY valid permutation.
    # Supplementary: a tool problem (Apalache missing / time-out) is noted, not an error; only a reported counterexample is.
    apalache_inductive(chk)
    exe = build("permdrv", ["permdrv.cpp"])
    os.makedirs(os.path.join(BUILD, "traces"), exist_ok=True)
    walks, fam = (40, 3) if tier == "quick" else (400, 12)
    tr = os.path.join(BUILD, "traces", "c19.ndjson")
    rc, out, err = run([exe, str(seed()), str(walks), str(fam)], timeout=300)
    if rc != 0:
        chk.error("permdrv exit %d: %s" % (rc, err[-500:]))
        return chk.finish()
    open(tr, "w").write(out)
    lines = out.splitlines()
    for s in lines[:: max(1, len(lines) // 5)][:5]:
        chk.sample(json.loads(s))
    chk.cov["replayed_operations"] = len(lines)
    v = validate(chk, "TracePerm", "TracePerm.cfg", tr, "replay of %d real permutation operations" % len(lines), timeout=900)
    if v["undecided"]:
        chk.error("trace validation undecided: " + v["text"])
    elif not v["accepted"]:
        if v.get("violated") == "Coverage":
            chk.error("replay log does not cover all (op, count, rank) combinations")
        else:
            e = json.loads(v["text"]) if v["text"] else {}
            rp = chk.save_replay("line%d.json" % v["line"], v["text"])
            chk.violation("perm-op=%s" % e.get("op", "?"),
                          "real permutation result differs from YkPerm at log line %d: %s" % (v["line"], v["text"]), rp)
    # last sentence, reader side: lookups in a leaf racing with removes / inserts of other keys in the same leaf (the version word does
    # not count removes, so only "one load of the permutation word per decision" keeps the reader consistent); scheduler-driven
    # real executions, every single preemption, judged by TraceLin
    from props import p_conc
    chk.assumptions.append("reader side of the last sentence: scheduler-driven executions (random + every single preemption of 2-thread programs) on one-border / full-border / two-border trees, judged per key by TraceLin")
    p_conc.run_conc(chk, prop, tier, pkey="C19c")
    return chk.finish()

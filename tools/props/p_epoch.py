"""C07 (memory stays valid until leave) and C14 (sessions are exclusive slots) - YkEpoch model + scheduler-driven real executions
with the library's epoch and gc loops as controlled threads, judged by TraceEpoch (TLC)."""
import json
from common import Check, seed, tlc, tlc_tail
import epochcheck

MINE = {"C07": {"freed-while-held", "freed-while-session-active-at-unlink-still-open", "contents-changed-before-leave", "obtained-freed-object"},
        "C14": {"token-not-unique", "capacity-exceeded", "begin-not-published-at-return", "warn-max-unjustified", "lost-cas-unjustified", "cas-on-occupied-slot", "slot-word"},
        "C11": {"retired-twice", "freed-without-retire-or-twice"}}


def model(chk, cfg, what, timeout=1800):
    res = tlc("YkEpoch", cfg, workers=12, timeout=timeout, xmx="16g")
    chk.add_tlc(res, what)
    if not res.ok:
        chk.error("model check %s did not pass (says nothing about the code): %s" % (cfg, tlc_tail(res, 12)))


def run_jobs(chk, prop, jobs, on):
    for cap, sched, extra in jobs:
        tag = "%s_c%d_%s" % (prop, cap, sched)
        tr, runs, aborts, fault, index = epochcheck.drive(chk, cap, ["seed=%d" % seed(), "sched=" + sched] + extra, tag)
        chk.cov["runs"] = chk.cov.get("runs", 0) + len(runs)
        chk.cov.setdefault("runs_by", {})["cap%d/%s" % (cap, sched)] = len(runs)
        if runs:
            r0 = json.loads(runs[len(runs) // 2])
            chk.sample({"cap": cap, "sched": sched, "prog": r0["prog"], "events": r0["events"][:25]})
        for a in aborts:
            chk.error("a run did not complete (deadlock/livelock): " + a[:400])
        if fault:
            rp = chk.save_replay("fault_%s.json" % tag, fault)
            chk.violation("fault", "implementation faulted in %s: %s" % (tag, fault[:1500]), rp)
        for f in epochcheck.judge(chk, tr, runs, index, on, tag):
            if f["kind"] not in MINE[prop]:
                chk.notes.append("other-property mismatch seen: %s" % f["kind"])
                continue
            rp = chk.save_replay("%s_%s_line%d.json" % (f["kind"], tag, f["line"]), json.dumps({"failure": f["kind"], "info": f["info"], "run": json.loads(f["run"]) if f["run"] else None}, indent=1))
            chk.violation(f["kind"], "%s in %s: %s ... info=%s" % (f["kind"], tag, f["run"][:900], json.dumps(f["info"])[:200]), rp)


def main(prop, tier):
    chk = Check(prop, tier)
    q = tier == "quick"
    chk.assumptions += ["sequentially consistent executions: one controlled thread at a time, preemption at every hooked access of the slot / epoch / gc words; "
                        "the relaxed store of the begin epoch is treated as immediately visible",
                        "model: 2-3 workers, 1-2 slots, epochs <= 3..5, 1-2 objects; the epoch thread and the gc thread take one step per load / store"]
    if prop == "C07":
        model(chk, "MC_Epoch_quick.cfg", "YkEpoch (fixed enter): 2 workers, 2 slots, epoch<=3, 1 object")
        if not q:
            model(chk, "MC_Epoch_fix_small.cfg", "YkEpoch: 2 workers, 2 slots, epoch<=4, 1 object")
            model(chk, "MC_Epoch_fix.cfg", "YkEpoch: 2 workers, 2 slots, epoch<=5, 2 objects", timeout=3000)
        n = 1 if q else 4
        jobs = [(4, "random", ["scenarios=%d" % (40 * n), "runs=25", "workers=2", "keys=2"]),
                (4, "pct", ["scenarios=%d" % (30 * n), "runs=20", "workers=2", "keys=2"]),
                (4, "stall", ["scenarios=%d" % (2 * n), "workers=2", "keys=2"]),
                (4, "random", ["scenarios=%d" % (25 * n), "runs=20", "workers=3", "keys=3"])]
        run_jobs(chk, prop, jobs, ["C07"])
    elif prop == "C14":
        model(chk, "MC_Epoch_cap1.cfg", "YkEpoch: 3 workers, capacity 1, epoch<=3")
        if not q:
            model(chk, "MC_Epoch_quick.cfg", "YkEpoch: 2 workers, capacity 2, epoch<=3")
        n = 1 if q else 4
        jobs = []
        for cap in (1, 2, 3):
            jobs.append((cap, "random", ["scenarios=%d" % (30 * n), "runs=20", "workers=3", "keys=1"]))
            jobs.append((cap, "pct", ["scenarios=%d" % (20 * n), "runs=15", "workers=3", "keys=1"]))
        run_jobs(chk, prop, jobs, ["C14"])
    return chk.finish()

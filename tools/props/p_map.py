"""C13 storages (isolation, DDL semantics, unknown-name statuses) and C15 values (bytes, length, alignment, created_value_ptr,
inline words), decided at API level with YkMap: M = MC_Map (isolation as action property), T = mapdrv traces judged by TraceMap.
The concurrent clauses (one winner among concurrent creates/deletes; atomic overwrite vs reader) belong to the concurrent checks."""
from common import Check, seed, tlc, tlc_tail
import seqtrace
from props.p_tree import prof


def main(prop, tier):
    chk = Check(prop, tier)
    chk.assumptions += ["single session, sequential calls", "value bytes are compared through a 64-bit FNV-1a fingerprint + length computed by the driver on both sides",
                        "pointer identity (created_value_ptr == get pointer) compared as logged addresses"]
    q = tier == "quick"
    if prop == "C13":
        res = tlc("MC_Map", "MC_Map.cfg", workers=12, timeout=900, xmx="8g")
        chk.add_tlc(res, "YkMap state machine: isolation / DDL statuses, 3 names x 3 keys")
        if not res.ok:
            chk.error("MC_Map did not pass: " + tlc_tail(res, 12))
        n = 600 if q else 2000
        P = [prof(81, nops=n, pool=25, pddl=22, pput=35, prem=13, pget=15, pscan=10, piscan=5, bigvals=0),
             prof(82, nops=n, pool=40, maxlen=2, alpha=8, pddl=22, pput=35, prem=13, pget=15, pscan=10, piscan=5, bigvals=0),
             prof(83, nops=n, pool=15, pddl=35, pput=30, prem=10, pget=15, pscan=7, piscan=3, bigvals=0, longkeys=0)]
        seqtrace.run_map_profiles(chk, prop, P, ["C13"])
        # concurrent creates / deletes / finds of the same names: exactly one winner = linearizable unique-insert / remove on the directory
        from props import p_conc
        chk.assumptions.append("concurrent DDL: sequentially consistent scheduler-driven executions (see C01)")
        p_conc.run_conc(chk, prop, tier, pkey="C13c")
    else:
        n = 500 if q else 1500
        P = [prof(91, nops=n, pool=20, pddl=6, pput=45, prem=8, pget=25, pscan=10, piscan=6),
             prof(92, nops=n, pool=12, pddl=6, pput=50, prem=5, pget=25, pscan=8, piscan=6, longkeys=0),
             prof(93, nops=n, pool=30, maxlen=2, alpha=8, pddl=6, pput=45, prem=8, pget=25, pscan=10, piscan=6)]
        seqtrace.run_map_profiles(chk, prop, P, ["C15"])
        # overwrite vs concurrent reader: values of different lengths carrying their id in every word; a torn / mixed value is unplaceable
        from props import p_conc
        chk.assumptions.append("atomic overwrite: sequentially consistent scheduler-driven executions (see C01)")
        p_conc.run_conc(chk, prop, tier, pkey="C15c")
    return chk.finish()

"""Sequential, structure-level properties decided with YkTree:
C02 map semantics, C03 scans, C05 node-version sets, C08 coherence, C10 (first sentence) cursor, C12 put report, C20 mem_usage.
M: exhaustive MC_Tree configs (F=3, small key universes).  T: treedrv traces at F=15 judged by TraceTree (TLC)."""
from common import Check, seed
import seqtrace

S = None


def prof(seedoff, **kw):
    d = dict(seed=seed() * 1000 + seedoff)
    d.update(kw)
    return ["%s=%s" % (k, v) for k, v in d.items()]


# property -> (ON set, quick profiles, thorough extra profiles, quick model configs, thorough model configs)
def plans(prop, tier):
    q = tier == "quick"
    n = 350 if q else 900
    if prop == "C02":
        on = ["C02"]
        P = [prof(1, nops=n, pool=80, maxlen=3, alpha=3, pput=45, prem=30, pget=25, pscan=0, piscan=0, pmem=0, pprobe=0, dumpevery=0),
             prof(2, nops=n, pool=60, maxlen=3, alpha=3, mode="prefix", pput=45, prem=30, pget=25, pscan=0, piscan=0, pmem=0, pprobe=0, dumpevery=0),
             prof(3, nops=n + 300, pool=400, maxlen=2, alpha=8, mode="mix", pput=65, prem=10, pget=25, pscan=0, piscan=0, pmem=0, pprobe=0, dumpevery=0, psweep=25),
             prof(5, nops=1100, pool=700, maxlen=6, alpha=8, pput=70, prem=8, pget=20, pscan=0, piscan=0, pmem=0, pprobe=0, dumpevery=0, psweep=12),
             prof(6, nops=n + 400, pool=160, maxlen=3, alpha=8, mode="deep", pput=65, prem=12, pget=23, pscan=0, piscan=0, pmem=0, pprobe=0, dumpevery=0, psweep=15),
             prof(4, nops=n, pool=25, maxlen=9, alpha=2, pput=40, prem=40, pget=20, pscan=0, piscan=0, pmem=0, pprobe=0, dumpevery=0, uniq=50),
             # split sweep: see C08; here for the statuses / values of put, get, remove around every split position
             prof(7, nops=40, pool=20, maxlen=2, alpha=3, pput=45, prem=30, pget=25, pscan=0, piscan=0, pmem=0, pprobe=0, dumpevery=0, splitsweep=1),
             # interior split whose new separator differs from the pivot / its neighbours only in length (full root interior over 16 borders)
             prof(8, nops=40, pool=20, maxlen=2, alpha=3, pput=45, prem=30, pget=25, pscan=0, piscan=0, pmem=0, pprobe=0, dumpevery=0, isplitlen=1)]
        M = ["MC_Tree_struct7.cfg", "MC_Tree_struct9S.cfg"] if q else ["MC_Tree_struct7.cfg", "MC_Tree_struct8L.cfg", "MC_Tree_struct9S.cfg"]
    elif prop == "C03":
        on = ["C03"]
        P = [prof(11, nops=n, pool=70, maxlen=3, alpha=3, pput=35, prem=15, pget=0, pscan=50, piscan=0, pmem=0, pprobe=0, dumpevery=0),
             prof(12, nops=n, pool=60, maxlen=3, alpha=3, mode="prefix", pput=35, prem=15, pget=0, pscan=50, piscan=0, pmem=0, pprobe=0, dumpevery=0),
             prof(13, nops=n, pool=120, maxlen=2, alpha=8, mode="mix", pput=35, prem=15, pget=0, pscan=50, piscan=0, pmem=0, pprobe=0, dumpevery=0),
             prof(14, nops=n, pool=40, maxlen=10, alpha=2, pput=35, prem=15, pget=0, pscan=50, piscan=0, pmem=0, pprobe=0, dumpevery=0),
             prof(15, nops=n + 300, pool=160, maxlen=3, alpha=8, mode="deep", pput=50, prem=8, pget=0, pscan=42, piscan=0, pmem=0, pprobe=0, dumpevery=0, prtl=35)]
        M = ["MC_Tree_scan5.cfg"] if q else ["MC_Tree_scan5.cfg", "MC_Tree_scan5b.cfg", "MC_Tree_scan6.cfg"]
    elif prop == "C05":
        on = ["C05", "M"]
        m = 220 if q else 600
        P = [prof(21, nops=m, pool=40, maxlen=3, alpha=3, pput=25, prem=15, pget=15, pscan=30, piscan=15, pmem=0, pprobe=70, dumpevery=0),
             prof(22, nops=m, pool=40, maxlen=2, alpha=3, mode="prefix", pput=25, prem=15, pget=15, pscan=30, piscan=15, pmem=0, pprobe=70, dumpevery=0),
             prof(23, nops=m, pool=60, maxlen=2, alpha=8, mode="mix", pput=25, prem=15, pget=15, pscan=30, piscan=15, pmem=0, pprobe=70, dumpevery=0),
             prof(24, nops=m, pool=40, maxlen=2, alpha=3, mode="linksonly", pput=30, prem=12, pget=13, pscan=30, piscan=15, pmem=0, pprobe=80, dumpevery=0),
             prof(26, nops=m + 200, pool=120, maxlen=3, alpha=8, mode="deep", pput=45, prem=8, pget=10, pscan=25, piscan=12, pmem=0, pprobe=70, dumpevery=0),
             prof(25, nops=m, pool=60, maxlen=3, alpha=4, mode="linksonly", pput=30, prem=12, pget=13, pscan=30, piscan=15, pmem=0, pprobe=80, dumpevery=0),
             # reads whose two endpoints lie below one 8- / 16-byte prefix that has no entry (gap between two slices), probes into the gap
             prof(28, nops=m, pool=40, maxlen=2, alpha=3, mode="mix", pput=25, prem=10, pget=10, pscan=25, piscan=30, pmem=0, pprobe=85, dumpevery=0, ppair=45),
             # storages that are emptied completely again and again: reads of the kept, deleted root border must still collect it
             prof(27, nops=m, pool=12, maxlen=2, alpha=3, mode="mix", pput=22, prem=8, pget=15, pscan=28, piscan=27, pmem=0, pprobe=60, dumpevery=0, pdrain=45)]
        # + the sequential cursor (YkIscan) in every reachable state of the small tree model: callback set covers every gap of the consumed part
        M = ["MC_Tree_scan5.cfg", "MC_Iscan_5ph.cfg"] if q else ["MC_Tree_scan5.cfg", "MC_Tree_scan5b.cfg", "MC_Tree_scan6.cfg", "MC_Iscan_5ph.cfg", "MC_Iscan_5b.cfg", "MC_Iscan_5F.cfg", "MC_Iscan_5G.cfg"]
    elif prop == "C08":
        on = ["C08"]
        m = 300 if q else 800
        P = [prof(31, nops=m, pool=90, maxlen=3, alpha=3, pput=55, prem=40, pget=0, pscan=0, piscan=0, pmem=5, pprobe=0, dumpevery=6),
             prof(32, nops=m, pool=60, maxlen=3, alpha=3, mode="prefix", pput=50, prem=45, pget=0, pscan=0, piscan=0, pmem=5, pprobe=0, dumpevery=6, psweep=15),
             prof(33, nops=m + 300, pool=400, maxlen=2, alpha=8, mode="mix", pput=85, prem=10, pget=0, pscan=0, piscan=0, pmem=5, pprobe=0, dumpevery=7, psweep=25),
             prof(35, nops=m + 300, pool=300, maxlen=3, alpha=4, pput=85, prem=10, pget=0, pscan=0, piscan=0, pmem=5, pprobe=0, dumpevery=7, psweep=25),
             prof(36, nops=1100, pool=700, maxlen=6, alpha=8, pput=85, prem=8, pget=0, pscan=0, piscan=0, pmem=2, pprobe=0, dumpevery=25, psweep=12),
             prof(37, nops=m + 400, pool=160, maxlen=3, alpha=8, mode="deep", pput=75, prem=10, pget=0, pscan=0, piscan=0, pmem=3, pprobe=0, dumpevery=9, psweep=20),
             prof(34, nops=m, pool=30, maxlen=2, alpha=3, pput=50, prem=50, pget=0, pscan=0, piscan=0, pmem=0, pprobe=0, dumpevery=3),
             # split sweep: every rank of a full border that mixes short keys, exactly-8-byte keys and links of the same slice receives the 16th key
             prof(38, nops=40, pool=20, maxlen=2, alpha=3, pput=50, prem=40, pget=0, pscan=0, piscan=0, pmem=10, pprobe=0, dumpevery=4, splitsweep=1)]
        M = ["MC_Tree_struct7.cfg"] if q else ["MC_Tree_struct7.cfg", "MC_Tree_struct8L.cfg", "MC_Tree_struct9S.cfg"]
    elif prop == "C10":
        on = ["C10"]
        P = [prof(41, nops=n, pool=70, maxlen=3, alpha=3, pput=35, prem=15, pget=0, pscan=0, piscan=50, pmem=0, pprobe=0, dumpevery=0),
             prof(42, nops=n, pool=60, maxlen=3, alpha=3, mode="prefix", pput=35, prem=15, pget=0, pscan=0, piscan=50, pmem=0, pprobe=0, dumpevery=0),
             prof(43, nops=n, pool=120, maxlen=2, alpha=8, mode="mix", pput=35, prem=15, pget=0, pscan=0, piscan=50, pmem=0, pprobe=0, dumpevery=0),
             prof(47, nops=n + 300, pool=160, maxlen=3, alpha=8, mode="deep", pput=50, prem=8, pget=0, pscan=0, piscan=42, pmem=0, pprobe=0, dumpevery=0, pmod=30),
             # cursor paused by the caller, a write (often into the node under the cursor, with and without early_abort), cursor resumed
             prof(44, nops=n, pool=60, maxlen=3, alpha=3, mode="prefix", pput=40, prem=12, pget=0, pscan=0, piscan=48, pmem=0, pprobe=0, dumpevery=0, pmod=60),
             prof(45, nops=n, pool=90, maxlen=3, alpha=3, pput=40, prem=12, pget=0, pscan=0, piscan=48, pmem=0, pprobe=0, dumpevery=0, pmod=60),
             prof(46, nops=n + 200, pool=200, maxlen=2, alpha=8, mode="mix", pput=55, prem=10, pget=0, pscan=0, piscan=35, pmem=0, pprobe=0, dumpevery=0, pmod=60),
             # scripted: paused cursors over the collapse of a next layer's interior root (F18), over two emptied neighbouring borders with early_abort (F19),
             # over a split of the layer's root border together with a split of the border that holds its link (F20), over a split root border that is emptied (F21)
             prof(48, nops=30, pool=20, maxlen=2, alpha=3, pput=40, prem=20, pget=0, pscan=0, piscan=40, pmem=0, pprobe=0, dumpevery=0, cursorsweep=1)]
        # the sequential cursor (YkIscan: findfirst / findnext transliterated) in every reachable state of the small tree model
        # + the paused cursor with its re-validation / retry paths (YkIscanR) over every placement of 1-2 writes between its calls (MC_IscanW)
        M = ["MC_Iscan_5ok.cfg", "MC_IscanW_5.cfg", "MC_IscanW_L.cfg"] if q else ["MC_Iscan_5ok.cfg", "MC_Iscan_5b.cfg", "MC_Iscan_5F.cfg", "MC_Iscan_5G.cfg", "MC_IscanW_5w2.cfg", "MC_IscanW_L.cfg", "MC_IscanW_X.cfg", "MC_IscanW_Y.cfg", "MC_IscanW_S.cfg"]
    elif prop == "C12":
        on = ["C12"]
        m = 250 if q else 700
        P = [prof(51, nops=m, pool=120, maxlen=3, alpha=3, pput=75, prem=25, pget=0, pscan=0, piscan=0, pmem=0, pprobe=0, dumpall=1, legacy=15),
             prof(52, nops=m, pool=80, maxlen=3, alpha=3, mode="prefix", pput=75, prem=25, pget=0, pscan=0, piscan=0, pmem=0, pprobe=0, dumpall=1, legacy=15),
             prof(53, nops=m, pool=300, maxlen=2, alpha=8, mode="mix", pput=80, prem=20, pget=0, pscan=0, piscan=0, pmem=0, pprobe=0, dumpall=1, legacy=15),
             prof(54, nops=m + 100, pool=160, maxlen=3, alpha=8, mode="deep", pput=85, prem=15, pget=0, pscan=0, piscan=0, pmem=0, pprobe=0, dumpall=1, legacy=10, psweep=15)]
        M = ["MC_Tree_struct7.cfg"] if q else ["MC_Tree_struct7.cfg", "MC_Tree_struct8L.cfg", "MC_Tree_struct9S.cfg"]
    elif prop == "C20":
        on = ["C20"]
        m = 300 if q else 800
        P = [prof(61, nops=m, pool=150, maxlen=3, alpha=3, pput=60, prem=10, pget=0, pscan=0, piscan=0, pmem=30, pprobe=0, dumpevery=0),
             prof(62, nops=m, pool=80, maxlen=3, alpha=3, mode="prefix", pput=55, prem=20, pget=0, pscan=0, piscan=0, pmem=25, pprobe=0, dumpevery=0),
             prof(63, nops=m, pool=300, maxlen=2, alpha=8, mode="mix", pput=60, prem=15, pget=0, pscan=0, piscan=0, pmem=25, pprobe=0, dumpevery=0),
             prof(64, nops=m, pool=160, maxlen=3, alpha=8, mode="deep", pput=65, prem=12, pget=0, pscan=0, piscan=0, pmem=23, pprobe=0, dumpevery=0),
             prof(65, nops=m, pool=120, maxlen=3, alpha=4, mode="prefix", pput=60, prem=15, pget=0, pscan=0, piscan=0, pmem=25, pprobe=0, dumpevery=0, valmix=1),
             prof(66, nops=m, pool=200, maxlen=2, alpha=8, mode="mix", pput=60, prem=15, pget=0, pscan=0, piscan=0, pmem=25, pprobe=0, dumpevery=0, valmix=1),
             # inline values (std::uintptr_t, stored in the slot word: 0 allocated bytes) mixed with heap values of mixed sizes (seed C20d)
             prof(68, nops=m, pool=120, maxlen=3, alpha=4, mode="prefix", pput=60, prem=15, pget=0, pscan=0, piscan=0, pmem=25, pprobe=0, dumpevery=0, valmix=1, inlpct=45),
             # ascending keys: every interior node of a level completely full (16 children) right before the root splits
             prof(67, nops=60, pool=30, maxlen=2, alpha=3, pput=40, prem=30, pget=0, pscan=0, piscan=0, pmem=30, pprobe=0, dumpevery=0, ascend=150)]
        M = ["MC_Tree_struct7.cfg"]
    else:
        raise KeyError(prop)
    if not q:
        P = P + [a[:1] + ["seed=%d" % (seed() * 1000 + 500 + i)] + a[1:][0:0] + a[1:] for i, a in enumerate(P)]
        P = [[x for j, x in enumerate(a) if not (x.startswith("seed=") and j > 0 and a[0].startswith("seed=") and j != 0 and a.index(x) != 0 and False)] for a in P]
    return on, P, M


def main(prop, tier):
    chk = Check(prop, tier)
    chk.assumptions += ["single session, quiescent structure (no concurrent writer) for every judged call",
                        "model checking at fan-out 3 with key universes of 5-9 keys; conformance traces at the code's fan-out 15",
                        "projection functions trusted: canonical dump through node accessors, value id = first 4 bytes of the stored value"]
    on, P, M = plans(prop, tier)
    for cfg in M:
        if cfg == "MC_Tree_struct9S.cfg":
            # 12 single-layer keys at fan-out 3 (interior splits, new interior root, collapse): too many orders to enumerate, random walks instead
            seqtrace.model_check(chk, "MC_Tree_sim12.cfg", "random walks of the sequential model, 12 single-layer keys (interior split / collapse)", workers=4, simulate=250 if tier == "quick" else 3000, depth=45, timeout=1500)
            continue
        if cfg.startswith("MC_IscanW"):
            seqtrace.model_check(chk, cfg, "exhaustive paused-cursor model " + cfg, timeout=3000, module="MC_IscanW", workers=14)
            continue
        if cfg.startswith("MC_Iscan"):
            seqtrace.model_check(chk, cfg, "exhaustive sequential cursor model " + cfg, timeout=2400, module="MC_Iscan", workers=14)
            continue
        seqtrace.model_check(chk, cfg, "exhaustive sequential model " + cfg, timeout=1500)
    # second seed set in thorough tier: same profiles, later seeds
    if tier != "quick":
        P2 = []
        for a in P:
            d = dict(x.split("=", 1) for x in a)
            P2.append(["%s=%s" % (k, v) for k, v in d.items()])
        P = P2
    seqtrace.run_profiles(chk, prop, P, on)
    # API-level traces: several storages, keys up to 30 KiB, all value shapes (TraceMap); the same property families
    if prop in ("C02", "C03", "C10"):
        n = 500 if tier == "quick" else 1500
        mix = {"C02": dict(pput=45, prem=20, pget=27, pscan=0, piscan=0), "C03": dict(pput=40, prem=12, pget=0, pscan=40, piscan=0),
               "C10": dict(pput=40, prem=12, pget=0, pscan=0, piscan=40)}[prop]
        MP = [prof(71, nops=n, pool=30, pddl=8, **mix), prof(72, nops=n, pool=60, maxlen=2, alpha=8, pddl=8, **mix)]
        if prop == "C02":   # scripted: a full border (layers 0-2) receives a key whose remaining length is 256*k + r, above all its entries
            MP.append(prof(75, nops=560, pool=20, pddl=4, longsplit=1, **dict(mix, pget=max(mix["pget"], 17))))
        if tier != "quick":
            MP += [prof(73, nops=n, pool=40, maxlen=6, alpha=2, pddl=8, **mix), prof(74, nops=n, pool=25, pddl=8, **mix)]
        seqtrace.run_map_profiles(chk, prop, MP, on)
    if prop == "C08":
        # quiescent coherence after concurrent histories (any schedule): final dump + three views, judged by TraceLin
        from props import p_conc
        chk.assumptions.append("concurrent part: sequentially consistent scheduler-driven executions, see C01")
        p_conc.run_model_and_steps(chk, prop, tier, pkey="C08c")
        p_conc.run_conc(chk, prop, tier, pkey="C08c")
    if prop == "C12":
        # the same rule per call when puts race (a put that loses a race and retries must not advance the version of a border it does not report)
        from props import p_conc
        chk.assumptions.append("concurrent part: sequentially consistent scheduler-driven executions; a call's own version advances = the unlocks of its thread between its lock (or locked version copy) and unlock of a border")
        p_conc.run_conc(chk, prop, tier, pkey="C12c")
    if prop == "C10":
        # second sentence: cursor steps interleaved with writers on trees of any depth
        from props import p_conc
        chk.assumptions.append("concurrent part: sequentially consistent scheduler-driven executions, see C01")
        p_conc.run_model_and_steps(chk, prop, tier, pkey="C10")
        p_conc.run_conc(chk, prop, tier)
    return chk.finish()

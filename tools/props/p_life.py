"""C16 (repeatable init/fin cycles) and C11 (no leak): YkLife model + real init()/fin()/destroy() cycles with the library's own
background threads and interposed operator new/delete (lifedrv -> TraceLife); C11 additionally the retire/reclaim ledger of
the scheduler-driven epoch runs (TraceEpoch ON={C11})."""
import json
import os
from common import Check, seed, tlc, tlc_tail, build, run, BUILD
from tracecheck import write_cfg, on_set
from seqtrace import parse_mismatches


def lifedrv():
    return build("lifedrv", ["lifedrv.cpp"], sessions=4, epoch_time=2)


def life_runs(chk, prop, jobs):
    exe = lifedrv()
    cfg = write_cfg(os.path.join(BUILD, "cfg", "life_%s.cfg" % prop), constants={"LENIENT": "TRUE", "ON": on_set([prop])})
    os.makedirs(os.path.join(BUILD, "traces"), exist_ok=True)
    for i, args in enumerate(jobs):
        rc, out, err = run([exe] + args, timeout=300)
        lines = out.splitlines()
        if rc != 0:
            chk.error("lifedrv exit %d: %s" % (rc, err[-300:]))
            continue
        tr = os.path.join(BUILD, "traces", "life_%s_%d.ndjson" % (prop, i))
        open(tr, "w").write(out)
        if lines and '"op":"fault"' in lines[-1]:
            chk.violation("fault", "implementation faulted during lifecycle run %s: %s" % (" ".join(args), lines[-1]), chk.save_replay("fault_%d.ndjson" % i, out[-3000:]))
            lines = lines[:-1]
            open(tr, "w").write("\n".join(lines) + "\n")
        res = tlc("TraceLife", cfg, env={"TRACE": tr}, workers=1, timeout=300)
        chk.add_tlc(res, "lifecycle trace %s (%d events)" % (" ".join(args), len(lines)))
        chk.cov["cycles"] = chk.cov.get("cycles", 0) + sum(1 for l in lines if '"fin_done"' in l)
        for l in lines:
            if '"progress"' in l or '"fin_done"' in l:
                chk.sample(json.loads(l), limit=8)
        if not res.ok:
            chk.error("TraceLife undecided: " + tlc_tail(res, 15))
            continue
        chk.traces += 1
        for mm in parse_mismatches(res.out):
            ev = lines[mm["line"] - 1] if 0 < mm["line"] <= len(lines) else ""
            rp = chk.save_replay("%s_%d_line%d.json" % (mm["tag"], i, mm["line"]), json.dumps({"driver_args": args, "event": ev, "mismatch": mm}, indent=1))
            chk.violation(mm["tag"], "%s: %s (lifedrv %s) info=%s" % (mm["tag"], ev, " ".join(args), json.dumps(mm["info"])), rp)


def main(prop, tier):
    chk = Check(prop, tier)
    q = tier == "quick"
    chk.assumptions += ["real time: the library's own epoch / gc threads run with YAKUSHIMA_EPOCH_TIME=2 ms; progress inside a cycle is awaited event-driven with a 4 s bound",
                        "library-owned memory = everything obtained through the global operator new / delete (all forms interposed); malloc users such as tbb queues and glog are outside"]
    res = tlc("YkLife", "MC_Life.cfg", workers=4, timeout=300)
    chk.add_tlc(res, "YkLife: 3 init/fin cycles, liveness under weak fairness")
    if not res.ok:
        chk.error("YkLife model check failed: " + tlc_tail(res, 12))
    s = seed()
    jobs = [["seed=%d" % s, "cycles=5", "ops=300"], ["seed=%d" % (s + 1), "cycles=4", "ops=900"]]
    if not q:
        jobs += [["seed=%d" % (s + 10 + i), "cycles=8", "ops=%d" % (500 + 400 * i)] for i in range(4)]
    life_runs(chk, prop, jobs)
    if prop == "C11":
        # retire / reclaim ledger of scheduler-driven runs: everything retired is released exactly once, nothing else is released
        from props import p_epoch
        n = 1 if q else 4
        p_epoch.run_jobs(chk, "C11", [(4, "random", ["scenarios=%d" % (30 * n), "runs=20", "workers=2", "keys=2"]),
                                      (4, "pct", ["scenarios=%d" % (20 * n), "runs=15", "workers=3", "keys=3"])], ["C11"])
    return chk.finish()

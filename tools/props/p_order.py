"""C18 - all key comparisons implement one order.  M: YkOrder theorems (TupLess strict total, = lexicographic order of the
keys, every transliterated comparison site agrees) checked by TLC over a boundary domain.  R: the real sites on hand-built
nodes for all pairs (orddrv -> TraceOrder).  T: API traces over boundary-byte keys (splits, routing, cursors) under the
structural / ordering facts of TraceTree."""
import json
import os
from common import Check, build, run, tlc, tlc_tail, BUILD
from tracecheck import validate
import seqtrace
from props.p_tree import prof


def main(prop, tier):
    chk = Check(prop, tier)
    chk.assumptions += ["domain: slice bytes from {00,01,FF} at positions 1,2,8 (replay also 1,4,7,8), all valid lengths 0..8 and the link marker",
                        "slices are zero padded beyond the key length (checked by WellFormed in the structural traces)"]
    res = tlc("YkOrder", "MC_Order.cfg", workers=8, timeout=600)
    chk.add_tlc(res, "YkOrder theorems over the boundary tuple domain")
    if not res.ok:
        chk.error("YkOrder theorems failed (says nothing about the code): " + tlc_tail(res, 12))
    exe = build("orddrv", ["orddrv.cpp"], sessions=16)
    os.makedirs(os.path.join(BUILD, "traces"), exist_ok=True)
    for mode in ([0] if tier == "quick" else [0, 1]):
        tr = os.path.join(BUILD, "traces", "c18_pairs%d.ndjson" % mode)
        rc, out, err = run([exe, str(mode)], timeout=300)
        if rc != 0:
            chk.error("orddrv exit %d: %s" % (rc, err[-300:]))
            continue
        open(tr, "w").write(out)
        lines = out.splitlines()
        chk.cov["pairs_replayed"] = chk.cov.get("pairs_replayed", 0) + len(lines)
        chk.sample(json.loads(lines[len(lines) // 3]))
        v = validate(chk, "TraceOrder", "TraceOrder.cfg", tr, "replay of %d tuple pairs on the real comparison sites" % len(lines), timeout=900, xmx="6g")
        if v["undecided"]:
            chk.error("trace validation undecided: " + v["text"])
        elif not v["accepted"]:
            if '"op":"fault"' in v["text"]:
                chk.violation("fault", "comparison site faulted: " + v["text"], chk.save_replay("fault.json", v["text"]))
            else:
                rp = chk.save_replay("pair_line%d.json" % v["line"], v["text"])
                chk.violation("site-disagrees", "a real comparison site disagrees with the intended order at log line %d: %s" % (v["line"], v["text"]), rp)
    n = 400 if tier == "quick" else 1200
    P = [prof(101, nops=n, pool=150, mode="boundary", pput=55, prem=15, pget=10, pscan=8, piscan=10, pmem=0, pprobe=0, dumpevery=9, psweep=10),
         prof(102, nops=n, pool=300, mode="boundary", pput=60, prem=12, pget=8, pscan=8, piscan=10, pmem=0, pprobe=0, dumpevery=11, psweep=10)]
    seqtrace.run_profiles(chk, prop, P, ["C02", "C03", "C08", "C10"])
    return chk.finish()

"""All harness binaries: (name, sources, build keyword arguments)."""
TARGETS = [
    ("verdrv", ["verdrv.cpp"], {}),
    ("verconc", ["verconc.cpp"], {"sessions": 16}),
    ("permdrv", ["permdrv.cpp"], {}),
    ("treedrv", ["treedrv.cpp"], {"sessions": 16, "epoch_time": 5}),
    ("concdrv", ["concdrv.cpp"], {"sessions": 16}),
    ("epochdrv1", ["epochdrv.cpp"], {"sessions": 1}),
    ("epochdrv2", ["epochdrv.cpp"], {"sessions": 2}),
    ("epochdrv3", ["epochdrv.cpp"], {"sessions": 3}),
    ("epochdrv4", ["epochdrv.cpp"], {"sessions": 4}),
    ("lifedrv", ["lifedrv.cpp"], {"sessions": 4, "epoch_time": 2}),
    ("stepdrv", ["stepdrv.cpp"], {"sessions": 16}),
    ("stepdrv2", ["stepdrv2.cpp"], {"sessions": 16}),
    ("stepdrv3", ["stepdrv3.cpp"], {"sessions": 16}),
    ("stepdrv4", ["stepdrv4.cpp"], {"sessions": 16}),
    ("stepdrv5", ["stepdrv5.cpp"], {"sessions": 16}),
    ("stepdrv6", ["stepdrv6.cpp"], {"sessions": 16}),
    ("stepdrv7", ["stepdrv7.cpp"], {"sessions": 16}),
    ("orddrv", ["orddrv.cpp"], {"sessions": 16}),
    ("mapdrv", ["mapdrv.cpp"], {"sessions": 16, "epoch_time": 5}),
]
BY_NAME = {t[0]: t for t in TARGETS}


def get(name):
    import common
    n, srcs, kw = BY_NAME[name]
    return common.build(n, srcs, **kw)

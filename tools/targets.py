"""All harness binaries: (name, sources, build keyword arguments)."""
TARGETS = [
    ("verdrv", ["verdrv.cpp"], {}),
    ("permdrv", ["permdrv.cpp"], {}),
]
BY_NAME = {t[0]: t for t in TARGETS}


def get(name):
    import common
    n, srcs, kw = BY_NAME[name]
    return common.build(n, srcs, **kw)
